SPECIFICATION Spec
CONSTANTS
  SecUnit = 1000000
  Epoch <- TraceEpoch
  Eps = 3
  ProjSlack = 5000
  AsImplemented_JitterAboveMax = TRUE
  AsImplemented_OpenAfterReset = TRUE
  AsImplemented_RegionLimitNotBlocking = TRUE
  AsImplemented_RateLimitedAsDiversity = TRUE
  AsImplemented_IgnoresRecommendation = TRUE
  AsImplemented_DefaultKeepsNothing = TRUE
  Variant_CriticalSkipsCooldown = FALSE
INVARIANT Report
CHECK_DEADLOCK FALSE
