SPECIFICATION Spec
CONSTANTS
  Node = {1, 2, 4, 7}
  Self = 1
  K = 2
  Alpha = 2
  MaxIter = 4
  ReplyCap = 2
  Targets = {0, 3, 5, 6}
  AsImplemented_ConvergeBreak = FALSE
  AsImplemented_UnsortedWorst = FALSE
  AsImplemented_SeedOnlyK = FALSE
INVARIANTS Bounded NoSelfQuery OnlyAnswered ClosestAnswered NoCloserUnqueried FullMeshExact
PROPERTY Terminates
CHECK_DEADLOCK FALSE
