------------------------------ MODULE TrustMass ------------------------------
(***************************************************************************)
(* Mass-flow model of the power iteration in                               *)
(* EigenTrustEngine::compute_global_trust_internal (src/adaptive/trust.rs) *)
(* for property C11.  Masses are integers in parts per million.            *)
(*                                                                         *)
(* A "cell" is a node or a whole class of nodes (lumping).  One round:     *)
(*   in(c)   = sum over cells i that make statements about c of m[i]/|out| *)
(*   p(c)    = 0.6*in(c) + tele(c)*(0.4 + 0.6*dangling)                    *)
(*   m'(c)   = p(c) / sum(p)                                               *)
(* where dangling = mass of cells without outgoing statements.  With       *)
(* AsImplemented_DropDangling = TRUE the dangling term is dropped and only *)
(* the renormalisation remains (pinned tree).  Rounds: at most 50; 7 when  *)
(* n > 100; 4 when n > 500; early exit when the L1 change is < 1e-4.       *)
(*                                                                         *)
(* Lumped model (Spec): classes A (anchors), H (honest), S (closed set     *)
(* that receives no statement from outside).  Exact for class-symmetric    *)
(* graphs.  SpecU runs a 4-node un-lumped graph side by side with its      *)
(* lumping and checks that lumping S into one self-rating cell is an upper *)
(* bound for every internal pattern of S (LumpUpper).                      *)
(*                                                                         *)
(* C11: SybilBound  - mass(S) <= share(S)/7, and < 0.1% when n <= 100      *)
(*      AnchorFloor - mass(A) >= 0.4 (each anchor >= 0.4/|A| by symmetry)  *)
(***************************************************************************)
EXTENDS TrustMassOps

CONSTANTS AsImplemented_DropDangling   \* TRUE = drop + renormalise (pinned tree), FALSE = intended

VARIABLES nA, nH, nS, outA, outH, outS, m, round, done
vars == <<nA, nH, nS, outA, outH, outS, m, round, done>>

Init == /\ nA \in {1, 3, 50} /\ nH \in {0, 5, 50} /\ nS \in {1, 10, 100, 1000}
        /\ outA \in {"A", "H", "none"} /\ outH \in {"A", "H", "none"} /\ outS \in {"S", "none"}
        /\ ConfigOK(nA, nH, nS, outA, outH, outS)
        /\ m = LumpInit(nA, nH, nS) /\ round = 0 /\ done = FALSE
Round == /\ ~done
         /\ LET m2 == StepOf(m, LumpOut(outA, outH, outS), LumpTele, AsImplemented_DropDangling) IN
            /\ m' = m2
            /\ done' = (L1(m, m2) < 100 \/ round + 1 >= RoundsFor(nA + nH + nS))
         /\ round' = round + 1
         /\ UNCHANGED <<nA, nH, nS, outA, outH, outS>>
Next == Round
Spec == Init /\ [][Next]_vars

SybilBound == done => /\ 7 * m["S"] <= ShareOf(nS, nA + nH + nS) + 7
                      /\ (nA + nH + nS <= 100 => m["S"] < 1000)
AnchorFloor == done => m["A"] >= 400000 - Tol
=============================================================================
