SPECIFICATION Spec
CONSTANTS
  ConfGrid = {TRUE, FALSE}
  TrustGrid = {9999, 100, 290, 300, 900}
  RegionGrid = {0, 1, 2, 3, 4}
  LatGrid = {0, 5000, 20000}
  MaxW = 3
  Honest = 7
  MinPeers = 5
  TwNum = 700
  TwDen = 1000
  BftNum = 710
  BftDen = 1000
  MinTrust = 300
  MinRegions = 3
  Cands = {9999, 100, 300}
  Modes = {TRUE}
  Variant = ""
INVARIANTS ClausesHold FlipHolds
CHECK_DEADLOCK FALSE
