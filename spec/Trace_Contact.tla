---------------------------- MODULE Trace_Contact ----------------------------
(***************************************************************************)
(* Conformance acceptor for the bootstrap contact bookkeeping (harness     *)
(* module contact).  Every `Step` carries the projected ContactEntry       *)
(* before and after one operation on the real object, the arguments and    *)
(* the result; every projection also carries what the scoring functions    *)
(* of the real code answer for that state (obs).  The acceptor             *)
(*   - recomputes the step with the transition functions of                *)
(*     ContactRules.tla (as-implemented flags) from the logged pre state   *)
(*     and compares the post state: counters, window, failure map,         *)
(*     capability set, flags exactly; rates / averages by the              *)
(*     cross-multiplied bound; stored scores within Tol ppm;               *)
(*   - checks the observed scores of the post state against the score      *)
(*     functions (all weight on one component, bonuses, QUIC scores);      *)
(*   - checks the order relations on paired histories (op "pair").         *)
(* Time: the age of the contact is observed as a band [a0, a1] of whole    *)
(* seconds around the scoring calls; what depends on the age is checked    *)
(* only when the band is a single second known to the recency table        *)
(* (otherwise the step is counted in `weak`).                              *)
(* Mismatches are MODEL-DRIFT (informational).                             *)
(***************************************************************************)
EXTENDS ContactRules, TLC, Json, IOUtils

Tol == 5
Recs == ndJsonDeserialize(IOEnv.TRACE)
N == Len(Recs)
VARIABLES l, drift, ndrift, n, weak, prev
tvars == <<l, drift, ndrift, n, weak, prev>>
Ev == Recs[l]

Elems(seq) == {seq[i] : i \in 1..Len(seq)}
PairsToFun(seq) == [k \in {seq[i][1] : i \in 1..Len(seq)} |-> (CHOOSE x \in Elems(seq) : x[1] = k)[2]]
ToState(j) == [att |-> j.att, succ |-> j.succ, fail |-> j.fail, lats |-> j.lats, fails |-> PairsToFun(j.fails),
               caps |-> Elems(j.caps), ver |-> j.ver, rep |-> j.rep, rate |-> j.rate, avg |-> j.avg, q |-> j.q, up |-> j.up,
               sess |-> j.sess, age |-> j.obs.age[1], quic |-> j.quic, qtypes |-> Elems(j.qtypes), qsetup |-> j.qsetup,
               qcsr |-> j.qcsr, qrates |-> PairsToFun(j.qrates)]
BandExact(j) == j.obs.age[1] = j.obs.age[2] /\ KnownAge(j.obs.age[1])

(* model state m against observed projection j (without the stored quality score and the age) *)
SameState(m, j) == LET o == ToState(j) IN
  /\ m.att = o.att /\ m.succ = o.succ /\ m.fail = o.fail /\ m.lats = o.lats /\ m.fails = o.fails
  /\ m.caps = o.caps /\ m.ver = o.ver /\ m.sess = o.sess /\ m.quic = o.quic /\ m.qtypes = o.qtypes /\ m.qcsr = o.qcsr
  /\ Close(m.rep, o.rep, 1) /\ Close(m.up, o.up, 2)
  /\ Close(m.rate, o.rate, 1) /\ (o.att > 0 => RateMatches(o.rate, o.succ, o.att))
  /\ Close(m.avg, o.avg, 1) /\ (o.lats # <<>> => AvgMatches(o.avg, o.lats))
  /\ Close(m.qsetup, o.qsetup, 1)
  /\ DOMAIN m.qrates = DOMAIN o.qrates /\ \A t \in DOMAIN m.qrates : Close(m.qrates[t], o.qrates[t], 1)
(* the age after the step: the model's age lies in the observed band (one second of slack for a band that moved) *)
AgeOk(m, j) == m.age <= j.obs.age[2] /\ j.obs.age[1] - m.age <= 1
(* the scores the real code computes for the state j describes *)
ObsOk(j) == LET s == ToState(j) IN
  /\ j.obs.code_age \in EffAge(j.obs.age[1])..EffAge(j.obs.age[2])
  /\ Close(j.obs.w[1], QualityW(s, 10, 0, 0, 0), Tol) /\ Close(j.obs.w[2], QualityW(s, 0, 10, 0, 0), Tol)
  /\ Close(j.obs.w[4], QualityW(s, 0, 0, 0, 10), Tol) /\ Close(j.obs.w[5], QualityW(s, 0, 0, 0, 0), Tol)
  /\ Close(j.obs.qq, QuicScore(s), Tol)
  /\ (j.quic => Close(j.obs.qo, OverallScore(s), Tol))
  /\ (BandExact(j) => Close(j.obs.w[3], QualityW(s, 0, 0, 10, 0), Tol) /\ Close(j.obs.qn, Quality(s), Tol))
  (* without bonuses, all weight on one component IS that component (the code's own stored values, 1 ppm) *)
  /\ (Bonus(s) = 0 /\ s.rep # NaNV => Close(j.obs.w[1], j.rate, 1) /\ Close(j.obs.w[4], j.rep, 1) /\ j.obs.w[5] = 0)
  /\ InRange(j.obs.qq) /\ (j.obs.qn # NaNV => InRange(j.obs.qn) /\ \A i \in 1..5 : InRange(j.obs.w[i]))
(* a full step: r = the model's answer for (pre, op) *)
StepExact(r) == BandExact(Ev.pre) /\ BandExact(Ev.post) /\ Ev.post.obs.age[1] = r.s.age
Transition(r) == /\ SameState(r.s, Ev.post) /\ AgeOk(r.s, Ev.post) /\ ObsOk(Ev.post)
                 /\ (StepExact(r) => Close(r.s.q, Ev.post.q, Tol))
(* an operation that recalculates leaves the stored score equal to what calculate_quality says right afterwards *)
Recalculated(r) == Transition(r) /\ (StepExact(r) => Ev.post.q = Ev.post.obs.qn)
Pre == ToState(Ev.pre)

(* paired histories: the entry of `pre` continued with a success / the same success again / a failure /
   two successes whose latencies are ordered *)
AfterOk(j, r) == SameState(r.s, j) /\ AgeOk(r.s, j) /\ ObsOk(j) /\ (BandExact(Ev.pre) /\ BandExact(j) => Close(r.s.q, j.q, Tol))
PairOk ==
  LET s == Ev.ps  s2 == Ev.ps2  f == Ev.pf  a == Ev.pa  b == Ev.pb  p == Ev.pre
      ex == BandExact(p) /\ BandExact(s) /\ BandExact(s2) /\ BandExact(f) /\ BandExact(a) /\ BandExact(b)
  IN /\ AfterOk(s, ConnResult(Pre, TRUE, -1, 0)) /\ AfterOk(f, ConnResult(Pre, FALSE, -1, 0))
     /\ AfterOk(a, ConnResult(Pre, TRUE, Ev.l1, 0)) /\ AfterOk(b, ConnResult(Pre, TRUE, Ev.l2, 0))
     /\ [ToState(s) EXCEPT !.age = 0] = [ToState(s2) EXCEPT !.age = 0]                       \* equal histories, equal entries
     /\ s.rate >= p.rate /\ p.rate >= f.rate                                                   \* SuccessVsFailure
     /\ ex => /\ s.obs.qn = s2.obs.qn /\ s.obs.w = s2.obs.w /\ s.obs.qq = s2.obs.qq            \* ... and equal scores
              /\ s.obs.qn >= f.obs.qn /\ s.q >= f.q
              /\ (p.obs.age[1] <= 0 => s.obs.qn + 1 >= p.obs.qn)                               \* SuccessNeverLowers
              /\ (~AsImplemented_FailureRefreshesLastSeen \/ p.obs.age[1] <= 0 => f.obs.qn <= p.obs.qn + 1)   \* FailureNeverRaises
              /\ (~AsImplemented_ZeroLatencyNoData \/ a.avg > 0 => a.obs.qn + 1 >= b.obs.qn)    \* LowerLatencyNeverWorse
(* is_stale: band of the signed age around the call and max_age in units of 10 ms; right for SOME instant of the band *)
StaleOk == \E x \in Ev.band[1]..Ev.band[2] : StaleRule(x, Ev.max) = Ev.ok
FailRateOk == LET cnt == FailCount(Pre, Ev.err) IN
  /\ Close(Ev.val, FailRate(Pre, Ev.err).ok, 1)
  /\ IF Pre.att = 0 THEN Ev.val = 0 ELSE RateMatches(Ev.val, cnt, Pre.att)

Unchanged == [s |-> Pre, ok |-> TRUE]
(* nothing happens to the entry between two steps: pre = the state the previous event left *)
Continuous == [Pre EXCEPT !.age = 0] = [ToState(prev) EXCEPT !.age = 0]
StepOp ==
  CASE Ev.op = "conn" -> Recalculated(ConnResult(Pre, Ev.success, Ev.lat, Ev.err))
    [] Ev.op = "caps" -> Recalculated(UpdateCaps(Pre, Elems(Ev.list)))
    [] Ev.op = "rep" -> Recalculated(UpdateRep(Pre, Ev.x))
    [] Ev.op = "verify" -> Recalculated(MarkVerified(Pre))
    [] Ev.op = "age" -> Transition(SetAge(Pre, Ev.a))
    [] Ev.op = "recalc" -> Recalculated(RecalcOp(Pre))
    [] Ev.op = "rate" -> Transition(UpdateRateOp(Pre))
    [] Ev.op = "quic_set" -> Recalculated(QuicSet(Pre, Ev.csr))
    [] Ev.op = "quic_conn" -> IF Pre.quic THEN Recalculated(QuicConn(Pre, Ev.t, Ev.success, Ev.setup))
                                      ELSE Transition(QuicConn(Pre, Ev.t, Ev.success, Ev.setup))
    [] Ev.op = "decay" -> Transition(Decay(Pre, Ev.num, Ev.den))
    [] Ev.op = "session" -> Transition(AddSession(Pre, Ev.d))
    [] Ev.op = "stale" -> Transition(Unchanged) /\ StaleOk
    [] Ev.op = "hascap" -> Transition(Unchanged) /\ Ev.ok = HasCap(Pre, Ev.k).ok
    [] Ev.op = "supports" -> Transition(Unchanged) /\ Ev.ok = Supports(Pre, Ev.t).ok
    [] Ev.op = "failrate" -> Transition(Unchanged) /\ FailRateOk
    [] Ev.op = "pair" -> Transition(Unchanged) /\ PairOk
    [] OTHER -> FALSE
StepOk == Continuous /\ StepOp
(* a new entry: ContactEntry::new / new_with_quic *)
ResetOk == LET m == NewEntry(Ev.quic, Ev.csr) IN
  SameState(m, Ev.state) /\ AgeOk(m, Ev.state) /\ ObsOk(Ev.state) /\ Ev.state.q = m.q
IsWeak == Ev.ev = "Step" /\ ~(BandExact(Ev.pre) /\ BandExact(Ev.post))

Init == l = 1 /\ drift = <<>> /\ ndrift = 0 /\ n = 0 /\ weak = 0 /\ prev = <<>>
Next == /\ l <= N /\ l' = l + 1
        /\ IF Ev.ev \in {"Step", "Reset"}
           THEN /\ n' = n + 1
                /\ prev' = IF Ev.ev = "Step" THEN Ev.post ELSE Ev.state
                /\ weak' = IF IsWeak THEN weak + 1 ELSE weak
                /\ IF (IF Ev.ev = "Step" THEN StepOk ELSE ResetOk) THEN UNCHANGED <<drift, ndrift>>
                   ELSE /\ ndrift' = ndrift + 1
                        /\ drift' = IF Len(drift) < 20 THEN Append(drift, [line |-> l, op |-> IF Ev.ev = "Step" THEN Ev.op ELSE "new"]) ELSE drift
           ELSE UNCHANGED <<drift, ndrift, n, weak, prev>>
Spec == Init /\ [][Next]_tvars
Report == (l = N + 1) => JsonSerialize(IOEnv.OUT, [consumed |-> l - 1, total |-> N, nviol |-> ndrift, checked |-> n, viol |-> drift, weak |-> weak])
=============================================================================
