------------------------------- MODULE TGroup -------------------------------
(***************************************************************************)
(* State machine of one threshold group (ThresholdGroup in                 *)
(* src/threshold/mod.rs, its methods in src/threshold/group.rs) for        *)
(* exhaustive checking.  The transition and verdict functions are          *)
(* TGroupRules.tla - the same ones Trace_TGroup.tla holds against the real *)
(* object.  Specification growth module (not one of the listed             *)
(* properties).                                                            *)
(*                                                                         *)
(* A behaviour starts with a group ThresholdGroupManager::create_group     *)
(* returned (every configuration of the bounds it accepts, provided the    *)
(* group is quorate: threshold <= active participants) and applies the     *)
(* mutating methods with every argument of the bounds (mode "group"), or   *)
(* fills the audit log of one such group (mode "audit": add_audit_entry    *)
(* touches nothing but the log, and nothing else touches the log - see     *)
(* Frames).  The queries are                                               *)
(* pure: the invariants quantify over EVERY argument of check_permission / *)
(* get_participants_by_role in every reachable state.  `last` remembers    *)
(* the operation that produced the current state and its result.           *)
(***************************************************************************)
EXTENDS TGroupRules

CONSTANTS Sizes,          \* numbers of participants of the created groups (ids 1..m)
          InitStatuses,   \* statuses the configured participants may carry
          MaxInitIdle,    \* ... at most this many of them a status other than Active
          ArgIds,         \* ids the operations are called with (one of them unknown to every group)
          NewIds,         \* ids of the participants proposed by add_pending_participant
          Tokens,         \* results of the audit entries added
          HugeChoices,    \* suspend_participant: is the duration beyond SystemTime's range?
          MaxVer          \* mutations stop when the version reaches this

MCRoles == {[k |-> "Leader", p |-> LeaderFlags], [k |-> "Member", p |-> MemberFlags], [k |-> "Observer", p |-> {}]}
MaxSize == CHOOSE m \in Sizes : \A k \in Sizes : k <= m
(* the methods address participants by id only and the ids are interchangeable: one representative per multiset of
   (role, status) pairs - the sequence sorted by Rank - stands for all its permutations *)
Rank(x) == (CASE x.role.k = "Leader" -> 0 [] x.role.k = "Member" -> 10 [] OTHER -> 20)
           + (CASE x.st = "Active" -> 0 [] x.st = "Inactive" -> 1 [] x.st = "Suspended" -> 2 [] x.st = "PendingRemoval" -> 3 [] OTHER -> 4)
PartSeqs(m) == {[i \in 1..m |-> [id |-> i, role |-> f[i].role, st |-> f[i].st]] :
                  f \in {g \in [1..m -> [role : MCRoles, st : InitStatuses]] :
                           /\ Cardinality({i \in 1..m : g[i].st # "Active"}) <= MaxInitIdle
                           /\ \A i \in 1..(m - 1) : Rank(g[i]) <= Rank(g[i + 1])}}
Configs == UNION {{[t |-> t, parts |-> ps, parent |-> 0, name |-> "g"] : t \in 0..(m + 1), ps \in PartSeqs(m)} : m \in Sizes}
Blank == [n |-> 0, t |-> 0, act |-> <<>>, pend |-> <<>>, ver |-> 0, audit |-> <<>>, parent |-> 0, name |-> ""]

VARIABLES mode, st, last
vars == <<mode, st, last>>

Quorate(cfg) == LET c == Create(Blank, cfg) IN c.r.cls = "Ok" /\ ActiveCount(c.s) >= c.s.t
AuditConfig == CHOOSE cfg \in Configs : Quorate(cfg)
Init == /\ mode \in {"group", "audit"}
        /\ \E cfg \in IF mode = "group" THEN Configs ELSE {AuditConfig} : LET c == Create(Blank, cfg) IN
             /\ Quorate(cfg)
             /\ st = c.s /\ last = [op |-> "create", r |-> c.r, tok |-> "S"]

Do(x, op, tok) == st' = x.s /\ last' = [op |-> op, r |-> x.r, tok |-> tok] /\ UNCHANGED mode
Mutators == {"mark", "suspend", "role", "threshold", "addpending"}
Next ==
  \/ /\ mode = "group" /\ st.ver < MaxVer
     /\ \/ \E id \in ArgIds : Do(MarkForRemoval(st, id), "mark", "-")
        \/ \E id \in ArgIds, h \in HugeChoices : Do(Suspend(st, id, h), "suspend", "-")
        \/ \E id \in ArgIds, ro \in MCRoles : Do(UpdateRole(st, id, ro), "role", "-")
        \/ \E nt \in 0..(MaxSize + 1) : Do(UpdateThreshold(st, nt), "threshold", "-")
        \/ \E id \in NewIds : Do(AddPending(st, [id |-> id, role |-> [k |-> "Member", p |-> MemberFlags], st |-> "PendingJoin"]), "addpending", "-")
  \/ mode = "audit" /\ \E tok \in Tokens : Do(AuditAdd(st, tok), "audit", tok)
Spec == Init /\ [][Next]_vars

(* ---- invariants of the design ---- *)
TypeOK == /\ st.n \in Nat /\ st.t \in Nat /\ st.ver \in 1..MaxVer
          /\ \A i \in 1..Len(st.act) : st.act[i].id \in Nat /\ st.act[i].role \in AllRoles /\ st.act[i].st \in Statuses
          /\ \A i \in 1..Len(st.pend) : st.pend[i].id \in NewIds /\ st.pend[i].role \in AllRoles /\ st.pend[i].st \in Statuses
          /\ Elems(st.audit) \subseteq {"S", "F", "P"}
          /\ last.r.cls \in {"Ok", "NotFound", "InvalidParameters", "Unauthorized", "Insufficient", "Panic"}
(* a group that started quorate stays quorate: 1 <= threshold <= active participants, and has_threshold_participants says so *)
ThresholdWithinActive == st.t >= 1 /\ st.t <= ActiveCount(st) /\ HasThreshold(st)
(* has_threshold_participants <=> at least `threshold` participants are Active (stated without get_active_participants) *)
HasThresholdIff == HasThreshold(st) <=> Cardinality({i \in 1..Len(st.act) : st.act[i].st = "Active"}) >= st.t
(* what the constructor returns passes validate() ... *)
FreshGroupValid == last.op = "create" => Validate(st).cls = "Ok"
(* ... and so does every state the methods lead to (closure) *)
ValidateClosure == Validate(st).cls = "Ok"
(* structure validate() relies on: ids unique, pending disjoint from the members, n = the number of members *)
Structure == /\ DupIdx(st.act) = {} /\ DupIdx(st.pend) = {}
             /\ Elems(IdsOf(st.act)) \cap Elems(IdsOf(st.pend)) = {}
             /\ st.n = Len(st.act)
(* only an Active participant is granted anything; a participant marked for removal / suspended is not listed as active *)
NoPermissionUnlessActive == \A i \in 1..Len(st.act), perm \in Perms :
                               CheckPermission(st, st.act[i].id, perm).cls = "Ok" => st.act[i].st = "Active"
NotActiveNotListed == \A i \in 1..Len(st.act) : st.act[i].st # "Active" => st.act[i].id \notin Elems(ActiveIds(st))
UnknownNotFound == \A id \in ArgIds, perm \in Perms : FirstIdx(st.act, id) = 0 => CheckPermission(st, id, perm) = NotFound(id)
(* the matrix itself (state independent, checked once): every permission can be granted to some role; more flags never
   mean fewer permissions; an observer or a role without flags is granted nothing; every grant is backed by a flag *)
FullRole(k) == [k |-> k, p |-> FlagsOf(k)]
EveryPermissionGrantable == last.op = "create" => \A perm \in Perms : \E k \in Kinds : Grant(FullRole(k), perm).cls = "Ok"
MatrixRules == last.op = "create" /\ mode = "audit" =>
  /\ \A r \in AllRoles, perm \in Perms : Grant(r, perm).cls \in {"Ok", "Unauthorized"}
  /\ \A r \in AllRoles, perm \in Perms : Grant(r, perm).cls = "Ok" => Grant(FullRole(r.k), perm).cls = "Ok" /\ r.p # {}
  /\ \A k \in Kinds, perm \in Perms : \A p2 \in SUBSET FlagsOf(k) : \A p1 \in SUBSET p2 :
        Grant([k |-> k, p |-> p1], perm).cls = "Ok" => Grant([k |-> k, p |-> p2], perm).cls = "Ok"
  /\ \A perm \in Perms : Grant(FullRole("Observer"), perm).cls = "Unauthorized"
  /\ \A perm \in Perms : ~(Grant(FullRole("Leader"), perm).cls = "Ok" /\ Grant(FullRole("Member"), perm).cls = "Ok")
(* the queries agree with each other *)
QueriesConsistent ==
  LET x == Stats(st)
      L == Elems(ByRole(st, "Leaders"))  M == Elems(ByRole(st, "Members"))  O == Elems(ByRole(st, "Observers"))
  IN /\ x.leaders + x.members + x.observers = x.total
     /\ x.active = ActiveCount(st)
     /\ x.active + x.suspended + CountIf(st.act, LAMBDA p : p.st \in {"PendingJoin", "PendingRemoval", "Inactive"}) = x.total
     /\ ByRole(st, "All") = IdsOf(st.act)
     /\ Len(ByRole(st, "Leaders")) = x.leaders /\ Len(ByRole(st, "Members")) = x.members /\ Len(ByRole(st, "Observers")) = x.observers
     /\ L \cup M \cup O = Elems(ByRole(st, "All")) /\ L \cap M = {} /\ L \cap O = {} /\ M \cap O = {}
     /\ Elems(ActiveIds(st)) \subseteq Elems(ByRole(st, "All"))
     /\ x.pending = Len(st.pend) /\ x.ops = Len(st.audit) /\ x.succ + x.fail <= x.ops
     /\ Hierarchy(st).t = st.t /\ Hierarchy(st).n = x.total /\ Hierarchy(st).name = st.name /\ Hierarchy(st).parent = st.parent
(* the audit log is bounded and keeps the newest entry *)
AuditBounded == Len(st.audit) <= AuditCap
AuditKeepsLatest == last.op = "audit" => st.audit # <<>> /\ st.audit[Len(st.audit)] = last.tok
NoPanic == last.r.cls # "Panic"
(* deliberately false statements: their counterexamples show that the interesting states are reached within the bounds *)
Vac_NeverInsufficient == last.r.cls # "Insufficient"
Vac_NeverLastLeaderRefused == ~(last.op = "role" /\ last.r.cls = "InvalidParameters")
Vac_NeverAuditFull == Len(st.audit) < AuditCap

(* an operation that reports an error has changed nothing *)
ErrorsChangeNothing == [][last'.r.cls # "Ok" => st' = st]_vars
(* the version counts the successful mutations; the audit log is not one *)
VersionCounts == [][IF last'.op \in Mutators /\ last'.r.cls = "Ok" THEN st'.ver = st.ver + 1 ELSE st'.ver = st.ver]_vars
(* no method adds, drops or reactivates a member, or changes n; the pending list only grows *)
MembershipFixed == [][/\ IdsOf(st'.act) = IdsOf(st.act) /\ st'.n = st.n
                      /\ \A i \in 1..Len(st.act) : st.act[i].st # "Active" => st'.act[i].st # "Active"
                      /\ ActiveCount(st') <= ActiveCount(st)
                      /\ Len(st'.pend) >= Len(st.pend) /\ SubSeq(st'.pend, 1, Len(st.pend)) = st.pend]_vars
(* each operation touches only what it is about *)
Frames == [][/\ (last'.op # "threshold" => st'.t = st.t)
             /\ (last'.op # "audit" => st'.audit = st.audit)
             /\ (last'.op # "addpending" => st'.pend = st.pend)
             /\ (last'.op \notin {"mark", "suspend", "role"} => st'.act = st.act)
             /\ (last'.op \in {"mark", "suspend"} => \A i \in 1..Len(st.act) : st'.act[i].role = st.act[i].role)
             /\ (last'.op = "role" => \A i \in 1..Len(st.act) : st'.act[i].st = st.act[i].st)]_vars
=============================================================================
