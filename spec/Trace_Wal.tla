------------------------------ MODULE Trace_Wal ------------------------------
(***************************************************************************)
(* Acceptor for traces of the real PersistentStateManager (harness c06).   *)
(* P-level of Wal.tla: the model keeps the state before (`pre`) and after  *)
(* (`cur`) the operation in flight; every observed recovery of a crash     *)
(* image must yield one of the two (PrefixRecovery with acked = all        *)
(* earlier operations, flush-always), a clean reopen must yield `cur`, the *)
(* counter never falls behind an acknowledged transaction.  C07: recovery  *)
(* of a damaged image completes, reports detectable damage, invents no     *)
(* value, and honours exactly the records the property says it must.       *)
(***************************************************************************)
EXTENDS Naturals, Integers, Sequences, FiniteSets, SequencesExt, TLC, Json, IOUtils

Rec == ndJsonDeserialize(IOEnv.TRACE)
N == Len(Rec)

VARIABLES l, nk, pre, cur, inflight, curop, lastAckTxn, written, snap, viol, nviol, nimg, ndmg, nexact
vars == <<l, nk, pre, cur, inflight, curop, lastAckTxn, written, snap, viol, nviol, nimg, ndmg, nexact>>

Ev == Rec[l]
Zeros(n) == [i \in 1..n |-> 0]

RECURSIVE ApplyChg(_, _)
ApplyChg(s, chg) == IF chg = <<>> THEN s
                    ELSE ApplyChg([s EXCEPT ![Head(chg)[1]] = Head(chg)[2]], Tail(chg))
RECURSIVE Flatten(_)
Flatten(fs) == IF fs = <<>> THEN <<>> ELSE Head(fs) \o Flatten(Tail(fs))

Note(clause, site, cond) ==
  /\ nviol' = nviol + 1
  /\ viol' = IF Cardinality({i \in 1..Len(viol) : viol[i].clause = clause /\ viol[i].site = site /\ viol[i].cond = cond}) < 12
             THEN Append(viol, [line |-> l, clause |-> clause, site |-> site, cond |-> cond]) ELSE viol   \* at most 12 per signature
NoNote == UNCHANGED <<viol, nviol>>

Init == /\ l = 1 /\ nk = 0 /\ pre = <<>> /\ cur = <<>> /\ inflight = FALSE /\ curop = "none" /\ lastAckTxn = 0
        /\ written = <<>> /\ snap = [known |-> TRUE, state |-> <<>>]
        /\ viol = <<>> /\ nviol = 0 /\ nimg = 0 /\ ndmg = 0 /\ nexact = 0

Reset == /\ Ev.ev = "Reset"
         /\ nk' = Ev.nk /\ pre' = Zeros(Ev.nk) /\ cur' = Zeros(Ev.nk) /\ inflight' = FALSE /\ curop' = "none"
         /\ lastAckTxn' = 0 /\ written' = [i \in 1..Ev.nk |-> {}]
         /\ snap' = [known |-> TRUE, state |-> Zeros(Ev.nk)]
         /\ NoNote /\ UNCHANGED <<nimg, ndmg, nexact>>

Begin == /\ Ev.ev = "Begin"
         /\ pre' = cur /\ cur' = ApplyChg(cur, Ev.chg) /\ inflight' = TRUE /\ curop' = Ev.op
         /\ written' = [i \in 1..nk |-> written[i] \cup {Ev.chg[j][2] : j \in {x \in 1..Len(Ev.chg) : Ev.chg[x][1] = i}}]
         /\ NoNote /\ UNCHANGED <<nk, lastAckTxn, snap, nimg, ndmg, nexact>>

(* every key holds its value from before or after the operation: a partly applied batch *)
Between(s) == Len(s) = nk /\ \A i \in 1..nk : s[i] = pre[i] \/ s[i] = cur[i]
Genuine(s) == Len(s) = nk /\ \A i \in 1..nk : s[i] = 0 \/ s[i] \in written[i]
MemOk == Ev.peak_kib <= 64 * Ev.dir_kib + 16384

(* what an observed recovery of an image taken while `curop` ran must satisfy *)
ImageVerdict(site) ==
  IF Ev.panic THEN Note("NoPanic", site, curop)
  ELSE IF ~Ev.ok THEN Note("RecoveryCompletes", site, curop)
  ELSE IF Ev.foreign # 0 \/ ~Genuine(Ev.state) THEN Note("NoInvention", site, curop)
  ELSE IF Ev.state # pre /\ Ev.state # cur
       THEN Note("PrefixRecovery", IF curop = "batch" /\ Between(Ev.state) THEN "batch_update" ELSE site,
                 IF curop = "batch" /\ Between(Ev.state) THEN "partial-batch" ELSE curop)
  ELSE IF Ev.counter < lastAckTxn THEN Note("CounterMonotone", site, curop)
  ELSE IF ~MemOk THEN Note("MemoryProportional", site, curop)
  ELSE NoNote

CrashImage == /\ Ev.ev = "CrashImage" /\ nimg' = nimg + 1
              /\ ImageVerdict(Ev.point)
              /\ UNCHANGED <<nk, pre, cur, inflight, curop, lastAckTxn, written, snap, ndmg, nexact>>

(* the history continues on a crash image: the observed state becomes the base *)
ContinueFrom == /\ Ev.ev = "ContinueFrom" /\ nimg' = nimg + 1
                /\ ImageVerdict("continue")
                /\ cur' = IF Ev.ok /\ Len(Ev.state) = nk THEN Ev.state ELSE cur
                /\ pre' = cur' /\ inflight' = FALSE /\ curop' = "none"
                /\ snap' = IF curop = "checkpoint" THEN [snap EXCEPT !.known = FALSE] ELSE snap
                /\ lastAckTxn' = IF Ev.ok /\ Ev.counter >= 0 /\ Ev.counter < lastAckTxn THEN Ev.counter ELSE lastAckTxn
                /\ UNCHANGED <<nk, written, ndmg, nexact>>

End == /\ Ev.ev = "End"
       /\ inflight' = FALSE /\ curop' = "none"
       /\ IF ~Ev.ok THEN Note("OperationSucceeds", "End", curop)
          ELSE IF curop = "checkpoint" /\ Ev.txn < lastAckTxn THEN Note("CounterMonotone", "End", curop)
          ELSE IF curop # "checkpoint" /\ Ev.txn <= lastAckTxn THEN Note("CounterMonotone", "End", curop)
          ELSE NoNote
       \* an acknowledged transaction id binds the counter only if the operation wrote a record
       \* (a batch without an effective change writes none)
       /\ lastAckTxn' = IF Ev.ok /\ Ev.txn > lastAckTxn /\ ~(curop = "batch" /\ cur = pre) THEN Ev.txn ELSE lastAckTxn
       /\ snap' = IF Ev.ok /\ curop = "checkpoint" THEN [known |-> TRUE, state |-> cur] ELSE snap
       /\ pre' = cur
       /\ UNCHANGED <<nk, cur, written, nimg, ndmg, nexact>>

CleanReopen == /\ Ev.ev = "CleanReopen" /\ nimg' = nimg + 1
               /\ IF Ev.panic THEN Note("NoPanic", "clean", "none")
                  ELSE IF ~Ev.ok THEN Note("RecoveryCompletes", "clean", "none")
                  ELSE IF Ev.state # cur THEN Note("CleanRestart", "clean", "none")
                  ELSE IF Ev.counter < lastAckTxn THEN Note("CounterMonotone", "clean", "none")
                  ELSE IF ~MemOk THEN Note("MemoryProportional", "clean", "none")
                  ELSE NoNote
               /\ UNCHANGED <<nk, pre, cur, inflight, curop, lastAckTxn, written, snap, ndmg, nexact>>

(* ---- C07 ---- *)
Sub(s, a, b) == IF a > b THEN <<>> ELSE SubSeq(s, a, b)
ExpectedStates ==
  LET F == Ev.files  f == Ev.dfile  r == Ev.drec  R == F[f]  n == Len(R)
      With(S) == ApplyChg(snap.state, Flatten([F EXCEPT ![f] = S]))
      c == Ev.dclass
  IN IF c \in {"payload", "multi", "shift"} THEN {With(Sub(R, 1, r - 1) \o Sub(R, r + 1, n))}
     ELSE IF c \in {"len", "lenbig", "lenmerge"}
          THEN {With(Sub(R, 1, r - 1) \o o \o Sub(R, j, n)) : j \in (r + 1)..(n + 1), o \in {<<>>, <<R[r]>>}}
     ELSE IF c \in {"trunc", "truncb"} THEN {With(Sub(R, 1, r - 1))}
     ELSE IF c \in {"append", "transplant"} THEN {With(R)}
     ELSE IF c = "dup" THEN {With(R), With(Append(R, R[r]))}
     ELSE {}
Detectable == {"payload", "multi", "shift", "len", "lenbig", "lenmerge", "trunc", "append", "transplant", "snapbody", "snaphdr", "snapappend", "snaptotal"}
SnapClasses == {"snapbody", "snaphdr", "snapappend", "snaptotal"}
ExactChecked == Ev.dclass \notin SnapClasses /\ Ev.described /\ snap.known

Damaged == /\ Ev.ev = "Damaged" /\ ndmg' = ndmg + 1
           /\ nexact' = IF Ev.ok /\ ExactChecked THEN nexact + 1 ELSE nexact
           /\ IF Ev.panic THEN Note("NoPanic", "damaged", Ev.dclass)
              ELSE IF ~Ev.ok THEN Note("RecoveryCompletes", "damaged", Ev.dclass)
              ELSE IF Ev.foreign # 0 \/ ~Genuine(Ev.state) THEN Note("NoInvention", "damaged", Ev.dclass)
              ELSE IF Ev.dclass \in Detectable /\ Ev.failed + Ev.nevents = 0 THEN Note("DamageReported", "damaged", Ev.dclass)
              ELSE IF ExactChecked /\ Ev.state \notin ExpectedStates THEN Note("BeforeDamageHonoured", "damaged", Ev.dclass)
              (* a second recovery of the same (still damaged) directory honours the same records *)
              ELSE IF Ev.panic2 \/ ~Ev.ok2 THEN Note("RecoveryCompletes", "damaged-again", Ev.dclass)
              ELSE IF ExactChecked /\ Ev.state2 \notin ExpectedStates THEN Note("BeforeDamageHonoured", "damaged-again", Ev.dclass)
              ELSE IF ~ExactChecked /\ Ev.dclass \notin SnapClasses /\ Ev.state2 # Ev.state THEN Note("BeforeDamageHonoured", "damaged-again", Ev.dclass)
              ELSE IF ~MemOk THEN Note("MemoryProportional", "damaged", Ev.dclass)
              ELSE NoNote
           /\ UNCHANGED <<nk, pre, cur, inflight, curop, lastAckTxn, written, snap, nimg>>

Next == /\ l <= N /\ l' = l + 1
        /\ (Reset \/ Begin \/ CrashImage \/ ContinueFrom \/ End \/ CleanReopen \/ Damaged)
Spec == Init /\ [][Next]_vars

Report == (l = N + 1) =>
  JsonSerialize(IOEnv.OUT, [consumed |-> l - 1, total |-> N, nviol |-> nviol, checked |-> nimg + ndmg,
                            images |-> nimg, damaged |-> ndmg, exact |-> nexact, viol |-> viol])
=============================================================================
