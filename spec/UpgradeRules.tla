---------------------------- MODULE UpgradeRules ----------------------------
(***************************************************************************)
(* Transition functions of the on-disk state machines of the auto-upgrade  *)
(* subsystem (src/upgrade/rollback.rs: RollbackManager, src/upgrade/       *)
(* staged.rs: StagedUpdateManager), shared by the model (Upgrade.tla) and  *)
(* the acceptor (Trace_Upgrade.tla).  Both managers keep NO state in       *)
(* memory besides their configuration: the state is the directory.         *)
(*                                                                         *)
(* Abstractions: file contents and SHA-256 checksums are tokens (1, 2, ..; *)
(* 0 = no file), versions are small integers ("1.0.<n>"), time is whole    *)
(* seconds (the code stamps with as_secs()).  `now` is a parameter of the  *)
(* operations that read the clock.  Age(s, d) is "d seconds pass": since   *)
(* the managers hold no instant in memory, d seconds passing is the same   *)
(* as every persisted timestamp (created_at / staged_at, the second in a   *)
(* backup's file name, mtimes of staged files) moving back by d - which is *)
(* how the driver realises it.                                             *)
(*                                                                         *)
(* Every operation yields [s: new state, cls: result class ("ok" or the    *)
(* UpgradeError variant: "io", "norollback", "rollback", "staging"),       *)
(* val: the observable payload as a tuple of integers].                    *)
(***************************************************************************)
EXTENDS Integers, Sequences, FiniteSets

CONSTANTS
  AsImplemented_TieKeepsOlder,        \* cleanup_old_backups: among backups stamped with the same second the EARLIER recorded one counts as newer
  AsImplemented_SharedBackupFile,     \* backup file name = f(version, platform, second): two backups can share one file
  AsImplemented_CleanupNeedsDir,      \* cleanup_old_backups writes backups.json unconditionally: Io error while the directory does not exist
  AsImplemented_RollbackToVersionNeedsDir, \* rollback creates the parent directory of the install path, rollback_to_version does not
  AsImplemented_GetStagedUnverified,  \* get_staged_update only tests that the binary exists, not that it has the recorded checksum
  AsImplemented_SweepIgnoresMetadata, \* cleanup_old_updates' orphan sweep (by mtime) also removes the binary the kept metadata points at
  Variant_RollbackUnverified          \* WRONG on purpose: rollback without the checksum comparison

NONE == 0   \* metadata file absent
OKM  == 1   \* metadata file present and parseable
BAD  == 2   \* metadata file present, not parseable

Res(s, cls, val) == [s |-> s, cls |-> cls, val |-> val]
AgeOf(at, now) == IF now > at THEN now - at ELSE 0          \* saturating_sub

(***************************************************************************)
(* Backup side.  b = [dir: backup directory exists, mst: state of          *)
(* backups.json, meta: its entries in file order, files: the *.bak files   *)
(* as <<ver, second, k, content>>, bins: content of the installed binary   *)
(* at each install path (0 = missing, -1 = its directory is missing too),  *)
(* maxb, maxage: configuration].                                           *)
(* An entry names its file by (ver, at, k); k is 0 in the code (the name   *)
(* holds nothing but version and second).                                  *)
(***************************************************************************)
Entry(v, at, tok, orig, k) == [ver |-> v, at |-> at, tok |-> tok, orig |-> orig, k |-> k]
Flat(e) == <<e.ver, e.at, e.tok, e.orig>>
FileOf(b, e) == {f \in b.files : f[1] = e.ver /\ f[2] = e.at /\ f[3] = e.k}      \* at most one
HasFile(b, e) == FileOf(b, e) # {}
FileTok(b, e) == (CHOOSE f \in FileOf(b, e) : TRUE)[4]
DropKey(files, v, at, k) == {f \in files : ~(f[1] = v /\ f[2] = at /\ f[3] = k)}
KeyUsed(b, v, at, k) == (\E f \in b.files : f[1] = v /\ f[2] = at /\ f[3] = k)
                        \/ (\E i \in DOMAIN b.meta : b.meta[i].ver = v /\ b.meta[i].at = at /\ b.meta[i].k = k)

(* position of entry i after `sort_by(|a, b| b.created_at.cmp(&a.created_at))` (stable, newest first) *)
Pos(m, i) == Cardinality({j \in DOMAIN m : m[j].at > m[i].at \/ (m[j].at = m[i].at /\ j < i)}) + 1
Order(m) == [p \in DOMAIN m |-> CHOOSE i \in DOMAIN m : Pos(m, i) = p]          \* original indices in sorted order
NewestFirst(m) == IF m = <<>> THEN <<>> ELSE [p \in DOMAIN m |-> m[Order(m)[p]]]
(* how many entries were recorded after entry i, going by (second, position in the file) *)
Recency(m, i) == Cardinality({j \in DOMAIN m : m[j].at > m[i].at \/ (m[j].at = m[i].at /\ j > i)})

(* get_latest_backup: `into_iter().max_by_key(created_at)` - the LAST of the maximal elements *)
Latest(m) == IF m = <<>> THEN <<>>
             ELSE LET i == CHOOSE i \in DOMAIN m : \A j \in DOMAIN m : m[j].at < m[i].at \/ (m[j].at = m[i].at /\ j <= i)
                  IN <<m[i]>>
(* get_backup_for_version / delete_backup: the FIRST entry with that version *)
FirstIdx(m, v) == LET c == {i \in DOMAIN m : m[i].ver = v} IN
                  IF c = {} THEN 0 ELSE CHOOSE i \in c : \A j \in c : i <= j
ForVersion(m, v) == IF FirstIdx(m, v) = 0 THEN <<>> ELSE <<m[FirstIdx(m, v)]>>
Without(m, i) == IF Len(m) = 1 THEN <<>> ELSE [p \in 1..(Len(m) - 1) |-> IF p < i THEN m[p] ELSE m[p + 1]]

(* cleanup_old_backups *)
CleanupOld(b, now) ==
  IF b.mst = BAD THEN Res(b, "io", <<>>)                      \* load_metadata()? fails
  ELSE LET m == b.meta
           Rank(i) == IF AsImplemented_TieKeepsOlder THEN Pos(m, i) - 1 ELSE Recency(m, i)
           Gone(i) == AgeOf(m[i].at, now) > b.maxage \/ Rank(i) >= b.maxb
           keepIdx == SelectSeq(Order(m), LAMBDA i : ~Gone(i))
           keep == IF keepIdx = <<>> THEN <<>> ELSE [p \in DOMAIN keepIdx |-> m[keepIdx[p]]]
           files2 == {f \in b.files : ~\E i \in DOMAIN m : Gone(i) /\ f[1] = m[i].ver /\ f[2] = m[i].at /\ f[3] = m[i].k}
       IN IF ~b.dir                                           \* nothing to load, nothing to remove, then save_metadata(&[])
          THEN (IF AsImplemented_CleanupNeedsDir THEN Res(b, "io", <<>>) ELSE Res(b, "ok", <<0>>))
          ELSE Res([b EXCEPT !.mst = OKM, !.meta = keep, !.files = files2], "ok", <<Len(m) - Len(keep)>>)

(* create_backup(binary_path = install path p, version v) *)
CreateBackup(b, p, v, now) ==
  LET b1 == [b EXCEPT !.dir = TRUE] IN                         \* ensure_backup_dir comes first
  IF b.bins[p] <= 0 THEN Res(b1, "io", <<>>)                   \* the binary cannot be read
  ELSE LET tok == b.bins[p]
           k == IF AsImplemented_SharedBackupFile THEN 0
                ELSE CHOOSE k \in 0..(Cardinality(b.files) + Len(b.meta)) :
                       ~KeyUsed(b, v, now, k) /\ \A k2 \in 0..(k - 1) : KeyUsed(b, v, now, k2)
           e == Entry(v, now, tok, p, k)
           old == IF b.mst = OKM THEN b.meta ELSE <<>>         \* load_metadata().unwrap_or_default(): unreadable = empty
           b2 == [b1 EXCEPT !.files = DropKey(@, v, now, k) \cup {<<v, now, k, tok>>}, !.mst = OKM, !.meta = Append(old, e)]
           c == CleanupOld(b2, now)
       IN IF c.cls = "ok" THEN Res(c.s, "ok", Flat(e)) ELSE Res(c.s, c.cls, <<>>)

(* the common part of rollback / rollback_to_version: sel = <<>> or <<entry>>; mkdir = create_dir_all(parent) first *)
Restore(b, sel, mkdir) ==
  IF Len(sel) = 0 THEN Res(b, "norollback", <<>>)
  ELSE LET e == sel[1] IN
       IF ~HasFile(b, e) THEN Res(b, "norollback", <<>>)
       ELSE IF FileTok(b, e) # e.tok /\ ~Variant_RollbackUnverified THEN Res(b, "rollback", <<>>)
       ELSE IF b.bins[e.orig] = -1 /\ ~mkdir THEN Res(b, "rollback", <<>>)       \* "failed to restore binary"
       ELSE Res([b EXCEPT !.bins[e.orig] = FileTok(b, e)], "ok", Flat(e))      \* written to the path recorded in the entry
Rollback(b) == IF b.mst = BAD THEN Res(b, "io", <<>>) ELSE Restore(b, Latest(b.meta), TRUE)
RollbackTo(b, v) == IF b.mst = BAD THEN Res(b, "io", <<>>) ELSE Restore(b, ForVersion(b.meta, v), ~AsImplemented_RollbackToVersionNeedsDir)

DeleteBackup(b, v) ==
  IF b.mst = BAD THEN Res(b, "io", <<>>)
  ELSE LET i == FirstIdx(b.meta, v) IN
       IF i = 0 THEN Res(b, "ok", <<0>>)
       ELSE Res([b EXCEPT !.meta = Without(b.meta, i), !.files = DropKey(@, b.meta[i].ver, b.meta[i].at, b.meta[i].k)], "ok", <<1>>)
EnsureDirB(b) == Res([b EXCEPT !.dir = TRUE], "ok", <<>>)
CleanupAllB(b) == Res([b EXCEPT !.dir = FALSE, !.mst = NONE, !.meta = <<>>, !.files = {}], "ok", <<>>)

(* observers *)
FlatAll(m) == IF m = <<>> THEN <<>> ELSE [i \in DOMAIN m |-> Flat(m[i])]
LoadB(b) == IF b.mst = BAD THEN Res(b, "io", <<>>) ELSE Res(b, "ok", FlatAll(b.meta))
ListBackups(b) == IF b.mst = BAD THEN Res(b, "io", <<>>) ELSE Res(b, "ok", FlatAll(NewestFirst(b.meta)))
GetLatest(b) == IF b.mst = BAD THEN Res(b, "io", <<>>) ELSE Res(b, "ok", FlatAll(Latest(b.meta)))
GetForVersion(b, v) == IF b.mst = BAD THEN Res(b, "io", <<>>) ELSE Res(b, "ok", FlatAll(ForVersion(b.meta, v)))
CanRollbackB(b) == b.mst # BAD /\ Len(Latest(b.meta)) = 1 /\ HasFile(b, Latest(b.meta)[1])
CanRollback(b) == Res(b, "ok", <<IF CanRollbackB(b) THEN 1 ELSE 0>>)

(* the environment *)
RestartB(b, maxb, maxage) == Res([b EXCEPT !.maxb = maxb, !.maxage = maxage], "ok", <<>>)   \* a new manager on the same directory
EnvSetBinary(b, p, tok) == Res(IF tok = 0 /\ b.bins[p] = -1 THEN b ELSE [b EXCEPT !.bins[p] = tok], "ok", <<>>)   \* install / replace / delete the binary
EnvRemoveInstallDir(b, p) == Res([b EXCEPT !.bins[p] = -1], "ok", <<>>)
EnvDeleteBackupFile(b, v, at) == Res([b EXCEPT !.files = DropKey(@, v, at, 0)], "ok", <<>>)
EnvCorruptBackupFile(b, v, at, tok) ==
  Res([b EXCEPT !.files = {IF f[1] = v /\ f[2] = at /\ f[3] = 0 THEN <<v, at, 0, tok>> ELSE f : f \in b.files}], "ok", <<>>)
EnvDeleteMetaB(b) == Res([b EXCEPT !.mst = NONE, !.meta = <<>>], "ok", <<>>)
EnvGarbleMetaB(b) == Res(IF b.dir THEN [b EXCEPT !.mst = BAD, !.meta = <<>>] ELSE b, "ok", <<>>)
AgeB(b, d) == Res([b EXCEPT !.meta = IF b.meta = <<>> THEN <<>> ELSE [i \in DOMAIN b.meta |-> [b.meta[i] EXCEPT !.at = @ - d]],
                            !.files = {<<f[1], f[2] - d, f[3], f[4]>> : f \in b.files}], "ok", <<>>)

(***************************************************************************)
(* Staging side.  g = [dir: staging directory exists, mst: state of        *)
(* staged.json, rec: <<>> or <<[ver, tok (recorded checksum), sat]>>,      *)
(* files: the binaries in the directory as <<ver, content, mtime>>         *)
(* ("saorsa-<ver>-<platform>"), maxage].  The record names its binary by   *)
(* version.  The manager never writes a binary: the downloader (here: the  *)
(* environment) does.                                                      *)
(***************************************************************************)
SFile(g, v) == {f \in g.files : f[1] = v}
SDrop(files, v) == {f \in files : f[1] # v}
RecFile(g) == SFile(g, g.rec[1].ver)
RecFileTok(g) == (CHOOSE f \in RecFile(g) : TRUE)[2]

EnsureDirS(g) == Res([g EXCEPT !.dir = TRUE], "ok", <<>>)
SaveMetaS(g, v, tok, now) ==                                   \* StagedUpdate::new(..) + save_metadata
  IF ~g.dir THEN Res(g, "staging", <<>>)
  ELSE Res([g EXCEPT !.mst = OKM, !.rec = <<[ver |-> v, tok |-> tok, sat |-> now]>>], "ok", <<>>)
FlatS(r) == <<r.ver, r.tok, r.sat>>
LoadS(g) == IF g.mst = BAD THEN Res(g, "staging", <<>>)
            ELSE IF g.mst = NONE THEN Res(g, "ok", <<>>) ELSE Res(g, "ok", FlatS(g.rec[1]))
HasStagedB(g) == g.mst = OKM /\ RecFile(g) # {}
HasStaged(g) == Res(g, "ok", <<IF HasStagedB(g) THEN 1 ELSE 0>>)
ClearMetaS(g) == Res([g EXCEPT !.mst = NONE, !.rec = <<>>], "ok", <<>>)
(* get_staged_update; the payload carries as 4th component what StagedUpdate::verify() says about the returned update *)
GetStaged(g) ==
  IF g.mst = BAD THEN Res(g, "staging", <<>>)
  ELSE IF g.mst = NONE THEN Res(g, "ok", <<>>)
  ELSE IF RecFile(g) = {} THEN Res(ClearMetaS(g).s, "ok", <<>>)             \* "binary is missing, clean up metadata"
  ELSE IF ~AsImplemented_GetStagedUnverified /\ RecFileTok(g) # g.rec[1].tok THEN Res(ClearMetaS(g).s, "ok", <<>>)
  ELSE Res(g, "ok", FlatS(g.rec[1]) \o <<IF RecFileTok(g) = g.rec[1].tok THEN 1 ELSE 0>>)
(* cleanup_old_updates: the record by staged_at (whole seconds, strictly older than max_age), then every other file of the
   directory by mtime: `modified.elapsed() > max_age` at sub-second resolution, i.e. `>=` in whole seconds for an mtime on a
   whole second (the driver sets such mtimes) *)
CleanupOldS(g, now) ==
  LET expired == g.mst = OKM /\ AgeOf(g.rec[1].sat, now) > g.maxage
      g1 == IF expired THEN [g EXCEPT !.files = SDrop(@, g.rec[1].ver), !.mst = NONE, !.rec = <<>>] ELSE g
      live == IF g1.mst = OKM /\ ~AsImplemented_SweepIgnoresMetadata THEN {g1.rec[1].ver} ELSE {}
      old == {f \in g1.files : AgeOf(f[3], now) >= g1.maxage /\ f[1] \notin live}
  IN Res([g1 EXCEPT !.files = @ \ old], "ok", <<(IF expired THEN 1 ELSE 0) + Cardinality(old)>>)
CleanupAllS(g) == Res([g EXCEPT !.dir = FALSE, !.mst = NONE, !.rec = <<>>, !.files = {}], "ok", <<>>)

RestartS(g, maxage) == Res([g EXCEPT !.maxage = maxage], "ok", <<>>)
EnvPutFile(g, v, tok, now) == Res([g EXCEPT !.dir = TRUE, !.files = SDrop(@, v) \cup {<<v, tok, now>>}], "ok", <<>>)   \* download / overwrite
EnvDeleteFileS(g, v) == Res([g EXCEPT !.files = SDrop(@, v)], "ok", <<>>)
EnvDeleteMetaS(g) == Res([g EXCEPT !.mst = NONE, !.rec = <<>>], "ok", <<>>)
EnvGarbleMetaS(g) == Res(IF g.dir THEN [g EXCEPT !.mst = BAD, !.rec = <<>>] ELSE g, "ok", <<>>)
AgeS(g, d) == Res([g EXCEPT !.rec = IF g.rec = <<>> THEN <<>> ELSE <<[g.rec[1] EXCEPT !.sat = @ - d]>>,
                            !.files = {<<f[1], f[2], f[3] - d>> : f \in g.files}], "ok", <<>>)
=============================================================================
