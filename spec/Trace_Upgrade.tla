----------------------------- MODULE Trace_Upgrade -----------------------------
(***************************************************************************)
(* Conformance acceptor for the auto-upgrade on-disk state machines        *)
(* (harness module upgrade).  Every `Step` carries the projected directory *)
(* before and after one operation of the real RollbackManager (side "b")   *)
(* or StagedUpdateManager (side "g") - or one step of the environment -,   *)
(* the result, and what the manager's observers report afterwards.  The    *)
(* acceptor recomputes the step with the transition functions of           *)
(* UpgradeRules.tla (as-implemented flags TRUE) from the logged `pre` and  *)
(* compares the new state, the result class, the payload and the           *)
(* observers.  Mismatches are MODEL-DRIFT (informational).                 *)
(***************************************************************************)
EXTENDS UpgradeRules, TLC, Json, IOUtils

Recs == ndJsonDeserialize(IOEnv.TRACE)
N == Len(Recs)
VARIABLES l, drift, ndrift, n
tvars == <<l, drift, ndrift, n>>
Ev == Recs[l]
Elems(s) == {s[i] : i \in 1..Len(s)}

(* ---- backup side ---- *)
ToB(j) == [dir |-> j.dir, mst |-> j.mst,
           meta |-> IF Len(j.meta) = 0 THEN <<>>
                    ELSE [i \in 1..Len(j.meta) |-> LET e == j.meta[i] IN
                            Entry(e[1], e[2], e[3], e[4], IF e[5] = e[1] /\ e[6] = e[2] THEN 0 ELSE 99)],   \* the entry names the file of its (version, second)
           files |-> {<<f[1], f[2], 0, f[3]>> : f \in Elems(j.files)},
           bins |-> j.bins, maxb |-> j.maxb, maxage |-> j.maxage]
ExpB == LET s == ToB(Ev.pre) IN
  CASE Ev.op = "create_backup" -> CreateBackup(s, Ev.p, Ev.v, Ev.now)
    [] Ev.op = "rollback" -> Rollback(s)
    [] Ev.op = "rollback_to_version" -> RollbackTo(s, Ev.v)
    [] Ev.op = "delete_backup" -> DeleteBackup(s, Ev.v)
    [] Ev.op = "cleanup_old_backups" -> CleanupOld(s, Ev.now)
    [] Ev.op = "cleanup_all" -> CleanupAllB(s)
    [] Ev.op = "get_backup_for_version" -> GetForVersion(s, Ev.v)
    [] Ev.op = "load_metadata" -> LoadB(s)
    [] Ev.op = "ensure_backup_dir" -> EnsureDirB(s)
    [] Ev.op = "env_set_binary" -> EnvSetBinary(s, Ev.p, Ev.tok)
    [] Ev.op = "env_remove_install_dir" -> EnvRemoveInstallDir(s, Ev.p)
    [] Ev.op = "env_delete_file" -> EnvDeleteBackupFile(s, Ev.fv, Ev.fat)
    [] Ev.op = "env_corrupt_file" -> EnvCorruptBackupFile(s, Ev.fv, Ev.fat, Ev.tok)
    [] Ev.op = "env_delete_meta" -> EnvDeleteMetaB(s)
    [] Ev.op = "env_garble_meta" -> EnvGarbleMetaB(s)
    [] Ev.op = "restart" -> RestartB(s, Ev.mb, Ev.ma)
    [] Ev.op = "age" -> AgeB(s, Ev.d)
    [] OTHER -> Res(s, "unknown operation", <<>>)
ViewOkB(s) == /\ Ev.obs.list.cls = ListBackups(s).cls /\ Ev.obs.list.val = ListBackups(s).val
              /\ Ev.obs.latest.cls = GetLatest(s).cls /\ Ev.obs.latest.val = GetLatest(s).val
              /\ <<Ev.obs.can>> = CanRollback(s).val
StepOkB == LET r == ExpB IN
           /\ ToB(Ev.post) = r.s /\ Ev.res.cls = r.cls /\ Ev.res.val = r.val
           /\ ViewOkB(ToB(Ev.post))

(* ---- staging side ---- *)
ToG(j) == [dir |-> j.dir, mst |-> j.mst,
           rec |-> IF Len(j.rec) = 0 THEN <<>> ELSE <<[ver |-> j.rec[1][1], tok |-> j.rec[1][2], sat |-> j.rec[1][3]]>>,
           files |-> {<<f[1], f[2], f[3]>> : f \in Elems(j.files)}, maxage |-> j.maxage]
ExpG == LET s == ToG(Ev.pre) IN
  CASE Ev.op = "ensure_staging_dir" -> EnsureDirS(s)
    [] Ev.op = "save_metadata" -> SaveMetaS(s, Ev.v, Ev.tok, Ev.now)
    [] Ev.op = "get_staged_update" -> GetStaged(s)
    [] Ev.op = "clear_metadata" -> ClearMetaS(s)
    [] Ev.op = "cleanup_old_updates" -> CleanupOldS(s, Ev.now)
    [] Ev.op = "cleanup_all" -> CleanupAllS(s)
    [] Ev.op = "env_put_file" -> EnvPutFile(s, Ev.v, Ev.tok, Ev.now)
    [] Ev.op = "env_delete_file" -> EnvDeleteFileS(s, Ev.v)
    [] Ev.op = "env_delete_meta" -> EnvDeleteMetaS(s)
    [] Ev.op = "env_garble_meta" -> EnvGarbleMetaS(s)
    [] Ev.op = "restart" -> RestartS(s, Ev.ma)
    [] Ev.op = "age" -> AgeS(s, Ev.d)
    [] OTHER -> Res(s, "unknown operation", <<>>)
ViewOkG(s) == /\ Ev.obs.load.cls = LoadS(s).cls /\ Ev.obs.load.val = LoadS(s).val
              /\ <<Ev.obs.has>> = HasStaged(s).val
StepOkG == LET r == ExpG IN
           /\ ToG(Ev.post) = r.s /\ Ev.res.cls = r.cls /\ Ev.res.val = r.val
           /\ ViewOkG(ToG(Ev.post))

StepOk == IF Ev.side = "b" THEN StepOkB ELSE StepOkG

Init == l = 1 /\ drift = <<>> /\ ndrift = 0 /\ n = 0
Next == /\ l <= N /\ l' = l + 1
        /\ IF Ev.ev = "Step"
           THEN /\ n' = n + 1
                /\ IF StepOk THEN UNCHANGED <<drift, ndrift>>
                   ELSE /\ ndrift' = ndrift + 1
                        /\ drift' = IF Len(drift) < 20 THEN Append(drift, [line |-> l, op |-> Ev.op]) ELSE drift
           ELSE UNCHANGED <<drift, ndrift, n>>
Spec == Init /\ [][Next]_tvars
Report == (l = N + 1) => JsonSerialize(IOEnv.OUT, [consumed |-> l - 1, total |-> N, nviol |-> ndrift, checked |-> n, viol |-> drift])
=============================================================================
