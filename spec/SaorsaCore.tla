----------------------------- MODULE SaorsaCore -----------------------------
(***************************************************************************)
(* Composition root of the specification suite (DESIGN.md section 9 item   *)
(* 1): connections and routing knowledge (Kademlia / Transport), the       *)
(* lookup guarantee (Lookup, C01), put / get over per-node stores (Store,  *)
(* C03), the pending-request table (Rpc, C04) and shutdown (Lifecycle,     *)
(* C20) in ONE state machine, so that properties that span modules can be  *)
(* stated and model-checked:                                               *)
(*                                                                         *)
(*   VisibleThroughThirdParty  a value put by A is found by C through B,   *)
(*                             also after connections were closed again    *)
(*                             (tables remember, peers are dialled again); *)
(*   NoResidueAfterStop        a stopped node has nothing in the pending   *)
(*                             table and sends nothing any more;           *)
(*   PutHolds / GetSound / GetComplete per node, with operations of        *)
(*                             different nodes in flight at the same time  *)
(*                             and the membership changing under them.     *)
(*                                                                         *)
(* The module-level specifications are bound to the code one by one (trace *)
(* acceptors of C01, C02, C03, C04, C20); this module is design-level: it  *)
(* shows that their guarantees compose.  Every node runs at most one put   *)
(* at a time (gets are atomic reads); RPCs are individual steps.           *)
(***************************************************************************)
EXTENDS Naturals, Sequences, FiniteSets, Bitwise, SequencesExt, FiniteSetsExt, TLC

CONSTANTS Node, Keys, Vals, K, MaxOps, MaxChurn,
          Variant_CloseForgets,     \* TRUE = closing a connection also drops the routing-table entry (wrong design)
          Variant_SendAfterStop     \* TRUE = a put in flight keeps sending after its node was stopped (pinned tree before 8d16a65)

Dist(a, b) == a ^^ b
Pairs == {e \in SUBSET Node : Cardinality(e) = 2}

VARIABLES conn,        \* open connections (2-sets)
          table,       \* [Node -> SUBSET Node] who each node knows (routing table + address book)
          silent,      \* nodes that stopped answering
          stopped,     \* nodes whose DHT layer was stopped
          store, written,
          put,         \* [Node -> put in flight or NoPut]
          pend,        \* pending requests: set of [from, to, k, v]
          reply,       \* [Node -> last completed operation]
          nops, nchurn,
          lateSend,    \* a request was sent by a stopped node
          met          \* history: pairs that were ever connected
vars == <<conn, table, silent, stopped, store, written, put, pend, reply, nops, nchurn, lateSend, met>>

NoPut == [kind |-> "none"]
NoReply == [kind |-> "none"]
Alive(n) == n \notin silent /\ n \notin stopped

(* what a lookup started at n can reach: closure over the tables of the nodes that answer (closed connections are dialled
   again: a table entry is enough) *)
RECURSIVE Reach(_, _)
Reach(S, n) == LET S2 == S \cup UNION {table[m] : m \in {x \in S : Alive(x) \/ x = n}} IN IF S2 = S THEN S ELSE Reach(S2, n)
Reached(n) == {n} \cup {p \in Reach({n}, n) : Alive(p)}
SortSet(S, k) == SetToSortSeq(S, LAMBDA a, b : Dist(a, k) < Dist(b, k))
Take(s, m) == SubSeq(s, 1, IF m < Len(s) THEN m ELSE Len(s))
(* guarantee of C01: the K closest of the responsive reachable nodes and the origin *)
LookupResult(n, k) == LET s == Take(SortSet(Reached(n), k), K) IN {s[i] : i \in 1..Len(s)}

Init == /\ conn = {} /\ table = [n \in Node |-> {}] /\ silent = {} /\ stopped = {}
        /\ store = [n \in Node |-> [k \in Keys |-> 0]] /\ written = [k \in Keys |-> {}]
        /\ put = [n \in Node |-> NoPut] /\ pend = {} /\ reply = [n \in Node |-> NoReply]
        /\ nops = 0 /\ nchurn = 0 /\ lateSend = FALSE /\ met = {}

Churn == nchurn < MaxChurn /\ nchurn' = nchurn + 1
(* ---- membership (Transport / Kademlia) ---- *)
Connect(a, b) == /\ Churn /\ a # b /\ {a, b} \notin conn /\ Alive(a) /\ Alive(b)
                 /\ conn' = conn \cup {{a, b}}
                 /\ table' = [table EXCEPT ![a] = @ \cup {b}, ![b] = @ \cup {a}]
                 /\ met' = met \cup {{a, b}}
                 /\ UNCHANGED <<silent, stopped, store, written, put, pend, reply, nops, lateSend>>
Close(a, b) == /\ Churn /\ {a, b} \in conn /\ conn' = conn \ {{a, b}}
               /\ table' = IF Variant_CloseForgets THEN [table EXCEPT ![a] = @ \ {b}, ![b] = @ \ {a}] ELSE table
               /\ UNCHANGED <<silent, stopped, store, written, put, pend, reply, nops, lateSend, met>>
FallSilent(n) == /\ Churn /\ Alive(n) /\ silent' = silent \cup {n}
                 /\ UNCHANGED <<conn, table, stopped, store, written, put, pend, reply, nops, lateSend, met>>
(* stop(): the pending table of the node is emptied, its put in flight ends with an error (Lifecycle / Rpc) *)
Stop(n) == /\ Churn /\ n \notin stopped /\ stopped' = stopped \cup {n}
           /\ pend' = {m \in pend : m.from # n}
           /\ put' = IF Variant_SendAfterStop THEN put ELSE [put EXCEPT ![n] = NoPut]
           /\ reply' = IF put[n] # NoPut /\ ~Variant_SendAfterStop THEN [reply EXCEPT ![n] = [kind |-> "stopped"]] ELSE reply
           /\ conn' = {c \in conn : n \notin c}
           /\ UNCHANGED <<table, silent, store, written, nops, lateSend, met>>

(* ---- put (Store over Lookup over Rpc) ---- *)
StoreAt(n, k, v) == store' = [store EXCEPT ![n][k] = v] /\ written' = [written EXCEPT ![k] = @ \cup {v}]
BeginPut(n, k, v) ==
  /\ nops < MaxOps /\ nops' = nops + 1 /\ Alive(n) /\ put[n] = NoPut
  /\ put' = [put EXCEPT ![n] = [kind |-> "put", k |-> k, v |-> v, todo |-> LookupResult(n, k) \ {n}, acks |-> {}]]
  /\ StoreAt(n, k, v) /\ reply' = [reply EXCEPT ![n] = NoReply]
  /\ UNCHANGED <<conn, table, silent, stopped, pend, nchurn, lateSend, met>>
PutSend(n, p) ==
  /\ put[n] # NoPut /\ p \in put[n].todo
  /\ put' = [put EXCEPT ![n].todo = @ \ {p}]
  /\ pend' = pend \cup {[from |-> n, to |-> p, k |-> put[n].k, v |-> put[n].v]}
  /\ lateSend' = (lateSend \/ n \in stopped)
  /\ UNCHANGED <<conn, table, silent, stopped, store, written, reply, nops, nchurn, met>>
(* the addressed node stores and acknowledges; the origin's table learns nothing new (it knew the target) *)
PutServe(m) ==
  /\ m \in pend /\ Alive(m.to) /\ pend' = pend \ {m}
  /\ StoreAt(m.to, m.k, m.v)
  /\ put' = IF put[m.from] # NoPut /\ put[m.from].k = m.k /\ put[m.from].v = m.v
            THEN [put EXCEPT ![m.from].acks = @ \cup {m.to}] ELSE put
  /\ UNCHANGED <<conn, table, silent, stopped, reply, nops, nchurn, lateSend, met>>
PutTimeout(m) ==
  /\ m \in pend /\ ~Alive(m.to) /\ pend' = pend \ {m}
  /\ UNCHANGED <<conn, table, silent, stopped, store, written, put, reply, nops, nchurn, lateSend, met>>
EndPut(n) ==
  /\ put[n] # NoPut /\ put[n].todo = {} /\ ~\E m \in pend : m.from = n
  /\ reply' = [reply EXCEPT ![n] = [kind |-> "putok", k |-> put[n].k, v |-> put[n].v, holders |-> put[n].acks \cup {n}]]
  /\ put' = [put EXCEPT ![n] = NoPut]
  /\ UNCHANGED <<conn, table, silent, stopped, store, written, pend, nops, nchurn, lateSend, met>>

(* ---- get: local value, else any value held by a node the iterative FIND_VALUE reaches; not-found only if none holds one ---- *)
Get(n, k) ==
  /\ nops < MaxOps /\ nops' = nops + 1 /\ Alive(n) /\ put[n] = NoPut
  /\ LET reached == Reached(n)
         holders == {p \in reached : store[p][k] # 0} IN
     IF store[n][k] # 0 THEN reply' = [reply EXCEPT ![n] = [kind |-> "got", k |-> k, v |-> store[n][k], reached |-> reached]] /\ UNCHANGED <<store, written>>
     ELSE IF holders = {} THEN reply' = [reply EXCEPT ![n] = [kind |-> "notfound", k |-> k, reached |-> reached]] /\ UNCHANGED <<store, written>>
     ELSE \E h \in holders : /\ reply' = [reply EXCEPT ![n] = [kind |-> "got", k |-> k, v |-> store[h][k], reached |-> reached]]
                             /\ store' = [store EXCEPT ![n][k] = store[h][k]] /\ UNCHANGED written
  /\ UNCHANGED <<conn, table, silent, stopped, put, pend, nchurn, lateSend, met>>

Next == \/ \E a, b \in Node : Connect(a, b) \/ Close(a, b)
        \/ \E n \in Node : FallSilent(n) \/ Stop(n) \/ EndPut(n)
        \/ \E n \in Node, k \in Keys, v \in Vals : BeginPut(n, k, v)
        \/ \E n, p \in Node : PutSend(n, p)
        \/ \E m \in pend : PutServe(m) \/ PutTimeout(m)
        \/ \E n \in Node, k \in Keys : Get(n, k)
Spec == Init /\ [][Next]_vars

(* ---- properties ---- *)
TypeOK == /\ conn \subseteq Pairs /\ table \in [Node -> SUBSET Node] /\ \A n \in Node : n \notin table[n]
          /\ \A c \in conn : \A a \in c : (c \ {a}) \subseteq table[a]             \* an open connection is a known peer
(* C03 per node, under concurrency and churn: every reported holder that is still alive holds a value written for that key
   (a concurrent put of another node may have replaced the value) *)
PutHolds == \A n \in Node : reply[n].kind = "putok" =>
              \A h \in reply[n].holders : store[h][reply[n].k] \in written[reply[n].k]
GetSound == \A n \in Node : reply[n].kind = "got" => reply[n].v \in written[reply[n].k]
(* evaluated at the step that produced the answer: nobody it reached held a value (stores only gain values) *)
GetComplete == [][\A n \in Node, k \in Keys : (reply'[n] # reply[n] /\ reply'[n].kind = "notfound" /\ reply'[n].k = k)
                     => \A p \in reply'[n].reached : store[p][k] = 0]_vars
(* what the history of connections lets c reach through nodes that still answer, whatever the tables say *)
RECURSIVE HReach(_, _)
HReach(S, n) == LET S2 == S \cup UNION {{p \in Node : {m, p} \in met} : m \in {x \in S : Alive(x) \/ x = n}} IN IF S2 = S THEN S ELSE HReach(S2, n)
(* cross-module: a completed put is visible to every node that ever met, directly or through third parties that still
   answer, one of its live holders - also over connections that were closed in the meantime (tables remember, peers are
   dialled again) *)
VisibleThroughThirdParty ==
  [][\A a, c \in Node, k \in Keys :
       (reply[a].kind = "putok" /\ reply[a].k = k /\ (\E h \in reply[a].holders : Alive(h) /\ h \in HReach({c}, c))
        /\ reply'[c] # reply[c] /\ reply'[c].kind \in {"got", "notfound"} /\ reply'[c].k = k)
       => reply'[c].kind = "got"]_vars
(* C04 / C20 *)
NoResidueAfterStop == \A m \in pend : m.from \notin stopped
QuietAfterStop == ~lateSend
StoppedEndsPut == \A n \in stopped : put[n] = NoPut
(* Kademlia / Transport: knowledge survives a closed connection, so the lookup closure only grows while nodes stay alive *)
TablesRemember == [][\A n \in Node : table[n] \subseteq table'[n]]_vars
TablesAreHistory == \A n \in Node : table[n] = {p \in Node : {n, p} \in met}
=============================================================================
