------------------------------ MODULE SigRules ------------------------------
(***************************************************************************)
(* P-level rules of property C08: the ideal signature functionality and    *)
(* the case analysis of every verification entry point.  Shared by Sig.tla *)
(* (model checking) and Trace_Sig.tla (acceptor).  Pure operators.         *)
(*                                                                         *)
(* `signed` is the set of [pk, msg, sig] triples: the identity whose       *)
(* public key is pk produced signature token sig over message token msg.   *)
(* Tokens: equal token <=> equal bytes; a tampered copy is a new token.    *)
(***************************************************************************)
EXTENDS Integers, Sequences, FiniteSets

(* ideal functionality: a signature verifies only for the exact message and key that produced it *)
Valid(signed, pk, m, s) == [pk |-> pk, msg |-> m, sig |-> s] \in signed

(* record write authorisation *)
SingleOk(signed, key, m, sigs) == Len(sigs) >= 1 /\ Valid(signed, key, m, sigs[1])
DelegatedOk(signed, keys, m, sigs) == Len(sigs) >= 1 /\ \E k \in keys : Valid(signed, k, m, sigs[1])
(* at least t distinct authorised keys, each with a valid signature among those presented *)
Signers(signed, keys, m, sigs) == {k \in keys : \E i \in 1..Len(sigs) : Valid(signed, k, m, sigs[i])}
ThresholdOk(signed, t, keys, m, sigs) == Cardinality(Signers(signed, keys, m, sigs)) >= t

(* update packages: matching checksum, pinned and currently valid key, valid signature under it.
   sumOf : message token -> checksum token; pinned : key id -> [pk, valid] *)
UpdateOk(signed, sumOf, pinned, file, sum, keyId, sig) ==
  /\ file \in DOMAIN sumOf /\ sumOf[file] = sum
  /\ keyId \in DOMAIN pinned /\ pinned[keyId].valid
  /\ Valid(signed, pinned[keyId].pk, file, sig)

(* address-bound node identity: the id recomputes from the fields and the signature covers ip||key||salt||ts.
   idOf : <<ip, pk, salt, ts>> -> id token; signedIp : set of [f, sig] *)
IpFields(r) == <<r.ip, r.pk, r.salt, r.ts>>
IpIdOk(signedIp, idOf, r) ==
  /\ IpFields(r) \in DOMAIN idOf /\ idOf[IpFields(r)] = r.nid
  /\ [f |-> IpFields(r), sig |-> r.sig] \in signedIp
=============================================================================
