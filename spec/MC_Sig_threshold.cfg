SPECIFICATION Spec
CONSTANTS
  MaxId = 2
  Msgs = {1, 2}
  MaxSig = 2
  AsImplemented_SeedHalvesIndependent = FALSE
  AsImplemented_ThresholdCountsOnly = TRUE
INVARIANTS VerifyIff OwnSignatureVerifies ThresholdIff Unforgeable
CHECK_DEADLOCK FALSE
