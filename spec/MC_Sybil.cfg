\* intended design: 3 peers (two share an id prefix), 2 subnets, thresholds 2, window 1 tick, record age 2 ticks, 4 operations, 2 ticks
SPECIFICATION Spec
CONSTANTS
  MaxHistory = 2
  Peers = {p1, p2, p3}
  PfxA = {p1, p2}
  NSub = 2
  BThr = 2
  Win = 1
  PThr = 2
  SimPm = 750
  AsymThrPm = 2000
  Age = 2
  AgeIsMax = FALSE
  MinObs = 1
  MaxT = 2
  MaxOps = 4
  OpSet = {"join", "leave", "analyze", "clear", "cleanup"}
  Lats = {0}
  Sizes = {0}
  Claims = {0}
  Measures = {0}
  AsImplemented_BurstCountsRepeats = FALSE
  AsImplemented_BurstNotAged = FALSE
  AsImplemented_DepartedKeepTriggering = FALSE
  AsImplemented_EvidenceAccumulates = FALSE
  AsImplemented_NoGroupMerge = FALSE
  AsImplemented_OverallCountsMemberships = FALSE
  AsImplemented_ZeroAverageNaN = FALSE
  AsImplemented_HugeAgePanics = FALSE
  Variant_StrictThreshold = FALSE
SYMMETRY Sym
INVARIANTS TypeOK BurstExact JoinsOrdered BurstDistinctPeers PrefixExact PrefixNamesSharers EvidenceNamesPresentOnly
           IdenticalHistoriesSimilar SimilarityBounded AsymSound AnalysisIdempotent GroupsDisjoint AnalyzeCovers GroupsOnlyByAnalysis
           SuspectedIffMember RiskMonotoneUntilClear OverallIsSuspectedFraction GroupCountBounded ClearEmpties CleanupOnlyOld
           RecordsAreHistory RecordsWithinWindow NoPanic
CHECK_DEADLOCK FALSE
