\* as implemented: suspend_participant with a duration beyond SystemTime's range panics; must violate NoPanic
SPECIFICATION Spec
CONSTANTS
  Sizes = {2, 3}
  InitStatuses = {"Active", "Inactive"}
  MaxInitIdle = 3
  ArgIds = {1, 2, 3, 9}
  NewIds = {1, 4}
  Tokens = {"S", "F", "P"}
  HugeChoices = {FALSE, TRUE}
  MaxVer = 3
  AuditCap = 5
  AuditDrop = 2
  AsImplemented_ErrorMutates = FALSE
  AsImplemented_LastLeaderDemotable = FALSE
  AsImplemented_CreateSkipsValidate = FALSE
  AsImplemented_PermissionIgnoresStatus = FALSE
  AsImplemented_DeadPermissions = FALSE
  AsImplemented_HugeSuspensionPanics = TRUE
  Variant_ThresholdIgnoresActive = FALSE
INVARIANTS TypeOK NoPanic
CHECK_DEADLOCK FALSE
