-------------------------- MODULE CloseGroupRules --------------------------
(***************************************************************************)
(* Close-group membership verdicts (property C15).                         *)
(* Constant-free operator library shared by CloseGroup.tla (exhaustive     *)
(* model checking) and Trace_CloseGroup.tla (acceptor for verdicts         *)
(* recorded from the real CloseGroupValidator::validate_membership).       *)
(*                                                                         *)
(* A witness is a record [c, t, r, l]:                                     *)
(*   c  BOOLEAN  confirms membership                                       *)
(*   t  Int      trust in per-mille (0..1000), -1 = no trust known         *)
(*   r  Int      region token, 0 = region unknown                          *)
(*   l  Nat      response latency in microseconds                          *)
(* A configuration is a record                                             *)
(*   [minPeers, twNum, twDen, bftNum, bftDen, minTrust, minRegions]        *)
(* thresholds are the rationals twNum/twDen (normal mode) and              *)
(* bftNum/bftDen (attack mode); minTrust is per-mille.                     *)
(* cand = candidate's own trust in per-mille, -1 = unknown.                *)
(* A verdict is [valid : BOOLEAN, reasons : set of STRING].                *)
(*                                                                         *)
(* All comparisons are exact integer cross-multiplications.  The code's    *)
(* f64 comparisons agree with them except where a trust-weighted share     *)
(* equals the threshold exactly (sums of f64 weights); the P-level rules   *)
(* below are necessary conditions with non-strict inequalities, so either  *)
(* verdict is accepted exactly there and nowhere else.                     *)
(***************************************************************************)
EXTENDS Naturals, Integers, Sequences, FiniteSets, TLC

Window == 10000              \* the 10 ms similarity window, in microseconds

Idx(W) == 1 .. Len(W)
TrustOr(w, d) == IF w.t < 0 THEN d ELSE w.t

(* sum of TrustOr(W[i], d) over the indices i in I *)
SumIdx(W, I, d) ==
  LET f[n \in 0 .. Len(W)] == IF n = 0 THEN 0 ELSE f[n - 1] + (IF n \in I THEN TrustOr(W[n], d) ELSE 0)
  IN f[Len(W)]

(* ---- counts the property talks about ---- *)
TrustedIdx(W, cfg) == {i \in Idx(W) : TrustOr(W[i], 0) >= cfg.minTrust}   \* unknown trust is not "sufficiently trusted"
ConfIdx(W) == {i \in Idx(W) : W[i].c}
NTrusted(W, cfg) == Cardinality(TrustedIdx(W, cfg))
NConfTrusted(W, cfg) == Cardinality(TrustedIdx(W, cfg) \cap ConfIdx(W))
RegionsOf(W, I) == Cardinality({W[i].r : i \in {j \in I : W[j].c /\ W[j].r # 0}})
AbsDiff(a, b) == IF a < b THEN b - a ELSE a - b
PairwiseApart(W, I) == \A i, j \in I : i < j => AbsDiff(W[i].l, W[j].l) >= Window

CfgSane(cfg) == /\ cfg.minTrust > 0 /\ cfg.minTrust <= 1000
                /\ cfg.twNum > 0 /\ cfg.twNum <= cfg.twDen
                /\ cfg.bftNum > 0 /\ cfg.bftNum <= cfg.bftDen

(***************************************************************************)
(* I-level: transcription of validate_membership / validate_bft /          *)
(* validate_trust_weighted / count_confirming_regions /                    *)
(* detect_collusion_indicators in the code's decision order.               *)
(* `variant` selects a deliberately wrong design (non-vacuity runs):       *)
(*   "CountUntrusted"  BFT ratio and quorum taken over every witness       *)
(*   "SoftRegions"     region shortfall is only a warning in BFT mode too  *)
(*   "IgnoreCollusion" collusion flag raised but not acted on              *)
(***************************************************************************)
RECURSIVE SetToSeqLocal(_)
SetToSeqLocal(S) == IF S = {} THEN <<>> ELSE LET x == CHOOSE y \in S : TRUE IN <<x>> \o SetToSeqLocal(S \ {x})
LatSeq(W, I) == LET s == SetToSeqLocal(I) IN [k \in 1..Len(s) |-> W[s[k]].l]   \* any enumeration of I (sorted afterwards)

SimilarCount(s) == Cardinality({k \in 1 .. (Len(s) - 1) : s[k + 1] - s[k] < Window})
Collusion(W, I) ==
  /\ Cardinality(I) >= 3
  /\ SimilarCount(SortSeq(LatSeq(W, I), LAMBDA a, b : a < b)) > Cardinality(I) \div 2

BftCore(variant, cfg, W) ==
  LET T == IF variant = "CountUntrusted" THEN Idx(W) ELSE TrustedIdx(W, cfg)
      n == Cardinality(T)
      c == Cardinality(T \cap ConfIdx(W))
  IN IF n < cfg.minPeers THEN [valid |-> FALSE, reasons |-> {"InsufficientConfirmation"}]
     ELSE LET ratioOk == c * cfg.bftDen >= cfg.bftNum * n
              coll == Collusion(W, T)
          IN [valid |-> ratioOk /\ (~coll \/ variant = "IgnoreCollusion"),
              reasons |-> (IF ratioOk THEN {} ELSE {"InsufficientConfirmation"})
                          \cup (IF coll THEN {"SuspectedCollusion"} ELSE {})]

NormalCore(cfg, W) ==
  LET tot == SumIdx(W, Idx(W), 500)
      con == SumIdx(W, ConfIdx(W), 500)
      ok == tot > 0 /\ con * cfg.twDen >= cfg.twNum * tot
  IN [valid |-> ok, reasons |-> IF ok THEN {} ELSE {"InsufficientConfirmation"}]

Verdict(variant, bft, cfg, cand, W) ==
  IF Len(W) < cfg.minPeers THEN [valid |-> FALSE, reasons |-> {"InsufficientConfirmation"}]
  ELSE IF cand >= 0 /\ cand < cfg.minTrust THEN [valid |-> FALSE, reasons |-> {"LowTrustScore"}]
  ELSE LET core == IF bft THEN BftCore(variant, cfg, W) ELSE NormalCore(cfg, W)
           short == RegionsOf(W, Idx(W)) < cfg.minRegions /\ core.valid
       IN [valid |-> core.valid /\ ~(short /\ bft /\ variant # "SoftRegions"),
           reasons |-> core.reasons \cup (IF short THEN {"InsufficientGeographicDiversity"} ELSE {})]

(* exact-boundary case of the normal-mode share: the only place where f64 rounding may decide *)
NormalBoundary(cfg, W) ==
  LET tot == SumIdx(W, Idx(W), 500)
      con == SumIdx(W, ConfIdx(W), 500)
  IN tot > 0 /\ con * cfg.twDen = cfg.twNum * tot

(***************************************************************************)
(* P-level: the clauses of property C15 as predicates over                 *)
(* (mode, configuration, candidate trust, witness vector, verdict).        *)
(* Only these produce violations.                                          *)
(***************************************************************************)
(* attack mode: acceptance needs ... *)
BftMinTrusted(bft, cfg, W, v)  == (bft /\ v.valid) => NTrusted(W, cfg) >= cfg.minPeers
BftFraction(bft, cfg, W, v)    == (bft /\ v.valid) => NConfTrusted(W, cfg) * cfg.bftDen >= cfg.bftNum * NTrusted(W, cfg)
(* "the confirmations span the required number of regions": the weaker reading (confirmations
   of any witness) is the one enforced; the stricter one (trusted confirmations only) is tallied *)
BftRegions(bft, cfg, W, v)     == (bft /\ v.valid) => RegionsOf(W, Idx(W)) >= cfg.minRegions
BftRegionsStrict(bft, cfg, W, v) == (bft /\ v.valid) => RegionsOf(W, TrustedIdx(W, cfg)) >= cfg.minRegions
BftNoCollusionFlag(bft, v)     == (bft /\ v.valid) => "SuspectedCollusion" \notin v.reasons

(* 3f+1 (or more) trusted witnesses, at most f of them confirm: rejected, whenever the configured
   fraction exceeds one third *)
FLiarsPremise(bft, cfg, W) ==
  /\ bft /\ CfgSane(cfg) /\ 3 * cfg.bftNum > cfg.bftDen
  /\ NTrusted(W, cfg) >= 3 * NConfTrusted(W, cfg) + 1
FLiarsCannotForce(bft, cfg, W, v) == FLiarsPremise(bft, cfg, W) => ~v.valid

(* normal mode: the confirming share of witness trust reaches the threshold.  The property does
   not say what an unknown trust weighs: any weight u in [0,1] is admitted (the share is monotone
   in u, so the end points decide; the code's 0.5 is included for readability) *)
ShareOk(cfg, W, u) ==
  LET tot == SumIdx(W, Idx(W), u)
      con == SumIdx(W, ConfIdx(W), u)
  IN tot > 0 /\ con * cfg.twDen >= cfg.twNum * tot
NormalNeeds(bft, cfg, W, v) ==
  (~bft /\ v.valid /\ cfg.twNum > 0) => (ShareOk(cfg, W, 0) \/ ShareOk(cfg, W, 500) \/ ShareOk(cfg, W, 1000))

(* unanimous confirmation of a sufficiently trusted candidate by enough trusted, regionally spread
   witnesses with distinct response times is accepted (both modes).  Narrowest reading of the
   premise: every witness is trusted, confirms, and all response times are pairwise >= 10 ms apart *)
UnanimousPremise(cfg, cand, W) ==
  /\ CfgSane(cfg)
  /\ cand >= cfg.minTrust
  /\ Len(W) >= cfg.minPeers
  /\ \A i \in Idx(W) : W[i].c /\ W[i].t >= cfg.minTrust
  /\ RegionsOf(W, Idx(W)) >= cfg.minRegions
  /\ PairwiseApart(W, Idx(W))
UnanimousAccepted(cfg, cand, W, v) == UnanimousPremise(cfg, cand, W) => v.valid

(* turning one confirmation into a denial *)
Flip(W, i) == [W EXCEPT ![i].c = FALSE]
FlipMonotone(v, vflip) == ~v.valid => ~vflip.valid

(* name of the first clause that verdict v breaks for this input, "" if none *)
Broken(bft, cfg, cand, W, v) ==
  IF ~BftMinTrusted(bft, cfg, W, v) THEN "BftMinTrusted"
  ELSE IF ~BftFraction(bft, cfg, W, v) THEN "BftFraction"
  ELSE IF ~BftRegions(bft, cfg, W, v) THEN "BftRegions"
  ELSE IF ~BftNoCollusionFlag(bft, v) THEN "BftNoCollusionFlag"
  ELSE IF ~FLiarsCannotForce(bft, cfg, W, v) THEN "FLiarsCannotForce"
  ELSE IF ~NormalNeeds(bft, cfg, W, v) THEN "NormalNeeds"
  ELSE IF ~UnanimousAccepted(cfg, cand, W, v) THEN "UnanimousAccepted"
  ELSE ""
=============================================================================
