SPECIFICATION Spec
CONSTANTS
  Window = 10
  AsImplemented_FailureRefreshesLastSeen = TRUE
  AsImplemented_ZeroLatencyNoData = TRUE
  AsImplemented_NaNReputation = TRUE
  AsImplemented_DecayFactorUnchecked = TRUE
  AsImplemented_TypeRateZeroIsNoData = TRUE
  AsImplemented_EFoldingRecency = TRUE
  Variant_FailureNotCounted = FALSE
INVARIANT Report
CHECK_DEADLOCK FALSE
