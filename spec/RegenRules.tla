---------------------------- MODULE RegenRules ----------------------------
(***************************************************************************)
(* Transition / verdict functions of the identity regeneration decision    *)
(* logic (src/identity/regeneration.rs: RegenerationTrigger) and of the    *)
(* rejection bookkeeping it consumes (src/identity/rejection.rs:           *)
(* RejectionReason, RejectionInfo, RejectionHistory).  Shared by the model *)
(* (Regen.tla) and the acceptor (Trace_Regen.tla).                         *)
(*                                                                         *)
(* Trigger state s (TriggerState + RegenerationConfig):                    *)
(*   c      configuration [base, maxd, maxatt, window, cbthr, cbreset,     *)
(*          jit (per-mille), track, bits, hcap]                            *)
(*   en     not manually disabled                                          *)
(*   fails  consecutive_failures                                           *)
(*   bo     current_backoff                                                *)
(*   la     last_attempt (-1 = None)                                       *)
(*   att    timestamps of the recorded attempts (Vec<RegenerationAttempt>) *)
(*   open   circuit_state is Open,  oa = opened_at (-1 when closed)        *)
(*   pref   rejected prefixes (set of byte sequences)                      *)
(*   hist   the trigger's private RejectionHistory (written, never read)   *)
(* A history h is [items |-> sequence of <<reason, unix second>>, cap].    *)
(* A NodeId is the sequence of its leading bytes.  Time is an integer      *)
(* (model: ticks, acceptor: microseconds for Instant, seconds for          *)
(* SystemTime).  Rejection reasons are their wire bytes.                   *)
(* A decision is a record [kind, urg, why, c, tgt, rem, secs, att, max].   *)
(***************************************************************************)
EXTENDS Naturals, Integers, Sequences, FiniteSets, TLC

CONSTANTS SecUnit,   \* one second in units of the monotonic clock (resets_in_secs)
          Epoch,     \* the unix epoch in units of the wall clock the histories use (saturating_sub stops there)
          AsImplemented_JitterAboveMax,           \* jitter is added after the clamp to max_delay: the backoff exceeds max_delay
          AsImplemented_OpenAfterReset,           \* the circuit stays "Open" after circuit_breaker_reset although nothing is blocked any more
          AsImplemented_RegionLimitNotBlocking,   \* RegionLimit: "regeneration won't help", yet is_blocking() = false
          AsImplemented_RateLimitedAsDiversity,   \* RateLimited ("should wait before retrying") is answered Blocked{DiversityConstraint}
          AsImplemented_IgnoresRecommendation,    \* evaluate_rejection proceeds although RejectionInfo::should_regenerate() is false
          AsImplemented_DefaultKeepsNothing,      \* RejectionHistory::default() has max_entries = 0: record() keeps nothing
          Variant_CriticalSkipsCooldown           \* WRONG on purpose: a NodeIdCollision (critical) ignores the backoff

(* ---- helpers ---- *)
MinOf(a, b) == IF a < b THEN a ELSE b
MaxOf(a, b) == IF a > b THEN a ELSE b
Elems(q) == {q[i] : i \in 1..Len(q)}
RECURSIVE TwoTo(_)
TwoTo(n) == IF n = 0 THEN 1 ELSE 2 * TwoTo(n - 1)

(* ---- RejectionReason (wire bytes) ---- *)
KS == 1  S64 == 2  S48 == 3  S32 == 4  ASN == 5  REG == 6  CGF == 7  NIC == 8  RL == 9  BL == 11  GEO == 12  OTH == 255
Reasons == {KS, S64, S48, S32, ASN, REG, CGF, NIC, RL, BL, GEO, OTH}
FromByte(b) == IF b \in Reasons THEN b ELSE OTH                                    \* from_byte; to_byte is the identity
MayHelp(r) == r \in {KS, CGF, NIC, OTH}                                            \* regeneration_may_help
IsDiversity(r) == r \in {S64, S48, S32, ASN, REG}                                  \* is_diversity_constraint
IsBlocking(r) == r \in {BL, S64, S48, S32, ASN, GEO} \cup (IF AsImplemented_RegionLimitNotBlocking THEN {} ELSE {REG})   \* is_blocking
(* the documentation of the variants: "regeneration won't help" / "should wait" / "regeneration may help" *)
DocPermanent == {S64, S48, S32, ASN, REG, BL, GEO}
DocTransient == {RL}
DocHelpful == {KS, CGF, NIC, OTH}
(* RejectionInfo::new(reason) [.with_regeneration_recommended(o)]: ov = -1 none, 0 false, 1 true *)
Recommended(r, ov) == IF ov < 0 THEN MayHelp(r) ELSE ov = 1
ShouldRegenerate(r, rec) == rec /\ MayHelp(r)                                      \* RejectionInfo::should_regenerate

(* ---- RejectionHistory ---- *)
HNew == [items |-> <<>>, cap |-> 100]                                              \* new()
HWithCap(n) == [items |-> <<>>, cap |-> MinOf(n, 1000)]                            \* with_capacity
HDefault == [items |-> <<>>, cap |-> IF AsImplemented_DefaultKeepsNothing THEN 0 ELSE 100]   \* #[derive(Default)]
HRecord(h, r, t) ==                                                                \* record: push, drain the oldest beyond max_entries
  LET q == Append(h.items, <<r, t>>)  n == Len(q)
  IN [h EXCEPT !.items = IF n > h.cap THEN SubSeq(q, n - h.cap + 1, n) ELSE q]
(* recent(duration): whole seconds of the duration, saturating at the epoch; dms < 0 stands for "longer than the epoch is old" *)
Cutoff(now, dms) == IF dms < 0 THEN Epoch ELSE MaxOf(Epoch, now - dms \div 1000)
HRecent(h, now, dms) == SelectSeq(h.items, LAMBDA e : e[2] >= Cutoff(now, dms))
HCount(h, r) == Len(SelectSeq(h.items, LAMBDA e : e[1] = r))                       \* count_by_reason
HLoop(h, now, thr, dms) == Len(HRecent(h, now, dms)) >= thr                        \* is_in_rejection_loop
HPresent(h) == {e[1] : e \in Elems(h.items)}
HCommonSet(h) == {r \in HPresent(h) : \A q \in HPresent(h) : HCount(h, q) <= HCount(h, r)}   \* most_common_reason: one of these (ties: any)
HClear(h) == [h EXCEPT !.items = <<>>]

(* ---- backoff: calculate_next_backoff(failures) ---- *)
RECURSIVE Doubled(_, _, _)
Doubled(x, f, cap) == IF f = 0 \/ x >= cap THEN MinOf(x, cap) ELSE Doubled(2 * x, f - 1, cap)
Clamped(c, f) == Doubled(c.base, f, c.maxd)                                        \* min(base * 2^f, max)
JitterSpan(c, f) == (Clamped(c, f) * c.jit) \div 1000                              \* clamped * jitter_factor
BackoffLo(c, f) == MaxOf(c.base, Clamped(c, f) - JitterSpan(c, f))                 \* ... .max(base)
BackoffHiRaw(c, f) == MaxOf(c.base, Clamped(c, f) + JitterSpan(c, f))
BackoffHi(c, f) == IF AsImplemented_JitterAboveMax THEN BackoffHiRaw(c, f) ELSE MaxOf(c.base, MinOf(BackoffHiRaw(c, f), c.maxd))
BackoffOk(c, f, b, eps) == b >= BackoffLo(c, f) - eps /\ b <= BackoffHi(c, f) + eps

(* ---- prefixes: extract_prefix ---- *)
Prefix(id, bits) ==
  LET full == bits \div 8  rem == bits % 8  head == SubSeq(id, 1, full)
  IN IF rem > 0 /\ full < Len(id) THEN Append(head, (id[full + 1] \div TwoTo(8 - rem)) * TwoTo(8 - rem)) ELSE head
IsPrefixRejected(s, id) == Prefix(id, s.c.bits) \in s.pref                          \* is_prefix_rejected

(* ---- the trigger ---- *)
NewTrigger(c) == [c |-> c, en |-> TRUE, fails |-> 0, bo |-> 0, la |-> -1, att |-> <<>>, open |-> FALSE, oa |-> -1, pref |-> {},
                  hist |-> [HNew EXCEPT !.cap = c.hcap]]
RecordAttempt(s, now, b) ==          \* record_attempt; b = the backoff drawn by calculate_next_backoff(consecutive_failures)
  [s |-> [s EXCEPT !.att = Append(@, now), !.la = now, !.bo = b], ok |-> TRUE]
RecordResult(s, now, succeeded, id) ==   \* record_result
  IF succeeded THEN [s |-> [s EXCEPT !.fails = 0, !.bo = s.c.base, !.open = FALSE, !.oa = -1], ok |-> TRUE]
  ELSE LET f == s.fails + 1  trip == f >= s.c.cbthr
       IN [s |-> [s EXCEPT !.fails = f, !.pref = IF s.c.track THEN @ \cup {Prefix(id, s.c.bits)} ELSE @,
                           !.open = @ \/ trip, !.oa = IF trip THEN now ELSE @], ok |-> TRUE]
Disable(s) == [s |-> [s EXCEPT !.en = FALSE], ok |-> TRUE]
Enable(s) == [s |-> [s EXCEPT !.en = TRUE], ok |-> TRUE]
ResetOp(s) ==                         \* reset: everything but the rejection history
  [s |-> [s EXCEPT !.att = <<>>, !.pref = {}, !.open = FALSE, !.oa = -1, !.fails = 0, !.la = -1, !.bo = 0, !.en = TRUE], ok |-> TRUE]
IsCircuitOpen(s, now) == s.open /\ (AsImplemented_OpenAfterReset \/ now - s.oa < s.c.cbreset)    \* is_circuit_open

(* what the clock decides: check_blocking_conditions / count_recent_attempts / check_backoff *)
RecentAttempts(s, now) == Cardinality({i \in 1..Len(s.att) : s.att[i] >= now - s.c.window})
Gates(s, now) ==
  LET cb == s.open /\ now - s.oa < s.c.cbreset
      w == s.la >= 0 /\ now - s.la < s.bo
  IN [cb |-> cb, secs |-> IF cb THEN (s.c.cbreset - (now - s.oa)) \div SecUnit ELSE 0,
      recent |-> RecentAttempts(s, now), waiting |-> w, rem |-> IF w THEN s.bo - (now - s.la) ELSE 0]

NoD == [kind |-> "none", urg |-> "-", why |-> "-", c |-> 0, tgt |-> FALSE, rem |-> 0, secs |-> 0, att |-> 0, max |-> 0]
D(kind) == [NoD EXCEPT !.kind = kind]
Blocked(why) == [NoD EXCEPT !.kind = "Blocked", !.why = why]
(* blocking conditions, then the backoff; "pass" = nothing stands in the way *)
Gate(s, g) ==
  IF ~s.en THEN Blocked("ManuallyDisabled")
  ELSE IF g.cb THEN [Blocked("CircuitBreakerOpen") EXCEPT !.secs = g.secs]
  ELSE IF g.recent >= s.c.maxatt THEN [Blocked("MaxAttemptsReached") EXCEPT !.att = g.recent, !.max = s.c.maxatt]
  ELSE IF g.waiting THEN [D("Wait") EXCEPT !.rem = g.rem]
  ELSE D("pass")
UrgencyOfReason(r) == CASE r = NIC -> "Critical" [] r = KS -> "High" [] r = CGF -> "Medium" [] OTHER -> "Low"
(* evaluate_rejection, the decision part; retry = retry_after in clock units (only the intended design looks at it) *)
DecideRejection(s, g, r, rec, tgt, retry) ==
  IF r = BL THEN Blocked("Blocklisted")
  ELSE IF r = RL /\ ~AsImplemented_RateLimitedAsDiversity THEN [D("Wait") EXCEPT !.rem = retry]
  ELSE IF ~MayHelp(r) THEN [Blocked("DiversityConstraint") EXCEPT !.c = r]
  ELSE IF ~AsImplemented_IgnoresRecommendation /\ ~rec THEN D("NotNeeded")
  ELSE LET gd == Gate(s, IF Variant_CriticalSkipsCooldown /\ r = NIC THEN [g EXCEPT !.waiting = FALSE] ELSE g)
       IN IF gd.kind # "pass" THEN gd ELSE [D("Proceed") EXCEPT !.urg = UrgencyOfReason(r), !.tgt = tgt]
Verdicts == {"healthy", "marginal", "unfit", "critical"}
DecideFitness(s, g, v) ==               \* evaluate_fitness
  IF v \notin {"unfit", "critical"} THEN (IF v = "marginal" THEN [D("Recommend") EXCEPT !.why = "Fitness is marginal"] ELSE D("NotNeeded"))
  ELSE LET gd == Gate(s, g)
       IN IF gd.kind # "pass" THEN gd ELSE [D("Proceed") EXCEPT !.urg = IF v = "critical" THEN "Critical" ELSE "Medium"]
(* evaluate_rejection records the rejection (wall-clock second ts) in the private history, then decides *)
EvalRejection(s, now, r, rec, tgt, retry, ts) ==
  [s |-> [s EXCEPT !.hist = HRecord(@, r, ts)], d |-> DecideRejection(s, Gates(s, now), r, rec, tgt, retry)]
EvalFitness(s, now, v) == [s |-> s, d |-> DecideFitness(s, Gates(s, now), v)]
=============================================================================
