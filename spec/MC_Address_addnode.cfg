SPECIFICATION Spec
CONSTANTS
  AsImplemented_FromStrNoSuffix = FALSE
  AsImplemented_AddNodeNoSuffix = TRUE
  AsImplemented_Port65535 = FALSE
INVARIANTS EveryHopSame InteropHolds
CHECK_DEADLOCK FALSE
