--------------------------- MODULE Trace_RateLimit ---------------------------
(***************************************************************************)
(* Acceptor for request histories recorded from the real limiters          *)
(* (harness module c14): rate_limit::Engine, validation::RateLimiter::     *)
(* check_ip, rate_limit::JoinRateLimiter::check_join_allowed.              *)
(*                                                                         *)
(* Reset {api, seq, lv}   lv[i] = <<W, max, burst>> of level i, W in ticks *)
(* Req {tb, ta, ok, keys} the call ran inside the tick band [tb, ta]; keys *)
(*                        = the <<level, bucket name>> pairs it draws on   *)
(* Events are ordered by tb.  Only upper bounds are judged (RateLimit.tla: *)
(* BurstBound, WindowBound), with the longest span the bands allow, so     *)
(* timing noise can only loosen the bound.  The one lower bound            *)
(* (KeyIsolation: a request whose every bucket has seen fewer than         *)
(* min(burst,max) attempts must pass) does not depend on time and is only  *)
(* applied to single-threaded segments.                                    *)
(***************************************************************************)
EXTENDS Naturals, Integers, Sequences, FiniteSets, TLC, Json, IOUtils

Rec == ndJsonDeserialize(IOEnv.TRACE)
N == Len(Rec)

VARIABLES l, cfg, adm, att, viol, nviol, nreq
vars == <<l, cfg, adm, att, viol, nviol, nreq>>
Ev == Rec[l]
Max2(a, b) == IF a > b THEN a ELSE b
Min2(a, b) == IF a < b THEN a ELSE b
Empty == [x \in {} |-> 0]
Get(f, k, d) == IF k \in DOMAIN f THEN f[k] ELSE d
Put(f, k, v) == [x \in DOMAIN f \cup {k} |-> IF x = k THEN v ELSE f[x]]

Note(clause, cond) ==
  /\ nviol' = nviol + 1
  /\ viol' = IF Len(viol) < 100 THEN Append(viol, [line |-> l, clause |-> clause, cond |-> cond]) ELSE viol

Init == l = 1 /\ cfg = [seq |-> FALSE, lv |-> <<>>, names |-> <<>>] /\ adm = Empty /\ att = Empty
        /\ viol = <<>> /\ nviol = 0 /\ nreq = 0

Reset == /\ Ev.ev = "Reset" /\ cfg' = [seq |-> Ev.seq, lv |-> Ev.lv, names |-> Ev.names]
         /\ adm' = Empty /\ att' = Empty /\ UNCHANGED <<viol, nviol, nreq>>

(* s: admissions of one bucket in trace order, the new one last; scan the suffixes i..n.     *)
(* d = longest span the bands allow for admissions i..n.  0 ok, 1 burst+refill, 2 window.   *)
RECURSIVE Scan(_, _, _, _)
Scan(s, i, mx, lv) ==
  IF i = 0 THEN 0 ELSE
  LET mx2 == Max2(mx, s[i].ta)
      d == mx2 - s[i].tb
      m == Len(s) - i + 1
      W == lv[1]  max == lv[2]  burst == lv[3] IN
  IF m - burst > 400 THEN 0          \* suffixes are scanned up to 400 admissions beyond the burst (32-bit products); longer ones are not judged
  ELSE IF m > burst /\ (m - burst) * W > d * max THEN 1
  ELSE IF d <= W /\ m > 2 * max THEN 2
  ELSE Scan(s, i - 1, mx2, lv)

Name(k) == k[2]
Lv(k) == cfg.lv[k[1]]
Lim(k) == Min2(Lv(k)[2], Lv(k)[3])

Req ==
  /\ Ev.ev = "Req" /\ nreq' = nreq + 1
  /\ LET ks == Ev.keys
         idx == 1..Len(ks)
         new(i) == Append(Get(adm, Name(ks[i]), <<>>), [tb |-> Ev.tb, ta |-> Ev.ta])
         code(i) == Scan(new(i), Len(new(i)), 0, Lv(ks[i]))
         badi == {i \in idx : code(i) > 0}
         names == {Name(ks[i]) : i \in idx} IN
     /\ att' = [x \in DOMAIN att \cup names |-> IF x \in names THEN Get(att, x, 0) + 1 ELSE att[x]]
     /\ IF Ev.ok
        THEN /\ adm' = [x \in DOMAIN adm \cup names |->
                          IF x \in names THEN new(CHOOSE i \in idx : Name(ks[i]) = x) ELSE adm[x]]
             /\ IF badi = {} THEN UNCHANGED <<viol, nviol>>
                ELSE LET i == CHOOSE j \in badi : \A j2 \in badi : j <= j2 IN
                     Note(IF code(i) = 1 THEN "BurstPlusRefill" ELSE "WindowMax", cfg.names[ks[i][1]])
        ELSE /\ UNCHANGED adm
             /\ IF cfg.seq /\ \A i \in idx : Get(att, Name(ks[i]), 0) < Lim(ks[i])
                THEN Note("KeyIsolation", Ev.by) ELSE UNCHANGED <<viol, nviol>>
  /\ UNCHANGED cfg

Panic == Ev.ev = "Panic" /\ Note("NoPanic", Ev.via) /\ UNCHANGED <<cfg, adm, att, nreq>>

Next == /\ l <= N /\ l' = l + 1
        /\ (Reset \/ Req \/ Panic)
Spec == Init /\ [][Next]_vars

Report == (l = N + 1) =>
  JsonSerialize(IOEnv.OUT, [consumed |-> l - 1, total |-> N, nviol |-> nviol, checked |-> nreq, viol |-> viol])
=============================================================================
