----------------------------- MODULE RateLimit -----------------------------
(***************************************************************************)
(* Token bucket + fixed window limiter of saorsa-core (src/rate_limit.rs:  *)
(* Bucket::try_consume, Engine::{try_consume_global, try_consume_key}) in  *)
(* the composition used by validation::RateLimiter::check_ip and           *)
(* JoinRateLimiter::check_join_allowed: a request first takes from the     *)
(* shared (global) bucket, then from the bucket of its key.                *)
(*                                                                         *)
(* Discrete time.  Token amounts are scaled by W (one token = W units) so  *)
(* that the refill of `max` tokens per window is `max` units per tick.     *)
(*                                                                         *)
(* Property C14: per bucket, admitted <= burst + refill earned, never more *)
(* than the per-window maximum, keys do not consume each other's budget,   *)
(* a denial never increases any budget.                                    *)
(***************************************************************************)
EXTENDS Naturals, Integers, Sequences, FiniteSets, TLC

CONSTANTS Keys, W, H, MaxBurst, MaxMax,
          GMul,                            \* the shared bucket has GMul times the burst and maximum of a key (1: check_ip, >1: join limiter)
          Variant_RefillFromWindowStart,   \* TRUE = elapsed time measured from the window start, not the last update
          Variant_NoCap,                   \* TRUE = tokens not capped at the burst size
          Variant_SharedBucket             \* TRUE = every key uses the same bucket

G == 0                                     \* the shared bucket
Levels == Keys \cup {G}
Min2(a, b) == IF a < b THEN a ELSE b

(* ---- P-level bounds, shared in shape with Trace_RateLimit ------------------------------ *)
(* times: ascending sequence of admission instants of one bucket                            *)
BurstBound(times, burst, max, w) ==
  \A i, j \in 1..Len(times) : i <= j => (j - i + 1 - burst) * w <= (times[j] - times[i]) * max
(* every span of at most one window length holds at most 2*max admissions (fixed windows of *)
(* any alignment) - the reading that a sliding window would tighten to max                  *)
WindowBound(times, max, w) ==
  \A i, j \in 1..Len(times) : (i <= j /\ times[j] - times[i] <= w) => j - i + 1 <= 2 * max

VARIABLES now, burst, max, b, adm, att, last, bad
vars == <<now, burst, max, b, adm, att, last, bad>>

Bu(x) == IF x = G THEN burst * GMul ELSE burst
Mx(x) == IF x = G THEN max * GMul ELSE max
Fresh(t, bu) == [tok |-> bu * W, upd |-> t, ws |-> t, wc |-> 0, live |-> TRUE]
Dead == [tok |-> 0, upd |-> 0, ws |-> 0, wc |-> 0, live |-> FALSE]

(* the purely time-driven part of try_consume: window roll-over and refill *)
Refresh(bk, t, bu, mx) ==
  LET roll == t - bk.ws > W
      el   == t - (IF Variant_RefillFromWindowStart THEN bk.ws ELSE bk.upd)
      tk   == bk.tok + el * mx IN
  [tok |-> IF Variant_NoCap THEN tk ELSE Min2(tk, bu * W), upd |-> t,
   ws |-> IF roll THEN t ELSE bk.ws, wc |-> IF roll THEN 0 ELSE bk.wc, live |-> TRUE]

Take(bk, t, bu, mx) ==
  LET r == Refresh(IF bk.live THEN bk ELSE Fresh(t, bu), t, bu, mx) IN
  IF r.tok >= W /\ r.wc < mx THEN [ok |-> TRUE, bk |-> [r EXCEPT !.tok = @ - W, !.wc = @ + 1]]
  ELSE [ok |-> FALSE, bk |-> r]

Slot(k) == IF Variant_SharedBucket THEN CHOOSE k0 \in Keys : TRUE ELSE k

Init == /\ now = 0 /\ burst \in 1..MaxBurst /\ max \in 1..MaxMax
        /\ b = [x \in Levels |-> IF x = G THEN Fresh(0, burst * GMul) ELSE Dead]
        /\ adm = [x \in Levels |-> <<>>] /\ att = [x \in Levels |-> 0]
        /\ last = [kind |-> "none"] /\ bad = FALSE

Tick == /\ now < H /\ now' = now + 1 /\ last' = [kind |-> "tick"]
        /\ UNCHANGED <<burst, max, b, adm, att, bad>>

Lim == Min2(burst, max)
Request(k) ==
  LET g == Take(b[G], now, Bu(G), Mx(G))
      s == Slot(k)
      q == Take(b[s], now, burst, max)
      ok == g.ok /\ q.ok IN
  /\ b' = IF g.ok THEN [b EXCEPT ![G] = g.bk, ![s] = q.bk] ELSE [b EXCEPT ![G] = g.bk]
  /\ adm' = [adm EXCEPT ![G] = IF g.ok THEN Append(@, now) ELSE @,
                        ![k] = IF ok THEN Append(@, now) ELSE @]
  /\ att' = [att EXCEPT ![G] = Min2(@ + 1, Lim * GMul), ![k] = Min2(@ + 1, Lim)]
  (* a request that finds the shared bucket and its own key within their guaranteed allowance must pass *)
  /\ bad' = (bad \/ (att[G] < Lim * GMul /\ att[k] < Lim /\ ~ok))
  /\ last' = [kind |-> "req", k |-> k, s |-> s, ok |-> ok, gok |-> g.ok]
  /\ UNCHANGED <<now, burst, max>>

Next == Tick \/ \E k \in Keys : Request(k)
Spec == Init /\ [][Next]_vars

(* ---- properties ---- *)
TypeOK == now \in 0..H /\ burst \in 1..MaxBurst /\ max \in 1..MaxMax
BurstPlusRefill == \A x \in Levels : BurstBound(adm[x], Bu(x), Mx(x), W)
WindowMax == /\ \A x \in Levels : WindowBound(adm[x], Mx(x), W)
             /\ \A x \in Levels : b[x].wc <= Mx(x)                       \* I-level: the fixed window itself
KeyIsolation == ~bad
(* only the requested key's bucket (and the shared one) changes *)
OthersUntouched == [][\A x \in Keys : b'[x] # b[x] => (last'.kind = "req" /\ last'.s = x)]_vars
(* a denied request leaves every budget at most where the passage of time alone puts it *)
DenialNeverIncreases ==
  [][(last'.kind = "req" /\ ~last'.ok /\ now' = now) =>
       \A x \in Levels : b'[x] = b[x] \/ LET r == Refresh(IF b[x].live THEN b[x] ELSE Fresh(now, Bu(x)), now, Bu(x), Mx(x)) IN
                                          /\ b'[x].tok <= r.tok /\ b'[x].wc >= r.wc /\ b'[x].ws = r.ws]_vars
=============================================================================
