---------------------------- MODULE ResourceRules ----------------------------
(***************************************************************************)
(* ResourceManager (src/production.rs): transition functions shared by the *)
(* model (Resource.tla) and the acceptor (Trace_Resource.tla).             *)
(*                                                                         *)
(* Two clocks.  `s.now` is tokio time (milliseconds in the trace): the     *)
(* background tasks' intervals, the shutdown timeout and the driver's      *)
(* acquire timeout run on it.  The token buckets and the bandwidth window  *)
(* read std::time::Instant: every operation gets the band [t0, t1] of real *)
(* time (microseconds in the trace) in which it ran, a bucket keeps the    *)
(* band [tLo, tHi] of its last refill and the band [lo, hi] of its token   *)
(* count (Unit = one token), the bandwidth window the band [rLo, rHi] of   *)
(* its last reset.  The model uses one clock and degenerate bands.         *)
(*                                                                         *)
(* Every operation yields [s |-> new state, ok |-> 0 (false / Err),        *)
(* 1 (true / Ok), 2 (pending), dt |-> tokio time that passes inside].      *)
(***************************************************************************)
EXTENDS Integers, Sequences, FiniteSets

CONSTANTS Unit,      \* token scale: one token
          TPS,       \* real-time units per second
          Window,    \* BandwidthTracker window (ResourceManager::new: 1 s), real-time units
          Expire,    \* RateLimiter::is_expired: idle for more than 5 minutes, real-time units
          AsImplemented_SharedPeerBucket,           \* rate_limiters is keyed by peer only; parameters of the first operation seen
          AsImplemented_SwappedBurstRate,           \* RateLimiter::new(limit, burst_capacity): capacity = ops_per_sec, refill = burst_capacity
          AsImplemented_WaiterAdmittedAfterShutdown,\* is_shutting_down is read before the await only: a queued acquire is granted during shutdown
          AsImplemented_LostShutdownSignal,         \* notify_waiters() reaches only tasks already parked in notified()
          AsImplemented_WindowRollReportsZero,      \* current_usage() answers 0 (and forgets the bytes) whenever the window has elapsed
          Variant_DoubleRelease                     \* wrong variant: dropping a guard returns two permits

Lo(a, b) == IF a < b THEN a ELSE b
Hi(a, b) == IF a > b THEN a ELSE b
With(f, p, v) == [q \in DOMAIN f \cup {p} |-> IF q = p THEN v ELSE f[q]]
Without(f, p) == [q \in DOMAIN f \ {p} |-> f[q]]
SeqSet(q) == {q[i] : i \in 1..Len(q)}
Known == {"dht", "mcp", "message"}

(* ---- initial state: ResourceManager::new(cfg) at real time [t0, t1]; cfg = [max, dht, mcp, message, burst, ivM, ivH,
   ivC, track, cleanup, shutTo, acqTo, maxMem] ---- *)
New(cfg, t0, t1) ==
  [cfg |-> cfg, avail |-> cfg.max, guards |-> {}, waiters |-> <<>>, shut |-> FALSE, nshut |-> 0, late |-> 0,
   buckets |-> <<>>, bytes |-> 0, rLo |-> t0, rHi |-> t1, mConn |-> 0, mBw |-> 0, mem |-> 0, tasks |-> <<>>, now |-> 0]

(* ---- connections: acquire_connection / ConnectionGuard::drop ---- *)
Acquire(s, k) ==          \* foreground, under the driver's timeout: refused while shutting down, else waits for a permit
  IF s.shut THEN [s |-> s, ok |-> 0, dt |-> 0]
  ELSE IF s.avail > 0 THEN [s |-> [s EXCEPT !.avail = @ - 1, !.guards = @ \cup {k}], ok |-> 1, dt |-> 0]
  ELSE [s |-> s, ok |-> 2, dt |-> s.cfg.acqTo]
AcquireBg(s, k) ==        \* the same call in a task of its own: it queues (FIFO) at the limit
  IF s.shut THEN [s |-> s, ok |-> 0, dt |-> 0]
  ELSE IF s.avail > 0 THEN [s |-> [s EXCEPT !.avail = @ - 1, !.guards = @ \cup {k}], ok |-> 1, dt |-> 0]
  ELSE [s |-> [s EXCEPT !.waiters = Append(@, k)], ok |-> 2, dt |-> 0]
RECURSIVE Serve(_)
Serve(s) ==               \* released permits go to the queued acquires, oldest first
  IF s.avail > 0 /\ s.waiters # <<>>
  THEN Serve([s EXCEPT !.avail = @ - 1, !.guards = @ \cup {Head(s.waiters)}, !.waiters = Tail(@),
                       !.late = IF s.shut THEN @ + 1 ELSE @])
  ELSE s
DropGuard(s, k) ==        \* Drop of the guard = Drop of its OwnedSemaphorePermit
  IF k \notin s.guards THEN [s |-> s, ok |-> 0, dt |-> 0]
  ELSE [s |-> Serve([s EXCEPT !.guards = @ \ {k}, !.avail = @ + (IF Variant_DoubleRelease THEN 2 ELSE 1)]), ok |-> 1, dt |-> 0]
Abort(s, k) ==            \* the waiting future is dropped
  [s |-> [s EXCEPT !.waiters = SelectSeq(@, LAMBDA x : x # k)], ok |-> 1, dt |-> 0]

(* ---- check_rate_limit / RateLimiter::try_acquire ---- *)
LimitOf(s, o) == CASE o = "dht" -> s.cfg.dht [] o = "mcp" -> s.cfg.mcp [] OTHER -> s.cfg.message
KeyOf(p, o) == IF AsImplemented_SharedPeerBucket THEN <<p, "*">> ELSE <<p, o>>
PerUnit(r) == (r * Unit) \div TPS          \* tokens per second -> token units per real-time unit
NewBucket(s, o, t0, t1) ==
  LET cap == Unit * (IF AsImplemented_SwappedBurstRate THEN LimitOf(s, o) ELSE s.cfg.burst)
      rate == PerUnit(IF AsImplemented_SwappedBurstRate THEN s.cfg.burst ELSE LimitOf(s, o))
  IN [lo |-> cap, hi |-> cap, cap |-> cap, rate |-> rate, tLo |-> t0, tHi |-> t1]
Refilled(b, t0, t1) ==    \* tokens = min(max_tokens, tokens + elapsed * refill_rate); last_refill = now
  LET c(e) == IF b.rate = 0 THEN 0 ELSE Lo(e, b.cap \div b.rate + 1)
  IN [b EXCEPT !.lo = Lo(b.cap, b.lo + c(Hi(0, t0 - b.tHi)) * b.rate),
               !.hi = Lo(b.cap, b.hi + c(Hi(0, t1 - b.tLo)) * b.rate), !.tLo = t0, !.tHi = t1]
BucketAt(s, p, o, t0, t1) ==
  IF KeyOf(p, o) \in DOMAIN s.buckets THEN Refilled(s.buckets[KeyOf(p, o)], t0, t1) ELSE NewBucket(s, o, t0, t1)
CheckOutcomes(s, p, o, t0, t1) ==          \* the answers that are right for some instant of the band
  IF o \notin Known THEN {1}
  ELSE LET b == BucketAt(s, p, o, t0, t1) IN {x \in {0, 1} : (x = 1 => b.hi >= Unit) /\ (x = 0 => b.lo < Unit)}
CheckApply(s, p, o, t0, t1, ok) ==         \* the state after the answer `ok`: a denial takes nothing
  IF o \notin Known THEN [s |-> s, ok |-> 1, dt |-> 0]
  ELSE LET b == BucketAt(s, p, o, t0, t1)
           nb == IF ok = 1 THEN [b EXCEPT !.lo = Hi(b.lo, Unit) - Unit, !.hi = Hi(b.hi, Unit) - Unit]
                 ELSE [b EXCEPT !.lo = Lo(b.lo, Unit - 1), !.hi = Lo(b.hi, Unit - 1)]
       IN [s |-> [s EXCEPT !.buckets = With(s.buckets, KeyOf(p, o), nb)], ok |-> ok, dt |-> 0]
CleanupBuckets(s, t0, t1) ==               \* cleanup_resources: limiters idle for more than Expire are forgotten
  [s EXCEPT !.buckets = [q \in {x \in DOMAIN s.buckets : ~(t0 - s.buckets[x].tHi > Expire)} |-> s.buckets[q]]]

(* ---- record_bandwidth / BandwidthTracker::current_usage / collect_metrics ---- *)
Record(s, n) == [s |-> [s EXCEPT !.bytes = @ + n], ok |-> 1, dt |-> 0]
Rate(bytes, e) == IF e > 0 THEN (bytes * TPS) \div e ELSE 0
CollectOptions(s, t0, t1) ==               \* [reset, lo, hi]: what current_usage() may answer in the band, and whether it resets
  LET eLo == Hi(0, t0 - s.rHi)
      eHi == Hi(0, t1 - s.rLo)
      top(e) == IF e > 0 THEN Rate(s.bytes, e) ELSE IF eHi = 0 THEN 0 ELSE s.bytes * TPS
  IN (IF eLo < Window THEN {[reset |-> FALSE, lo |-> Rate(s.bytes, Lo(eHi, Window)), hi |-> top(eLo)]} ELSE {})
     \cup (IF eHi >= Window
           THEN {IF AsImplemented_WindowRollReportsZero THEN [reset |-> TRUE, lo |-> 0, hi |-> 0]
                 ELSE [reset |-> TRUE, lo |-> Rate(s.bytes, eHi), hi |-> Rate(s.bytes, Hi(eLo, Window))]}
           ELSE {})
ApplyCollect(s, opt, bw, t0, t1, avail) == \* collect_metrics: the snapshot get_metrics() hands out
  [s EXCEPT !.mConn = s.cfg.max - avail, !.mBw = bw,
            !.bytes = IF opt.reset THEN 0 ELSE @, !.rLo = IF opt.reset THEN t0 ELSE @, !.rHi = IF opt.reset THEN t1 ELSE @]

(* ---- health_check: only the memory limit makes it fail; nothing ever writes memory_used ---- *)
Health(s) == [s |-> s, ok |-> IF s.cfg.maxMem > 0 /\ s.mem > s.cfg.maxMem THEN 0 ELSE 1, dt |-> 0]

(* ---- start / shutdown / background tasks: a task is [kind, st: fresh (spawned, never polled) | parked (in select!) |
   woken (notified, exits at its next poll), due: tokio time of its next tick, born: shutdowns seen when spawned] ---- *)
Task(s, kind) == [kind |-> kind, st |-> "fresh", due |-> 0, born |-> s.nshut]
Start(s) ==               \* no guard against a second start or a start after shutdown
  [s |-> [s EXCEPT !.tasks = @ \o (IF s.cfg.track THEN <<Task(s, "metrics")>> ELSE <<>>) \o <<Task(s, "health")>>
                                \o (IF s.cfg.cleanup THEN <<Task(s, "cleanup")>> ELSE <<>>)], ok |-> 1, dt |-> 0]
Shutdown(s) ==            \* flag, notify_waiters, then wait (100 ms polls under shutdown_timeout) until every permit is back
  LET hit(x) == x.st = "parked" \/ ~AsImplemented_LostShutdownSignal
  IN [s |-> [s EXCEPT !.shut = TRUE, !.nshut = Lo(@ + 1, 3),
                      !.tasks = [i \in 1..Len(@) |-> IF hit(@[i]) THEN [@[i] EXCEPT !.st = "woken"] ELSE @[i]],
                      !.waiters = IF AsImplemented_WaiterAdmittedAfterShutdown THEN @ ELSE <<>>],
      ok |-> IF s.avail = s.cfg.max THEN 1 ELSE 0, dt |-> IF s.avail = s.cfg.max THEN 0 ELSE s.cfg.shutTo]
IvOf(s, kind) == CASE kind = "metrics" -> s.cfg.ivM [] kind = "health" -> s.cfg.ivH [] OTHER -> s.cfg.ivC
SettleTasks(s) ==         \* every task is polled until it is idle: woken ones exit, the others take the ticks that are due
  LET live == SelectSeq(s.tasks, LAMBDA x : x.st # "woken")
      ticks(x) == x.st = "fresh" \/ x.due <= s.now
      nxt(x) == LET iv == IvOf(s, x.kind) IN IF x.st = "fresh" THEN s.now + iv ELSE x.due + ((s.now - x.due) \div iv + 1) * iv
  IN [s |-> [s EXCEPT !.tasks = [i \in 1..Len(live) |-> IF ticks(live[i]) THEN [live[i] EXCEPT !.st = "parked", !.due = nxt(live[i])]
                                                        ELSE live[i]]],
      coll |-> \E i \in 1..Len(live) : ticks(live[i]) /\ live[i].kind = "metrics",
      clean |-> \E i \in 1..Len(live) : ticks(live[i]) /\ live[i].kind = "cleanup"]

(* ---- one driver step: e = [op, k, p, o, n, d, settle, t0, t1, ok (the answer, used by "check" only)] ---- *)
Effect(s, e) ==
  CASE e.op = "acquire" -> Acquire(s, e.k)
    [] e.op = "acquirebg" -> AcquireBg(s, e.k)
    [] e.op = "drop" -> DropGuard(s, e.k)
    [] e.op = "abort" -> Abort(s, e.k)
    [] e.op = "check" -> CheckApply(s, e.p, e.o, e.t0, e.t1, e.ok)
    [] e.op = "record" -> Record(s, e.n)
    [] e.op = "advance" -> [s |-> s, ok |-> 1, dt |-> e.d]
    [] e.op = "health" -> Health(s)
    [] e.op = "start" -> Start(s)
    [] e.op = "shutdown" -> Shutdown(s)
    [] OTHER -> [s |-> s, ok |-> 1, dt |-> 0]        \* get_metrics, real sleep: nothing moves
(* the operation, then - if the driver yields (settle) or tokio time passes inside - the tasks run before and after the
   passage of time; `coll`: a metrics collector ticked, the caller applies one of CollectOptions *)
After(s, e) ==
  LET f0 == IF e.op = "acquirebg" THEN SettleTasks(s) ELSE [s |-> s, coll |-> FALSE, clean |-> FALSE]
      r == Effect(f0.s, e)     \* an acquire in a task of its own runs after the tasks spawned before it
      f1 == SettleTasks(r.s)
      f2 == SettleTasks([f1.s EXCEPT !.now = @ + r.dt])
      s3 == IF f0.clean \/ f1.clean \/ f2.clean THEN CleanupBuckets(f2.s, e.t0, e.t1) ELSE f2.s
  IN IF e.settle \/ r.dt > 0
     THEN [s |-> s3, ok |-> r.ok, coll |-> f0.coll \/ f1.coll \/ f2.coll,
           cavail |-> IF f1.coll \/ f2.coll THEN s3.avail ELSE s.avail]     \* the permits available when the collector looked
     ELSE [s |-> r.s, ok |-> r.ok, coll |-> FALSE, cavail |-> r.s.avail]

Obs(s) == [guards |-> s.guards, waiters |-> s.waiters, mconn |-> s.mConn, mbw |-> s.mBw, mem |-> s.mem,
           alive |-> Len(s.tasks), now |-> s.now]
=============================================================================
