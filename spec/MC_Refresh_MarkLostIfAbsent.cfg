\* as implemented: a bucket whose state is created after mark_close_group is refreshed as Background; must violate CloseGroupIsCritical
SPECIFICATION Spec
CONSTANTS
  Buckets = {0, 1}
  Nodes = {1}
  Counts = {3}
  BatchClasses = {"none", "good", "oneregion", "collude"}
  MaxBatch = 1
  MaxAge = 5
  MaxCnt = 3
  MaxTracked = 2
  MaxOps = 4
  Thr = 1
  IvCritical = 1
  IvImportant = 2
  IvStandard = 3
  IvBackground = 4
  FailTrigger = 2
  TrigNum = 1
  TrigDen = 2
  DeescFailMax = 1
  DeescNum = 1
  DeescDen = 2
  IndFailTrigger = 2
  MaxBuckets = 256
  AsImplemented_MarkLostIfAbsent = TRUE
  AsImplemented_TierIgnoresCount = FALSE
  AsImplemented_TrackDuplicates = FALSE
  AsImplemented_ResetNotPropagated = FALSE
  Variant_RecentBeatsClose = FALSE
  Ops = {"touch", "success", "markclose", "markrecent", "vpass", "vfail", "track", "untrack", "validate", "advance", "reset", "deesc"}
CONSTRAINT Bounded
INVARIANTS TypeOK CloseGroupIsCritical
PROPERTIES CountersGrow
CHECK_DEADLOCK FALSE
