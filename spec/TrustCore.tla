------------------------------ MODULE TrustCore ------------------------------
(***************************************************************************)
(* P-level abstract state of one EigenTrust engine and the relations of    *)
(* property C10 between observed score vectors.  Shared by Trust.tla       *)
(* (exhaustive small-scope model) and Trace_Trust.tla (acceptor for traces *)
(* of the real engine).  No constants, no variables.                       *)
(***************************************************************************)
EXTENDS Naturals, Integers, Sequences, FiniteSets, TLC

(* ======================= 1. P-level (shared) ========================== *)
ZeroRep == [ok |-> 0, fail |-> 0, unavail |-> 0, corrupt |-> 0, viol |-> 0, other |-> <<>>]
FailKinds == {"fail", "unavail", "corrupt", "viol"}
Severe == {"corrupt", "viol"}
CountKinds == {"ok"} \cup FailKinds

EmptyFn == [x \in {} |-> 0]
Put(fn, k, v) == [x \in DOMAIN fn \cup {k} |-> IF x = k THEN v ELSE fn[x]]
Drop(fn, K) == [x \in DOMAIN fn \ K |-> fn[x]]

NewState(pre) == [edges |-> EmptyFn, reps |-> EmptyFn, pre |-> pre]
Rep(S, n) == IF n \in DOMAIN S.reps THEN S.reps[n] ELSE ZeroRep
EdgeNodes(S) == {k[1] : k \in DOMAIN S.edges} \cup {k[2] : k \in DOMAIN S.edges}
Known(S) == EdgeNodes(S) \cup DOMAIN S.reps

Bump(r, kind) == [r EXCEPT ![kind] = @ + 1]
ApplyLocal(S, f, t, ok) ==
  [S EXCEPT !.edges = Put(@, <<f, t>>, Append(IF <<f, t>> \in DOMAIN @ THEN @[<<f, t>>] ELSE <<>>, ok))]
ApplyStat(S, n, kind, amt) ==
  [S EXCEPT !.reps = Put(@, n, IF kind \in CountKinds THEN Bump(Rep(S, n), kind)
                                ELSE [Rep(S, n) EXCEPT !.other = Append(@, <<kind, amt>>)])]
ApplyAddPre(S, n) == [S EXCEPT !.pre = @ \cup {n}]
ApplyRemPre(S, n) == [S EXCEPT !.pre = @ \ {n}]
(* remove_node forgets every statement from and about n (statistics stay, as in the code; the
   acceptor does not insist on either) *)
ApplyRemove(S, n) == [S EXCEPT !.edges = Drop(@, {k \in DOMAIN @ : k[1] = n \/ k[2] = n})]

(* which clause of C10 relates the score vectors computed in states cur and old *)
NoRel == [k |-> "none", p |-> 0, first |-> FALSE]
Rel(cur, old) ==
  IF cur.edges # old.edges \/ cur.pre # old.pre THEN NoRel
  ELSE LET D == {n \in DOMAIN cur.reps \cup DOMAIN old.reps : Rep(cur, n) # Rep(old, n)} IN
       IF D = {} THEN [k |-> "eq", p |-> 0, first |-> FALSE]
       ELSE IF Cardinality(D) # 1 THEN NoRel
       ELSE LET p == CHOOSE x \in D : TRUE
                a == Rep(cur, p)
                b == Rep(old, p) IN
            IF a = Bump(b, "ok") THEN [k |-> "ok+", p |-> p, first |-> p \notin DOMAIN old.reps]
            ELSE IF b = Bump(a, "ok") THEN [k |-> "ok-", p |-> p, first |-> p \notin DOMAIN cur.reps]
            ELSE IF \E f \in FailKinds : a = Bump(b, f) THEN [k |-> "fail+", p |-> p, first |-> p \notin DOMAIN old.reps]
            ELSE IF \E f \in FailKinds : b = Bump(a, f) THEN [k |-> "fail-", p |-> p, first |-> p \notin DOMAIN cur.reps]
            ELSE IF \E s \in Severe : Bump(a, "fail") = Bump(b, s) THEN [k |-> "sev+", p |-> p, first |-> FALSE]
            ELSE IF \E s \in Severe : Bump(b, "fail") = Bump(a, s) THEN [k |-> "sev-", p |-> p, first |-> FALSE]
            ELSE NoRel

(* ---- bookkeeping behind the per-peer query ---- *)
(* q.last : the vector published by the last compute; q.ever : last value ever published (or the
   documented 0.9 prior) for a node not explicitly removed since; q.ovr : add_pre_trusted /
   remove_node since the last compute *)
QInit(pre, prior) == [last |-> EmptyFn, ever |-> [n \in pre |-> prior], ovr |-> [n \in pre |-> "prior"]]
QCompute(q, dom, val) ==
  [last |-> [n \in dom |-> val[n]],
   ever |-> [n \in DOMAIN q.ever \cup dom |-> IF n \in dom THEN val[n] ELSE q.ever[n]],
   ovr |-> EmptyFn]
QRemove(q, n) == [q EXCEPT !.ever = Drop(@, {n}), !.ovr = Put(@, n, "removed")]
QAddPre(q, n, prior) == [q EXCEPT !.ever = Put(@, n, prior), !.ovr = Put(@, n, "prior")]
(* Readings accepted for "the per-peer query returns the last computed score (0 for unknown)":
   strict  : last published value, 0 if the last vector has no entry or the node was removed since;
   prior   : add_pre_trusted(n) documents a 0.9 prior until the next compute;
   still-known : remove_node(n) left n's statistics, the node is still known - last value accepted;
   orphan  : n dropped out of the graph as a side effect of removing another node (never removed
             itself): "its last computed score" is also accepted.                                *)
QueryOK(x, n, q, S, zero, prior, strict) ==
  LET o == IF n \in DOMAIN q.ovr THEN q.ovr[n] ELSE "none"
      inlast == n \in DOMAIN q.last
      base == IF o = "removed" \/ ~inlast THEN zero ELSE q.last[n] IN
  \/ x = base
  \/ o = "prior" /\ x = prior
  \/ ~strict /\ o = "removed" /\ n \in DOMAIN S.reps /\ inlast /\ x = q.last[n]
  \/ ~strict /\ o # "removed" /\ ~inlast /\ n \in DOMAIN q.ever /\ x = q.ever[n]

(* domain of a published vector: every known node, nothing but known nodes and anchors; a node
   that was removed but still has statistics may or may not be listed *)
DomainOK(dom, S, limbo) ==
  IF Known(S) = {} THEN dom \subseteq S.pre
  ELSE (Known(S) \ limbo) \subseteq dom /\ dom \subseteq (Known(S) \cup S.pre)

=============================================================================
