---------------------------- MODULE Trace_Lifecycle ----------------------------
(***************************************************************************)
(* Acceptor for runs of concurrent operations + stop on a real cluster     *)
(* (harness c20, virtual time).  One `Run` event per execution.  Rules =   *)
(* P-level of Lifecycle.tla with the model's "timeouts consumed" turned    *)
(* into virtual-time bounds proportional to the request timeout.           *)
(***************************************************************************)
EXTENDS Naturals, Integers, Sequences, FiniteSets, TLC, Json, IOUtils

Rec == ndJsonDeserialize(IOEnv.TRACE)
N == Len(Rec)
MaxIter == 20            \* rounds of an iterative lookup / get
Slack == 500             \* ms: scheduling and delivery delays below one timeout

VARIABLES l, viol, nviol, nops
vars == <<l, viol, nviol, nops>>
Ev == Rec[l]
Note(clause, site, cond) ==
  /\ nviol' = nviol + 1
  /\ viol' = IF Cardinality({i \in 1..Len(viol) : viol[i].clause = clause /\ viol[i].site = site /\ viol[i].cond = cond}) < 12
             THEN Append(viol, [line |-> l, clause |-> clause, site |-> site, cond |-> cond]) ELSE viol
NoNote == UNCHANGED <<viol, nviol>>

(* a round costs at most a dial timeout plus a request timeout; a put adds one replication round *)
(* real-time runs on a loaded machine get their bounds multiplied by Ev.mult (1 in virtual time) *)
Bound(kind) == Ev.mult * ((IF kind = "put" THEN 2 * MaxIter + 1 ELSE 2 * MaxIter) * Ev.timeout + Slack)
StopBound == Ev.mult * ((Ev.peers + 1) * Ev.timeout + Slack)
TooLong == {i \in 1..Len(Ev.ops) : Ev.ops[i]["end"] - Ev.ops[i].start > Bound(Ev.ops[i].kind)}

Run == /\ Ev.ev = "Run" /\ nops' = nops + Ev.issued + 1
       /\ IF Ev.unfinished > 0 \/ Len(Ev.ops) # Ev.issued THEN Note("EveryOpCompletes", "operation", "hang")
          ELSE IF TooLong # {} THEN Note("BoundedTime", "operation", Ev.ops[CHOOSE i \in TooLong : TRUE].kind)
          ELSE IF Ev.stop_ret < 0 THEN Note("StopCompletes", "stop", "hang")
          ELSE IF Ev.stop_ret - Ev.stop_call > StopBound THEN Note("BoundedTime", "stop", "slow")
          ELSE IF Ev.after_stop > 0 THEN Note("QuietAfterStop", "stop", Ev.after_stop_ops[1])
          ELSE IF Ev.tasks_after > Ev.tasks_before THEN Note("TasksEnd", "stop", "tasks-alive")
          ELSE NoNote

Init == l = 1 /\ viol = <<>> /\ nviol = 0 /\ nops = 0
Next == l <= N /\ l' = l + 1 /\ Run
Spec == Init /\ [][Next]_vars
Report == (l = N + 1) =>
  JsonSerialize(IOEnv.OUT, [consumed |-> l - 1, total |-> N, nviol |-> nviol, checked |-> nops, viol |-> viol])
=============================================================================
