SPECIFICATION Spec
CONSTANTS
  B = 3
  MaxC = 3
  TrustGrid = {150, 200, 1000}
  Alpha = 500
  Thr = 200
  LostBits = 1
  AsImplemented_F64Distance = TRUE
INVARIANTS SelectionOk UniformTrustIsClosest NoParetoInversion
CHECK_DEADLOCK FALSE
