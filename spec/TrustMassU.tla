----------------------------- MODULE TrustMassU -----------------------------
(***************************************************************************)
(* C11, soundness of the lumping used by TrustMass.tla: a 4-node graph     *)
(* (anchor a, honest h, closed set {s1, s2} with every internal pattern)   *)
(* is iterated node by node next to its lumped version in which the closed *)
(* set is one self-rating cell.  LumpUpper: the closed set never holds     *)
(* more mass than its lumping predicts.                                    *)
(***************************************************************************)
EXTENDS TrustMassOps
CONSTANTS AsImplemented_DropDangling

Nodes4 == {"a", "h", "s1", "s2"}
SN == {"s1", "s2"}
VARIABLES oa, oh, o1, o2, mn, ml, ru
varsU == <<oa, oh, o1, o2, mn, ml, ru>>
ClassOf(x) == IF x = "a" THEN "A" ELSE IF x = "h" THEN "H" ELSE "S"
InitU == /\ oa \in {{}, {"a"}, {"h"}} /\ oh \in {{}, {"a"}, {"h"}}
         /\ o1 \in SUBSET SN /\ o2 \in SUBSET SN
         /\ mn = [x \in Nodes4 |-> P \div 4]
         /\ ml = LumpInit(1, 1, 2) /\ ru = 0
OutN == [x \in Nodes4 |-> IF x = "a" THEN oa ELSE IF x = "h" THEN oh ELSE IF x = "s1" THEN o1 ELSE o2]
OutL == [c \in Cls |-> IF c = "A" THEN {ClassOf(y) : y \in oa} ELSE IF c = "H" THEN {ClassOf(y) : y \in oh} ELSE {"S"}]
RoundU == /\ ru < 50 /\ ru' = ru + 1
          /\ mn' = StepOf(mn, OutN, [x \in Nodes4 |-> IF x = "a" THEN P ELSE 0], AsImplemented_DropDangling)
          /\ ml' = StepOf(ml, OutL, LumpTele, AsImplemented_DropDangling)
          /\ UNCHANGED <<oa, oh, o1, o2>>
SpecU == InitU /\ [][RoundU]_varsU
LumpUpper == mn["s1"] + mn["s2"] <= ml["S"] + Tol + ru
LumpExactOutside == (o1 # {} /\ o2 # {}) => Abs(mn["a"] - ml["A"]) <= Tol + 2 * ru
=============================================================================
