\* must FAIL: after the install directory vanished rollback restores the binary, rollback_to_version reports "rollback failed"
SPECIFICATION SpecB
CONSTANTS
  Vers = {1, 2}
  Toks = {1, 2}
  NPaths = 1
  MaxBs = {1, 2}
  MaxAgeB = 1
  MaxAgeS = 1
  MaxOps = 4
  MaxTicks = 2
  AsImplemented_TieKeepsOlder = FALSE
  AsImplemented_SharedBackupFile = FALSE
  AsImplemented_CleanupNeedsDir = FALSE
  AsImplemented_RollbackToVersionNeedsDir = TRUE
  AsImplemented_GetStagedUnverified = FALSE
  AsImplemented_SweepIgnoresMetadata = FALSE
  Variant_RollbackUnverified = FALSE
INVARIANTS RestoreFailsOnlyOnBadBackup
CHECK_DEADLOCK FALSE
