------------------------------ MODULE Kademlia ------------------------------
(***************************************************************************)
(* Routing table of saorsa-core's DHT engine (src/dht/core_engine.rs:      *)
(* KBucket, KademliaRoutingTable, DhtCoreEngine::{join_network, add_node,  *)
(* handle_node_failure, evict_node, find_nodes, handle_request}).          *)
(*                                                                         *)
(* P-level state : members  (the set of peers the table lists)             *)
(* I-level state : table    (bucket index -> sequence of ids, as the code) *)
(*                                                                         *)
(* Property C02 : every closest-node answer is exactly the min(n,size)     *)
(* members with least XOR distance, ascending, each once, never Self.      *)
(* Property C16 (routing part): a removed peer is in no answer until it is *)
(* added again.                                                            *)
(***************************************************************************)
EXTENDS Naturals, Sequences, FiniteSets, Bitwise, SequencesExt, FiniteSetsExt, TLC

CONSTANTS B,          \* identifier width in bits (256 in the code)
          Cap,        \* bucket capacity (K = 8 in the code)
          Self,       \* local node id
          MaxOps,     \* history bound for model checking
          NMax,       \* answers are checked for every n in 0..NMax
          AsImplemented_BucketWalk,   \* TRUE = walk of the pinned tree (before the fix)
          AsImplemented_DupAdd        \* TRUE = bucket insert without duplicate/self test

Id == 0 .. (2^B - 1)
Dist(a, b) == a ^^ b

(* index (from the most significant bit) of the first bit in which x differs
   from Self; B-1 when x = Self ("255" in the code) *)
RECURSIVE FirstBit(_, _)
FirstBit(d, i) == IF i >= B - 1 THEN B - 1
                  ELSE IF (d \div 2^(B - 1 - i)) % 2 = 1 THEN i ELSE FirstBit(d, i + 1)
BucketOf(x) == FirstBit(Dist(Self, x), 0)

Take(s, n) == SubSeq(s, 1, IF n < Len(s) THEN n ELSE Len(s))
SortByDist(S, key) == SetToSortSeq(S, LAMBDA a, b : Dist(a, key) < Dist(b, key))
(* the reference answer: unique because XOR distances to one key are pairwise distinct *)
Closest(S, key, n) == Take(SortByDist(S, key), n)

VARIABLES table, members, removed, nops
vars == <<table, members, removed, nops>>

Buckets == 0 .. (B - 1)
Entries == UNION {ToSet(table[b]) : b \in Buckets}
Flat == FoldLeft(LAMBDA acc, b : acc \o table[b], <<>>, [i \in 1..B |-> i - 1])

Init == /\ table = [b \in Buckets |-> <<>>]
        /\ members = {} /\ removed = {} /\ nops = 0

(* ---- KBucket::add_node / KademliaRoutingTable::add_node (join_network, add_node) ---- *)
Add(x) ==
  /\ nops < MaxOps /\ nops' = nops + 1
  /\ LET b == BucketOf(x) IN
     IF AsImplemented_DupAdd
     THEN IF Len(table[b]) < Cap
          THEN /\ table' = [table EXCEPT ![b] = Append(@, x)]
               /\ members' = members \cup {x} /\ removed' = removed \ {x}
          ELSE UNCHANGED <<table, members, removed>>
     ELSE IF x = Self THEN UNCHANGED <<table, members, removed>>                 \* never the local node
          ELSE IF x \in ToSet(table[b])                                          \* refresh: move to tail
               THEN /\ table' = [table EXCEPT ![b] = Append(SelectSeq(@, LAMBDA y : y # x), x)]
                    /\ UNCHANGED <<members, removed>>
               ELSE IF Len(table[b]) < Cap
                    THEN /\ table' = [table EXCEPT ![b] = Append(@, x)]
                         /\ members' = members \cup {x} /\ removed' = removed \ {x}
                    ELSE UNCHANGED <<table, members, removed>>                   \* bucket full: refused

(* ---- remove_node via handle_node_failure / evict_node ---- *)
Rm(x) ==
  /\ nops < MaxOps /\ nops' = nops + 1
  /\ table' = [table EXCEPT ![BucketOf(x)] = SelectSeq(@, LAMBDA y : y # x)]
  /\ members' = members \ {x}
  /\ removed' = removed \cup {x}

Next == \E x \in Id : Add(x) \/ Rm(x)
Spec == Init /\ [][Next]_vars

(* ---- find_closest_nodes ---- *)
SatSub(a, b) == IF a > b THEN a - b ELSE 0
Min2(a, b) == IF a < b THEN a ELSE b
RECURSIVE Walk(_, _, _, _)
Walk(t, off, acc, n) ==                      \* the walk of the pinned tree
  IF off = B THEN acc ELSE
  LET above == Min2(t + off, B - 1)
      below == SatSub(t, off)
      a1 == acc \o table[above]
      a2 == IF off > 0 /\ below # above THEN a1 \o table[below] ELSE a1
  IN IF Len(a2) >= 2 * n THEN a2 ELSE Walk(t, off + 1, a2, n)
(* stable sort of a sequence by distance *)
RECURSIVE InsSort(_, _)
InsertByDist(s, x, key) ==
  LET idx == CHOOSE i \in 1 .. (Len(s) + 1) :
               /\ \A j \in 1 .. (i - 1) : Dist(s[j], key) <= Dist(x, key)
               /\ \A j \in i .. Len(s) : Dist(s[j], key) > Dist(x, key)
  IN SubSeq(s, 1, idx - 1) \o <<x>> \o SubSeq(s, idx, Len(s))
InsSort(s, key) == IF s = <<>> THEN <<>> ELSE InsertByDist(InsSort(Front(s), key), Last(s), key)

Answer(key, n) ==
  IF AsImplemented_BucketWalk
  THEN Take(InsSort(Walk(FirstBit(Dist(Self, key), 0), 0, <<>>, n), key), n)
  ELSE Take(InsSort(Flat, key), n)           \* collect every bucket, sort, truncate

(* ---- properties ---- *)
TypeOK == /\ table \in [Buckets -> Seq(Id)] /\ members \subseteq Id /\ nops \in 0..MaxOps

TableWellFormed ==
  /\ Self \notin Entries
  /\ \A b \in Buckets : /\ Len(table[b]) <= Cap
                        /\ \A i, j \in 1..Len(table[b]) : i # j => table[b][i] # table[b][j]
                        /\ \A i \in 1..Len(table[b]) : BucketOf(table[b][i]) = b
  /\ Entries = members

AnswerExact == \A key \in Id, n \in 0..NMax : Answer(key, n) = Closest(members, key, n)

RemovedStaysOut == \A key \in Id, n \in 0..NMax : ToSet(Answer(key, n)) \cap removed = {}
=============================================================================
