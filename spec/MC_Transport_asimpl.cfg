SPECIFICATION Spec
CONSTANTS
  Peers = {1, 2}
  Stale = 1
  Cleanup = 2
  MaxTime = 4
  MaxOps = 7
  AsImplemented_DoubleDisconnectEvent = TRUE
INVARIANTS ActiveTracked ActiveConnected
CHECK_DEADLOCK FALSE
