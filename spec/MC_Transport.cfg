SPECIFICATION Spec
CONSTANTS
  Peers = {1, 2}
  Stale = 1
  Cleanup = 2
  MaxTime = 4
  MaxOps = 7
  AsImplemented_DoubleDisconnectEvent = FALSE
INVARIANTS ActiveTracked ActiveConnected DisconnectOnlyAfterConnect
CHECK_DEADLOCK FALSE
