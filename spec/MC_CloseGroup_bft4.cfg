SPECIFICATION Spec
CONSTANTS
  ConfGrid = {TRUE, FALSE}
  TrustGrid = {290, 300}
  RegionGrid = {0, 1, 2}
  LatGrid = {0, 5000}
  MaxW = 4
  Honest = 0
  MinPeers = 3
  TwNum = 700
  TwDen = 1000
  BftNum = 3
  BftDen = 4
  MinTrust = 300
  MinRegions = 2
  Cands = {9999, 100, 300}
  Modes = {TRUE}
  Variant = ""
INVARIANTS ClausesHold FlipHolds
CHECK_DEADLOCK FALSE
