SPECIFICATION Spec
CONSTANTS
  MaxDiff = 2
  MaxSign = 1
  MaxPresent = 4
  MaxCap = 2
  AsImplemented_CacheKey = FALSE
  AsImplemented_UidUnbound = FALSE
INVARIANTS TypeOK DirectIff CacheTransparent
CHECK_DEADLOCK FALSE
