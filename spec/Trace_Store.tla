------------------------------ MODULE Trace_Store ------------------------------
(***************************************************************************)
(* Acceptor for put/get histories of real DhtNetworkManager clusters       *)
(* (harness c03).  After every operation the harness reads the local store *)
(* of every real node (event Stores = ground truth).  The model keeps the   *)
(* last observed stores, everything each node ever held under each key,    *)
(* and the operation whose effects are still to be observed.  P-level of   *)
(* Store.tla: PutHolds, PutTargets, NoSelfRpc, GetSound, GetComplete,      *)
(* HolderAnswers, SizeLimit, StoreIntegrity.                               *)
(***************************************************************************)
EXTENDS Naturals, Integers, Sequences, FiniteSets, SequencesExt, FiniteSetsExt, TLC, Json, IOUtils

Rec == ndJsonDeserialize(IOEnv.TRACE)
N == Len(Rec)
MaxValue == 512
IterCap == 20

VARIABLES l, nreal, nkeys, fakes, store, ever, lenOf, pend, viol, nviol, nops
vars == <<l, nreal, nkeys, fakes, store, ever, lenOf, pend, viol, nviol, nops>>
Ev == Rec[l]

Note(clause, site, cond) ==
  /\ nviol' = nviol + 1
  /\ viol' = IF Cardinality({i \in 1..Len(viol) : viol[i].clause = clause /\ viol[i].site = site /\ viol[i].cond = cond}) < 12
             THEN Append(viol, [line |-> l, clause |-> clause, site |-> site, cond |-> cond]) ELSE viol
NoNote == UNCHANGED <<viol, nviol>>

Rng(s) == {s[i] : i \in 1..Len(s)}
Take(s, n) == SubSeq(s, 1, IF n < Len(s) THEN n ELSE Len(s))
NoPend == [kind |-> "none"]

Init == /\ l = 1 /\ nreal = 0 /\ nkeys = 0 /\ fakes = {} /\ store = <<>> /\ ever = <<>> /\ lenOf = <<>>
        /\ pend = NoPend /\ viol = <<>> /\ nviol = 0 /\ nops = 0

Reset == /\ Ev.ev = "Reset"
         /\ nreal' = Ev.n_real /\ nkeys' = Ev.nkeys /\ fakes' = Rng(Ev.fakes)
         /\ store' = [n \in 1..Ev.n_real |-> [k \in 1..Ev.nkeys |-> 0]]
         /\ ever' = [n \in 1..Ev.n_real |-> [k \in 1..Ev.nkeys |-> {}]]
         /\ pend' = NoPend /\ NoNote /\ UNCHANGED <<lenOf, nops>>

(* ---- transcript helpers (same shape as Trace_Lookup) ---- *)
Reqs == Ev.reqs
Rank(i) == Ev.rank[i]
SortByRank(S) == SetToSortSeq(S, LAMBDA a, b : Rank(a) < Rank(b))
ReqsOf(op) == {i \in 1..Len(Reqs) : Reqs[i].op = op}
AnsweredOf(op) == {Reqs[i].to : i \in {j \in ReqsOf(op) : Reqs[j].out = "answered"}}
QueriedAll == {Reqs[i].to : i \in 1..Len(Reqs)}
LearnedOf(op) == Rng(Ev.initial) \cup UNION {Rng(Reqs[i].nodes) : i \in {j \in ReqsOf(op) : Reqs[j].out = "answered"}}
LookupResult == Take(SortByRank(AnsweredOf("FindNode") \cup {Ev.self}), Ev.k)
PutSent == {Reqs[i].to : i \in ReqsOf("Put")}
Real(p) == p >= 1 /\ p <= nreal

(* ---- put ---- *)
PutVerdict ==
  IF Ev.self \in QueriedAll THEN Note("NoSelfRpc", "put", "self")
  ELSE IF Ev.len > MaxValue /\ Ev.ok THEN Note("SizeLimit", "put", "accepted")
  ELSE IF Ev.len > MaxValue /\ Reqs # <<>> THEN Note("SizeLimit", "put", "rpc-before-refusal")
  ELSE IF Ev.ok /\ PutSent # Rng(LookupResult) \ {Ev.self} THEN Note("PutTargets", "put", "targets")
  ELSE IF Ev.ok /\ {Ev.outcomes[i][1] : i \in 1..Len(Ev.outcomes)} # PutSent THEN Note("PutTargets", "put", "outcomes")
  ELSE IF Ev.ok /\ Ev.replicated_to # 1 + Cardinality({i \in 1..Len(Ev.outcomes) : Ev.outcomes[i][2]}) THEN Note("PutHolds", "put", "count")
  ELSE NoNote
Put == /\ Ev.ev = "Put" /\ nops' = nops + 1 /\ PutVerdict
       /\ lenOf' = Append(lenOf, <<Ev.val, Ev.len>>)
       /\ pend' = [kind |-> "put", origin |-> Ev.origin, key |-> Ev.key, val |-> Ev.val, len |-> Ev.len, ok |-> Ev.ok,
                   holders |-> IF Ev.ok THEN {Ev.origin} \cup {Ev.outcomes[i][1] : i \in {j \in 1..Len(Ev.outcomes) : Ev.outcomes[j][2]}} ELSE {}]
       /\ UNCHANGED <<nreal, nkeys, fakes, store, ever>>

PutTargetsOp == /\ Ev.ev = "PutTargets" /\ nops' = nops + 1
                /\ IF Ev.self \in QueriedAll THEN Note("NoSelfRpc", "put_with_targets", "self")
                   ELSE IF Ev.len > MaxValue /\ Ev.ok THEN Note("SizeLimit", "put_with_targets", "accepted")
                   ELSE NoNote
                /\ lenOf' = Append(lenOf, <<Ev.val, Ev.len>>)
                /\ pend' = [kind |-> "put", origin |-> Ev.origin, key |-> Ev.key, val |-> Ev.val, len |-> Ev.len, ok |-> Ev.ok,
                            holders |-> IF Ev.ok THEN {Ev.origin} \cup {Ev.outcomes[i][1] : i \in {j \in 1..Len(Ev.outcomes) : Ev.outcomes[j][2]}} ELSE {}]
                /\ UNCHANGED <<nreal, nkeys, fakes, store, ever>>

StoreLocal == /\ Ev.ev = "StoreLocal" /\ nops' = nops + 1
              /\ IF Ev.len > MaxValue /\ Ev.ok THEN Note("SizeLimit", "store_local", "accepted")
                 ELSE IF Ev.len <= MaxValue /\ ~Ev.ok THEN Note("PutHolds", "store_local", "refused")
                 ELSE IF Reqs # <<>> THEN Note("NoSelfRpc", "store_local", "rpc")
                 ELSE NoNote
              /\ lenOf' = Append(lenOf, <<Ev.val, Ev.len>>)
              /\ pend' = [kind |-> "put", origin |-> Ev.origin, key |-> Ev.key, val |-> Ev.val, len |-> Ev.len, ok |-> Ev.ok,
                          holders |-> IF Ev.ok THEN {Ev.origin} ELSE {}]
              /\ UNCHANGED <<nreal, nkeys, fakes, store, ever>>

RemotePut == /\ Ev.ev = "RemotePut" /\ nops' = nops + 1
             /\ IF Ev.len > MaxValue /\ Ev.ok /\ Real(Ev.to) THEN Note("SizeLimit", "remote_put", "accepted") ELSE NoNote
             /\ lenOf' = Append(lenOf, <<Ev.val, Ev.len>>)
             /\ pend' = [kind |-> "put", origin |-> Ev.origin, key |-> Ev.key, val |-> Ev.val, len |-> Ev.len, ok |-> Ev.ok,
                         holders |-> IF Ev.ok /\ Real(Ev.to) THEN {Ev.to} ELSE {}]
             /\ UNCHANGED <<nreal, nkeys, fakes, store, ever>>

(* ---- get ---- *)
ValueReplies == {i \in 1..Len(Reqs) : Reqs[i].out = "answered" /\ Reqs[i].val # 0}
GetBudgetExcuse == Len(Reqs) >= IterCap
Unreach == Rng(Ev.unreachable)
LookupOps == {"FindValue", "Get", "FindNode"}
GetLearned == Rng(Ev.initial) \cup UNION {Rng(Reqs[i].nodes) : i \in {j \in 1..Len(Reqs) : Reqs[j].out = "answered"}}
GetVerdict ==
  IF Ev.err # "" THEN Note("GetCompletes", "get", "error")
  ELSE IF Ev.self \in QueriedAll THEN Note("NoSelfRpc", "get", "self")
  (* a real peer that holds the key and answers a lookup for it answers with what it holds *)
  ELSE IF \E i \in 1..Len(Reqs) : /\ Reqs[i].out = "answered" /\ Real(Reqs[i].to)
                                   /\ store[Reqs[i].to][Ev.key] # 0 /\ Reqs[i].val # store[Reqs[i].to][Ev.key]
       THEN Note("HolderAnswers", "handle_lookup_request", "other-or-no-value")
  ELSE IF \E i \in ValueReplies : Real(Reqs[i].to) /\ Reqs[i].val \notin ever[Reqs[i].to][Ev.key]
       THEN Note("GetSound", "handle_lookup_request", "value-not-held-under-key")
  ELSE IF Ev.found /\ ~(Ev.val = store[Ev.origin][Ev.key] \/ \E i \in ValueReplies : Reqs[i].val = Ev.val)
       THEN Note("GetSound", "get", "value-from-nowhere")
  ELSE IF ~Ev.found /\ store[Ev.origin][Ev.key] # 0 THEN Note("GetSound", "get", "local-value-missed")
  ELSE IF ~Ev.found /\ ValueReplies # {} THEN Note("GetSound", "get", "reply-value-dropped")
  ELSE IF ~Ev.found /\ ~GetBudgetExcuse /\ \E p \in GetLearned \ ({Ev.self} \cup Unreach) : p \notin QueriedAll
       THEN Note("GetComplete", "get", "unqueried")
  ELSE NoNote
Get == /\ Ev.ev = "Get" /\ nops' = nops + 1 /\ GetVerdict
       /\ pend' = [kind |-> "get", origin |-> Ev.origin, key |-> Ev.key, val |-> Ev.val, len |-> Ev.len, ok |-> Ev.found, holders |-> {}]
       /\ UNCHANGED <<nreal, nkeys, fakes, store, ever, lenOf>>

Hang == /\ Ev.ev = "Hang" /\ Note("Completes", "operation", "hang") /\ pend' = NoPend
        /\ UNCHANGED <<nreal, nkeys, fakes, store, ever, lenOf, nops>>
Noop == /\ Ev.ev = "Noop" /\ NoNote /\ pend' = NoPend /\ UNCHANGED <<nreal, nkeys, fakes, store, ever, lenOf, nops>>

(* ---- ground truth after the operation ---- *)
LenOfTok(t) == IF \E i \in 1..Len(lenOf) : lenOf[i][1] = t
               THEN (CHOOSE x \in {lenOf[i] : i \in 1..Len(lenOf)} : x[1] = t)[2] ELSE 0
Cells == {<<n, k>> : n \in 1..nreal, k \in 1..nkeys}
Changed(S) == {c \in Cells : S[c[1]][c[2]] # store[c[1]][c[2]]}
AllowedChange(S, c) ==
  \/ pend.kind = "put" /\ c[2] = pend.key /\ S[c[1]][c[2]] = pend.val /\ pend.len <= MaxValue
  \/ pend.kind = "get" /\ pend.ok /\ c = <<pend.origin, pend.key>> /\ S[c[1]][c[2]] = pend.val
StoresVerdict(S) ==
  IF \E c \in Cells : S[c[1]][c[2]] > 0 /\ LenOfTok(S[c[1]][c[2]]) > MaxValue THEN Note("SizeLimit", "store", "oversized-held")
  ELSE IF \E c \in Changed(S) : ~AllowedChange(S, c)
       THEN Note("StoreIntegrity", "store", IF pend.kind = "put" /\ pend.len > MaxValue THEN "oversized-write" ELSE "foreign-write")
  ELSE IF pend.kind = "put" /\ \E h \in pend.holders : Real(h) /\ S[h][pend.key] # pend.val
       THEN Note("PutHolds", "put", IF S[pend.origin][pend.key] # pend.val /\ pend.origin \in pend.holders THEN "origin" ELSE "replica")
  ELSE NoNote
Stores == /\ Ev.ev = "Stores"
          /\ StoresVerdict(Ev.stores)
          /\ store' = Ev.stores
          /\ ever' = [n \in 1..nreal |-> [k \in 1..nkeys |-> ever[n][k] \cup (IF Ev.stores[n][k] # 0 THEN {Ev.stores[n][k]} ELSE {})]]
          /\ pend' = NoPend
          /\ UNCHANGED <<nreal, nkeys, fakes, lenOf, nops>>

(* ---- engine-level store paths ---- *)
EngineStore ==
  /\ Ev.ev = "EngineStore" /\ nops' = nops + 1
  /\ IF \E i \in 1..Len(Ev.paths) : Ev.len > MaxValue /\ (Ev.paths[i][2] \/ Ev.paths[i][3])
     THEN Note("SizeLimit", "engine", "accepted")
     ELSE IF \E i \in 1..Len(Ev.paths) : Ev.len <= MaxValue /\ Ev.paths[i][1] # "store" /\ ~(Ev.paths[i][2] /\ Ev.paths[i][3])
          THEN Note("PutHolds", "engine", "refused")
     ELSE NoNote
  /\ UNCHANGED <<nreal, nkeys, fakes, store, ever, lenOf, pend>>

Next == /\ l <= N /\ l' = l + 1
        /\ (Reset \/ Put \/ PutTargetsOp \/ StoreLocal \/ RemotePut \/ Get \/ Hang \/ Noop \/ Stores \/ EngineStore)
Spec == Init /\ [][Next]_vars
Report == (l = N + 1) =>
  JsonSerialize(IOEnv.OUT, [consumed |-> l - 1, total |-> N, nviol |-> nviol, checked |-> nops, viol |-> viol])
=============================================================================
