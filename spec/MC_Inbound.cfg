SPECIFICATION Spec
CONSTANTS
  AsImplemented_WindowOffByOne = FALSE
  AsImplemented_TrustClaimedFrom = FALSE
  AsImplemented_DecodeBeforeSize = FALSE
INVARIANTS FrameOK DhtOK EngineOK
CHECK_DEADLOCK FALSE
