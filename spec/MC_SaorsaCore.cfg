SPECIFICATION Spec
CONSTANTS
  Node = {1, 2, 3}
  Keys = {1}
  Vals = {1, 2}
  K = 2
  MaxOps = 2
  MaxChurn = 3
  Variant_CloseForgets = FALSE
  Variant_SendAfterStop = FALSE
INVARIANTS TypeOK TablesAreHistory PutHolds GetSound NoResidueAfterStop QuietAfterStop StoppedEndsPut
PROPERTIES GetComplete VisibleThroughThirdParty TablesRemember
CHECK_DEADLOCK FALSE
