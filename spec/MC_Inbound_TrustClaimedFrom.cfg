SPECIFICATION Spec
CONSTANTS
  AsImplemented_WindowOffByOne = FALSE
  AsImplemented_TrustClaimedFrom = TRUE
  AsImplemented_DecodeBeforeSize = FALSE
INVARIANTS FrameOK DhtOK EngineOK
CHECK_DEADLOCK FALSE
