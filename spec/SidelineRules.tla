--------------------------- MODULE SidelineRules ---------------------------
(***************************************************************************)
(* Property C16: failing or distrusted peers are sidelined exactly as the  *)
(* stated policy says.  Constant-free operator library shared by           *)
(* Eviction.tla, Selector.tla (exhaustive model checking) and              *)
(* Trace_Sideline.tla (acceptor for traces of the real EvictionManager,    *)
(* TrustAwarePeerSelector and DhtCoreEngine).                              *)
(*                                                                         *)
(* Trust values are per-mille integers; a trust record is [k, v] with      *)
(* k = "none" (no score known), "nan" (a NaN score) or "val" (v/1000).     *)
(***************************************************************************)
EXTENDS Naturals, Integers, Sequences, FiniteSets, Bitwise, SequencesExt, FiniteSetsExt, TLC

NoTrust == [k |-> "none", v |-> 0]
Below(t, thr) == t.k = "val" /\ t.v < thr          \* NaN and unknown are not below any threshold

(* ------------------------- eviction policy (P-level) ------------------------- *)
(* cf: consecutive failures since the last success; trust: trust record; mark: "" or the reason given *)
Candidate(cf, trust, mark, maxFail, minTrust) == mark # "" \/ cf >= maxFail \/ Below(trust, minTrust)
(* reason precedence: explicit mark, then failures, then trust *)
ReasonKind(cf, trust, mark, maxFail, minTrust) ==
  IF mark # "" THEN mark
  ELSE IF cf >= maxFail THEN "ConsecutiveFailures"
  ELSE IF Below(trust, minTrust) THEN "LowTrust"
  ELSE ""

(* ------------------------- selection (P-level) ------------------------- *)
(* cands: sequence of [id, t] (t a trust record, ids pairwise distinct); ans: sequence of ids *)
Dist(a, b) == a ^^ b
Ids(cands) == {cands[i].id : i \in 1..Len(cands)}
TrustOf(cands, x) == (CHOOSE i \in 1..Len(cands) : cands[i].id = x) 
Tr(cands, x) == cands[TrustOf(cands, x)].t
PosIn(ans, x) == CHOOSE i \in 1..Len(ans) : ans[i] = x
InAns(ans, x) == \E i \in 1..Len(ans) : ans[i] = x
Distinct(s) == \A i, j \in 1..Len(s) : i # j => s[i] # s[j]

SelMembers(cands, ans) == \A i \in 1..Len(ans) : ans[i] \in Ids(cands)
SelCapped(ans, count) == Len(ans) <= count
SelFloor(cands, ans, excl, thr) ==
  excl => \A i \in 1..Len(ans) : ans[i] \in Ids(cands) => ~Below(Tr(cands, ans[i]), thr)

(* b is ranked ahead of a: b is chosen and a is not, or both are chosen and b comes first *)
Ahead(ans, b, a) == InAns(ans, b) /\ (~InAns(ans, a) \/ PosIn(ans, b) < PosIn(ans, a))
InRange(t) == t.k = "val" /\ t.v >= 0 /\ t.v <= 1000      \* the TrustProvider contract: 0.0 .. 1.0

(* pairs <<a, b>>: a is closer than b, both have the same in-range trust, yet b is ranked ahead of a *)
FartherAheadPairs(cands, ans, key) ==
  {p \in Ids(cands) \X Ids(cands) :
     /\ Dist(p[1], key) < Dist(p[2], key)
     /\ InRange(Tr(cands, p[1])) /\ Tr(cands, p[1]) = Tr(cands, p[2])
     /\ Ahead(ans, p[2], p[1])}
NoFartherAhead(cands, ans, key) == FartherAheadPairs(cands, ans, key) = {}

(* equal distance, different trust: with pairwise distinct ids this needs a = b, so it is vacuous on
   recorded traces; it is meaningful in Selector.tla where distance classes may collide *)
NoLessTrustedAhead(cands, ans, key) ==
  \A a, b \in Ids(cands) :
     (Dist(a, key) = Dist(b, key) /\ InRange(Tr(cands, a)) /\ InRange(Tr(cands, b))
        /\ Tr(cands, a).v > Tr(cands, b).v) => ~Ahead(ans, b, a)

(* tally only: a is closer and at least as trusted (or as close and more trusted), b still ahead *)
ParetoInversions(cands, ans, key) ==
  {p \in Ids(cands) \X Ids(cands) :
     /\ Dist(p[1], key) < Dist(p[2], key)
     /\ InRange(Tr(cands, p[1])) /\ InRange(Tr(cands, p[2])) /\ Tr(cands, p[1]).v > Tr(cands, p[2]).v
     /\ Ahead(ans, p[2], p[1])}

Take(s, n) == SubSeq(s, 1, IF n < Len(s) THEN n ELSE Len(s))
Closest(S, key, n) == Take(SetToSortSeq(S, LAMBDA a, b : Dist(a, key) < Dist(b, key)), n)

SelBroken(cands, ans, key, count, excl, thr) ==
  IF ~SelMembers(cands, ans) THEN "SelMembers"
  ELSE IF ~Distinct(ans) THEN "SelDistinct"
  ELSE IF ~SelCapped(ans, count) THEN "SelCapped"
  ELSE IF ~SelFloor(cands, ans, excl, thr) THEN "SelFloor"
  ELSE IF ~NoFartherAhead(cands, ans, key) THEN "NoFartherAhead"
  ELSE IF ~NoLessTrustedAhead(cands, ans, key) THEN "NoLessTrustedAhead"
  ELSE ""
=============================================================================
