------------------------- MODULE Trace_CloseGroup -------------------------
(***************************************************************************)
(* Acceptor for verdicts recorded from the real                            *)
(* CloseGroupValidator::validate_membership (harness module c15).          *)
(* Every Validate event carries the input (mode, candidate trust, witness  *)
(* vector) the verdict, and the verdicts of its one-flip neighbours; the   *)
(* configuration comes from the segment's Reset event.  The P-level        *)
(* clauses of CloseGroupRules.tla are evaluated on the event and on every  *)
(* neighbour; a broken clause is collected in `viol`.                      *)
(* Informational (never a violation): `drift` counts verdicts that differ  *)
(* from the I-level transcription away from the exact f64 boundary,        *)
(* `strictreg` counts acceptances that satisfy the region clause only in   *)
(* its weaker reading.                                                     *)
(***************************************************************************)
EXTENDS CloseGroupRules, SequencesExt, Json, IOUtils

Rec == ndJsonDeserialize(IOEnv.TRACE)
N == Len(Rec)

VARIABLES l, cfg, viol, nviol, nchk, drift, strictreg, naccept
vars == <<l, cfg, viol, nviol, nchk, drift, strictreg, naccept>>

Ev == Rec[l]
Vd(j) == [valid |-> j.valid, reasons |-> ToSet(j.reasons)]

(* violation collection: at most 40 entries per (clause, site, cond) signature are kept in viol.list, so a
   frequent (known) signature can never crowd out a different one; viol.bad lists every rejected line *)
Note(clause, site, cond) ==
  /\ nviol' = nviol + 1
  /\ viol' = [list |-> IF Cardinality({i \in 1..Len(viol.list) : viol.list[i].clause = clause /\ viol.list[i].site = site
                                                                   /\ viol.list[i].cond = cond}) < 40
                       THEN Append(viol.list, [line |-> l, clause |-> clause, site |-> site, cond |-> cond])
                       ELSE viol.list,
              bad |-> IF Len(viol.bad) < 50000 THEN Append(viol.bad, l) ELSE viol.bad]

Init == /\ l = 1 /\ cfg = [minPeers |-> 0] /\ viol = [list |-> <<>>, bad |-> <<>>] /\ nviol = 0 /\ nchk = 0
        /\ drift = 0 /\ strictreg = 0 /\ naccept = 0

Reset == /\ Ev.ev = "Reset" /\ cfg' = Ev.cfg
         /\ UNCHANGED <<viol, nviol, nchk, drift, strictreg, naccept>>

Site(bft) == IF bft THEN "validate_membership/bft" ELSE "validate_membership/normal"

Validate ==
  /\ Ev.ev = "Validate"
  /\ LET W == Ev.w
         v == Vd(Ev.v)
         b == Broken(Ev.bft, cfg, Ev.cand, W, v)
         K == 1 .. Len(Ev.flips)
         FW(k) == Flip(W, Ev.flips[k].i)
         FV(k) == Vd(Ev.flips[k].v)
         fb(k) == IF ~W[Ev.flips[k].i].c THEN "TraceMalformed"
                  ELSE IF ~FlipMonotone(v, FV(k)) THEN "FlipMonotone"
                  ELSE Broken(Ev.bft, cfg, Ev.cand, FW(k), FV(k))
         bad == {k \in K : fb(k) # ""}
         iv == Verdict("", Ev.bft, cfg, Ev.cand, W)
     IN /\ IF b # "" THEN Note(b, Site(Ev.bft), Ev.fam)
           ELSE IF bad # {} THEN Note(fb(CHOOSE k \in bad : \A k2 \in bad : k <= k2), Site(Ev.bft), Ev.fam)
           ELSE UNCHANGED <<viol, nviol>>
        /\ nchk' = nchk + 1 + Len(Ev.flips)
        /\ naccept' = naccept + (IF v.valid THEN 1 ELSE 0)
        /\ drift' = drift + (IF iv.valid # v.valid /\ ~(~Ev.bft /\ NormalBoundary(cfg, W)) THEN 1 ELSE 0)
        /\ strictreg' = strictreg + (IF ~BftRegionsStrict(Ev.bft, cfg, W, v) THEN 1 ELSE 0)
  /\ UNCHANGED cfg

(* the verdict function must not panic *)
Panic == /\ Ev.ev = "Panic" /\ Note("NoPanic", Site(Ev.bft), Ev.fam)
         /\ UNCHANGED <<cfg, nchk, drift, strictreg, naccept>>

Next == /\ l <= N /\ l' = l + 1
        /\ (Reset \/ Validate \/ Panic)
Spec == Init /\ [][Next]_vars

Report == (l = N + 1) =>
  JsonSerialize(IOEnv.OUT, [consumed |-> l - 1, total |-> N, nviol |-> nviol, checked |-> nchk, viol |-> viol.list, badlines |-> viol.bad,
                            drift |-> drift, strictreg |-> strictreg, accepted |-> naccept])
=============================================================================
