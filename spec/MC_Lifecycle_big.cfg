SPECIFICATION Spec
CONSTANTS
  Ops = {1, 2, 3}
  Peers = {10, 20}
  MaxRounds = 3
  AsImplemented_NoShutdownCheck = FALSE
INVARIANTS QuietAfterStop BoundedTimeouts TasksEnd
PROPERTIES EveryOpCompletes StopCompletes
CHECK_DEADLOCK FALSE
