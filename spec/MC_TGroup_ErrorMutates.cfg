\* as implemented: mark_for_removal / suspend_participant write the status, then report InsufficientParticipants; must violate ThresholdWithinActive
SPECIFICATION Spec
CONSTANTS
  Sizes = {2, 3}
  InitStatuses = {"Active", "Inactive"}
  MaxInitIdle = 3
  ArgIds = {1, 2, 3, 9}
  NewIds = {1, 4}
  Tokens = {"S", "F", "P"}
  HugeChoices = {FALSE, TRUE}
  MaxVer = 3
  AuditCap = 5
  AuditDrop = 2
  AsImplemented_ErrorMutates = TRUE
  AsImplemented_LastLeaderDemotable = FALSE
  AsImplemented_CreateSkipsValidate = FALSE
  AsImplemented_PermissionIgnoresStatus = FALSE
  AsImplemented_DeadPermissions = FALSE
  AsImplemented_HugeSuspensionPanics = FALSE
  Variant_ThresholdIgnoresActive = FALSE
INVARIANTS TypeOK ThresholdWithinActive
CHECK_DEADLOCK FALSE
