---------------------------- MODULE SchedulerRules ----------------------------
(***************************************************************************)
(* MaintenanceScheduler (src/dht/routing_maintenance/scheduler.rs): rules  *)
(* shared by the model (Scheduler.tla) and the acceptor                    *)
(* (Trace_Scheduler.tla).  A task is a record [last, interval, running,    *)
(* runs, fails]; time is an integer.                                       *)
(***************************************************************************)
EXTENDS Naturals, Sequences, FiniteSets

Due(t, active, now) == active /\ ~t.running /\ now - t.last >= t.interval
Started(t) == [t EXCEPT !.running = TRUE]
Completed(t, now) == [t EXCEPT !.running = FALSE, !.last = now, !.runs = @ + 1]
Failed(t, now) == [t EXCEPT !.running = FALSE, !.last = now, !.fails = @ + 1]
=============================================================================
