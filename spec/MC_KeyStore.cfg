SPECIFICATION Spec
CONSTANTS
  Pw = {1, 2, 3}
  Weak = {3}
  Ids = {1, 2}
  Seeds = {11, 12}
  MaxOps = 6
  AsImplemented_CacheBeforePassword = FALSE
  Variant_InPlaceWrite = FALSE
INVARIANTS OnlyCurrent CurrentWorks OldPwDead Atomic NoMixture
CHECK_DEADLOCK FALSE
