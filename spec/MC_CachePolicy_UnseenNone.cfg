\* as implemented: LRU / FIFO answer None for a non-empty cache they have seen no key of (fresh strategy after set_eviction_strategy)
SPECIFICATION Spec
CONSTANTS
  Keys = {1, 2, 3}
  Kinds = {"LRU", "LFU", "FIFO", "Adaptive"}
  MaxFreq = 3
  MaxLen = 4
  AsImplemented_NoRemoveHook = FALSE
  AsImplemented_FifoDuplicates = FALSE
  AsImplemented_UnseenNone = TRUE
  Variant_LruNoReindex = FALSE
INVARIANTS VictimSomeWhenNonEmpty
CHECK_DEADLOCK FALSE
