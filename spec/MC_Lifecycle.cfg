SPECIFICATION Spec
CONSTANTS
  Ops = {1, 2}
  Peers = {10, 20}
  MaxRounds = 2
  AsImplemented_NoShutdownCheck = FALSE
INVARIANTS QuietAfterStop BoundedTimeouts TasksEnd
PROPERTIES EveryOpCompletes StopCompletes
CHECK_DEADLOCK FALSE
