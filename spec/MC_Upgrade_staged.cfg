\* StagedUpdateManager, intended design (every AsImplemented_* flag FALSE): all staging-side invariants hold
SPECIFICATION SpecS
CONSTANTS
  Vers = {1, 2}
  Toks = {1, 2}
  NPaths = 1
  MaxBs = {1, 2}
  MaxAgeB = 1
  MaxAgeS = 1
  MaxOps = 5
  MaxTicks = 2
  AsImplemented_TieKeepsOlder = FALSE
  AsImplemented_SharedBackupFile = FALSE
  AsImplemented_CleanupNeedsDir = FALSE
  AsImplemented_RollbackToVersionNeedsDir = FALSE
  AsImplemented_GetStagedUnverified = FALSE
  AsImplemented_SweepIgnoresMetadata = FALSE
  Variant_RollbackUnverified = FALSE
INVARIANTS TypeOKS GetStagedVerified GetStagedCleansDangling HasAgreesWithGet CleanupKeepsLiveBinary NothingOldAfterCleanupS
  CleanupCountsRemovals CleanupAllLeavesNothingS
CHECK_DEADLOCK FALSE
