SPECIFICATION Spec
CONSTANTS
  IvCritical = 60000
  IvImportant = 300000
  IvStandard = 900000
  IvBackground = 3600000
  FailTrigger = 10
  TrigNum = 7
  TrigDen = 10
  DeescFailMax = 3
  DeescNum = 9
  DeescDen = 10
  IndFailTrigger = 10
  MaxBuckets = 256
  AsImplemented_MarkLostIfAbsent = TRUE
  AsImplemented_TierIgnoresCount = TRUE
  AsImplemented_TrackDuplicates = TRUE
  AsImplemented_ResetNotPropagated = TRUE
  Variant_RecentBeatsClose = FALSE
  Slack = 5000
  DefaultThr = 300000
INVARIANT Report
CHECK_DEADLOCK FALSE
