SPECIFICATION Spec
CONSTANTS
  Node = {1, 2, 4, 7}
  Self = 1
  K = 2
  Alpha = 3
  MaxIter = 20
  ReplyCap = 20
  Targets = {0, 3, 5, 6}
  AsImplemented_ConvergeBreak = FALSE
  AsImplemented_UnsortedWorst = FALSE
  AsImplemented_SeedOnlyK = FALSE
INVARIANTS Emit
CHECK_DEADLOCK FALSE
