-------------------------- MODULE Trace_PeerRecord --------------------------
(***************************************************************************)
(* Acceptor for traces recorded from the real PeerDHTRecord /              *)
(* SignatureCache (harness module c09).  Model state: what was really      *)
(* signed (`signed`), the user id derived from each key (`derived`), and,  *)
(* only to describe the input condition of a violation, the (uid,seq,ts)   *)
(* triples already presented to the current cache (`seen`).                *)
(* Rules (PeerRecordRules): DirectIff, CacheTransparent, Bounds.           *)
(***************************************************************************)
EXTENDS Integers, Sequences, FiniteSets, TLC, Json, IOUtils, PeerRecordRules

Rec == ndJsonDeserialize(IOEnv.TRACE)
N == Len(Rec)

VARIABLES l, signed, derived, seen, viol, nviol, nchk,
          segv      \* violations per Reset segment (for the binding self-test)
vars == <<l, signed, derived, seen, viol, nviol, nchk, segv>>
Ev == Rec[l]

(* append every entry of `vs` (sequence of [clause, cond]) to the violation log; at most 25 entries are
   kept per (clause, cond) class so that a frequent known class can never crowd out a new one *)
CountOf(c, d) == Cardinality({i \in 1..Len(viol) : viol[i].clause = c /\ viol[i].cond = d})
NoteAll(vs) ==
  /\ nviol' = nviol + Len(vs)
  /\ segv' = IF Len(segv) = 0 THEN segv ELSE [segv EXCEPT ![Len(segv)] = @ + Len(vs)]
  /\ viol' = viol \o SelectSeq([i \in 1..Len(vs) |-> [line |-> l, clause |-> vs[i].clause, cond |-> vs[i].cond]],
                               LAMBDA v : CountOf(v.clause, v.cond) < 25)

Init == /\ l = 1 /\ signed = {} /\ derived = <<>> /\ seen = {} /\ viol = <<>> /\ nviol = 0 /\ nchk = 0 /\ segv = <<>>

Reset == /\ Ev.ev = "Reset" /\ seen' = {} /\ signed' = {} /\ derived' = <<>>
         /\ segv' = Append(segv, 0)
         /\ UNCHANGED <<viol, nviol, nchk>>

Key == /\ Ev.ev = "Key" /\ derived' = (Ev.pk :> Ev.uid) @@ derived
       /\ UNCHANGED <<signed, seen, viol, nviol, nchk, segv>>

Sign == /\ Ev.ev = "Sign" /\ signed' = signed \cup {[body |-> Ev.body, sig |-> Ev.sig]}
        /\ UNCHANGED <<derived, seen, viol, nviol, nchk, segv>>

Clear == /\ Ev.ev = "Clear" /\ seen' = {} /\ UNCHANGED <<signed, derived, viol, nviol, nchk, segv>>

Verify ==
  /\ Ev.ev = "Verify"
  /\ LET b == Ev.body
         ideal == Ideal(signed, derived, b, Ev.sig)
         tri == <<b.uid, b.seq, b.ts>>
         v1 == IF Ev.direct = ideal THEN <<>>
               ELSE <<[clause |-> "DirectIff",
                       cond |-> IF Ev.direct /\ SignedExactly(signed, b, Ev.sig) THEN "accept_uid_not_derived_from_key"
                                ELSE IF Ev.direct THEN "accept_not_signed" ELSE "reject_genuine"]>>
         v2 == IF Ev.cached = Ev.direct THEN <<>>
               ELSE <<[clause |-> "CacheTransparent",
                       cond |-> (IF Ev.cached THEN "accept" ELSE "reject") \o
                                (IF tri \in seen THEN "_shares_uid_seq_ts_with_earlier" ELSE "_fresh")]>>
     IN /\ NoteAll(v1 \o v2)
        /\ seen' = seen \cup {tri}
  /\ nchk' = nchk + 1
  /\ UNCHANGED <<signed, derived>>

New == /\ Ev.ev = "New"
       /\ IF Ev.ok = InBounds(Ev.name_len, Ev.eps, Ev.ttl) THEN NoteAll(<<>>)
          ELSE NoteAll(<<[clause |-> "Bounds", cond |-> IF Ev.ok THEN "accepted_out_of_bounds" ELSE "refused_in_bounds"]>>)
       /\ nchk' = nchk + 1
       /\ UNCHANGED <<signed, derived, seen>>

Panic == /\ Ev.ev = "Panic" /\ NoteAll(<<[clause |-> "NoPanic", cond |-> Ev.where]>>)
         /\ UNCHANGED <<signed, derived, seen, nchk>>

Next == /\ l <= N /\ l' = l + 1
        /\ (Reset \/ Key \/ Sign \/ Clear \/ Verify \/ New \/ Panic)
Spec == Init /\ [][Next]_vars

Report == (l = N + 1) =>
  JsonSerialize(IOEnv.OUT, [consumed |-> l - 1, total |-> N, nviol |-> nviol, checked |-> nchk, viol |-> viol, segv |-> segv])
=============================================================================
