------------------------------ MODULE KeyStore ------------------------------
(***************************************************************************)
(* Encrypted key store of saorsa-core (src/encrypted_key_storage.rs:       *)
(* EncryptedKeyStorageManager::{initialize, store_master_seed,             *)
(* retrieve_master_seed, change_password, clear_cache, encrypt_and_store,  *)
(* load_and_decrypt}).                                                     *)
(*                                                                         *)
(* I-level state: the store file (content [pw, seeds] + `intact`), the     *)
(* .tmp file, the in-process plaintext cache, the pending write between    *)
(* "tmp written" and "renamed".  A crash / reopen loses the cache and the  *)
(* pending operation, never the files.                                     *)
(* P-level: rules of KeyStoreRules evaluated on every retrieve, and        *)
(* Atomic: at every instant the file is the content before or after the    *)
(* operation in progress.                                                  *)
(*                                                                         *)
(* AsImplemented_CacheBeforePassword : retrieve answers from the cache     *)
(*     before any use of the password (pinned tree).                       *)
(* Variant_InPlaceWrite : write the store file directly (not the code; it  *)
(*     shows that Atomic is not vacuous).                                  *)
(***************************************************************************)
EXTENDS Integers, Sequences, FiniteSets, TLC, KeyStoreRules

CONSTANTS Pw, Weak, Ids, Seeds, MaxOps,
          AsImplemented_CacheBeforePassword, Variant_InPlaceWrite

ASSUME Weak \subseteq Pw /\ 0 \notin Pw /\ 0 \notin Seeds

Mixed == [pw |-> -1, seeds |-> <<>>]          \* a half-written file

VARIABLES file, intact, tmp, cache, pend, before, after, former, nops, last
vars == <<file, intact, tmp, cache, pend, before, after, former, nops, last>>

NoPend == [kind |-> "none", id |-> 0, seed |-> 0]
NoLast == [t |-> NoStore, intact |-> TRUE, id |-> 0, pw |-> 0, res |-> Err]

Init == /\ file = NoStore /\ intact = TRUE /\ tmp = NoStore /\ cache = <<>> /\ pend = NoPend
        /\ before = NoStore /\ after = NoStore /\ former = {} /\ nops = 0 /\ last = NoLast

Idle == pend = NoPend
Step == nops < MaxOps /\ nops' = nops + 1

(* ---- a writing operation: encrypt_and_store = write .tmp, rename; then the cache update ---- *)
Begin(new, kind, id, seed) ==
  /\ before' = file /\ after' = new
  /\ IF Variant_InPlaceWrite
     THEN file' = Mixed /\ tmp' = tmp
     ELSE tmp' = new /\ file' = file
  /\ pend' = [kind |-> kind, id |-> id, seed |-> seed]

Initialize(pw) ==
  /\ Idle /\ Step /\ file = NoStore /\ pw \notin Weak
  /\ Begin([pw |-> pw, seeds |-> <<>>], "init", 0, 0)
  /\ UNCHANGED <<intact, cache, former, last>>

Store(id, seed, pw) ==
  /\ Idle /\ Step
  /\ IF file.pw # 0 /\ intact /\ pw = file.pw
     THEN /\ Begin(StoreEffect(file, id, seed), "store", id, seed)
          /\ UNCHANGED <<intact, cache, former, last>>
     ELSE UNCHANGED <<file, intact, tmp, cache, pend, before, after, former, last>>   \* load_and_decrypt fails

ChangePw(old, new) ==
  /\ Idle /\ Step
  /\ IF new \notin Weak /\ file.pw # 0 /\ intact /\ old = file.pw
     THEN /\ Begin(ChangeEffect(file, new), "change", 0, 0)
          /\ UNCHANGED <<intact, cache, former, last>>
     ELSE UNCHANGED <<file, intact, tmp, cache, pend, before, after, former, last>>

(* std::fs::rename, followed by the in-memory bookkeeping of the operation *)
Commit ==
  /\ ~Idle
  /\ file' = after /\ tmp' = NoStore /\ pend' = NoPend /\ before' = after
  /\ cache' = IF pend.kind = "change" THEN <<>>
              ELSE IF pend.kind = "init" THEN cache
              ELSE (pend.id :> pend.seed) @@ cache
  /\ former' = IF pend.kind = "change" THEN former \cup {before.pw} ELSE former
  /\ UNCHANGED <<intact, after, nops, last>>

(* process death at any instant (also between tmp and rename), then a new manager on the same files *)
Crash ==
  /\ cache' = <<>> /\ pend' = NoPend
  /\ before' = file /\ after' = file
  /\ UNCHANGED <<file, intact, tmp, former, nops, last>>

ClearCache == Idle /\ Step /\ cache' = <<>> /\ UNCHANGED <<file, intact, tmp, pend, before, after, former, last>>

Corrupt == Idle /\ Step /\ file.pw # 0 /\ intact /\ intact' = FALSE
           /\ UNCHANGED <<file, tmp, cache, pend, before, after, former, last>>
Restore == Idle /\ ~intact /\ intact' = TRUE
           /\ UNCHANGED <<file, tmp, cache, pend, before, after, former, nops, last>>

(* ---- retrieve_master_seed ---- *)
FromFile(id, pw) == IF file.pw > 0 /\ intact /\ pw = file.pw /\ id \in DOMAIN file.seeds THEN file.seeds[id] ELSE Err
Retrieve(id, pw) ==
  /\ Idle /\ Step
  /\ LET res == IF AsImplemented_CacheBeforePassword /\ id \in DOMAIN cache THEN cache[id]
                ELSE FromFile(id, pw) IN
     /\ last' = [t |-> file, intact |-> intact, id |-> id, pw |-> pw, res |-> res]
     /\ cache' = IF res # Err THEN (id :> res) @@ cache ELSE cache
  /\ UNCHANGED <<file, intact, tmp, pend, before, after, former>>

Next == \/ \E pw \in Pw : Initialize(pw)
        \/ \E id \in Ids, s \in Seeds, pw \in Pw : Store(id, s, pw)
        \/ \E o, n \in Pw : ChangePw(o, n)
        \/ Commit \/ Crash \/ ClearCache \/ Corrupt \/ Restore
        \/ \E id \in Ids, pw \in Pw : Retrieve(id, pw)
Spec == Init /\ [][Next]_vars

(* ---- properties ---- *)
OnlyCurrent == OnlyCurrentPw(last.t, last.id, last.pw, last.res)
CurrentWorks == CurrentPwWorks(last.t, last.intact, last.id, last.pw, last.res)
OldPwDead == (last.res # Err) => last.pw \notin (former \ {last.t.pw})
Atomic == file \in {before, after}
NoMixture == file # Mixed
=============================================================================
