--------------------------------- MODULE Wire ---------------------------------
(***************************************************************************)
(* Message level of the DHT protocol between DhtNetworkManagers            *)
(* ("/dht/1.0.0" frames: Request / Response with a message id).            *)
(* Specification growth: the wire behaviour every listed network property  *)
(* rests on.  Nodes issue requests with fresh ids; a node that receives a  *)
(* request answers it at most once, to the requester, with a result of the *)
(* kind that belongs to the operation; nodes may be silent; frames may be  *)
(* lost.  WireRules (below) is shared with Trace_Wire.tla, which judges    *)
(* every frame the in-memory hub saw between real nodes.                   *)
(***************************************************************************)
EXTENDS Naturals, FiniteSets, TLC

(* result kinds that answer an operation *)
Answers(op) ==
  CASE op = "Put" -> {"PutSuccess"}
    [] op = "FindNode" -> {"NodesFound", "GetNotFound"}
    [] op \in {"FindValue", "Get"} -> {"ValueFound", "GetSuccess", "NodesFound", "GetNotFound"}
    [] op = "Ping" -> {"PongReceived"}
    [] op = "Join" -> {"JoinSuccess"}
    [] op = "Leave" -> {"LeaveSuccess"}
    [] OTHER -> {}

CONSTANTS Node, Ids, Ops, AsImplemented_AnswerTwice

VARIABLES inflight,   \* requests delivered and not yet answered: set of [src, dst, id, op]
          used,       \* ids a node has used: [Node -> SUBSET Ids]
          net,        \* frames in transit: set of records
          bad         \* a response was sent that answers no outstanding request
vars == <<inflight, used, net, bad>>

Init == inflight = {} /\ used = [n \in Node |-> {}] /\ net = {} /\ bad = FALSE
SendRequest(a, b, i, o) ==
  /\ a # b /\ i \notin used[a] /\ used' = [used EXCEPT ![a] = @ \cup {i}]
  /\ net' = net \cup {[kind |-> "req", src |-> a, dst |-> b, id |-> i, op |-> o]} /\ UNCHANGED <<inflight, bad>>
Lose(f) == f \in net /\ net' = net \ {f} /\ UNCHANGED <<inflight, used, bad>>
DeliverRequest(f) ==
  /\ f \in net /\ f.kind = "req" /\ net' = net \ {f}
  /\ inflight' = inflight \cup {[src |-> f.src, dst |-> f.dst, id |-> f.id, op |-> f.op]} /\ UNCHANGED <<used, bad>>
Respond(r, res) ==
  /\ r \in inflight /\ res \in Answers(r.op)
  /\ net' = net \cup {[kind |-> "resp", src |-> r.dst, dst |-> r.src, id |-> r.id, op |-> res]}
  /\ inflight' = IF AsImplemented_AnswerTwice THEN inflight ELSE inflight \ {r}
  /\ bad' = (bad \/ \E f \in net : f.kind = "resp" /\ f.src = r.dst /\ f.dst = r.src /\ f.id = r.id) /\ UNCHANGED used
DeliverResponse(f) == f \in net /\ f.kind = "resp" /\ net' = net \ {f} /\ UNCHANGED <<inflight, used, bad>>
Next == \/ \E a, b \in Node, i \in Ids, o \in Ops : SendRequest(a, b, i, o)
        \/ \E f \in net : Lose(f) \/ DeliverRequest(f) \/ DeliverResponse(f)
        \/ \E r \in inflight, res \in {"PutSuccess", "NodesFound", "GetNotFound", "ValueFound", "PongReceived"} : Respond(r, res)
Spec == Init /\ [][Next]_vars

AtMostOneResponse == ~bad
ResponsesAnswerRequests == \A f \in net : f.kind = "resp" => f.id \in used[f.dst]
=============================================================================
