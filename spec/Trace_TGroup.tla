---------------------------- MODULE Trace_TGroup ----------------------------
(***************************************************************************)
(* Conformance acceptor for the threshold group membership / role          *)
(* management (harness module tgroup).  Every `Step` carries the projected *)
(* group before and after one public method of the real ThresholdGroup (or *)
(* ThresholdGroupManager::create_group), the arguments, the result (error  *)
(* variant, message, numbers) and what the parameterless queries answer    *)
(* for the state after the call.  The acceptor rebuilds the model state    *)
(* from `pre` plus the one thing it carries itself (the audit log as a     *)
(* sequence of result tokens: logged in full at every `Reset`, afterwards  *)
(* only as length / successes / failures), applies the functions of        *)
(* TGroupRules.tla (as-implemented flags on) and compares the new state,   *)
(* the result and the queries.  Mismatches are MODEL-DRIFT (informational).*)
(***************************************************************************)
EXTENDS TGroupRules, Json, IOUtils

Recs == ndJsonDeserialize(IOEnv.TRACE)
N == Len(Recs)
VARIABLES l, alog, prev, drift, ndrift, n
tvars == <<l, alog, prev, drift, ndrift, n>>
Ev == Recs[l]

ToRole(j) == [k |-> j.k, p |-> Elems(j.p)]
ToP(j) == [id |-> j.id, role |-> ToRole(j.role), st |-> j.st]
ToPs(q) == IF Len(q) = 0 THEN <<>> ELSE [i \in 1..Len(q) |-> ToP(q[i])]
ToS(j, audit) == [n |-> j.n, t |-> j.t, act |-> ToPs(j.act), pend |-> ToPs(j.pend), ver |-> j.ver, audit |-> audit,
                  parent |-> j.parent, name |-> j.name]
Summary(a) == <<Len(a), Cardinality({i \in 1..Len(a) : a[i] = "S"}), Cardinality({i \in 1..Len(a) : a[i] = "F"})>>
Same(q1, q2) == Len(q1) = Len(q2) /\ \A i \in 1..Len(q1) : q1[i] = q2[i]

Pre == ToS(Ev.pre, alog)
Exp ==
  CASE Ev.op = "mark" -> MarkForRemoval(Pre, Ev.id)
    [] Ev.op = "suspend" -> Suspend(Pre, Ev.id, Ev.huge)
    [] Ev.op = "role" -> UpdateRole(Pre, Ev.id, ToRole(Ev.role))
    [] Ev.op = "threshold" -> UpdateThreshold(Pre, Ev.nt)
    [] Ev.op = "addpending" -> AddPending(Pre, ToP(Ev.p))
    [] Ev.op = "audit" -> AuditAdd(Pre, Ev.tok)
    [] Ev.op = "check" -> [s |-> Pre, r |-> CheckPermission(Pre, Ev.id, Ev.perm)]
    [] Ev.op = "byrole" -> [s |-> Pre, r |-> OkRes]
    [] Ev.op = "create" -> Create(Pre, [t |-> Ev.cfg.t, parts |-> ToPs(Ev.cfg.parts), parent |-> Ev.cfg.parent, name |-> Ev.cfg.name])
    [] OTHER -> [s |-> Pre, r |-> Res("unknown operation", "", 0, 0)]

(* the parameterless queries on the state s *)
ObsOk(o, s) == /\ Same(o.active, ActiveIds(s)) /\ o.count = ActiveCount(s) /\ o.has = HasThreshold(s)
               /\ o.stats = Stats(s) /\ o.hier = Hierarchy(s) /\ o.valid = Validate(s)
(* nothing happens to the group between two steps *)
Continuous == Ev.pre = prev
StepOk == LET x == Exp IN
  /\ Continuous
  /\ ToS(Ev.post, x.s.audit) = x.s /\ Ev.post.aud = Summary(x.s.audit)
  /\ Ev.res = x.r
  /\ (Ev.op = "byrole" => Same(Ev.ids, ByRole(Pre, Ev.filter)))
  /\ (Ev.op = "check" => Ev.perm \in Perms)
  /\ ObsOk(Ev.obs, x.s)
ResetOk == Ev.state.aud = Summary(Ev.alog) /\ ObsOk(Ev.obs, ToS(Ev.state, Ev.alog))

Init == l = 1 /\ alog = <<>> /\ prev = <<>> /\ drift = <<>> /\ ndrift = 0 /\ n = 0
Note(what) == /\ ndrift' = ndrift + 1
              /\ drift' = IF Len(drift) < 20 THEN Append(drift, [line |-> l, op |-> what]) ELSE drift
Next == /\ l <= N /\ l' = l + 1
        /\ CASE Ev.ev = "Reset" -> /\ alog' = Ev.alog /\ prev' = Ev.state /\ n' = n + 1
                                   /\ IF ResetOk THEN UNCHANGED <<drift, ndrift>> ELSE Note("new")
             [] Ev.ev = "Step" -> /\ n' = n + 1 /\ prev' = Ev.post
                                  /\ alog' = Exp.s.audit
                                  /\ IF StepOk THEN UNCHANGED <<drift, ndrift>> ELSE Note(Ev.op)
             [] Ev.ev = "Panic" -> Note("panic") /\ UNCHANGED <<alog, prev, n>>
             [] OTHER -> UNCHANGED <<alog, prev, drift, ndrift, n>>
Spec == Init /\ [][Next]_tvars
Report == (l = N + 1) => JsonSerialize(IOEnv.OUT, [consumed |-> l - 1, total |-> N, nviol |-> ndrift, checked |-> n, viol |-> drift])
=============================================================================
