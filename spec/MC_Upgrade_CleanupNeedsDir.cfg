\* must FAIL: cleanup_old_backups on a manager whose directory does not exist (yet / any more) is an Io error
SPECIFICATION SpecB
CONSTANTS
  Vers = {1, 2}
  Toks = {1, 2}
  NPaths = 1
  MaxBs = {1, 2}
  MaxAgeB = 1
  MaxAgeS = 1
  MaxOps = 4
  MaxTicks = 2
  AsImplemented_TieKeepsOlder = FALSE
  AsImplemented_SharedBackupFile = FALSE
  AsImplemented_CleanupNeedsDir = TRUE
  AsImplemented_RollbackToVersionNeedsDir = FALSE
  AsImplemented_GetStagedUnverified = FALSE
  AsImplemented_SweepIgnoresMetadata = FALSE
  Variant_RollbackUnverified = FALSE
INVARIANTS CleanupFailsOnlyOnBadMetadata
CHECK_DEADLOCK FALSE
