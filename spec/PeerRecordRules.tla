--------------------------- MODULE PeerRecordRules ---------------------------
(***************************************************************************)
(* P-level rules of property C09, shared verbatim by the model-checked     *)
(* specification (PeerRecord.tla) and by the trace acceptor                *)
(* (Trace_PeerRecord.tla).  Pure operators, no state.                      *)
(*                                                                         *)
(* A record body is a TLA+ record of field tokens                          *)
(*   [ver, uid, pk, seq, name, eps, ts, ttl]                               *)
(* (equality of tokens = byte equality of the field).  `signed` is the set *)
(* of [body, sig] pairs that were produced by signing `body` with the      *)
(* secret half of `body.pk`.  `derived` maps a key token to the token of   *)
(* the user id derived from that key.                                      *)
(***************************************************************************)
EXTENDS Integers

(* the signature was produced, by the owner of the embedded key, over exactly this body *)
SignedExactly(signed, body, sig) == [body |-> body, sig |-> sig] \in signed

(* the user id is the one derived from the embedded public key *)
UidBound(derived, body) == body.pk \in DOMAIN derived /\ derived[body.pk] = body.uid

(* C09, first sentence: verification may succeed only (and, for an honest owner, must succeed) then *)
Ideal(signed, derived, body, sig) == UidBound(derived, body) /\ SignedExactly(signed, body, sig)

(* C09, bounds: name absent (-1) or 1..255 long, 1..16 endpoints, lifetime 1 s .. 24 h *)
InBounds(nameLen, nEps, ttl) ==
  /\ (nameLen = -1 \/ (nameLen >= 1 /\ nameLen <= 255))
  /\ nEps >= 1 /\ nEps <= 16
  /\ ttl >= 1 /\ ttl <= 86400
=============================================================================
