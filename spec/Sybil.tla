------------------------------- MODULE Sybil -------------------------------
(***************************************************************************)
(* State machine of the Sybil detector (SybilDetector of                   *)
(* src/dht/sybil_detector.rs) for exhaustive checking.  The functions are  *)
(* SybilRules.tla, the same ones Trace_Sybil.tla holds against the real    *)
(* object.  Specification growth module (not a listed property).           *)
(*                                                                         *)
(* Time is a counter of ticks; every join record has an exact instant      *)
(* (lo = hi).  Peers of PfxA have id prefix 1, the others prefix 2.        *)
(* `prev` is the detector state and clock before the last step, `last` the *)
(* operation that was applied, so that properties of single steps are      *)
(* plain invariants; the queries are evaluated in every reachable state.   *)
(* `hist` is a ghost: the join facts [p, sub, t] the DESIGN still knows -  *)
(* a departure forgets the peer's joins, cleanup those older than the      *)
(* record age; the window plays no part in it.  `ever`: peers ever seen.   *)
(***************************************************************************)
EXTENDS SybilRules

CONSTANTS Peers, PfxA, NSub,
          BThr, Win, PThr, SimPm, AsymThrPm, Age, AgeIsMax, MinObs,   \* the configuration (AgeIsMax: max_record_age = Duration::MAX)
          MaxT, MaxOps, OpSet,                               \* bounds; the operations that are explored
          Lats, Sizes, Claims, Measures                      \* values for record_response / claimed / measured bandwidth

VARIABLES st, now, prev, last, nops, hist, ever
vars == <<st, now, prev, last, nops, hist, ever>>

C == [bthr |-> BThr, win |-> Win, pthr |-> PThr, sim |-> SimPm, asym |-> AsymThrPm, age |-> IF AgeIsMax THEN -1 ELSE Age, minobs |-> MinObs]
Subs == {<<i>> : i \in 1..NSub}
PfxOf(p) == IF p \in PfxA THEN 1 ELSE 2
Sym == Permutations(PfxA) \cup Permutations(Peers \ PfxA)      \* peers with the same id prefix are interchangeable

Init == st = Empty /\ now = 0 /\ prev = [st |-> Empty, now |-> 0] /\ last = [op |-> "init", p |-> 0, panic |-> FALSE]
        /\ nops = 0 /\ hist = {} /\ ever = {}

Do(s, op, p, pn, h) == /\ st' = s /\ prev' = [st |-> st, now |-> now] /\ last' = [op |-> op, p |-> p, panic |-> pn]
                       /\ nops' = nops + 1 /\ hist' = h /\ UNCHANGED now
Tick == /\ now < MaxT /\ now' = now + 1 /\ prev' = [st |-> st, now |-> now] /\ last' = [op |-> "tick", p |-> 0, panic |-> FALSE]
        /\ UNCHANGED <<st, nops, hist, ever>>
Next ==
  \/ Tick
  \/ /\ nops < MaxOps
     /\ \/ /\ "join" \in OpSet /\ \E p \in Peers, sub \in Subs : \E s \in Join(st, C, p, PfxOf(p), sub, now, now) :
                                     Do(s, "join", p, FALSE, hist \cup {[p |-> p, sub |-> sub, t |-> now]}) /\ ever' = ever \cup {p}
        \/ /\ "joinnoip" \in OpSet /\ \E p \in Peers : \E s \in Join(st, C, p, PfxOf(p), NoSub, now, now) :
                                     Do(s, "join", p, FALSE, hist) /\ ever' = ever \cup {p}
        \/ /\ "leave" \in OpSet /\ \E p \in Peers : Do(Leave(st, p, PfxOf(p)), "leave", p, FALSE, {h \in hist : h.p # p}) /\ UNCHANGED ever
        \/ /\ "respond" \in OpSet /\ \E p \in Peers, l \in Lats, z \in Sizes : Do(Respond(st, p, l, z), "respond", p, FALSE, hist) /\ UNCHANGED ever
        \/ /\ "claim" \in OpSet /\ \E p \in Peers, b \in Claims : Do(Claim(st, p, b), "claim", p, FALSE, hist) /\ UNCHANGED ever
        \/ /\ "measure" \in OpSet /\ \E p \in Peers, b \in Measures : Do(Measure(st, p, b), "measure", p, FALSE, hist) /\ UNCHANGED ever
        \/ /\ "analyze" \in OpSet /\ \E evs \in EvidenceOrders(st, C, now) : Do(Analyze(st, evs), "analyze", 0, FALSE, hist) /\ UNCHANGED ever
        \/ /\ "clear" \in OpSet /\ Do(Clear(st), "clear", 0, FALSE, hist) /\ UNCHANGED ever
        \/ /\ "cleanup" \in OpSet /\ LET x == Cleanup(st, C, now, now) IN
                                     \E s \in x.S : Do(s, "cleanup", 0, x.panic, IF AgeIsMax THEN hist ELSE {h \in hist : h.t > now - Age}) /\ UNCHANGED ever
Spec == Init /\ [][Next]_vars

(* ---- the queries in the current state ---- *)
Ev == AllEvidence(st, C, now)
Flagged == BurstFlagged(st, C, now)
Disjoint(gs) == \A i, j \in 1..Len(gs) : i # j => gs[i].m \cap gs[j].m = {}
UnionM(gs) == UNION {gs[i].m : i \in 1..Len(gs)}

(* ---- invariants of the design ---- *)
RecOK(r) == r.p \in Peers /\ r.lo \in 0..MaxT /\ r.hi = r.lo
TypeOK == /\ st.known \subseteq Peers /\ DOMAIN st.prof \subseteq Peers /\ DOMAIN st.joins \subseteq Subs /\ DOMAIN st.pfx \subseteq {1, 2}
          /\ \A s \in DOMAIN st.joins : \A i \in 1..Len(st.joins[s]) : RecOK(st.joins[s][i])
          /\ \A p \in DOMAIN st.prof : Len(st.prof[p].lat) <= MaxHistory /\ Len(st.prof[p].lat) = Len(st.prof[p].size)
          /\ \A i \in 1..Len(st.groups) : st.groups[i].m \subseteq Peers /\ st.groups[i].ev # <<>>
          /\ now \in 0..MaxT
(* a subnet is flagged exactly when at least `threshold` different peers joined from it within the window (and the design has
   not forgotten those joins) *)
BurstExact == \A s \in Subs : (s \in Flagged) <=> Cardinality({h.p : h \in {x \in hist : x.sub = s /\ now - x.t <= Win}}) >= BThr
(* the records of a subnet are in arrival order *)
JoinsOrdered == \A s \in DOMAIN st.joins : \A i, j \in 1..Len(st.joins[s]) : i < j => st.joins[s][i].lo <= st.joins[s][j].lo
(* burst evidence names at least `threshold` different peers *)
BurstDistinctPeers == \A e \in BurstEv(st, C, now) : Cardinality(e.ps) >= BThr
(* a prefix is flagged exactly when at least `threshold` PRESENT peers share it *)
PrefixExact == \A f \in {1, 2} : (\E e \in PrefixEv(st, C) : e.key = <<f>>) <=> Cardinality({p \in st.known : PfxOf(p) = f}) >= PThr
PrefixNamesSharers == \A e \in PrefixEv(st, C) : e.ps = {p \in st.known : <<PfxOf(p)>> = e.key}
(* a peer that left is named by no detector *)
EvidenceNamesPresentOnly == \A e \in Ev : e.ps \subseteq st.known
(* equal histories are similar; similarity lies in [0, 1]; asymmetry is the strict rational comparison *)
IdenticalHistoriesSimilar == \A ps \in Pairs(DOMAIN st.prof) :
   PairSim(st, ps, LAMBDA x, y : (Comparable(x, y, C) /\ x.lat = y.lat /\ x.size = y.size) => SimCmp(x, y, C) >= 0) /\
   (PairSim(st, ps, LAMBDA x, y : Comparable(x, y, C) /\ x.lat = y.lat /\ x.size = y.size) => ps \in BehavPairs(st, C))
SimilarityBounded == \A ps \in Pairs(DOMAIN st.prof) : PairSim(st, ps, LAMBDA x, y : x.lat # <<>> /\ y.lat # <<>> =>
                        LET f == SimFrac(x, y) IN 0 <= f[1] /\ f[1] <= f[2] /\ SimFrac(y, x) = f)
AsymSound == \A p \in AsymPeers(st, C) : HasAsym(st.prof[p]) /\ (AsymThrPm >= 1000 => st.prof[p].claimed > st.prof[p].measured)
                                           /\ AsymPm(st.prof[p]) >= AsymThrPm
(* run_analysis on an unchanged history changes nothing: neither members nor evidence nor confidence *)
AnalysisIdempotent == \A o1 \in EvidenceOrders(st, C, now) : LET a == Analyze(st, o1) IN
                         \A o2 \in EvidenceOrders(a, C, now) : Analyze(a, o2).groups = a.groups
(* no peer is in two groups, and no evidence can make it so *)
GroupsDisjoint == /\ Disjoint(st.groups)
                  /\ \A ps \in SUBSET Peers : ps # {} => Disjoint(GroupStep(st.groups, [k |-> "behav", key |-> <<>>, ps |-> ps]))
(* run_analysis: earlier groups persist; every peer named by evidence about two or more peers is suspected afterwards; nobody
   else becomes suspected *)
AnalyzeCovers == last.op = "analyze" =>
                   LET pe == AllEvidence(prev.st, C, prev.now) IN
                   /\ UnionM(prev.st.groups) \subseteq UnionM(st.groups)
                   /\ \A e \in pe : Cardinality(e.ps) >= 2 => e.ps \subseteq UnionM(st.groups)
                   /\ UnionM(st.groups) \subseteq UnionM(prev.st.groups) \cup UNION {e.ps : e \in pe}
                   /\ [st EXCEPT !.groups = <<>>] = [prev.st EXCEPT !.groups = <<>>]
GroupsOnlyByAnalysis == last.op \notin {"analyze", "clear"} => st.groups = prev.st.groups
(* is_peer_suspected <=> member of a group; the risk score is 0 exactly for unsuspected peers and at most 1 *)
SuspectedIffMember == \A p \in Peers : /\ Suspected(st, p) <=> p \in UnionM(st.groups)
                                       /\ (Risk(st, p) = 0) <=> ~Suspected(st, p)
                                       /\ Risk(st, p) \in 0..1000000
(* the risk of a peer only grows until the groups are cleared *)
RiskMonotoneUntilClear == last.op # "clear" => \A p \in Peers : Risk(st, p) >= Risk(prev.st, p)
(* the overall score is the fraction of the present peers that are suspected *)
OverallIsSuspectedFraction ==
  Overall(st) = IF st.known = {} THEN 0 ELSE RoundDiv(Cardinality({p \in st.known : Suspected(st, p)}) * 1000000, Cardinality(st.known))
(* groups are founded by two peers that are in no group: their number is bounded by the peers ever seen *)
GroupCountBounded == 2 * GroupCount(st) <= Cardinality(ever)
ClearEmpties == last.op = "clear" => /\ GroupCount(st) = 0 /\ \A p \in Peers : ~Suspected(st, p) /\ Risk(st, p) = 0
                                     /\ Overall(st) = 0 /\ st = [prev.st EXCEPT !.groups = <<>>]
(* cleanup forgets exactly the join records that are at least max_record_age old, and nothing else ever forgets them but a departure *)
Recs(s) == UNION {{[p |-> s.joins[k][i].p, sub |-> k, t |-> s.joins[k][i].lo] : i \in 1..Len(s.joins[k])} : k \in DOMAIN s.joins}
CleanupOnlyOld == /\ last.op = "cleanup" => /\ Recs(st) = {r \in Recs(prev.st) : AgeIsMax \/ now - r.t < Age}
                                            /\ [st EXCEPT !.joins = prev.st.joins] = prev.st
                  /\ last.op \notin {"cleanup", "join", "leave"} => st.joins = prev.st.joins
(* what the detector remembers is what the design remembers, and lies within one window of the subnet's latest join *)
RecordsAreHistory == Recs(st) \subseteq hist
RecordsWithinWindow == \A s \in DOMAIN st.joins : LET q == st.joins[s] IN q # <<>> => \A i \in 1..Len(q) : q[Len(q)].lo - q[i].lo <= Win
NoPanic == ~last.panic

(* deliberately false: counterexamples show that the bounds reach these situations *)
Vac_NeverBurst == Flagged = {}
Vac_NeverTwoGroups == GroupCount(st) < 2
Vac_NeverForgets == ~(last.op = "cleanup" /\ st # prev.st)
Vac_NeverBehav == BehavPairs(st, C) = {}
=============================================================================
