------------------------------- MODULE Upgrade -------------------------------
(***************************************************************************)
(* The on-disk state machines of the auto-upgrade subsystem of saorsa-core *)
(* (src/upgrade/rollback.rs, src/upgrade/staged.rs) under an environment   *)
(* that installs binaries, tampers with the directories, restarts the      *)
(* managers with another configuration and lets time pass.  Two            *)
(* independent machines: SpecB (RollbackManager) and SpecS                 *)
(* (StagedUpdateManager); each cfg picks one.  The transition functions    *)
(* are those of UpgradeRules.tla, which Trace_Upgrade.tla checks against   *)
(* every observed step of the real managers.  The clock of the model       *)
(* stands still at 0; time passes by Age (see UpgradeRules).               *)
(***************************************************************************)
EXTENDS UpgradeRules, TLC

CONSTANTS Vers, Toks, NPaths, MaxBs, MaxAgeB, MaxAgeS, MaxOps, MaxTicks

VARIABLES b,          \* backup side
          g,          \* staging side
          last,       \* the last step: [op, cls, val, bad (metadata was unparseable before it), pre (state before it)]
          pledge,     \* <<>> or <<[p, tok]>>: a backup of content tok of path p was made and nothing but installs / time / observers since
          tampered,   \* the environment touched the directory behind the manager's back (reset by cleanup_all)
          nops, ticks
vars == <<b, g, last, pledge, tampered, nops, ticks>>
Paths == 1..NPaths
Now == 0

Step(op, r, pre) == /\ last' = [op |-> op, cls |-> r.cls, val |-> r.val, bad |-> pre.mst = BAD, pre |-> pre]
                    /\ nops' = nops + 1

(* ------------------------------ backup side ------------------------------ *)
InitB == /\ b = [dir |-> FALSE, mst |-> NONE, meta |-> <<>>, files |-> {}, bins |-> [p \in Paths |-> 1],
                 maxb |-> CHOOSE x \in MaxBs : \A y \in MaxBs : x >= y, maxage |-> MaxAgeB]
         /\ g = [dir |-> FALSE, mst |-> NONE, rec |-> <<>>, files |-> {}, maxage |-> MaxAgeS]
         /\ last = [op |-> "init", cls |-> "ok", val |-> <<>>, bad |-> FALSE, pre |-> <<>>]
         /\ pledge = <<>> /\ tampered = FALSE /\ nops = 0 /\ ticks = 0

DoB(op, r, pl, tam) == /\ b' = r.s /\ Step(op, r, b) /\ pledge' = pl /\ tampered' = tam /\ UNCHANGED <<g, ticks>>
Keys == {<<f[1], f[2]>> : f \in b.files}
NextB ==
  /\ nops < MaxOps
  /\ \/ \E p \in Paths, v \in Vers : LET r == CreateBackup(b, p, v, Now) IN
          DoB("create_backup", r, IF r.cls = "ok" THEN <<[p |-> p, tok |-> b.bins[p]]>> ELSE <<>>, tampered)
     \/ DoB("rollback", Rollback(b), <<>>, tampered)
     \/ \E v \in Vers : DoB("rollback_to_version", RollbackTo(b, v), <<>>, tampered)
     \/ \E v \in Vers : DoB("delete_backup", DeleteBackup(b, v), <<>>, tampered)
     \/ DoB("cleanup_old_backups", CleanupOld(b, Now), <<>>, tampered)
     \/ DoB("cleanup_all", CleanupAllB(b), <<>>, FALSE)
     \/ \E p \in Paths, t \in Toks \cup {0} : t # b.bins[p] /\ ~(t = 0 /\ b.bins[p] = -1) /\ DoB("env_set_binary", EnvSetBinary(b, p, t), pledge, tampered)
     \/ \E p \in Paths : b.bins[p] # -1 /\ DoB("env_remove_install_dir", EnvRemoveInstallDir(b, p), pledge, tampered)
     \/ \E mb \in MaxBs : mb # b.maxb /\ DoB("restart", RestartB(b, mb, b.maxage), pledge, tampered)
     \/ \E k \in Keys : DoB("env_delete_file", EnvDeleteBackupFile(b, k[1], k[2]), <<>>, TRUE)
     \/ \E k \in Keys, t \in Toks : DoB("env_corrupt_file", EnvCorruptBackupFile(b, k[1], k[2], t), <<>>, TRUE)
     \/ (b.mst # NONE /\ DoB("env_delete_meta", EnvDeleteMetaB(b), <<>>, TRUE))
     \/ (b.dir /\ b.mst # BAD /\ DoB("env_garble_meta", EnvGarbleMetaB(b), <<>>, TRUE))
     \/ (ticks < MaxTicks /\ b.dir /\ b' = AgeB(b, 1).s /\ Step("age", AgeB(b, 1), b) /\ ticks' = ticks + 1 /\ UNCHANGED <<g, pledge, tampered>>)
SpecB == InitB /\ [][NextB]_vars

IsB(ops) == last.op \in ops /\ last.cls = "ok"
TypeOKB == /\ b.dir \in BOOLEAN /\ b.mst \in {NONE, OKM, BAD} /\ b.maxb \in MaxBs
           /\ \A i \in DOMAIN b.meta : b.meta[i].ver \in Vers /\ b.meta[i].tok \in Toks /\ b.meta[i].orig \in Paths /\ b.meta[i].at <= Now
           /\ \A f \in b.files : f[1] \in Vers /\ f[4] \in Toks
           /\ \A p \in Paths : b.bins[p] \in Toks \cup {0, -1}
           /\ (b.mst # OKM => b.meta = <<>>) /\ (~b.dir => b.mst = NONE /\ b.files = {})
(* a file name denotes one file *)
FileKeysUnique == \A f1, f2 \in b.files : (f1[1] = f2[1] /\ f1[2] = f2[2] /\ f1[3] = f2[3]) => f1 = f2
(* after a successful rollback the binary at the recorded install path has exactly the content recorded at backup time *)
RollbackRestoresRecorded == IsB({"rollback", "rollback_to_version"}) => b.bins[last.val[4]] = last.val[3]
(* ... and nothing else changed: the backups stay, the other install paths are untouched *)
RollbackTouchesNothingElse ==
  IsB({"rollback", "rollback_to_version"}) =>
     b.meta = last.pre.meta /\ b.files = last.pre.files /\ \A p \in Paths : p # last.val[4] => b.bins[p] = last.pre.bins[p]
(* create_backup followed by rollback is the identity on the binary, whatever was installed in between *)
BackupRollbackIdentity == pledge # <<>> => LET r == Rollback(b) IN r.cls = "ok" /\ r.s.bins[pledge[1].p] = pledge[1].tok
(* the backup just made is the one get_latest_backup reports *)
CreatedBackupIsLatest == IsB({"create_backup"}) => LET l == Latest(b.meta) IN Len(l) = 1 /\ Flat(l[1]) = last.val
(* what list_backups reports is on disk with the recorded content, unless the environment interfered *)
ListedBackupsExist == ~tampered => \A i \in DOMAIN b.meta : HasFile(b, b.meta[i]) /\ FileTok(b, b.meta[i]) = b.meta[i].tok
(* and nothing is on disk that the metadata does not know *)
NoOrphanFiles == ~tampered => \A f \in b.files : \E i \in DOMAIN b.meta : FileOf(b, b.meta[i]) = {f}
AtMostMaxBackups == IsB({"create_backup", "cleanup_old_backups"}) => Len(b.meta) <= b.maxb
NothingTooOldAfterCleanup == IsB({"create_backup", "cleanup_old_backups"}) => \A i \in DOMAIN b.meta : AgeOf(b.meta[i].at, Now) <= b.maxage
(* cleanup keeps the most recent ones: nothing removed is newer than something kept *)
CleanupKeepsNewest ==
  IsB({"cleanup_old_backups"}) =>
     \A i \in DOMAIN last.pre.meta : \A j \in DOMAIN b.meta :
        (\A x \in DOMAIN b.meta : b.meta[x] # last.pre.meta[i]) => last.pre.meta[i].at <= b.meta[j].at
CleanupAllLeavesNothingB == last.op = "cleanup_all" => ~b.dir /\ b.files = {} /\ b.meta = <<>> /\ b.mst = NONE /\ ~CanRollbackB(b)
(* housekeeping fails only when the metadata is unreadable *)
CleanupFailsOnlyOnBadMetadata == (last.op = "cleanup_old_backups" /\ last.cls # "ok") => last.bad
(* restoring fails with "rollback failed" only if the backup file was tampered with *)
RestoreFailsOnlyOnBadBackup == (last.op \in {"rollback", "rollback_to_version"} /\ last.cls = "rollback") => tampered
(* can_rollback is a promise *)
CanRollbackIsAPromise == (~tampered /\ CanRollbackB(b)) => Rollback(b).cls = "ok"
(* a failed operation changes nothing but (create_backup) the existence of the directory *)
FailureIsHarmless == (last.op \in {"rollback", "rollback_to_version", "delete_backup", "cleanup_old_backups"} /\ last.cls # "ok") => b = last.pre

(* ------------------------------ staging side ------------------------------ *)
DoS(op, r) == /\ g' = r.s /\ Step(op, r, g) /\ UNCHANGED <<b, pledge, tampered, ticks>>
NextS ==
  /\ nops < MaxOps
  /\ \/ DoS("ensure_staging_dir", EnsureDirS(g))
     \/ \E v \in Vers, t \in Toks : DoS("save_metadata", SaveMetaS(g, v, t, Now))
     \/ DoS("get_staged_update", GetStaged(g))
     \/ DoS("clear_metadata", ClearMetaS(g))
     \/ DoS("cleanup_old_updates", CleanupOldS(g, Now))
     \/ DoS("cleanup_all", CleanupAllS(g))
     \/ \E v \in Vers, t \in Toks : DoS("env_put_file", EnvPutFile(g, v, t, Now))
     \/ \E v \in Vers : SFile(g, v) # {} /\ DoS("env_delete_file", EnvDeleteFileS(g, v))
     \/ (g.mst # NONE /\ DoS("env_delete_meta", EnvDeleteMetaS(g)))
     \/ (g.dir /\ g.mst # BAD /\ DoS("env_garble_meta", EnvGarbleMetaS(g)))
     \/ (ticks < MaxTicks /\ g.dir /\ g' = AgeS(g, 1).s /\ Step("age", AgeS(g, 1), g) /\ ticks' = ticks + 1 /\ UNCHANGED <<b, pledge, tampered>>)
SpecS == InitB /\ [][NextS]_vars

IsS(ops) == last.op \in ops /\ last.cls = "ok"
TypeOKS == /\ g.dir \in BOOLEAN /\ g.mst \in {NONE, OKM, BAD}
           /\ (g.mst = OKM <=> Len(g.rec) = 1) /\ (~g.dir => g.mst = NONE /\ g.files = {})
           /\ \A f \in g.files : f[1] \in Vers /\ f[2] \in Toks /\ f[3] <= Now
(* get_staged_update hands out an update only if its binary exists and has the recorded checksum *)
GetStagedVerified ==
  (IsS({"get_staged_update"}) /\ Len(last.val) = 4) =>
     /\ last.val[4] = 1
     /\ \E f \in g.files : f[1] = last.val[1] /\ f[2] = last.val[2]
(* after get_staged_update the metadata does not point at a missing binary *)
GetStagedCleansDangling == IsS({"get_staged_update"}) => (g.mst = OKM => RecFile(g) # {})
(* has_staged_update and get_staged_update agree on an existing, intact update *)
HasAgreesWithGet == (HasStagedB(g) /\ RecFileTok(g) = g.rec[1].tok) => Len(GetStaged(g).val) = 4
(* housekeeping does not take away the binary of the update it keeps *)
CleanupKeepsLiveBinary ==
  (IsS({"cleanup_old_updates"}) /\ g.mst = OKM) => (SFile(last.pre, g.rec[1].ver) # {} => RecFile(g) # {})
(* after housekeeping nothing old is left *)
NothingOldAfterCleanupS ==
  IsS({"cleanup_old_updates"}) =>
     /\ (g.mst = OKM => AgeOf(g.rec[1].sat, Now) <= g.maxage)
     /\ \A f \in g.files : AgeOf(f[3], Now) >= g.maxage => (g.mst = OKM /\ f[1] = g.rec[1].ver)
(* the count reported is the number of things removed *)
CleanupCountsRemovals ==
  IsS({"cleanup_old_updates"}) =>
     last.val[1] = Cardinality(last.pre.files \ g.files) + (IF last.pre.mst = OKM /\ g.mst = NONE THEN 1 ELSE 0)
                   - (IF last.pre.mst = OKM /\ g.mst = NONE /\ SFile(last.pre, last.pre.rec[1].ver) # {} THEN 1 ELSE 0)
CleanupAllLeavesNothingS == last.op = "cleanup_all" => ~g.dir /\ g.files = {} /\ g.mst = NONE /\ ~HasStagedB(g)
=============================================================================
