----------------------------- MODULE Placement -----------------------------
(***************************************************************************)
(* WeightedPlacementStrategy::select_nodes (src/placement/algorithms.rs),  *)
(* implementation-shaped: k rounds of "recompute weights, sample one       *)
(* remaining candidate, remove it" - the sampler may return any remaining  *)
(* candidate because every weight is positive (the diversity factor only   *)
(* scales it, minimum 0.1), so the round is a nondeterministic choice -    *)
(* followed by DiversityEnforcer::validate_selection.  A missing metadata  *)
(* entry makes the weight computation fail (error).                        *)
(* A state is (candidate list, picks so far, outcome).  Invariant: every   *)
(* reachable outcome is admissible at the P-level (PlacementRules).        *)
(* Variant (wrong designs, must produce counterexamples):                  *)
(*   "NoValidate"       the post-selection validation is skipped           *)
(*   "WithReplacement"  the picked candidate is not removed                *)
(*   "RegionOffByOne"   validation admits three per region                 *)
(***************************************************************************)
EXTENDS PlacementRules

CONSTANTS MaxCands, Regions, Asns, Sites, MetaGrid, KMax, Variant

VARIABLES cands, k, picked, outcome     \* outcome: "" (running), "ok", "err"
vars == <<cands, k, picked, outcome>>

CandTypes == {[region |-> r, asn |-> a, site |-> s, meta |-> m] : r \in Regions, a \in Asns, s \in Sites, m \in MetaGrid}
TypeSeq == LET RECURSIVE ToSeq(_)
               ToSeq(S) == IF S = {} THEN <<>> ELSE LET x == CHOOSE y \in S : TRUE IN <<x>> \o ToSeq(S \ {x})
           IN ToSeq(CandTypes)
NT == Len(TypeSeq)
TypeIdx(c) == CHOOSE i \in 1..NT : TypeSeq[i] = [region |-> c.region, asn |-> c.asn, site |-> c.site, meta |-> c.meta]

Init == cands = <<>> /\ k = 0 /\ picked = <<>> /\ outcome = "build"

(* build the candidate multiset in canonical (non-decreasing type) order, then choose k *)
AddCand == /\ outcome = "build" /\ Len(cands) < MaxCands
           /\ \E i \in (IF cands = <<>> THEN 1 ELSE TypeIdx(cands[Len(cands)])) .. NT :
                cands' = Append(cands, [id |-> Len(cands) + 1] @@ TypeSeq[i])
           /\ UNCHANGED <<k, picked, outcome>>
Start == /\ outcome = "build"
         /\ \E kk \in 0..KMax :
              /\ k' = kk
              /\ outcome' = IF cands = <<>> \/ kk > Len(cands) THEN "err" ELSE ""
         /\ UNCHANGED <<cands, picked>>

Remaining == IF Variant = "WithReplacement" THEN IdsOf(cands) ELSE IdsOf(cands) \ SelSet(picked)
Valid(sel) ==
  /\ OkSpread(cands, sel)
  /\ IF Variant = "RegionOffByOne"
     THEN \A x \in SelSet(sel) : Cardinality({y \in SelSet(sel) : ById(cands, y).region = ById(cands, x).region}) <= MaxPerRegion + 1
     ELSE OkRegion(cands, sel)
  /\ OkAsn(cands, sel)

Round == /\ outcome = "" /\ Len(picked) < k
         /\ IF \E x \in Remaining : ~ById(cands, x).meta
            THEN outcome' = "err" /\ UNCHANGED picked           \* NodeMetadataNotFound while weighing
            ELSE \E x \in Remaining : picked' = Append(picked, x) /\ outcome' = outcome
         /\ UNCHANGED <<cands, k>>
Finish == /\ outcome = "" /\ Len(picked) = k
          /\ outcome' = IF Variant = "NoValidate" \/ Valid(picked) THEN "ok" ELSE "err"
          /\ UNCHANGED <<cands, k, picked>>

Next == AddCand \/ Start \/ Round \/ Finish
Spec == Init /\ [][Next]_vars

OutcomeAdmissible == outcome = "ok" => OkBroken(cands, picked, k) = ""
(* non-vacuity probes *)
NeverOk == ~(outcome = "ok" /\ k >= 3)
NeverValidationError == ~(outcome = "err" /\ Len(picked) = k /\ k > 0)
=============================================================================
