---------------------------- MODULE CounterRules ----------------------------
(***************************************************************************)
(* The P-level rule of property C12, shared by the design model            *)
(* (Counter.tla) and the trace acceptors (Trace_Counter, Trace_CounterConc)*)
(***************************************************************************)
EXTENDS Naturals

(* the set of results the property allows for number s with timestamp class ts when the    *)
(* peer's mark is lp: Valid exactly for the next number with a current timestamp; otherwise *)
(* any class that applies (the property does not order the classes)                        *)
Allowed(lp, s, ts) ==
  IF ts = "ok" /\ s = lp + 1 THEN {"Valid"}
  ELSE (IF ts = "future" THEN {"FromFuture"} ELSE {})
       \cup (IF ts = "old" THEN {"TooOld"} ELSE {})
       \cup (IF s <= lp THEN {"Replay"} ELSE {})
       \cup (IF s > lp + 1 THEN {"Gap"} ELSE {})

(* timestamps between "clearly current" and "clearly stale / clearly ahead": the property   *)
(* names no thresholds, so both readings are allowed there                                  *)
AllowedT(lp, s, ts) ==
  IF ts = "edgeF" THEN Allowed(lp, s, "ok") \cup Allowed(lp, s, "future")
  ELSE IF ts = "edgeO" THEN Allowed(lp, s, "ok") \cup Allowed(lp, s, "old")
  ELSE Allowed(lp, s, ts)
=============================================================================
