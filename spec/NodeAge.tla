------------------------------- MODULE NodeAge -------------------------------
(***************************************************************************)
(* State machine of the node age verification (NodeAgeVerifier of          *)
(* src/dht/node_age_verifier.rs) for exhaustive checking.  The functions   *)
(* are NodeAgeRules.tla, the same ones Trace_NodeAge.tla holds against the *)
(* real object.  Specification growth module (not a listed property).      *)
(*                                                                         *)
(* Time is a counter of seconds (Unit = 1); the category literals are      *)
(* scaled to 1 / 2 / 3 seconds.  The configuration is chosen at Init.      *)
(* `prev` is the verifier state and clock before the last step and `last`  *)
(* the operation that was applied, so that properties of single steps are  *)
(* plain invariants.  Queries do not change the state: the invariants      *)
(* evaluate them in every reachable state.                                 *)
(***************************************************************************)
EXTENDS NodeAgeRules

CONSTANTS Nodes, MaxT, MaxOps, MaxRejoin,
          ReplSet, CritSet, VetSet, BpdSet, MaxbM, \* configurations: thresholds; bonus per day from BpdSet, capped at MaxbM
          Retentions                             \* retention periods cleanup is called with (and -1 = Duration::MAX)

VARIABLES cfg, st, now, prev, last, nops
vars == <<cfg, st, now, prev, last, nops>>

Perms == Permutations(Nodes)       \* the node tokens are interchangeable
Configs == {c \in [repl : ReplSet, crit : CritSet, vet : VetSet, enforce : BOOLEAN, bpd : BpdSet, maxb : {MaxbM}] : Ordered(c)}
Init == cfg \in Configs /\ st = Empty /\ now = 0 /\ prev = [st |-> Empty, now |-> 0]
        /\ last = [op |-> "init", n |-> 0, r |-> 0, panic |-> FALSE] /\ nops = 0

Do(s, op, n, r, p) == st' = s /\ prev' = [st |-> st, now |-> now] /\ last' = [op |-> op, n |-> n, r |-> r, panic |-> p]
                      /\ nops' = nops + 1 /\ UNCHANGED <<cfg, now>>
Tick == now < MaxT /\ now' = now + 1 /\ prev' = [st |-> st, now |-> now] /\ last' = [op |-> "tick", n |-> 0, r |-> 0, panic |-> FALSE]
        /\ UNCHANGED <<cfg, st, nops>>
Next == \/ Tick
        \/ /\ nops < MaxOps
           /\ \/ \E n \in Nodes : Do(Register(st, n, now).s, "register", n, 0, FALSE) \/ Do(Depart(st, n, now).s, "depart", n, 0, FALSE)
              \/ \E r \in Retentions \cup {-1} : LET x == Cleanup(st, now, r) IN Do(x.s, "cleanup", 0, r, x.panic)
Spec == Init /\ [][Next]_vars
Bounded == \A n \in Known(st) : st[n].rejoin <= MaxRejoin

(* ---- the queries in the current state ---- *)
AgesOf(s, t) == [n \in Known(s) |-> AgeSecs(s[n], t)]
Ages == AgesOf(st, now)
AgeNow(n) == AgeSecs(st[n], now)
V(n, op) == LET a == IF n \in Known(st) THEN AgeNow(n) ELSE 0 IN Verify(st, cfg, n, op, a, a)
CatNow(n) == CatOf(AgeNow(n), cfg)
Repl == ReplList(st, cfg, Ages)
Crit == CritList(st, cfg, Ages)
Vets == VetList(st, cfg, Ages)
Both == Known(st) \cap Known(prev.st)

(* ---- invariants of the design ---- *)
RecOK(r) == /\ r.first \in 0..MaxT /\ r.last \in r.first..MaxT /\ r.active \in BOOLEAN /\ r.rejoin \in Nat /\ r.uptime \in 0..MaxT
            /\ r.sess \in r.first..MaxT /\ r.left \in r.first..MaxT /\ r.pres \in 0..MaxT
TypeOK == /\ Known(st) \subseteq Nodes /\ \A n \in Known(st) : RecOK(st[n]) /\ now \in 0..MaxT

(* a node never gets younger: its first_seen is kept for as long as the record lives (a rejoin does not restart it), so the
   category and the multiplier only grow with time *)
CategoryMonotone == \A n \in Both : /\ Rank(CatNow(n)) >= Rank(CatOf(AgeSecs(prev.st[n], prev.now), cfg))
                                    /\ V(n, "BasicRead").tm >= TrustPpm(AgeSecs(prev.st[n], prev.now), cfg)
(* the multiplier is strictly monotone in the category, monotone in the age, and its base is the category's multiplier *)
TrustMonotone == /\ \A c, d \in Cats : Rank(c) < Rank(d) => CatTrust(c) < CatTrust(d)
                 /\ \A a \in 0..(MaxT - 1) : TrustPpm(a, cfg) <= TrustPpm(a + 1, cfg)
                 /\ \A c \in Cats : (CanCritical(c) => CanReplicate(c)) /\ MinAge(c) <= MinAge("Veteran")
TrustMatchesCategory == \A n \in Known(st) : LET v == V(n, "BasicRead") IN v.tm = CatTrust(v.cat) + BonusPpm(AgeNow(n), cfg)
(* the eligibility lists are exactly the registered, non-departed nodes whose category allows the operation *)
ListsExact == LET a == Ages rl == ReplList(st, cfg, a) cl == CritList(st, cfg, a) vl == VetList(st, cfg, a) IN
              /\ rl = {n \in Known(st) : st[n].active /\ CanReplicate(CatNow(n))}
              /\ cl = {n \in Known(st) : st[n].active /\ CanCritical(CatNow(n))}
              /\ vl = {n \in Known(st) : st[n].active /\ CatNow(n) = "Veteran"}
              /\ vl \subseteq cl /\ cl \subseteq rl
(* verify_for_operation and the lists agree on active nodes (enforcement on); basic operations are open to every registered node;
   unknown nodes never pass; the flags of the result say what `passes` says *)
VerifyAgreesWithLists == cfg.enforce => LET a == Ages rl == ReplList(st, cfg, a) cl == CritList(st, cfg, a) IN
                                        /\ \A n \in Known(st) : st[n].active => /\ (V(n, "Replication").passes <=> n \in rl)
                                                                                 /\ (V(n, "CriticalOperation").passes <=> n \in cl)
                                        /\ \A n \in Nodes \ Known(st), op \in OpTypes : ~V(n, op).passes
BasicAlwaysOpen == \A n \in Known(st) : V(n, "BasicRead").passes /\ V(n, "BasicWrite").passes
VerifyFlagsAgree == cfg.enforce => \A n \in Known(st) : LET r == V(n, "Replication") c == V(n, "CriticalOperation") IN
                                                          r.passes = r.canrep /\ c.passes = c.cancrit
(* a failure reason is given exactly when the check fails *)
ReasonIffFails == \A n \in Nodes, op \in OpTypes : LET v == V(n, op) IN (v.reason # "none") <=> ~v.passes
(* relaxed configurations admit every registered node to everything *)
RelaxedAdmitsAll == IsRelaxed(cfg) => \A n \in Known(st), op \in OpTypes : V(n, op).passes
(* statistics: the four categories partition the records; active ones are counted; veterans of the list are veterans of the statistics *)
StatsAddUp == LET a == Ages x == Stats(st, cfg, a, a) IN
              /\ x.new + x.young + x.est + x.vet = x.total /\ x.total = Cardinality(Known(st))
              /\ x.active = Cardinality({n \in Known(st) : st[n].active}) /\ x.vet >= Cardinality(VetList(st, cfg, a))
              /\ (x.total > 0 => \E n, m \in Known(st) : a[n] <= x.avg /\ x.avg <= a[m])
(* register_node: idempotent on an active node (only last_seen moves); a departed node rejoins with its age and counters kept *)
RegisterIdempotent == (last.op = "register" /\ last.n \in Known(prev.st) /\ prev.st[last.n].active)
                         => st = [prev.st EXCEPT ![last.n].last = now]
RejoinCounts == (last.op = "register" /\ last.n \in Known(prev.st) /\ ~prev.st[last.n].active)
                   => LET a == prev.st[last.n] b == st[last.n] IN /\ b.rejoin = a.rejoin + 1 /\ b.active /\ b.first = a.first
                                                                   /\ b.uptime = a.uptime /\ b.last = now
RegisterNew == (last.op = "register" /\ last.n \notin Known(prev.st)) => Obs(st[last.n]) = <<now, now, TRUE, 0, 0>>
DepartIdempotent == (last.op = "depart" /\ (last.n \notin Known(prev.st) \/ ~prev.st[last.n].active)) => st = prev.st
DepartMarks == (last.op = "depart" /\ last.n \in Known(prev.st)) => ~st[last.n].active /\ last.n \notin Repl
(* total_uptime_secs is the time the node was present: the sum of its finished sessions *)
UptimeIsPresence == \A n \in Known(st) : st[n].uptime = st[n].pres
(* only cleanup forgets records, never an active one, only ones that departed at least the retention period ago, and all of those *)
Gone == Known(prev.st) \ Known(st)
CleanupOnlyLongDeparted ==
  IF last.op # "cleanup" THEN Gone = {}
  ELSE /\ Known(st) \subseteq Known(prev.st)
       /\ \A n \in Known(st) : st[n] = prev.st[n]
       /\ \A n \in Gone : ~prev.st[n].active /\ now - prev.st[n].left >= last.r
       /\ (last.r >= 0 => \A n \in Known(st) : st[n].active \/ now - st[n].left < last.r)
       /\ (last.r < 0 => Gone = {})
NoPanic == ~last.panic
(* counters only grow while a record lives *)
CountersGrow == \A n \in Both : st[n].rejoin >= prev.st[n].rejoin /\ st[n].uptime >= prev.st[n].uptime /\ st[n].last >= prev.st[n].last

(* deliberately false: counterexamples show that the bounds reach a veteran, a rejoin and a removal *)
Vac_NeverVeteran == Vets = {}
Vac_NeverRejoin == \A n \in Known(st) : st[n].rejoin = 0
Vac_NeverRemoved == ~(last.op = "cleanup" /\ Known(st) # Known(prev.st))
=============================================================================
