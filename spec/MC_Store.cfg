SPECIFICATION Spec
CONSTANTS
  Node = {1, 2, 4}
  Keys = {3, 5}
  Vals = {11, 12}
  BigVals = {99}
  K = 2
  MaxOps = 3
  AsImplemented_AckWithoutStore = FALSE
  AsImplemented_SelfTarget = FALSE
INVARIANTS PutHolds NoSelfRpc GetSound GetComplete SizeLimit
CHECK_DEADLOCK FALSE
