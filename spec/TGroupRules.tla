---------------------------- MODULE TGroupRules ----------------------------
(***************************************************************************)
(* Transition / verdict functions of the membership and role management    *)
(* of threshold groups (src/threshold/group.rs: the methods of             *)
(* ThresholdGroup; src/threshold/mod.rs: the struct, the roles, the        *)
(* statuses and the constructor ThresholdGroupManager::create_group).      *)
(* Shared by the model (TGroup.tla) and the acceptor (Trace_TGroup.tla).   *)
(*                                                                         *)
(* Group state s:                                                          *)
(*   n      `participants` (the n of t-of-n; a field of its own, no method *)
(*          maintains it)                                                  *)
(*   t      `threshold`                                                    *)
(*   act    `active_participants`: sequence of [id, role, st] - every      *)
(*          status lives in this list, "active" is st = "Active"           *)
(*   pend   `pending_participants`: sequence of [id, role, st]             *)
(*   ver    `version`                                                      *)
(*   audit  `audit_log`: sequence of result tokens "S" / "F" / "P"         *)
(*   parent metadata.parent_group (0 = None, else a token)                 *)
(*   name   metadata.name                                                  *)
(* A role is [k, p]: kind "Leader" / "Member" / "Observer" and the set of  *)
(* permission flags that are true.  A result is [cls, msg, a, b]: the      *)
(* variant of ThresholdError (or "Ok" / "Panic"), its message, and its     *)
(* numbers (NotFound: a = id; Insufficient: a = required, b = available).  *)
(* Every operation yields [s |-> new state, r |-> result].                 *)
(***************************************************************************)
EXTENDS Naturals, Integers, Sequences, FiniteSets, TLC

CONSTANTS AuditCap, AuditDrop,                    \* add_audit_entry: beyond AuditCap entries the oldest AuditDrop go
          AsImplemented_ErrorMutates,             \* mark_for_removal / suspend_participant change the status and the version, THEN answer InsufficientParticipants
          AsImplemented_LastLeaderDemotable,      \* update_participant_role takes the last leader's role away: validate() rejects the result
          AsImplemented_CreateSkipsValidate,      \* create_group returns groups validate() rejects (no leader, duplicate ids)
          AsImplemented_PermissionIgnoresStatus,  \* check_permission grants to suspended / pending-removal participants
          AsImplemented_DeadPermissions,          \* Vote / AssignRoles / CreateSubgroup are denied to everyone although can_vote / can_assign_roles / can_create_subgroups exist
          AsImplemented_HugeSuspensionPanics,     \* suspend_participant(.., Duration::MAX): SystemTime::now() + duration panics
          Variant_ThresholdIgnoresActive          \* WRONG on purpose: update_threshold compares with n only

(* ---- helpers ---- *)
Elems(q) == {q[i] : i \in 1..Len(q)}
IdsOf(q) == [i \in 1..Len(q) |-> q[i].id]
CountIf(q, T(_)) == Cardinality({i \in 1..Len(q) : T(q[i])})
FirstIdx(q, id) == LET S == {i \in 1..Len(q) : q[i].id = id}             \* iter().find(|p| p.participant_id == id)
                   IN IF S = {} THEN 0 ELSE CHOOSE i \in S : \A j \in S : i <= j

Res(cls, msg, a, b) == [cls |-> cls, msg |-> msg, a |-> a, b |-> b]
OkRes == Res("Ok", "", 0, 0)
NotFound(id) == Res("NotFound", "", id, 0)                                \* ThresholdError::ParticipantNotFound
Invalid(m) == Res("InvalidParameters", m, 0, 0)
Unauth(m) == Res("Unauthorized", m, 0, 0)
Insufficient(req, av) == Res("Insufficient", "", req, av)                 \* InsufficientParticipants { required, available }
PanicRes == Res("Panic", "", 0, 0)

(* ---- vocabulary ---- *)
Statuses == {"Active", "PendingJoin", "PendingRemoval", "Inactive", "Suspended"}
Kinds == {"Leader", "Member", "Observer"}
LeaderFlags == {"add", "remove", "threshold", "refresh", "assign", "subgroup"}   \* LeaderPermissions
MemberFlags == {"sign", "propose", "vote"}                                         \* MemberPermissions
Perms == {"AddParticipant", "RemoveParticipant", "UpdateThreshold", "Sign", "Vote", "CreateSubgroup", "AssignRoles"}
Filters == {"All", "Leaders", "Members", "Observers"}
FlagsOf(k) == IF k = "Leader" THEN LeaderFlags ELSE IF k = "Member" THEN MemberFlags ELSE {}
AllRoles == UNION {{[k |-> k, p |-> p] : p \in SUBSET FlagsOf(k)} : k \in Kinds}
IsLeader(p) == p.role.k = "Leader"
HasLeader(s) == \E i \in 1..Len(s.act) : IsLeader(s.act[i])

(* ---- check_permission: the role x permission matrix ---- *)
Grant(role, perm) ==
  LET flag(f, m) == IF f \in role.p THEN OkRes ELSE Unauth(m)
  IN CASE role.k = "Leader" /\ perm = "AddParticipant" -> flag("add", "Cannot add participants")
       [] role.k = "Leader" /\ perm = "RemoveParticipant" -> flag("remove", "Cannot remove participants")
       [] role.k = "Leader" /\ perm = "UpdateThreshold" -> flag("threshold", "Cannot update threshold")
       [] role.k = "Leader" /\ perm = "AssignRoles" /\ ~AsImplemented_DeadPermissions -> flag("assign", "Cannot assign roles")
       [] role.k = "Leader" /\ perm = "CreateSubgroup" /\ ~AsImplemented_DeadPermissions -> flag("subgroup", "Cannot create subgroups")
       [] role.k = "Member" /\ perm = "Sign" -> flag("sign", "Cannot sign")
       [] role.k = "Member" /\ perm = "Vote" /\ ~AsImplemented_DeadPermissions -> flag("vote", "Cannot vote")
       [] role.k = "Observer" -> Unauth("Observers have read-only access")
       [] OTHER -> Unauth("Permission denied")
CheckPermission(s, id, perm) ==
  LET i == FirstIdx(s.act, id)
  IN IF i = 0 THEN NotFound(id)
     ELSE IF ~AsImplemented_PermissionIgnoresStatus /\ s.act[i].st # "Active" THEN Unauth("Participant is not active")
     ELSE Grant(s.act[i].role, perm)

(* ---- get_active_participants / active_participant_count / has_threshold_participants ---- *)
ActiveIds(s) == IdsOf(SelectSeq(s.act, LAMBDA p : p.st = "Active"))
ActiveCount(s) == Len(ActiveIds(s))
HasThreshold(s) == ActiveCount(s) >= s.t

(* ---- add_pending_participant ---- *)
AddPending(s, p) ==
  IF FirstIdx(s.act, p.id) # 0 THEN [s |-> s, r |-> Invalid("Participant already exists")]
  ELSE IF FirstIdx(s.pend, p.id) # 0 THEN [s |-> s, r |-> Invalid("Participant already pending")]
  ELSE [s |-> [s EXCEPT !.pend = Append(@, p), !.ver = @ + 1], r |-> OkRes]

(* ---- mark_for_removal / suspend_participant: the status is written first, the quorum is checked afterwards ---- *)
Demote(s, i, st) ==
  LET m == [s EXCEPT !.act[i].st = st, !.ver = @ + 1]
  IN IF ActiveCount(m) < s.t
     THEN [s |-> IF AsImplemented_ErrorMutates THEN m ELSE s, r |-> Insufficient(s.t, ActiveCount(m))]
     ELSE [s |-> m, r |-> OkRes]
MarkForRemoval(s, id) ==
  LET i == FirstIdx(s.act, id) IN IF i = 0 THEN [s |-> s, r |-> NotFound(id)] ELSE Demote(s, i, "PendingRemoval")
Suspend(s, id, huge) ==            \* huge: now + duration is beyond what SystemTime can hold
  LET i == FirstIdx(s.act, id)
  IN IF i = 0 THEN [s |-> s, r |-> NotFound(id)]
     ELSE IF huge /\ AsImplemented_HugeSuspensionPanics THEN [s |-> s, r |-> PanicRes]
     ELSE Demote(s, i, "Suspended")

(* ---- update_participant_role (no actor, no permission consulted) ---- *)
UpdateRole(s, id, role) ==
  LET i == FirstIdx(s.act, id)
      m == [s EXCEPT !.act[i].role = role, !.ver = @ + 1]
  IN IF i = 0 THEN [s |-> s, r |-> NotFound(id)]
     ELSE IF ~AsImplemented_LastLeaderDemotable /\ HasLeader(s) /\ ~HasLeader(m)
          THEN [s |-> s, r |-> Invalid("Group must have at least one leader")]
     ELSE [s |-> m, r |-> OkRes]

(* ---- update_threshold ---- *)
UpdateThreshold(s, nt) ==
  IF nt = 0 THEN [s |-> s, r |-> Invalid("Threshold must be at least 1")]
  ELSE IF nt > s.n THEN [s |-> s, r |-> Invalid("Threshold cannot exceed total participants")]
  ELSE IF ~Variant_ThresholdIgnoresActive /\ nt > ActiveCount(s) THEN [s |-> s, r |-> Invalid("Threshold cannot exceed active participants")]
  ELSE [s |-> [s EXCEPT !.t = nt, !.ver = @ + 1], r |-> OkRes]

(* ---- get_participants_by_role (any status) / get_hierarchy ---- *)
MatchesFilter(p, f) == f = "All" \/ (f = "Leaders" /\ p.role.k = "Leader") \/ (f = "Members" /\ p.role.k = "Member")
                       \/ (f = "Observers" /\ p.role.k = "Observer")
ByRole(s, f) == IdsOf(SelectSeq(s.act, LAMBDA p : MatchesFilter(p, f)))
Hierarchy(s) == [t |-> s.t, n |-> s.n, parent |-> s.parent, name |-> s.name]

(* ---- validate ---- *)
DupIdx(q) == {i \in 1..Len(q) : \E j \in 1..(i - 1) : q[j].id = q[i].id}
DupId(q) == q[CHOOSE i \in DupIdx(q) : \A j \in DupIdx(q) : i <= j].id      \* the first id seen twice
Validate(s) ==
  IF s.t = 0 THEN Invalid("Invalid threshold: must be at least 1")
  ELSE IF s.t > s.n THEN Invalid("Invalid threshold: exceeds total participants")
  ELSE IF DupIdx(s.act) # {} THEN Invalid("Duplicate participant ID: ParticipantId(" \o ToString(DupId(s.act)) \o ")")
  ELSE IF ~HasLeader(s) THEN Invalid("Group must have at least one leader")
  ELSE OkRes

(* ---- add_audit_entry (the version is not touched) ---- *)
AuditAdd(s, tok) ==
  LET q == Append(s.audit, tok)
  IN [s |-> [s EXCEPT !.audit = IF Len(q) > AuditCap THEN SubSeq(q, AuditDrop + 1, Len(q)) ELSE q], r |-> OkRes]

(* ---- get_stats ---- *)
Stats(s) == [total |-> s.n, active |-> ActiveCount(s), pending |-> Len(s.pend),
             suspended |-> CountIf(s.act, LAMBDA p : p.st = "Suspended"),
             leaders |-> CountIf(s.act, LAMBDA p : p.role.k = "Leader"),
             members |-> CountIf(s.act, LAMBDA p : p.role.k = "Member"),
             observers |-> CountIf(s.act, LAMBDA p : p.role.k = "Observer"),
             ops |-> Len(s.audit),
             succ |-> Cardinality({i \in 1..Len(s.audit) : s.audit[i] = "S"}),
             fail |-> Cardinality({i \in 1..Len(s.audit) : s.audit[i] = "F"})]

(* ---- ThresholdGroupManager::create_group(config): s0 is what the caller had before ---- *)
Fresh(cfg) == [n |-> Len(cfg.parts), t |-> cfg.t, act |-> cfg.parts, pend |-> <<>>, ver |-> 1, audit |-> <<"S">>, parent |-> cfg.parent,
               name |-> cfg.name]
Create(s0, cfg) ==
  IF cfg.t > Len(cfg.parts) THEN [s |-> s0, r |-> Invalid("Threshold cannot exceed number of participants")]
  ELSE IF cfg.t = 0 THEN [s |-> s0, r |-> Invalid("Threshold must be at least 1")]
  ELSE IF ~AsImplemented_CreateSkipsValidate /\ Validate(Fresh(cfg)).cls # "Ok" THEN [s |-> s0, r |-> Validate(Fresh(cfg))]
  ELSE [s |-> Fresh(cfg), r |-> OkRes]
=============================================================================
