--------------------------- MODULE Counter_apalache ---------------------------
(***************************************************************************)
(* Typed sequential core of Counter.tla for Apalache: submissions are      *)
(* atomic (validate-and-apply under one write lock, the design TLC checks  *)
(* with tasks in Counter.tla), plus Sync and Reload.  An INDUCTIVE         *)
(* invariant shows the C12 clauses for histories of any length (peers and  *)
(* sequence values bounded):                                               *)
(*   Init => IndInv            (--init=Init   --inv=IndInv --length=0)     *)
(*   IndInv /\ Next => IndInv'  (--init=IndInv --inv=IndInv --length=1)     *)
(*   IndInv => Props           (--init=IndInv --inv=Props  --length=0)     *)
(* The decision procedure `Decide` is the one of Counter.tla (order of     *)
(* validate_sequence_internal); `Allowed` is CounterRules!Allowed.         *)
(***************************************************************************)
EXTENDS Naturals, FiniteSets

Peers == {1, 2}
MaxSeq == 4
BIG == 99
SeqVals == (0 .. MaxSeq) \union {BIG}
TsClasses == {"ok", "future", "old"}

\* @type: (Int, Int, Str) => Set(Str);
Allowed(lp, s, ts) ==
  IF ts = "ok" /\ s = lp + 1 THEN {"Valid"}
  ELSE (IF ts = "future" THEN {"FromFuture"} ELSE {})
       \union (IF ts = "old" THEN {"TooOld"} ELSE {})
       \union (IF s <= lp THEN {"Replay"} ELSE {})
       \union (IF s > lp + 1 THEN {"Gap"} ELSE {})

\* @type: (Int, Int, Str) => Str;
Decide(lp, s, ts) ==
  IF ts = "future" THEN "FromFuture"
  ELSE IF ts = "old" THEN "TooOld"
  ELSE IF s > lp + 1 THEN "Gap"
  ELSE IF s <= lp THEN "Replay"
  ELSE "Valid"

VARIABLES
  \* @type: Int -> Int;
  last,
  \* @type: Int -> Set(Int);
  acc,
  \* @type: Int -> Int;
  persisted,
  \* @type: Bool;
  dbl,
  \* @type: Bool;
  bad

Init == /\ last = [p \in Peers |-> 0] /\ acc = [p \in Peers |-> {}] /\ persisted = [p \in Peers |-> 0]
        /\ dbl = FALSE /\ bad = FALSE

Submit(p, s, ts) ==
  LET res == Decide(last[p], s, ts) IN
  /\ bad' = (bad \/ res \notin Allowed(last[p], s, ts))
  /\ IF res = "Valid"
     THEN /\ last' = [last EXCEPT ![p] = s] /\ acc' = [acc EXCEPT ![p] = @ \union {s}] /\ dbl' = (dbl \/ s \in acc[p])
     ELSE UNCHANGED <<last, acc, dbl>>
  /\ UNCHANGED persisted
Sync == /\ persisted' = last /\ UNCHANGED <<last, acc, dbl, bad>>
Reload == /\ last' = persisted
          /\ acc' = [p \in Peers |-> {s \in acc[p] : s <= persisted[p]}]
          /\ UNCHANGED <<persisted, dbl, bad>>
Next == \/ \E p \in Peers, s \in SeqVals, ts \in TsClasses : Submit(p, s, ts)
        \/ Sync \/ Reload

TypeOK == /\ last \in [Peers -> SeqVals] /\ persisted \in [Peers -> SeqVals] /\ acc \in [Peers -> SUBSET SeqVals]
          /\ dbl \in BOOLEAN /\ bad \in BOOLEAN
IndInv == /\ TypeOK /\ ~dbl /\ ~bad
          /\ \A p \in Peers : last[p] <= MaxSeq /\ persisted[p] <= last[p]
          /\ \A p \in Peers : acc[p] = {s \in 1 .. MaxSeq : s <= last[p]}
(* the C12 clauses of Counter.tla *)
Props == /\ ~dbl                                                          \* AtMostOnce
         /\ \A p \in Peers : acc[p] = {s \in 1 .. MaxSeq : s <= last[p]}  \* InOrder: exactly 1..last
         /\ ~bad                                                          \* Classified
         /\ \A p \in Peers : persisted[p] <= last[p]                      \* PersistedBelow
===============================================================================
