SPECIFICATION Spec
CONSTANTS
  ConfGrid = {TRUE, FALSE}
  TrustGrid = {9999, 100, 290, 300, 900}
  RegionGrid = {0, 1, 2, 3, 4}
  LatGrid = {0, 5000}
  MaxW = 4
  Honest = 0
  MinPeers = 3
  TwNum = 700
  TwDen = 1000
  BftNum = 710
  BftDen = 1000
  MinTrust = 300
  MinRegions = 2
  Cands = {9999, 100, 300}
  Modes = {TRUE}
  Variant = ""
INVARIANTS ClausesHold FlipHolds
CHECK_DEADLOCK FALSE
