----------------------------- MODULE Trace_Sybil -----------------------------
(***************************************************************************)
(* Conformance acceptor for the Sybil detector (harness module sybil).     *)
(* Every `Step` carries one public operation of the real SybilDetector,    *)
(* the clock band [t0, t1] read from Instant around the call (microseconds *)
(* since the segment's epoch) and, as `pre` / `post`, everything the       *)
(* public queries show before and after it: the evidence of the four       *)
(* detectors in the order they produce it, the groups (members, evidence,  *)
(* confidence), group_count, overall_risk_score and is_peer_suspected /    *)
(* sybil_risk_score of every pool peer.                                    *)
(*                                                                         *)
(* The detector's maps are private, so the acceptor carries the model      *)
(* state itself: `cands` is the set of SybilRules states that explain the  *)
(* segment so far (more than one only while a clock band leaves open       *)
(* whether a record was aged out).  For every step it keeps the candidates *)
(* that show `pre`, applies the function of SybilRules.tla (as-implemented *)
(* flags on) and keeps the results that show `post`.  If none is left the  *)
(* step is MODEL-DRIFT (informational); the acceptor then goes on with the *)
(* model's results and the logged groups.  run_analysis is replayed with   *)
(* the evidence in the order `pre` lists it (the hash order of the         *)
(* unmodified maps).                                                       *)
(***************************************************************************)
EXTENDS SybilRules, Json, IOUtils

Recs == ndJsonDeserialize(IOEnv.TRACE)
N == Len(Recs)
VARIABLES l, cfg, pool, cands, drift, ndrift, n, namb      \* namb: steps after which a clock band left more than one candidate
tvars == <<l, cfg, pool, cands, drift, ndrift, n, namb>>
Ev == Recs[l]

SeqSet(q) == {q[i] : i \in 1..Len(q)}
Near(a, b) == a - b <= 1 /\ b - a <= 1
NoCfg == [bthr |-> 1, win |-> 0, pthr |-> 1, sim |-> 0, asym |-> 0, age |-> 0, minobs |-> 0]
CfgOf(j) == [bthr |-> j.bthr, win |-> j.win, pthr |-> j.pthr, sim |-> j.sim, asym |-> j.asym, age |-> j.age, minobs |-> j.minobs]
PoolOf(j) == [t \in {j[i][1] : i \in 1..Len(j)} |-> j[CHOOSE i \in 1..Len(j) : j[i][1] = t][2]]      \* token -> id prefix
Toks == DOMAIN pool

(* ---- what an observation says ---- *)
Item(j) == [k |-> j.k, key |-> j.key, ps |-> SeqSet(j.ps)]
ObsGroups(o) == [i \in 1..Len(o.groups) |-> [m |-> SeqSet(o.groups[i].m), ev |-> [j \in 1..Len(o.groups[i].ev) |-> Item(o.groups[i].ev[j])]]]
(* the evidence run_analysis sees, in the detectors' order *)
EvSeq(o) == [i \in 1..Len(o.bursts) |-> [k |-> "burst", key |-> o.bursts[i].key, ps |-> SeqSet(o.bursts[i].peers)]]
            \o [i \in 1..Len(o.prefix) |-> [k |-> "prefix", key |-> <<o.prefix[i].pf>>, ps |-> SeqSet(o.prefix[i].peers)]]
            \o [i \in 1..Len(o.behav) |-> [k |-> "behav", key |-> <<>>, ps |-> SeqSet(o.behav[i].ps)]]
            \o [i \in 1..Len(o.asym) |-> [k |-> "asym", key |-> <<>>, ps |-> {o.asym[i].p}]]

BurstsOk(s, o, now) ==        \* now: when the observation was made (only the intended design looks at it)
  LET F == BurstFlagged(s, cfg, now) IN
  /\ Len(o.bursts) = Cardinality(F) /\ {o.bursts[i].key : i \in 1..Len(o.bursts)} = F
  /\ \A i \in 1..Len(o.bursts) : LET b == o.bursts[i] q == s.joins[b.key] IN
        /\ b.peers = BurstPeers(s, cfg, b.key, now)
        /\ b.win >= 0 /\ b.win >= q[Len(q)].lo - q[1].hi - 1 /\ b.win <= q[Len(q)].hi - q[1].lo + 1
PrefixOk(s, o) ==
  /\ Len(o.prefix) = Cardinality(PrefixEv(s, cfg))
  /\ {[k |-> "prefix", key |-> <<o.prefix[i].pf>>, ps |-> SeqSet(o.prefix[i].peers)] : i \in 1..Len(o.prefix)} = PrefixEv(s, cfg)
  /\ \A i \in 1..Len(o.prefix) : o.prefix[i].n = Len(o.prefix[i].peers)
BehavOk(s, o) ==
  LET S == {SeqSet(o.behav[i].ps) : i \in 1..Len(o.behav)} IN
  /\ Len(o.behav) = Cardinality(S)
  /\ BehavPairs(s, cfg) \ BehavEdge(s, cfg) \subseteq S /\ S \subseteq BehavPairs(s, cfg)      \* exactly at the threshold: either way
  /\ \A i \in 1..Len(o.behav) : o.behav[i].n = 2 /\ Near(o.behav[i].sim, PairSim(s, SeqSet(o.behav[i].ps), SimP100k))
AsymOk(s, o) ==
  /\ Len(o.asym) = Cardinality(AsymPeers(s, cfg)) /\ {o.asym[i].p : i \in 1..Len(o.asym)} = AsymPeers(s, cfg)
  /\ \A i \in 1..Len(o.asym) : LET a == o.asym[i] IN
        a.claimed = s.prof[a.p].claimed /\ a.measured = s.prof[a.p].measured /\ Near(a.ratio, AsymPm(s.prof[a.p]))
GroupsOk(s, o) ==
  /\ ObsGroups(o) = s.groups /\ o.gcount = GroupCount(s)
  /\ \A i \in 1..Len(o.groups) : LET g == o.groups[i] IN
        /\ g.conf = Confidence(s.groups[i]) /\ g.n = Cardinality(s.groups[i].m)
        /\ \A t \in Toks : g.has[t] = (t \in s.groups[i].m)
ScoresOk(s, o) ==
  /\ Near(o.overall, Overall(s)) /\ o.overall >= 0 /\ o.overall <= 1000000
  /\ \A t \in Toks : o.susp[t] = Suspected(s, t) /\ o.risk[t] = Risk(s, t)
Shows(s, o, now) == GroupsOk(s, o) /\ ScoresOk(s, o) /\ BurstsOk(s, o, now) /\ PrefixOk(s, o) /\ AsymOk(s, o) /\ BehavOk(s, o)

(* ---- the clock band: an instant of the call lies in [t0, t1 + 1) ---- *)
Lo == Ev.t0
Hi == Ev.t1 + 1

P == IF "p" \in DOMAIN Ev THEN Ev.p ELSE 0
Valid == IF Ev.op \in {"Join", "Leave", "Respond", "Claim", "Measure"} THEN P \in Toks ELSE Ev.op \in {"Analyze", "Clear", "Cleanup"}
Outcomes(s) ==
  CASE Ev.op = "Join" -> Join(s, cfg, Ev.p, pool[Ev.p], SubnetKey(Ev.ip), Lo, Hi)
    [] Ev.op = "Leave" -> {Leave(s, Ev.p, pool[Ev.p])}
    [] Ev.op = "Respond" -> {Respond(s, Ev.p, Ev.lat, Ev.size)}
    [] Ev.op = "Claim" -> {Claim(s, Ev.p, Ev.bw)}
    [] Ev.op = "Measure" -> {Measure(s, Ev.p, Ev.bw)}
    [] Ev.op = "Analyze" -> {Analyze(s, EvSeq(Ev.pre))}
    [] Ev.op = "Clear" -> {Clear(s)}
    [] Ev.op = "Cleanup" -> Cleanup(s, cfg, Lo, Hi).S
    [] OTHER -> {}
(* what the call itself returned *)
RetOk(s) == IF Ev.op = "Cleanup" THEN Ev.panic = Cleanup(s, cfg, Lo, Hi).panic ELSE TRUE

(* `pre` is literally what the previous step showed as `post` (no query reads the clock): the candidates already show it *)
PrevSame == l > 1 /\ LET r == Recs[l - 1] IN (r.ev = "Step" /\ "post" \in DOMAIN r /\ r.post = Ev.pre) \/ (r.ev = "Reset" /\ r.init = Ev.pre)
PreC == IF PrevSame THEN cands ELSE {s \in cands : Shows(s, Ev.pre, Ev.t0)}
Base == IF PreC # {} THEN PreC ELSE {[s EXCEPT !.groups = ObsGroups(Ev.pre)] : s \in cands}
Nexts == UNION {Outcomes(s) : s \in {x \in Base : RetOk(x)}}
PostC == {s \in Nexts : Shows(s, Ev.post, Ev.t1)}
AllNexts == UNION {Outcomes(s) : s \in Base}
StepOk == PreC # {} /\ PostC # {}
Resync == {[s EXCEPT !.groups = ObsGroups(Ev.post)] : s \in AllNexts}

(* ---- steps that do not involve the detector ---- *)
DefaultOk == LET j == Ev.cfg IN [bthr |-> j.bthr, win_s |-> j.win_s, pthr |-> j.pthr, sim |-> j.sim, asym |-> j.asym, age_s |-> j.age_s, minobs |-> j.minobs] = DefaultCfgSecs
ProfileOk == LET pr == ProfAfter(NewProfile, Ev.lats, Ev.sizes, 1) IN
             /\ Len(Ev.lats) = Len(Ev.sizes) /\ Ev.obs = pr.obs /\ Ev.obs = Len(Ev.lats)
             /\ Ev.nlat = Len(pr.lat) /\ Ev.nsize = Len(pr.size) /\ Ev.nvotes = VoteLen(Ev.nv)
             /\ Ev.first_vote = (IF Ev.nv = 0 THEN -1 ELSE Ev.nv - VoteLen(Ev.nv))
             /\ Ev.avg_lat = (IF pr.lat = <<>> THEN -1 ELSE Avg(pr.lat)) /\ Ev.avg_size = (IF pr.size = <<>> THEN -1 ELSE Avg(pr.size))
             /\ LET q == [pr EXCEPT !.claimed = Ev.claimed, !.measured = Ev.measured] IN
                  IF HasAsym(q) THEN Near(Ev.asym, AsymPm(q)) ELSE Ev.asym = -1
             /\ Ev.has_claim = (Ev.claimed >= 0) /\ Ev.has_storage = (Ev.claimed >= 0) /\ Ev.has_measured = (Ev.measured >= 0)
PureOps == {"Default", "Profile"}
PureOk == IF Ev.op = "Default" THEN DefaultOk ELSE ProfileOk

Init == l = 1 /\ cfg = NoCfg /\ pool = <<>> /\ cands = {Empty} /\ drift = <<>> /\ ndrift = 0 /\ n = 0 /\ namb = 0
Note(what) == /\ ndrift' = ndrift + 1
              /\ drift' = IF Len(drift) < 20 THEN Append(drift, [line |-> l, op |-> what]) ELSE drift
Next == /\ l <= N /\ l' = l + 1
        /\ CASE Ev.ev = "Reset" -> /\ cfg' = CfgOf(Ev.cfg) /\ pool' = PoolOf(Ev.pool) /\ cands' = {Empty} /\ UNCHANGED n
                                   /\ LET t == DOMAIN PoolOf(Ev.pool) IN
                                      IF Ev.init.gcount = 0 /\ Len(Ev.init.groups) = 0 /\ Len(Ev.init.bursts) = 0 /\ Len(Ev.init.prefix) = 0
                                         /\ Len(Ev.init.behav) = 0 /\ Len(Ev.init.asym) = 0 /\ Ev.init.overall = 0
                                         /\ \A x \in t : ~Ev.init.susp[x] /\ Ev.init.risk[x] = 0
                                      THEN UNCHANGED <<drift, ndrift>> ELSE Note("init")
             [] Ev.ev = "Step" -> /\ n' = n + 1 /\ UNCHANGED <<cfg, pool>>
                                  /\ IF Ev.op \in PureOps THEN UNCHANGED cands /\ (IF PureOk THEN UNCHANGED <<drift, ndrift>> ELSE Note(Ev.op))
                                     ELSE IF ~Valid THEN UNCHANGED cands /\ Note(Ev.op)
                                     ELSE IF StepOk THEN cands' = PostC /\ UNCHANGED <<drift, ndrift>>
                                     ELSE cands' = (IF PostC # {} THEN PostC ELSE IF Resync # {} THEN Resync ELSE cands) /\ Note(Ev.op)
             [] Ev.ev = "Panic" -> Note("panic") /\ UNCHANGED <<cfg, pool, cands, n>>
             [] OTHER -> UNCHANGED <<cfg, pool, cands, drift, ndrift, n>>
        /\ namb' = namb + (IF Cardinality(cands') > 1 THEN 1 ELSE 0)
Spec == Init /\ [][Next]_tvars
Report == (l = N + 1) => JsonSerialize(IOEnv.OUT, [consumed |-> l - 1, total |-> N, nviol |-> ndrift, checked |-> n, viol |-> drift, ambiguous |-> namb])
=============================================================================
