SPECIFICATION Spec
CONSTANTS
  AsImplemented_WindowOffByOne = FALSE
  AsImplemented_TrustClaimedFrom = FALSE
  AsImplemented_DecodeBeforeSize = TRUE
INVARIANTS FrameOK DhtOK EngineOK
CHECK_DEADLOCK FALSE
