------------------------------ MODULE Admission ------------------------------
(***************************************************************************)
(* IP-diversity admission of saorsa-core (src/security.rs:                 *)
(* IPDiversityEnforcer::{can_accept_unified, add_unified, remove_unified,  *)
(* set_network_size}; src/dht/core_engine.rs: DhtCoreEngine::{add_node,    *)
(* evict_node, handle_node_failure}; src/bootstrap/manager.rs: add_peer).  *)
(*                                                                         *)
(* P-level state : adm   bag of admitted candidates                        *)
(* I-level state : cnt   per-level counters as the code keeps them         *)
(*                                                                         *)
(* Property C13: caps per level never exceeded at admission (halved, min   *)
(* 1, for hosting/VPN candidates; IPv4 caps from the network-size rule),   *)
(* admission whenever every level is below its cap, SlotAccounting         *)
(* (counters = admitted nodes: removal returns slots, failure keeps none). *)
(***************************************************************************)
EXTENDS Naturals, Integers, FiniteSets, TLC, AdmissionRules

CONSTANTS Bs, Cs, Asns, NetSizes, MaxOps, Cfg,
          AsImplemented_V4AsnNotHalved,        \* ASN cap of an IPv4 hosting candidate is not halved
          AsImplemented_IncrementBeforeBucket, \* counters incremented, then the bucket insert fails
          AsImplemented_NoDecrementOnEvict,    \* routing-table removal leaves the counters
          AsImplemented_RefreshKeepsOld,       \* a listed id re-added under a new address keeps its old slots too
          AsImplemented_V4MappedTo64           \* bootstrap: IPv4 analysed as ::ffff:a.b.c.d (one shared /64)

(* small caps used by the MC_Admission*.cfg files (Cfg <- CfgSmall) *)
CfgSmall == [c64 |-> 1, c48 |-> 2, c32 |-> 3, asn |-> 2, ipcap |-> 2, ppm |-> 5000, ip32 |-> 100, c24 |-> 3, c16 |-> 4]

Cands == [fam : {4, 6}, a : {1}, b : Bs, c : Cs, asn : Asns, host : BOOLEAN]

(* level keys the implementation counts a candidate under *)
KeysI(x) == IF AsImplemented_V4MappedTo64 /\ x.fam = 4
            THEN {<<"L1", 6, 0, 0, 0>>, <<"L2", 6, 0, 0>>, <<"L3", 6, 0>>} \cup (IF x.asn # 0 THEN {<<"ASN", x.asn>>} ELSE {})
            ELSE Keys(x)
AllKeys == UNION {Keys(x) \cup KeysI(x) : x \in Cands}

VARIABLES adm, cnt, ns, nops, over, miss
vars == <<adm, cnt, ns, nops, over, miss>>

Count(k) == LET S == {x \in DOMAIN adm : k \in Keys(x)} IN SumBag(adm, S)

LimitI(k, x) == IF AsImplemented_V4AsnNotHalved /\ k[1] = "ASN" /\ x.fam = 4 THEN Cfg.asn
                ELSE IF AsImplemented_V4MappedTo64 /\ x.fam = 4 THEN Halve(x, Base(k, 6, Cfg, ns))
                ELSE Limit(k, x, Cfg, ns)

GateI(x, c) == \A k \in KeysI(x) : c[k] < LimitI(k, x)
(* P-level verdicts on the decision the implementation takes for candidate x while `a` is admitted *)
Judge(x, ok) ==
  /\ over' = (over \/ (ok /\ \E k \in Keys(x) : Count(k) + 1 > Limit(k, x, Cfg, ns)))
  /\ miss' = (miss \/ (~ok /\ \A k \in Keys(x) : Count(k) < Limit(k, x, Cfg, ns)))

Inc(c, x) == [k \in AllKeys |-> IF k \in KeysI(x) THEN c[k] + 1 ELSE c[k]]
Dec(c, x) == [k \in AllKeys |-> IF k \in KeysI(x) /\ c[k] > 0 THEN c[k] - 1 ELSE c[k]]
Plus(b, x) == [y \in DOMAIN b \cup {x} |-> IF y = x THEN (IF x \in DOMAIN b THEN b[x] ELSE 0) + 1 ELSE b[y]]
Minus(b, x) == [y \in {z \in DOMAIN b : z # x \/ b[z] > 1} |-> IF y = x THEN b[y] - 1 ELSE b[y]]

Init == adm = <<>> /\ cnt = [k \in AllKeys |-> 0] /\ ns \in NetSizes /\ nops = 0 /\ over = FALSE /\ miss = FALSE
Op == nops < MaxOps /\ nops' = nops + 1

(* IPDiversityEnforcer::add_unified / BootstrapManager::add_peer / engine add_node with a free bucket *)
Add(x) == /\ Op /\ LET ok == GateI(x, cnt) IN
             /\ Judge(x, ok)
             /\ IF ok THEN adm' = Plus(adm, x) /\ cnt' = Inc(cnt, x) ELSE UNCHANGED <<adm, cnt>>
          /\ UNCHANGED ns
(* IPDiversityEnforcer::remove_unified *)
Remove(x) == /\ Op /\ x \in DOMAIN adm /\ adm' = Minus(adm, x) /\ cnt' = Dec(cnt, x) /\ UNCHANGED <<ns, over, miss>>
SetNet(s) == /\ Op /\ ns' = s /\ UNCHANGED <<adm, cnt, over, miss>>
(* engine add_node whose bucket is full: gates pass, the insert fails *)
AddFail(x) == /\ Op /\ GateI(x, cnt)
              /\ cnt' = IF AsImplemented_IncrementBeforeBucket THEN Inc(cnt, x) ELSE cnt
              /\ UNCHANGED <<adm, ns, over, miss>>
(* evict_node / handle_node_failure *)
Evict(x) == /\ Op /\ x \in DOMAIN adm /\ adm' = Minus(adm, x)
            /\ cnt' = IF AsImplemented_NoDecrementOnEvict THEN cnt ELSE Dec(cnt, x)
            /\ UNCHANGED <<ns, over, miss>>
(* engine add_node for an id that is already listed (the bucket refreshes the entry): old -> new address *)
Refresh(old, new) ==
  /\ Op /\ old \in DOMAIN adm
  /\ IF AsImplemented_RefreshKeepsOld
     THEN LET ok == GateI(new, cnt) IN
          /\ IF ok THEN adm' = Plus(Minus(adm, old), new) /\ cnt' = Inc(cnt, new) ELSE UNCHANGED <<adm, cnt>>
          /\ UNCHANGED <<over, miss>>
     ELSE LET c0 == Dec(cnt, old)  ok == GateI(new, c0) IN
          /\ IF ok THEN adm' = Plus(Minus(adm, old), new) /\ cnt' = Inc(c0, new) ELSE UNCHANGED <<adm, cnt>>
          /\ UNCHANGED <<over, miss>>
  /\ UNCHANGED ns

Next == \/ \E x \in Cands : Add(x) \/ Remove(x) \/ AddFail(x) \/ Evict(x)
        \/ \E x, y \in Cands : Refresh(x, y)
        \/ \E s \in NetSizes : SetNet(s)
Spec == Init /\ [][Next]_vars

(* ---- properties ---- *)
CapAtAdmission == ~over
AdmitWhenBelow == ~miss
SlotAccounting == \A k \in AllKeys : cnt[k] = Count(k)
=============================================================================
