------------------------------ MODULE Selector ------------------------------
(***************************************************************************)
(* TrustAwarePeerSelector::select_peers_with_config                        *)
(* (src/dht/trust_peer_selector.rs), implementation-shaped:                *)
(*   drop candidates below the floor when exclude_untrusted, drop NaN      *)
(*   scores, stable sort by score descending, take `count`.                *)
(* score = trustFactor(t) / (1 + d') where d' is the distance as the score *)
(* sees it.  AsImplemented_F64Distance = TRUE: d' has lost its LostBits    *)
(* low-order bits (the pinned tree converts a 128-bit prefix of the XOR    *)
(* distance to f64 and divides by 1e30, which erases everything below the  *)
(* 53 leading bits) and ties keep input order.  FALSE (the design): ties   *)
(* of the score are broken by the exact distance.                          *)
(* A state is one candidate list (ids pairwise distinct, any order, trust  *)
(* from the grid or NaN); the invariants quantify over every key, count    *)
(* and exclusion setting.                                                  *)
(***************************************************************************)
EXTENDS SidelineRules

CONSTANTS B, MaxC, TrustGrid, Alpha, Thr, LostBits, AsImplemented_F64Distance

Id == 0 .. (2^B - 1)
TrustRecs == {[k |-> "val", v |-> v] : v \in TrustGrid} \cup {[k |-> "nan", v |-> 0]}

VARIABLE cands
Init == cands = <<>>
Next == /\ Len(cands) < MaxC
        /\ \E x \in Id \ Ids(cands), t \in TrustRecs : cands' = Append(cands, [id |-> x, t |-> t])
Spec == Init /\ [][Next]_cands

(* score as the rational Num/Den; Alpha and trust in per-mille *)
Seen(d) == IF AsImplemented_F64Distance THEN d \div 2^LostBits ELSE d
Num(c) == Alpha * 1000 + (1000 - Alpha) * c.t.v
Den(c, key) == 1 + Seen(Dist(c.id, key))
Better(a, b, key) ==            \* strictly higher score, or (design) equal score and strictly closer
  LET l == Num(a) * Den(b, key)
      r == Num(b) * Den(a, key)
  IN l > r \/ (~AsImplemented_F64Distance /\ l = r /\ Dist(a.id, key) < Dist(b.id, key))

RECURSIVE StableSort(_, _)
InsertStable(s, x, key) ==      \* after every element that is not worse than x
  LET idx == CHOOSE i \in 1 .. (Len(s) + 1) :
               /\ \A j \in 1 .. (i - 1) : ~Better(x, s[j], key)
               /\ \A j \in i .. Len(s) : Better(x, s[j], key)
  IN SubSeq(s, 1, idx - 1) \o <<x>> \o SubSeq(s, idx, Len(s))
StableSort(s, key) == IF s = <<>> THEN <<>> ELSE InsertStable(StableSort(Front(s), key), Last(s), key)

Select(key, count, excl) ==
  LET kept == SelectSeq(cands, LAMBDA c : c.t.k = "val" /\ ~(excl /\ c.t.v < Thr))
      srt == StableSort(kept, key)
  IN [i \in 1 .. (IF count < Len(srt) THEN count ELSE Len(srt)) |-> srt[i].id]

Counts == 0 .. MaxC
SelectionOk == \A key \in Id, count \in Counts, excl \in BOOLEAN :
                 SelBroken(cands, Select(key, count, excl), key, count, excl, Thr) = ""
(* equal trust everywhere = trust plays no role: then the choice is exactly the closest in order *)
UniformTrustIsClosest == \A key \in Id, count \in Counts :
   (\A i \in 1..Len(cands) : cands[i].t = [k |-> "val", v |-> 500])
      => Select(key, count, FALSE) = Closest(Ids(cands), key, count)
(* tally: closer and more trusted yet behind; holds in the design as well *)
NoParetoInversion == \A key \in Id, count \in Counts, excl \in BOOLEAN :
                 ParetoInversions(cands, Select(key, count, excl), key) = {}
=============================================================================
