SPECIFICATION SpecU
CONSTANTS
  AsImplemented_DropDangling = FALSE
INVARIANTS LumpUpper LumpExactOutside
CHECK_DEADLOCK FALSE
