\* must FAIL: two backups of one version within one second share a file; removing one entry deletes the other's file
SPECIFICATION SpecB
CONSTANTS
  Vers = {1, 2}
  Toks = {1, 2}
  NPaths = 1
  MaxBs = {1, 2}
  MaxAgeB = 1
  MaxAgeS = 1
  MaxOps = 4
  MaxTicks = 2
  AsImplemented_TieKeepsOlder = FALSE
  AsImplemented_SharedBackupFile = TRUE
  AsImplemented_CleanupNeedsDir = FALSE
  AsImplemented_RollbackToVersionNeedsDir = FALSE
  AsImplemented_GetStagedUnverified = FALSE
  AsImplemented_SweepIgnoresMetadata = FALSE
  Variant_RollbackUnverified = FALSE
INVARIANTS ListedBackupsExist
CHECK_DEADLOCK FALSE
