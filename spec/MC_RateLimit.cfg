SPECIFICATION Spec
CONSTANTS
  Keys = {1, 2}
  W = 4
  H = 6
  MaxBurst = 2
  MaxMax = 2
  GMul = 2
  Variant_RefillFromWindowStart = FALSE
  Variant_NoCap = FALSE
  Variant_SharedBucket = FALSE
INVARIANTS TypeOK BurstPlusRefill WindowMax KeyIsolation
PROPERTIES OthersUntouched DenialNeverIncreases
CHECK_DEADLOCK FALSE
