SPECIFICATION Spec
CONSTANTS
  Peers = {1, 2}
  MaxSeq = 2
  BIG = 99
  Tasks = {1, 2}
  MaxCalls = 3
  MaxBatch = 2
  Variant_TwoStep = FALSE
  Variant_MonotonicOnly = FALSE
  Variant_ReplayLt = TRUE
INVARIANTS TypeOK AtMostOnce InOrder Classified PersistedBelow
PROPERTY MarkMoves
CHECK_DEADLOCK FALSE
