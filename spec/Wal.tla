-------------------------------- MODULE Wal --------------------------------
(***************************************************************************)
(* Write-ahead log, rotation, snapshots, crash and recovery of             *)
(* saorsa-core's PersistentStateManager (src/persistent_state.rs).         *)
(*                                                                         *)
(* One action per instrumented step of the code (the crash points of the   *)
(* verif-hooks feature): WriteLen, WritePayload, RotRename, RotReopen,     *)
(* ApplyAck, CkTmp, CkRename, CkClean; Crash may fire between any two.     *)
(* Recovery is the function `Recovered` of the disk image, evaluated in    *)
(* every reachable state (= "what would a restart now yield").             *)
(*                                                                         *)
(* Properties (C06): PrefixRecovery, CounterMonotone.                      *)
(* The deviations of the pinned tree are boolean constants; with a flag    *)
(* TRUE the spec is the code before the corresponding fix: commit.         *)
(***************************************************************************)
EXTENDS Naturals, Sequences, FiniteSets, SequencesExt, FiniteSetsExt, TLC

CONSTANTS Keys, Vals,          \* value 0 stands for "absent"
          MaxOps, RotAt, MaxCrash, MaxClock,
          WithBatch,           \* include two-key batch operations
          AsImplemented_EphemeralKey,    \* integrity key regenerated per process (also: snapshot checksum never verifies)
          AsImplemented_CurSortsFirst,   \* "state.wal" replayed before "wal.<ts>.wal"
          AsImplemented_NameBySecond,    \* rotated name = clock second, collisions overwrite
          AsImplemented_AppendAfterTorn, \* torn tail left in place, new records appended behind it
          AsImplemented_BatchPerRecord,  \* a batch is one record per change, no commit marker (still so: known finding)
          AsImplemented_OldestSnapshot   \* recovery starts from the oldest usable snapshot

Val0 == Vals \cup {0}
Empty == [k \in Keys |-> 0]

VARIABLES cur,      \* current file: Seq of records [txn, chg, st, epoch], st \in {"full","torn"}; or Missing
          rot,      \* set of rotated files [name, recs]
          snaps,    \* set of snapshots [name, lastTxn, state, epoch]
          tmp,      \* 0 or the snapshot being written
          mem, counter, wcount, epoch, clock,
          pc, op,   \* control state and the operation in flight
          hist,     \* states after each effective operation (hist[1] = state at last recovery)
          acked,    \* number of acknowledged effective operations since then
          nops, ncrash, lastAckTxn
vars == <<cur, rot, snaps, tmp, mem, counter, wcount, epoch, clock, pc, op, hist, acked, nops, ncrash, lastAckTxn>>

Missing == <<[txn |-> 0, chg |-> <<>>, st |-> "missing", epoch |-> 0]>>

Init == /\ cur = <<>> /\ rot = {} /\ snaps = {} /\ tmp = 0 /\ mem = Empty /\ counter = 0 /\ wcount = 0
        /\ epoch = 1 /\ clock = 1 /\ pc = "idle" /\ op = 0
        /\ hist = <<Empty>> /\ acked = 0 /\ nops = 0 /\ ncrash = 0 /\ lastAckTxn = 0

Tick == /\ pc = "idle" /\ clock < MaxClock /\ clock' = clock + 1
        /\ UNCHANGED <<cur, rot, snaps, tmp, mem, counter, wcount, epoch, pc, op, hist, acked, nops, ncrash, lastAckTxn>>

(* a change list is a sequence of <<key, value>> *)
RECURSIVE ApplyChg(_, _)
ApplyChg(s, chg) == IF chg = <<>> THEN s ELSE ApplyChg([s EXCEPT ![Head(chg)[1]] = Head(chg)[2]], Tail(chg))

(* ---- upsert / delete / batch: counter++, then one record (or, as implemented for batches, one per change) ---- *)
Begin(chg) ==
  /\ pc = "idle" /\ nops < MaxOps /\ nops' = nops + 1
  /\ counter' = counter + 1
  /\ op' = [txn |-> counter + 1, chg |-> chg, todo |-> IF AsImplemented_BatchPerRecord /\ Len(chg) > 1 THEN chg ELSE <<chg>>,
            batch |-> Len(chg) > 1]
  /\ pc' = "writelen"
  /\ hist' = Append(hist, ApplyChg(hist[Len(hist)], chg))
  /\ UNCHANGED <<cur, rot, snaps, tmp, mem, wcount, epoch, clock, acked, ncrash, lastAckTxn>>

(* with BatchPerRecord op.todo is a sequence of single changes, otherwise a one-element sequence holding the change list *)
NextRecChg == IF AsImplemented_BatchPerRecord /\ op.batch THEN <<Head(op.todo)>> ELSE Head(op.todo)

WriteLen ==
  /\ pc = "writelen"
  /\ cur' = Append(cur, [txn |-> op.txn, chg |-> NextRecChg, st |-> "torn", epoch |-> epoch])
  /\ pc' = "writepayload"
  /\ UNCHANGED <<rot, snaps, tmp, mem, counter, wcount, epoch, clock, op, hist, acked, nops, ncrash, lastAckTxn>>

WritePayload ==
  /\ pc = "writepayload"
  /\ cur' = [cur EXCEPT ![Len(cur)].st = "full"]
  /\ wcount' = wcount + 1
  /\ op' = [op EXCEPT !.todo = Tail(@)]
  /\ pc' = IF Tail(op.todo) # <<>> THEN "writelen"            \* next record of a batch (no rotation check inside a batch)
           ELSE IF ~op.batch /\ wcount + 1 >= RotAt THEN "rotrename" ELSE "apply"
  /\ UNCHANGED <<rot, snaps, tmp, mem, counter, epoch, clock, hist, acked, nops, ncrash, lastAckTxn>>

RotNames == {f.name : f \in rot}
NewestRot == IF rot = {} THEN 0 ELSE Max(RotNames)
RotName == IF AsImplemented_NameBySecond THEN clock
           ELSE IF NewestRot >= clock THEN NewestRot + 1 ELSE clock
RotRename ==
  /\ pc = "rotrename"
  /\ rot' = {f \in rot : f.name # RotName} \cup {[name |-> RotName, recs |-> cur]}
  /\ cur' = Missing /\ pc' = "rotreopen"
  /\ UNCHANGED <<snaps, tmp, mem, counter, wcount, epoch, clock, op, hist, acked, nops, ncrash, lastAckTxn>>
RotReopen ==
  /\ pc = "rotreopen" /\ cur' = <<>> /\ wcount' = 0 /\ pc' = "apply"
  /\ UNCHANGED <<rot, snaps, tmp, mem, counter, epoch, clock, op, hist, acked, nops, ncrash, lastAckTxn>>

ApplyAck ==
  /\ pc = "apply" /\ mem' = ApplyChg(mem, op.chg)
  /\ acked' = Len(hist) - 1 /\ lastAckTxn' = op.txn /\ pc' = "idle"
  /\ UNCHANGED <<cur, rot, snaps, tmp, counter, wcount, epoch, clock, op, hist, nops, ncrash>>

(* ---- checkpoint: write tmp, rename, delete covered rotated files ---- *)
CkTmp ==
  /\ pc = "idle" /\ nops < MaxOps /\ nops' = nops + 1
  /\ tmp' = [name |-> clock, lastTxn |-> counter, state |-> mem, epoch |-> epoch] /\ pc' = "ckrename"
  /\ UNCHANGED <<cur, rot, snaps, mem, counter, wcount, epoch, clock, op, hist, acked, ncrash, lastAckTxn>>
CkRename ==
  /\ pc = "ckrename" /\ snaps' = {s \in snaps : s.name # tmp.name} \cup {tmp} /\ pc' = "ckclean"
  /\ UNCHANGED <<cur, rot, tmp, mem, counter, wcount, epoch, clock, op, hist, acked, nops, ncrash, lastAckTxn>>
MaxTxn(recs) == IF recs = <<>> THEN 0 ELSE Max({recs[i].txn : i \in 1..Len(recs)})
CkClean ==
  /\ pc = "ckclean"
  /\ IF \E f \in rot : MaxTxn(f.recs) <= tmp.lastTxn
     THEN (\E f \in rot : MaxTxn(f.recs) <= tmp.lastTxn /\ rot' = rot \ {f}) /\ pc' = "ckclean" /\ tmp' = tmp
     ELSE rot' = rot /\ pc' = "idle" /\ tmp' = 0
  /\ UNCHANGED <<cur, snaps, mem, counter, wcount, epoch, clock, op, hist, acked, nops, ncrash, lastAckTxn>>

(* ---- recovery as a function of the disk image ---- *)
(* a record verifies iff it is complete and was tagged with a key the recovering process knows *)
Readable(r) == r.st = "full" /\ (~AsImplemented_EphemeralKey \/ r.epoch = epoch + 1)
(* records of one file up to the first incomplete one (framing is lost behind it) *)
RECURSIVE Usable(_)
Usable(recs) == IF recs = <<>> THEN <<>>
                ELSE IF Head(recs).st # "full" THEN <<>> ELSE <<Head(recs)>> \o Usable(Tail(recs))
RECURSIVE Replay(_, _)
Replay(s, recs) == IF recs = <<>> THEN s
                   ELSE Replay(IF Readable(Head(recs)) THEN ApplyChg(s, Head(recs).chg) ELSE s, Tail(recs))
RotSeq == SetToSortSeq(rot, LAMBDA a, b : a.name < b.name)
RECURSIVE Flat(_)
Flat(fs) == IF fs = <<>> THEN <<>> ELSE Usable(Head(fs).recs) \o Flat(Tail(fs))
CurRecs == IF cur = Missing THEN <<>> ELSE Usable(cur)
AllRecs == IF AsImplemented_CurSortsFirst THEN CurRecs \o Flat(RotSeq) ELSE Flat(RotSeq) \o CurRecs
SnapOk(s) == ~AsImplemented_EphemeralKey
Newest(S) == CHOOSE s \in S : \A t \in S : t.name <= s.name
Oldest(S) == CHOOSE s \in S : \A t \in S : t.name >= s.name
Base == IF \E s \in snaps : SnapOk(s)
        THEN (IF AsImplemented_OldestSnapshot THEN Oldest({s \in snaps : SnapOk(s)}) ELSE Newest({s \in snaps : SnapOk(s)}))
        ELSE [name |-> 0, lastTxn |-> 0, state |-> Empty, epoch |-> 0]
Recovered == Replay(Base.state, AllRecs)
ReadableTxns == {AllRecs[i].txn : i \in {j \in 1..Len(AllRecs) : Readable(AllRecs[j])}}
RecCounter == Max({Base.lastTxn} \cup ReadableTxns)
TornTail(recs) == recs # <<>> /\ recs # Missing /\ recs[Len(recs)].st = "torn"

(* process death + restart (recovery) in one step *)
Crash ==
  /\ ncrash < MaxCrash /\ ncrash' = ncrash + 1
  /\ mem' = Recovered /\ counter' = RecCounter
  /\ cur' = IF cur = Missing THEN <<>>
            ELSE IF TornTail(cur) /\ ~AsImplemented_AppendAfterTorn THEN Front(cur) ELSE cur
  /\ epoch' = epoch + 1 /\ tmp' = 0 /\ wcount' = 0 /\ pc' = "idle" /\ op' = 0
  /\ hist' = <<Recovered>> /\ acked' = 0
  /\ lastAckTxn' = IF lastAckTxn <= RecCounter THEN lastAckTxn ELSE RecCounter
  /\ UNCHANGED <<rot, snaps, clock, nops>>

Changes1 == {<<<<k, v>>>> : k \in Keys, v \in Val0}
Changes2 == IF WithBatch /\ Cardinality(Keys) >= 2
            THEN {<<<<p[1], v1>>, <<p[2], v2>>>> : p \in {q \in Keys \X Keys : q[1] # q[2]}, v1 \in Vals, v2 \in Vals} ELSE {}

Next == Tick \/ (\E c \in Changes1 \cup Changes2 : Begin(c)) \/ WriteLen \/ WritePayload \/ RotRename \/ RotReopen
        \/ ApplyAck \/ CkTmp \/ CkRename \/ CkClean \/ Crash
Spec == Init /\ [][Next]_vars

(* ---- properties: evaluated on what a restart would yield, in every reachable state ---- *)
(* the recovered state is that of a prefix of the effective operations containing every acknowledged one *)
PrefixRecovery == \E n \in (acked + 1)..Len(hist) : Recovered = hist[n]
(* the counter never moves behind an acknowledged transaction *)
CounterMonotone == RecCounter >= lastAckTxn
(* a clean restart (nothing in flight) reproduces the full state *)
CleanRestart == pc = "idle" => Recovered = hist[Len(hist)]
=============================================================================
