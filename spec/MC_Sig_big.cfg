SPECIFICATION Spec
CONSTANTS
  MaxId = 3
  Msgs = {1, 2}
  MaxSig = 3
  AsImplemented_SeedHalvesIndependent = FALSE
  AsImplemented_ThresholdCountsOnly = FALSE
INVARIANTS VerifyIff OwnSignatureVerifies ThresholdIff Unforgeable
CHECK_DEADLOCK FALSE
