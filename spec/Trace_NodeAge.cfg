SPECIFICATION Spec
CONSTANTS
  Unit = 1000000
  YoungAge = 3600
  EstAge = 86400
  VetAge = 604800
  DaySecs = 86400
  AsImplemented_CategoryHardcoded = TRUE
  AsImplemented_UptimeSinceLastSeen = TRUE
  AsImplemented_UnknownReasonWhenPassing = TRUE
  AsImplemented_CleanupByLastSeen = TRUE
  AsImplemented_RelaxedByReplOnly = TRUE
  AsImplemented_HugeRetentionPanics = TRUE
  Variant_RejoinResetsAge = FALSE
INVARIANT Report
CHECK_DEADLOCK FALSE
