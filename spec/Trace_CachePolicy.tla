------------------------- MODULE Trace_CachePolicy -------------------------
(***************************************************************************)
(* Conformance acceptor for the cache eviction strategies (harness module  *)
(* cachepol).  Every `Step` carries the projected bookkeeping of the real  *)
(* strategy object before and after one operation (order list, position    *)
(* map and frequency map as small integers, read off the Debug output the  *)
(* trait demands), the driver's cache content before and after, the        *)
(* argument and - for select_victim - the presented keys in the iteration  *)
(* order of the presented map and the key that was named (0 = None).  The  *)
(* acceptor rebuilds the model state from `pre`, applies the functions of  *)
(* CachePolicyRules.tla (as-implemented flags on) and compares.  The       *)
(* Adaptive strategy is checked for membership only.  Mismatches are       *)
(* MODEL-DRIFT (informational).                                            *)
(***************************************************************************)
EXTENDS CachePolicyRules, Json, IOUtils

Recs == ndJsonDeserialize(IOEnv.TRACE)
N == Len(Recs)
VARIABLES l, kind, prev, cprev, drift, ndrift, n
tvars == <<l, kind, prev, cprev, drift, ndrift, n>>
Ev == Recs[l]

(* a logged map [[k, v], ..] as a function *)
Keyed(q) == [x \in {q[i][1] : i \in 1..Len(q)} |-> q[CHOOSE i \in 1..Len(q) : q[i][1] = x][2]]
OneEach(q) == \A i, j \in 1..Len(q) : i # j => q[i][1] # q[j][1]
St(j) == [kind |-> kind, order |-> j.order, pos |-> Keyed(j.pos), freq |-> Keyed(j.freq)]
WellFormed(j) == /\ OneEach(j.pos) /\ OneEach(j.freq)
                 /\ \A i \in 1..Len(j.order) : j.order[i] >= 1                       \* every entry is a key of the driver
                 /\ \A i \in 1..Len(j.pos) : j.pos[i][1] >= 1 /\ j.pos[i][2] >= 0
                 /\ \A i \in 1..Len(j.freq) : j.freq[i][1] >= 1 /\ j.freq[i][2] >= 0
Pre == St(Ev.pre)
Post == St(Ev.post)
Unchanged == Ev.post = Ev.pre
CacheSame == Ev.cpost = Ev.cpre

StepOp ==
  CASE Ev.op = "insert" -> /\ Post = OnInsert(Pre, Ev.k).s /\ Ev.ok = OnInsert(Pre, Ev.k).ok
                           /\ Elems(Ev.cpost) = Elems(Ev.cpre) \cup {Ev.k}
    [] Ev.op = "access" -> /\ Post = OnAccess(Pre, Ev.k).s /\ Ev.ok = OnAccess(Pre, Ev.k).ok /\ CacheSame
    [] Ev.op = "remove" -> /\ Post = OnRemove(Pre, Ev.k).s /\ Ev.ok = OnRemove(Pre, Ev.k).ok
                           /\ Elems(Ev.cpost) = Elems(Ev.cpre) \ {Ev.k}
    [] Ev.op = "victim" -> /\ Unchanged /\ CacheSame
                           /\ Ev.v \in VictimsSeq(Pre, Ev.pres)
                           /\ Ev.ok = (Ev.v # None)
    [] OTHER -> FALSE
(* nothing happens to the strategy or the cache between two steps; the object keeps its name *)
Continuous == Ev.pre = prev /\ Ev.cpre = cprev /\ Ev.name = kind
StepOk == Continuous /\ WellFormed(Ev.pre) /\ WellFormed(Ev.post) /\ StepOp
(* a new strategy: the kind that was asked for, nothing recorded *)
ResetOk == /\ Ev.kind \in KindNames /\ Ev.name = Ev.kind /\ Ev.cache = <<>>
           /\ [kind |-> Ev.kind, order |-> Ev.state.order, pos |-> Keyed(Ev.state.pos), freq |-> Keyed(Ev.state.freq)] = New(Ev.kind)

Init == l = 1 /\ kind = "" /\ prev = <<>> /\ cprev = <<>> /\ drift = <<>> /\ ndrift = 0 /\ n = 0
Note(what) == /\ ndrift' = ndrift + 1
              /\ drift' = IF Len(drift) < 20 THEN Append(drift, [line |-> l, op |-> what]) ELSE drift
Next == /\ l <= N /\ l' = l + 1
        /\ CASE Ev.ev = "Reset" -> /\ kind' = Ev.kind /\ prev' = Ev.state /\ cprev' = Ev.cache /\ n' = n + 1
                                   /\ IF ResetOk THEN UNCHANGED <<drift, ndrift>> ELSE Note("new")
             [] Ev.ev = "Step" -> /\ n' = n + 1 /\ prev' = Ev.post /\ cprev' = Ev.cpost /\ UNCHANGED kind
                                  /\ IF StepOk THEN UNCHANGED <<drift, ndrift>> ELSE Note(Ev.op)
             [] Ev.ev = "Panic" -> Note("panic") /\ UNCHANGED <<kind, prev, cprev, n>>
             [] OTHER -> UNCHANGED <<kind, prev, cprev, drift, ndrift, n>>
Spec == Init /\ [][Next]_tvars
Report == (l = N + 1) => JsonSerialize(IOEnv.OUT, [consumed |-> l - 1, total |-> N, nviol |-> ndrift, checked |-> n, viol |-> drift])
=============================================================================
