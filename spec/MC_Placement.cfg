SPECIFICATION Spec
CONSTANTS
  MaxCands = 4
  Regions = {1, 2}
  Asns = {1, 2}
  Sites = {1, 2, 3, 4}
  MetaGrid = {TRUE}
  KMax = 4
  Variant = ""
INVARIANTS OutcomeAdmissible
CHECK_DEADLOCK FALSE
