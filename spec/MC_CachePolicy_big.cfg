\* intended design, four keys (thorough tier)
SPECIFICATION Spec
CONSTANTS
  Keys = {1, 2, 3, 4}
  Kinds = {"LRU", "LFU", "FIFO", "Adaptive"}
  MaxFreq = 2
  MaxLen = 5
  AsImplemented_NoRemoveHook = FALSE
  AsImplemented_FifoDuplicates = FALSE
  AsImplemented_UnseenNone = FALSE
  Variant_LruNoReindex = FALSE
INVARIANTS TypeOK VictimMember VictimSomeWhenNonEmpty VictimForOwnCache VictimsAgree LruNamesLeastRecent FifoNamesOldest LfuNamesMinCount CountsMatch
           TouchMakesNewest FreshInsertIsNewest InsertRestartsCount RemovedIsForgotten NoLeak PosConsistent CacheKnown
PROPERTIES FifoIgnoresAccess AccessCounts OthersUndisturbed
CHECK_DEADLOCK FALSE
