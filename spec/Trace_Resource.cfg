SPECIFICATION Spec
CONSTANTS
  Unit = 1000000
  TPS = 1000000
  Window = 1000000
  Expire = 300000000
  AsImplemented_SharedPeerBucket = TRUE
  AsImplemented_SwappedBurstRate = TRUE
  AsImplemented_WaiterAdmittedAfterShutdown = TRUE
  AsImplemented_LostShutdownSignal = TRUE
  AsImplemented_WindowRollReportsZero = TRUE
  Variant_DoubleRelease = FALSE
INVARIANT Report
CHECK_DEADLOCK FALSE
