----------------------------- MODULE CachePolicy -----------------------------
(***************************************************************************)
(* State machine of one cache eviction strategy (src/adaptive/eviction.rs) *)
(* together with the cache content its caller keeps, for exhaustive        *)
(* checking.  The transition / verdict functions are CachePolicyRules.tla  *)
(* - the same ones Trace_CachePolicy.tla holds against the real objects.   *)
(* Specification growth module (not one of the listed properties).         *)
(*                                                                         *)
(*   s      the strategy's bookkeeping (kind chosen at Init)               *)
(*   cache  the keys the caller has cached (QLearnCacheManager: the keys   *)
(*          of cache_stats.access_frequency)                               *)
(*   ref    the reference the design is measured against: the cached keys  *)
(*          in the order that matters (LRU: by last use, FIFO: by the      *)
(*          insertion that brought them in) and the uses of every cached   *)
(*          key since that insertion (LFU)                                 *)
(*   wild   FALSE: the calling discipline of QLearnCacheManager (on_access *)
(*          only for cached keys); TRUE: on_access for any key             *)
(*   last   the operation that produced the current state                  *)
(* select_victim is a pure query: the invariants quantify over EVERY key   *)
(* set a caller can present in every reachable state - also sets that      *)
(* disagree with the bookkeeping.                                          *)
(***************************************************************************)
EXTENDS CachePolicyRules

CONSTANTS Keys,      \* the keys (positive integers)
          Kinds,     \* the strategies to explore
          MaxFreq,   \* LFU: no access beyond this count (keeps the model finite)
          MaxLen     \* FIFO: no insertion into a queue of this length (only matters with duplicates / stale entries)

VARIABLES s, cache, ref, wild, last
vars == <<s, cache, ref, wild, last>>

UseOrder == s.kind \in {"LRU", "FIFO"}
UseCnt == s.kind = "LFU"
MoveLast(q, k) == Append(Without(q, k), k)

Init == /\ s \in {New(kd) : kd \in Kinds}
        /\ cache = {}
        /\ ref = [order |-> <<>>, cnt |-> [k \in Keys |-> 0]]
        /\ wild \in BOOLEAN
        /\ last = [op |-> "init", k |-> 0, fresh |-> FALSE]

Insert(k) == /\ s.kind = "FIFO" => Len(s.order) < MaxLen
             /\ s' = OnInsert(s, k).s
             /\ cache' = cache \cup {k}
             /\ ref' = [order |-> IF ~UseOrder THEN <<>>
                                  ELSE IF s.kind = "LRU" THEN MoveLast(ref.order, k)
                                  ELSE IF k \in cache THEN ref.order ELSE Append(ref.order, k),
                        cnt |-> IF UseCnt THEN [ref.cnt EXCEPT ![k] = 1] ELSE ref.cnt]
             /\ last' = [op |-> "insert", k |-> k, fresh |-> k \notin cache]
Access(k) == /\ wild \/ k \in cache
             /\ F(s, k) < MaxFreq
             /\ s' = OnAccess(s, k).s
             /\ ref' = IF k \notin cache THEN ref
                       ELSE [order |-> IF s.kind = "LRU" THEN MoveLast(ref.order, k) ELSE ref.order,
                             cnt |-> IF UseCnt THEN [ref.cnt EXCEPT ![k] = @ + 1] ELSE ref.cnt]
             /\ last' = [op |-> "access", k |-> k, fresh |-> FALSE]
             /\ UNCHANGED cache
RemoveKey(k) == /\ s' = OnRemove(s, k).s
                /\ cache' = cache \ {k}
                /\ ref' = [order |-> Without(ref.order, k), cnt |-> [ref.cnt EXCEPT ![k] = 0]]
                /\ last' = [op |-> "remove", k |-> k, fresh |-> FALSE]
Next == (\E k \in Keys : Insert(k) \/ Access(k) \/ RemoveKey(k)) /\ UNCHANGED wild
Spec == Init /\ [][Next]_vars

(* ---- what a caller can ask ---- *)
Contents == SUBSET Keys
Perms(P) == {q \in [1..Cardinality(P) -> P] : Elems(q) = P}
NoDup(q) == \A i, j \in 1..Len(q) : i # j => q[i] # q[j]

TypeOK == /\ s.kind \in Kinds /\ Tracked(s) \subseteq Keys /\ cache \subseteq Keys
          /\ \A k \in DOMAIN s.freq : s.freq[k] \in 1..MaxFreq
          /\ \A k \in DOMAIN s.pos : s.pos[k] \in 0..(Len(s.order) - 1)
          /\ NoDup(ref.order) /\ Elems(ref.order) = (IF UseOrder THEN cache ELSE {})
          /\ \A k \in Keys : (ref.cnt[k] > 0) <=> (UseCnt /\ k \in cache)
          /\ (s.kind # "LRU" => s.pos = <<>>) /\ (s.kind # "LFU" => s.freq = <<>>) /\ (~UseOrder => s.order = <<>>)

(* ---- invariants of the design ---- *)
(* the victim is a presented key; nothing is named for an empty cache *)
VictimMember == \A P \in Contents : /\ Victims(s, P) # {} /\ Victims(s, P) \subseteq P \cup {None}
                                    /\ (P = {} => Victims(s, P) = {None})
(* ... and a non-empty cache always gets a victim, whatever the strategy has seen of it *)
VictimSomeWhenNonEmpty == \A P \in Contents : P # {} => None \notin Victims(s, P)
(* (holds as implemented:) at least the caller's own cache gets one, every key having come in through on_insert *)
VictimForOwnCache == \A P \in SUBSET cache : P # {} => None \notin Victims(s, P)
(* the set of answers is exactly what the iteration orders of the presented map can produce (only LFU looks at the order) *)
VictimsAgree == s.kind = "LFU" => \A P \in Contents : Victims(s, P) = UNION {VictimsSeq(s, q) : q \in Perms(P)}
(* LRU names the least recently used of the presented cached keys *)
LruNamesLeastRecent == s.kind = "LRU" => \A P \in SUBSET cache : P # {} => Victims(s, P) = {FirstIn(ref.order, P)}
(* FIFO names the presented cached key that came in first *)
FifoNamesOldest == s.kind = "FIFO" => \A P \in SUBSET cache : P # {} => Victims(s, P) = {FirstIn(ref.order, P)}
(* LFU names the presented cached keys with the fewest uses since they came in; its counts are those uses *)
LfuNamesMinCount == s.kind = "LFU" => \A P \in SUBSET cache : P # {} =>
                       Victims(s, P) = {k \in P : \A j \in P : ref.cnt[k] <= ref.cnt[j]}
CountsMatch == s.kind = "LFU" => \A k \in cache : F(s, k) = ref.cnt[k]
(* a use makes a key the most recent one: LRU does not name it while another key is presented *)
TouchMakesNewest == last.op \in {"insert", "access"} /\ s.kind = "LRU" /\ last.k \in cache =>
                       \A P \in SUBSET cache : last.k \in P /\ P # {last.k} => last.k \notin Victims(s, P)
(* a key that comes (back) in is the newest - whatever happened to it before it was removed *)
FreshInsertIsNewest == last.op = "insert" /\ last.fresh /\ UseOrder =>
                       \A P \in SUBSET cache : last.k \in P /\ P # {last.k} => last.k \notin Victims(s, P)
InsertRestartsCount == last.op = "insert" /\ s.kind = "LFU" => F(s, last.k) = 1
(* removing a key forgets it *)
RemovedIsForgotten == last.op = "remove" => last.k \notin Tracked(s)
(* the bookkeeping is bounded by the cache (calling discipline of the cache manager), and never holds a key twice *)
NoLeak == /\ NoDup(s.order)
          /\ ~wild => Tracked(s) \subseteq cache /\ Len(s.order) <= Cardinality(cache)
(* LRU: position_map is the inverse of access_order *)
PosConsistent == s.kind = "LRU" => /\ DOMAIN s.pos = Elems(s.order)
                                   /\ \A i \in 1..Len(s.order) : s.pos[s.order[i]] = i - 1
(* every cached key is known to the strategy (it came in through on_insert) *)
CacheKnown == s.kind # "Adaptive" => cache \subseteq Tracked(s)

(* FIFO does not care about accesses; an LFU access counts exactly once and touches nothing else *)
FifoIgnoresAccess == [][last'.op = "access" /\ s.kind \in {"FIFO", "Adaptive"} => s' = s]_vars
AccessCounts == [][last'.op = "access" /\ s.kind = "LFU" =>
                     /\ F(s', last'.k) = F(s, last'.k) + 1
                     /\ \A k \in Keys \ {last'.k} : F(s', k) = F(s, k)]_vars
(* an access or an insertion never changes what is said about contents the key is not part of *)
OthersUndisturbed == [][last'.op \in {"insert", "access"} =>
                          \A P \in SUBSET (cache \ {last'.k}) : Victims(s', P) = Victims(s, P)]_vars
=============================================================================
