---------------------------- MODULE RefreshRules ----------------------------
(***************************************************************************)
(* Transition / verdict functions of the bucket refresh bookkeeping of the *)
(* Kademlia routing maintenance (src/dht/routing_maintenance/refresh.rs:   *)
(* BucketRefreshState, BucketRefreshManager) together with the attack-mode *)
(* switch of the CloseGroupValidator it drives.  Shared by the model       *)
(* (Refresh.tla) and the acceptor (Trace_Refresh.tla).                     *)
(*                                                                         *)
(* A state is a record                                                     *)
(*   bk      function: existing bucket index -> bucket record              *)
(*             [age, cnt, tier, succ, fail, vp, vf, vage, tr]              *)
(*             age  = time since last_refresh, vage = time since           *)
(*             last_validation (-1 = never), tr = tracked node tokens      *)
(*   close, recent   the two private index lists (as sets)                 *)
(*   thr     validation_age_threshold                                      *)
(*   tvf     total_validation_failures                                     *)
(*   val     a validator is attached                                       *)
(*   attack  validator.is_attack_mode()                                    *)
(*   ind     validator's stored AttackIndicators, risks in per-mille       *)
(* Time is an integer (model: ticks, acceptor: milliseconds).              *)
(* Every operation yields [s |-> new state, ok |-> result, ...].           *)
(***************************************************************************)
EXTENDS Naturals, Integers, Sequences, FiniteSets, TLC

CONSTANTS IvCritical, IvImportant, IvStandard, IvBackground,   \* RefreshTier::default_interval
          FailTrigger,         \* should_trigger_attack_mode: total failures > FailTrigger (10)
          TrigNum, TrigDen,    \* should_trigger_attack_mode: overall validation rate < TrigNum / TrigDen (0.7)
          DeescFailMax,        \* check_deescalation: total failures < DeescFailMax (3)
          DeescNum, DeescDen,  \* check_deescalation: overall validation rate > DeescNum / DeescDen (0.9)
          IndFailTrigger,      \* AttackIndicators::should_escalate_to_bft: recent_failures > IndFailTrigger (10)
          MaxBuckets,          \* 256
          AsImplemented_MarkLostIfAbsent,     \* a bucket created after mark_close_group / mark_recently_used starts as Background
          AsImplemented_TierIgnoresCount,     \* node_count changes (record_success, track, untrack) do not re-evaluate the tier
          AsImplemented_TrackDuplicates,      \* track_node_in_bucket pushes without looking: tracked_nodes is a multiset
          AsImplemented_ResetNotPropagated,   \* reset_validation_failures leaves the validator's recent_failures snapshot alone
          Variant_RecentBeatsClose            \* WRONG on purpose: mark_recently_used makes a close-group bucket Important

(* ---- helpers ---- *)
MinOf(a, b) == IF a < b THEN a ELSE b
MaxOf(a, b) == IF a > b THEN a ELSE b
AbsOf(a) == IF a < 0 THEN 0 - a ELSE a
Upd(f, k, v) == [x \in DOMAIN f \cup {k} |-> IF x = k THEN v ELSE f[x]]
Elems(q) == {q[i] : i \in 1..Len(q)}
NoDup(q) == \A i, j \in 1..Len(q) : i # j => q[i] # q[j]
RoundDiv(a, b) == (2 * a + b) \div (2 * b)          \* a / b rounded half up (a >= 0, b > 0)
(* pm is a correct per-mille rounding of p / t (either way at an exact half); 1000 when nothing was counted *)
PmOk(pm, p, t) == IF t = 0 THEN pm = 1000 ELSE 2 * AbsOf(pm * t - 1000 * p) <= t

(* ---- tiers ---- *)
Tiers == {"Critical", "Important", "Standard", "Background"}
Rank(t) == CASE t = "Critical" -> 0 [] t = "Important" -> 1 [] t = "Standard" -> 2 [] OTHER -> 3
Interval(t) == CASE t = "Critical" -> IvCritical [] t = "Important" -> IvImportant [] t = "Standard" -> IvStandard [] OTHER -> IvBackground
(* BucketRefreshState::update_tier: close group beats recently used beats population *)
TierOf(cg, ru, cnt) == IF cg THEN "Critical" ELSE IF ru THEN "Important" ELSE IF cnt > 2 THEN "Standard" ELSE "Background"

Exists(s) == DOMAIN s.bk
NewBucket(s, b) ==     \* BucketRefreshState::new()
  [age |-> 0, cnt |-> 0,
   tier |-> IF AsImplemented_MarkLostIfAbsent THEN "Background" ELSE TierOf(b \in s.close, b \in s.recent, 0),
   succ |-> 0, fail |-> 0, vp |-> 0, vf |-> 0, vage |-> -1, tr |-> <<>>]
Ensure(s, b) == IF b \in Exists(s) THEN s ELSE [s EXCEPT !.bk = Upd(s.bk, b, NewBucket(s, b))]     \* get_or_create_state
CountChanged(s, b) == IF AsImplemented_TierIgnoresCount THEN s
                      ELSE [s EXCEPT !.bk[b].tier = TierOf(b \in s.close, b \in s.recent, s.bk[b].cnt)]

(* ---- refresh bookkeeping ---- *)
Touch(s, b) == [s |-> Ensure(s, b), ok |-> TRUE]                                  \* get_or_create_state
InitBuckets(s, n) ==                                                              \* initialize_buckets
  LET ids == 0 .. (MinOf(n, MaxBuckets) - 1)
  IN [s |-> [s EXCEPT !.bk = [x \in Exists(s) \cup ids |-> IF x \in Exists(s) THEN s.bk[x] ELSE NewBucket(s, x)]], ok |-> TRUE]
Success(s, b, n) ==                                                               \* record_refresh_success
  LET e == Ensure(s, b) IN
  [s |-> CountChanged([e EXCEPT !.bk[b].age = 0, !.bk[b].cnt = n, !.bk[b].succ = @ + 1], b), ok |-> TRUE]
Failure(s, b) ==                                                                  \* record_refresh_failure: cumulative, nothing resets it
  LET e == Ensure(s, b) IN [s |-> [e EXCEPT !.bk[b].fail = @ + 1], ok |-> TRUE]
MarkClose(s, b) ==                                                                \* mark_close_group
  LET m == [s EXCEPT !.close = @ \cup {b}] IN
  [s |-> IF b \in Exists(s) THEN [m EXCEPT !.bk[b].tier = TierOf(TRUE, FALSE, s.bk[b].cnt)] ELSE m, ok |-> TRUE]
MarkRecent(s, b) ==                                                               \* mark_recently_used
  LET m == [s EXCEPT !.recent = @ \cup {b}] IN
  [s |-> IF b \in Exists(s)
         THEN [m EXCEPT !.bk[b].tier = IF Variant_RecentBeatsClose THEN "Important" ELSE TierOf(b \in s.close, TRUE, s.bk[b].cnt)]
         ELSE m, ok |-> TRUE]
UpdateTier(s, b, cg, ru) ==                                                       \* get_or_create_state(b).update_tier(cg, ru)
  LET e == Ensure(s, b) IN [s |-> [e EXCEPT !.bk[b].tier = TierOf(cg, ru, e.bk[b].cnt)], ok |-> TRUE]
Advance(s, d) ==                                                                  \* time passes for every bucket
  [s |-> [s EXCEPT !.bk = [x \in Exists(s) |-> [s.bk[x] EXCEPT !.age = @ + d, !.vage = IF @ < 0 THEN @ ELSE @ + d]]], ok |-> TRUE]

Stale(s, b) == s.bk[b].age > Interval(s.bk[b].tier)                               \* needs_refresh (strictly older)
StaleWith(s, b, iv) == s.bk[b].age > iv                                           \* needs_refresh_with_interval
RefreshSet(s) == {b \in Exists(s) : Stale(s, b)}                                  \* get_buckets_needing_refresh, as a set ...
TierSorted(s, q) == \A i, j \in 1..Len(q) : i < j => Rank(s.bk[q[i]].tier) <= Rank(s.bk[q[j]].tier)   \* ... and its order
NeedsValidation(s, b) == s.bk[b].vage < 0 \/ s.bk[b].vage > s.thr                 \* needs_validation(threshold)
NeedValSet(s) == {b \in Exists(s) : NeedsValidation(s, b) /\ s.bk[b].cnt > 0}     \* get_buckets_needing_validation
GenKey(s, b) == IF b < MaxBuckets THEN b ELSE -1      \* bucket_index(generate_key_for_bucket(b)), -1 = None

(* ---- node tracking ---- *)
Track(s, b, n) ==                                                                 \* track_node_in_bucket
  LET e == Ensure(s, b)
      q == IF ~AsImplemented_TrackDuplicates /\ n \in Elems(e.bk[b].tr) THEN e.bk[b].tr ELSE Append(e.bk[b].tr, n)
  IN [s |-> CountChanged([e EXCEPT !.bk[b].tr = q, !.bk[b].cnt = Len(q)], b), ok |-> TRUE]
Untrack(s, b, n) ==                                                               \* untrack_node_from_bucket: every copy
  IF b \notin Exists(s) THEN [s |-> s, ok |-> TRUE]
  ELSE LET q == SelectSeq(s.bk[b].tr, LAMBDA x : x # n)
       IN [s |-> CountChanged([s EXCEPT !.bk[b].tr = q, !.bk[b].cnt = Len(q)], b), ok |-> TRUE]
NodesIn(s, b) == IF b \in Exists(s) THEN s.bk[b].tr ELSE <<>>                     \* get_nodes_in_bucket

(* ---- validation counters ---- *)
VPass(s, b) == LET e == Ensure(s, b) IN [s |-> [e EXCEPT !.bk[b].vp = @ + 1, !.bk[b].vage = 0], ok |-> TRUE]      \* record_node_validation_pass
VFail(s, b) == LET e == Ensure(s, b) IN                                                                          \* record_node_validation_failure
  [s |-> [e EXCEPT !.bk[b].vf = @ + 1, !.bk[b].vage = 0, !.tvf = @ + 1], ok |-> TRUE]
Process(s, b, valid) == IF valid THEN VPass(s, b) ELSE VFail(s, b)               \* process_validation_result (the cache is not modelled)
VResult(s, b) ==                                                                  \* record_validation_result: the two counts are ignored
  [s |-> IF b \in Exists(s) THEN [s EXCEPT !.bk[b].vage = 0] ELSE s, ok |-> TRUE]
SetThr(s, t) == [s |-> [s EXCEPT !.thr = t], ok |-> TRUE]                         \* set_validation_age_threshold

RECURSIVE SumOver(_, _, _)
SumOver(s, B, f) == IF B = {} THEN 0 ELSE LET b == CHOOSE x \in B : TRUE IN (IF f = "vp" THEN s.bk[b].vp ELSE s.bk[b].vf) + SumOver(s, B \ {b}, f)
Passed(s) == SumOver(s, Exists(s), "vp")
Failed(s) == SumOver(s, Exists(s), "vf")
(* rates are exact rationals: passed / (passed + failed), 1 when nothing was counted; the f64 comparisons with
   0.7 and 0.9 agree with the cross-multiplied ones (a correctly rounded quotient equals the literal exactly when
   the ratio is 7/10 resp. 9/10, and is far from it otherwise for counters below 10^15) *)
RateBelow(p, f) == p + f > 0 /\ TrigDen * p < TrigNum * (p + f)
RateAbove(p, f) == p + f = 0 \/ DeescDen * p > DeescNum * (p + f)
Trigger(s) == RateBelow(Passed(s), Failed(s)) \/ s.tvf > FailTrigger               \* should_trigger_attack_mode
DeescGuard(s) == RateAbove(Passed(s), Failed(s)) /\ s.tvf < DeescFailMax          \* the condition in check_deescalation

(* ---- attack mode ---- *)
ZeroInd == [ecl |-> 0, syb |-> 0, manip |-> FALSE, churn |-> 0, recent |-> 0]
Escalate(i) == i.ecl > 500 \/ i.syb > 500 \/ i.manip \/ i.churn > 300 \/ i.recent > IndFailTrigger   \* should_escalate_to_bft
SetValidator(s) == [s |-> [s EXCEPT !.val = TRUE, !.attack = FALSE, !.ind = ZeroInd], ok |-> TRUE]   \* set_validator(fresh one)
ResetFailures(s) ==                                                               \* reset_validation_failures
  [s |-> IF AsImplemented_ResetNotPropagated \/ ~s.val THEN [s EXCEPT !.tvf = 0] ELSE [s EXCEPT !.tvf = 0, !.ind.recent = 0], ok |-> TRUE]
Deescalate(s) ==                                                                  \* check_deescalation -> deescalate_from_bft
  [s |-> IF s.val /\ DeescGuard(s) /\ ~Escalate(s.ind) THEN [s EXCEPT !.attack = FALSE] ELSE s, ok |-> TRUE]

(* What validate_membership answers for the node classes the driver builds (default configuration: 5 witnesses,
   0.7 / 0.71, witness trust 0.3, 3 regions).  The full verdict function is CloseGroupRules.tla (property C15).
     none       no witness responses
     good       5 trusted confirmations, 3 regions, response times 20 ms apart
     oneregion  as good, one region
     collude    as good, response times 1 ms apart
     lowtrust   as good, the candidate's own trust is 0.1
     deny       5 trusted denials
     untrusted  5 confirmations by witnesses of trust 0.1 *)
Classes == {"none", "good", "oneregion", "collude", "lowtrust", "deny", "untrusted"}
VerdictOf(c, bft) ==
  CASE c = "none" -> [valid |-> FALSE, reasons |-> <<"InsufficientConfirmation">>]
    [] c = "good" -> [valid |-> TRUE, reasons |-> <<>>]
    [] c = "oneregion" -> IF bft THEN [valid |-> FALSE, reasons |-> <<"InsufficientGeographicDiversity">>] ELSE [valid |-> TRUE, reasons |-> <<>>]
    [] c = "collude" -> IF bft THEN [valid |-> FALSE, reasons |-> <<"SuspectedCollusion">>] ELSE [valid |-> TRUE, reasons |-> <<>>]
    [] c = "lowtrust" -> [valid |-> FALSE, reasons |-> <<"LowTrustScore">>]
    [] c = "deny" -> [valid |-> FALSE, reasons |-> <<"InsufficientConfirmation">>]
    [] OTHER -> IF bft THEN [valid |-> FALSE, reasons |-> <<"InsufficientConfirmation">>] ELSE [valid |-> TRUE, reasons |-> <<>>]

(* validate_refreshed_nodes(b, nodes of the classes cs): escalation is decided BEFORE the batch from the counters
   as they stand, the batch is judged in that mode, counted, and the indicators are rebuilt from this batch alone
   (eclipse share of the rejected nodes, collusion seen, total failures so far); they may escalate again.
   Result: indices judged valid, and <<index, reasons>> of the others, both in input order. *)
Validate(s, b, cs) ==
  LET idx == [i \in 1..Len(cs) |-> i] IN
  IF ~s.val THEN [s |-> s, ok |-> TRUE, valid |-> idx, invalid |-> <<>>]
  ELSE LET a1 == s.attack \/ Trigger(s)
           v == [i \in 1..Len(cs) |-> VerdictOf(cs[i], a1)]
           good == SelectSeq(idx, LAMBDA i : v[i].valid)
           bad == SelectSeq(idx, LAMBDA i : ~v[i].valid)
           nbad == Len(bad)
           e == Ensure(s, b)
           counted == [e EXCEPT !.bk[b].vp = @ + Len(good), !.bk[b].vf = @ + nbad, !.bk[b].vage = 0, !.tvf = @ + nbad]
           necl == Cardinality({i \in Elems(bad) : "InsufficientGeographicDiversity" \in Elems(v[i].reasons)})
           ncol == Cardinality({i \in Elems(bad) : "SuspectedCollusion" \in Elems(v[i].reasons)})
           ind == [ecl |-> MinOf(1000, RoundDiv(1000 * necl, MaxOf(nbad, 1))), syb |-> 0, manip |-> ncol > 0, churn |-> 0, recent |-> counted.tvf]
       IN IF Len(cs) = 0 THEN [s |-> [s EXCEPT !.attack = a1], ok |-> TRUE, valid |-> <<>>, invalid |-> <<>>]
          ELSE [s |-> [counted EXCEPT !.attack = a1 \/ Escalate(ind), !.ind = ind], ok |-> TRUE,
                valid |-> good, invalid |-> [k \in 1..nbad |-> <<bad[k], v[bad[k]].reasons>>]]
=============================================================================
