---------------------------- MODULE Replay_Lookup ----------------------------
(***************************************************************************)
(* Behaviour generator for the spec -> impl direction of C01.  Lookup.tla  *)
(* is deterministic after Init, so a behaviour is its initial state: the   *)
(* "who knows whom" graph, the target and the set of silent peers.  TLC    *)
(* enumerates every one of them (exhaustively) and prints, when the model  *)
(* lookup is done, the configuration together with the model's answer:     *)
(* the returned list, the peers queried and answered, the request count.   *)
(* The harness (scverif c01 replay) builds each configuration with real    *)
(* DhtNetworkManagers whose DHT keys carry the model id in their leading   *)
(* bits, runs the real lookup and logs it for Trace_Lookup.tla (P-level    *)
(* verdicts); the model's answer travels along for the I-level comparison. *)
(***************************************************************************)
EXTENDS Lookup, Json

AdjSeq == SetToSortSeq({SetToSortSeq(e, <) : e \in adj}, LAMBDA a, b : a[1] < b[1] \/ (a[1] = b[1] /\ a[2] < b[2]))
Emit == Done => PrintT(<<"REPLAY", ToJson([nodes |-> SetToSortSeq(Node, <), self |-> Self, k |-> K, target |-> target,
                                           adj |-> AdjSeq, silent |-> SetToSortSeq(silent, <),
                                           result |-> Result, queried |-> SetToSortSeq(queried, <),
                                           answered |-> SetToSortSeq(answered, <), nreq |-> nreq, iter |-> iter])>>)
=============================================================================
