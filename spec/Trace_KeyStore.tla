--------------------------- MODULE Trace_KeyStore ---------------------------
(***************************************************************************)
(* Acceptor for traces recorded from the real EncryptedKeyStorageManager   *)
(* (harness module c18).  Model state: the store state `t` = [pw, seeds]   *)
(* that callers are entitled to, whether the file bytes are unaltered      *)
(* (`intact`), and - only to describe the input condition of a violation - *)
(* which seed ids were stored/retrieved in this process since the last     *)
(* cache clearing (`warm`) and which passwords were current before         *)
(* (`former`).  Rules: KeyStoreRules (OnlyCurrentPw, CurrentPwWorks) on    *)
(* every retrieve; Atomic on every crash image: the probes of the image    *)
(* must all be explained by the state before or by the state after the     *)
(* interrupted operation.                                                  *)
(***************************************************************************)
EXTENDS Integers, Sequences, FiniteSets, TLC, Json, IOUtils, KeyStoreRules

Rec == ndJsonDeserialize(IOEnv.TRACE)
N == Len(Rec)

VARIABLES l, t, intact, warm, former, viol, nviol, nchk, segv
vars == <<l, t, intact, warm, former, viol, nviol, nchk, segv>>
Ev == Rec[l]

CountOf(c, d) == Cardinality({i \in 1..Len(viol) : viol[i].clause = c /\ viol[i].cond = d})
NoteAll(vs) ==
  /\ nviol' = nviol + Len(vs)
  /\ segv' = IF Len(segv) = 0 THEN segv ELSE [segv EXCEPT ![Len(segv)] = @ + Len(vs)]
  /\ viol' = viol \o SelectSeq([i \in 1..Len(vs) |-> [line |-> l, clause |-> vs[i].clause, cond |-> vs[i].cond]],
                               LAMBDA v : CountOf(v.clause, v.cond) < 25)
Quiet == UNCHANGED <<viol, nviol, segv>>

Init == /\ l = 1 /\ t = NoStore /\ intact = TRUE /\ warm = {} /\ former = {}
        /\ viol = <<>> /\ nviol = 0 /\ nchk = 0 /\ segv = <<>>

Reset == /\ Ev.ev = "Reset"
         /\ t' = NoStore /\ intact' = TRUE /\ warm' = {} /\ former' = {}
         /\ segv' = Append(segv, 0) /\ UNCHANGED <<viol, nviol, nchk>>

(* the writing operations: the model follows the reported outcome; the rules speak about retrieves *)
Initialize == /\ Ev.ev = "Init"
              /\ t' = IF Ev.ok THEN [pw |-> Ev.pw, seeds |-> <<>>] ELSE t
              /\ Quiet /\ UNCHANGED <<intact, warm, former, nchk>>

Store == /\ Ev.ev = "Store"
         /\ t' = IF Ev.ok THEN StoreEffect(t, Ev.id, Ev.seed) ELSE t
         /\ warm' = IF Ev.ok THEN warm \cup {Ev.id} ELSE warm
         /\ Quiet /\ UNCHANGED <<intact, former, nchk>>

ChangePw == /\ Ev.ev = "ChangePw"
            /\ t' = IF Ev.ok THEN ChangeEffect(t, Ev.new) ELSE t
            /\ former' = IF Ev.ok THEN former \cup {t.pw} ELSE former
            /\ warm' = IF Ev.ok THEN {} ELSE warm
            /\ Quiet /\ UNCHANGED <<intact, nchk>>

ClearCache == /\ Ev.ev \in {"ClearCache", "Reopen"} /\ warm' = {}
              /\ Quiet /\ UNCHANGED <<t, intact, former, nchk>>

Corrupt == /\ Ev.ev = "Corrupt" /\ intact' = FALSE /\ Quiet /\ UNCHANGED <<t, warm, former, nchk>>
Restore == /\ Ev.ev = "Restore" /\ intact' = TRUE /\ Quiet /\ UNCHANGED <<t, warm, former, nchk>>

WhyNot(id, pw, res) ==
  IF Entitled(t, id, pw) THEN "different_material"
  ELSE (IF pw \in former THEN "previous_password" ELSE IF pw = t.pw THEN "unknown_seed_id" ELSE "other_password")
       \o (IF ~intact THEN "_file_altered" ELSE "")
       \o (IF id \in warm THEN "_seed_in_process_cache" ELSE "_cold")

Retrieve ==
  /\ Ev.ev = "Retrieve"
  /\ LET v1 == IF OnlyCurrentPw(t, Ev.id, Ev.pw, Ev.res) THEN <<>>
               ELSE <<[clause |-> IF intact THEN "OnlyCurrentPw" ELSE "TamperDetected", cond |-> WhyNot(Ev.id, Ev.pw, Ev.res)]>>
         v2 == IF CurrentPwWorks(t, intact, Ev.id, Ev.pw, Ev.res) THEN <<>>
               ELSE <<[clause |-> "CurrentPwWorks", cond |-> IF Ev.res = Err THEN "error" ELSE "different_material"]>>
     IN NoteAll(v1 \o v2)
  /\ warm' = IF Ev.res # Err THEN warm \cup {Ev.id} ELSE warm
  /\ nchk' = nchk + 1
  /\ UNCHANGED <<t, intact, former>>

(* a crash image of an interrupted Store / ChangePw, probed by fresh managers (one per probe) *)
After(op) == IF op.kind = "Store" THEN (IF op.pw = t.pw THEN StoreEffect(t, op.id, op.seed) ELSE t)
             ELSE (IF op.old = t.pw THEN ChangeEffect(t, op.new) ELSE t)
Explains(c, probe) == \A i \in 1..Len(probe) : RetrieveOk(c, TRUE, probe[i].id, probe[i].pw, probe[i].res)
CrashProbe ==
  /\ Ev.ev = "CrashProbe"
  /\ LET old == t
         new == After(Ev.op)
         okOld == Explains(old, Ev.probe)
         okNew == Explains(new, Ev.probe) IN
     /\ IF okOld \/ okNew THEN NoteAll(<<>>) ELSE NoteAll(<<[clause |-> "Atomic", cond |-> Ev.point]>>)
     /\ IF Ev.adopt
        THEN /\ t' = IF okNew /\ ~okOld THEN new ELSE IF okOld THEN old ELSE t
             /\ warm' = {}
             /\ former' = IF t'.pw # t.pw THEN former \cup {t.pw} ELSE former
        ELSE UNCHANGED <<t, warm, former>>
  /\ nchk' = nchk + Len(Ev.probe)
  /\ UNCHANGED intact

Panic == /\ Ev.ev = "Panic" /\ NoteAll(<<[clause |-> "NoPanic", cond |-> Ev.where]>>)
         /\ UNCHANGED <<t, intact, warm, former, nchk>>

Next == /\ l <= N /\ l' = l + 1
        /\ (Reset \/ Initialize \/ Store \/ ChangePw \/ ClearCache \/ Corrupt \/ Restore \/ Retrieve \/ CrashProbe \/ Panic)
Spec == Init /\ [][Next]_vars

Report == (l = N + 1) =>
  JsonSerialize(IOEnv.OUT, [consumed |-> l - 1, total |-> N, nviol |-> nviol, checked |-> nchk, viol |-> viol, segv |-> segv])
=============================================================================
