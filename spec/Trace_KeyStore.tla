--------------------------- MODULE Trace_KeyStore ---------------------------
(***************************************************************************)
(* Acceptor for traces recorded from the real EncryptedKeyStorageManager   *)
(* (harness module c18).  Model state: the store states [pw, seeds]        *)
(* that callers may be entitled to, whether the file bytes are unaltered      *)
(* (`intact`), and - only to describe the input condition of a violation - *)
(* which seed ids were stored/retrieved in this process since the last     *)
(* cache clearing (`warm`) and which passwords were current before         *)
(* (`former`).  Rules: KeyStoreRules (OnlyCurrentPw, CurrentPwWorks) on    *)
(* every retrieve; Atomic on every crash image: the probes of the image    *)
(* must all be explained by the state before or by the state after the     *)
(* interrupted operation.                                                  *)
(***************************************************************************)
EXTENDS Integers, Sequences, FiniteSets, TLC, Json, IOUtils, KeyStoreRules

Rec == ndJsonDeserialize(IOEnv.TRACE)
N == Len(Rec)

VARIABLES l,
          T,        \* the store states callers may be entitled to (a set: after a crash both the state
                    \* before and after the interrupted operation are admissible until observations tell them apart)
          intact, warm, former, viol, nviol, nchk, segv
vars == <<l, T, intact, warm, former, viol, nviol, nchk, segv>>
Ev == Rec[l]

CountOf(c, d) == Cardinality({i \in 1..Len(viol) : viol[i].clause = c /\ viol[i].cond = d})
NoteAll(vs) ==
  /\ nviol' = nviol + Len(vs)
  /\ segv' = IF Len(segv) = 0 THEN segv ELSE [segv EXCEPT ![Len(segv)] = @ + Len(vs)]
  /\ viol' = viol \o SelectSeq([i \in 1..Len(vs) |-> [line |-> l, clause |-> vs[i].clause, cond |-> vs[i].cond]],
                               LAMBDA v : CountOf(v.clause, v.cond) < 25)
Quiet == UNCHANGED <<viol, nviol, segv>>

Init == /\ l = 1 /\ T = {NoStore} /\ intact = TRUE /\ warm = {} /\ former = {}
        /\ viol = <<>> /\ nviol = 0 /\ nchk = 0 /\ segv = <<>>

Reset == /\ Ev.ev = "Reset"
         /\ T' = {NoStore} /\ intact' = TRUE /\ warm' = {} /\ former' = {}
         /\ segv' = Append(segv, 0) /\ UNCHANGED <<viol, nviol, nchk>>

(* the writing operations: the model follows the reported outcome; the rules speak about retrieves *)
Initialize == /\ Ev.ev = "Init"
              /\ T' = IF Ev.ok THEN {[pw |-> Ev.pw, seeds |-> <<>>]} ELSE T
              /\ Quiet /\ UNCHANGED <<intact, warm, former, nchk>>

Store == /\ Ev.ev = "Store"
         /\ T' = IF Ev.ok THEN {StoreEffect(t, Ev.id, Ev.seed) : t \in T} ELSE T
         /\ warm' = IF Ev.ok THEN warm \cup {Ev.id} ELSE warm
         /\ Quiet /\ UNCHANGED <<intact, former, nchk>>

ChangePw == /\ Ev.ev = "ChangePw"
            /\ T' = IF Ev.ok THEN {ChangeEffect(t, Ev.new) : t \in T} ELSE T
            /\ former' = IF Ev.ok THEN (former \cup {t.pw : t \in T}) \ {Ev.new} ELSE former
            /\ warm' = IF Ev.ok THEN {} ELSE warm
            /\ Quiet /\ UNCHANGED <<intact, nchk>>

ClearCache == /\ Ev.ev \in {"ClearCache", "Reopen"} /\ warm' = {}
              /\ Quiet /\ UNCHANGED <<T, intact, former, nchk>>

Corrupt == /\ Ev.ev = "Corrupt" /\ intact' = FALSE /\ Quiet /\ UNCHANGED <<T, warm, former, nchk>>
Restore == /\ Ev.ev = "Restore" /\ intact' = TRUE /\ Quiet /\ UNCHANGED <<T, warm, former, nchk>>

WhyNot(t, id, pw, res) ==
  IF Entitled(t, id, pw) THEN "different_material"
  ELSE (IF pw = t.pw THEN "unknown_seed_id" ELSE IF pw \in former THEN "previous_password" ELSE "other_password")
       \o (IF ~intact THEN "_file_altered" ELSE "")
       \o (IF id \in warm THEN "_seed_in_process_cache" ELSE "_cold")

Retrieve ==
  /\ Ev.ev = "Retrieve"
  /\ LET good == {t \in T : RetrieveOk(t, intact, Ev.id, Ev.pw, Ev.res)}
         t0 == CHOOSE t \in T : TRUE
         v1 == IF OnlyCurrentPw(t0, Ev.id, Ev.pw, Ev.res) THEN <<>>
               ELSE <<[clause |-> IF intact THEN "OnlyCurrentPw" ELSE "TamperDetected", cond |-> WhyNot(t0, Ev.id, Ev.pw, Ev.res)]>>
         v2 == IF CurrentPwWorks(t0, intact, Ev.id, Ev.pw, Ev.res) THEN <<>>
               ELSE <<[clause |-> "CurrentPwWorks", cond |-> IF Ev.res = Err THEN "error" ELSE "different_material"]>>
     IN IF good # {} THEN NoteAll(<<>>) /\ T' = good
        ELSE NoteAll(v1 \o v2) /\ T' = T
  /\ warm' = IF Ev.res # Err THEN warm \cup {Ev.id} ELSE warm
  /\ nchk' = nchk + 1
  /\ UNCHANGED <<intact, former>>

(* a crash image of an interrupted Store / ChangePw, probed by fresh managers (one per probe) *)
After(op, t) == IF op.kind = "Store" THEN (IF op.pw = t.pw THEN StoreEffect(t, op.id, op.seed) ELSE t)
                ELSE (IF op.old = t.pw THEN ChangeEffect(t, op.new) ELSE t)
Explains(c, probe) == \A i \in 1..Len(probe) : RetrieveOk(c, TRUE, probe[i].id, probe[i].pw, probe[i].res)
CrashProbe ==
  /\ Ev.ev = "CrashProbe"
  /\ LET cands == T \cup {After(Ev.op, t) : t \in T}
         good == {c \in cands : Explains(c, Ev.probe)} IN
     /\ IF good # {} THEN NoteAll(<<>>) ELSE NoteAll(<<[clause |-> "Atomic", cond |-> Ev.point]>>)
     /\ IF Ev.adopt
        THEN /\ T' = IF good # {} THEN good ELSE T
             /\ warm' = {}
             /\ former' = former \cup ({t.pw : t \in T} \ {t.pw : t \in T'})
        ELSE UNCHANGED <<T, warm, former>>
  /\ nchk' = nchk + Len(Ev.probe)
  /\ UNCHANGED intact

(* file-system events of one update: once the store file exists its name is never deleted or renamed away -
   an interrupted update leaves the old or the new file, whatever the instant of the interruption *)
FsEvents == /\ Ev.ev = "FsEvents"
            /\ IF \E i \in 1..Len(Ev.events) : Ev.events[i][2] = Ev.store /\ Ev.events[i][1] \in {"delete", "moved_from"}
               THEN NoteAll(<<[clause |-> "Atomic", cond |-> "store-file-removed-during-update"]>>) ELSE NoteAll(<<>>)
            /\ nchk' = nchk + 1
            /\ UNCHANGED <<T, intact, warm, former>>

Panic == /\ Ev.ev = "Panic" /\ NoteAll(<<[clause |-> "NoPanic", cond |-> Ev.where]>>)
         /\ UNCHANGED <<T, intact, warm, former, nchk>>

Next == /\ l <= N /\ l' = l + 1
        /\ (Reset \/ Initialize \/ Store \/ ChangePw \/ ClearCache \/ Corrupt \/ Restore \/ Retrieve \/ CrashProbe \/ FsEvents \/ Panic)
Spec == Init /\ [][Next]_vars

Report == (l = N + 1) =>
  JsonSerialize(IOEnv.OUT, [consumed |-> l - 1, total |-> N, nviol |-> nviol, checked |-> nchk, viol |-> viol, segv |-> segv])
=============================================================================
