SPECIFICATION Spec
CONSTANTS
  B = 4
  Cap = 2
  Self = 5
  MaxOps = 5
  NMax = 3
  AsImplemented_BucketWalk = FALSE
  AsImplemented_DupAdd = FALSE
INVARIANTS TypeOK TableWellFormed AnswerExact RemovedStaysOut
CHECK_DEADLOCK FALSE
