SPECIFICATION Spec
CONSTANTS
  Node = {1, 2}
  Ids = {1, 2}
  Ops = {"FindNode", "Put"}
  AsImplemented_AnswerTwice = FALSE
INVARIANTS AtMostOneResponse ResponsesAnswerRequests
CHECK_DEADLOCK FALSE
