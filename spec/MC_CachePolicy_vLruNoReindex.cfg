\* wrong variant: on_access without renumbering position_map - a later access removes the wrong entry, LRU names a recently used key
SPECIFICATION Spec
CONSTANTS
  Keys = {1, 2, 3}
  Kinds = {"LRU", "LFU", "FIFO", "Adaptive"}
  MaxFreq = 3
  MaxLen = 4
  AsImplemented_NoRemoveHook = FALSE
  AsImplemented_FifoDuplicates = FALSE
  AsImplemented_UnseenNone = FALSE
  Variant_LruNoReindex = TRUE
INVARIANTS LruNamesLeastRecent
CHECK_DEADLOCK FALSE
