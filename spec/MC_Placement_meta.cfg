SPECIFICATION Spec
CONSTANTS
  MaxCands = 3
  Regions = {1, 2}
  Asns = {1, 2}
  Sites = {1, 2}
  MetaGrid = {TRUE, FALSE}
  KMax = 4
  Variant = ""
INVARIANTS OutcomeAdmissible
CHECK_DEADLOCK FALSE
