\* must FAIL: get_staged_update hands out an update whose binary was overwritten
SPECIFICATION SpecS
CONSTANTS
  Vers = {1, 2}
  Toks = {1, 2}
  NPaths = 1
  MaxBs = {1, 2}
  MaxAgeB = 1
  MaxAgeS = 1
  MaxOps = 4
  MaxTicks = 2
  AsImplemented_TieKeepsOlder = FALSE
  AsImplemented_SharedBackupFile = FALSE
  AsImplemented_CleanupNeedsDir = FALSE
  AsImplemented_RollbackToVersionNeedsDir = FALSE
  AsImplemented_GetStagedUnverified = TRUE
  AsImplemented_SweepIgnoresMetadata = FALSE
  Variant_RollbackUnverified = FALSE
INVARIANTS GetStagedVerified
CHECK_DEADLOCK FALSE
