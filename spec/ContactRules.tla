---------------------------- MODULE ContactRules ----------------------------
(***************************************************************************)
(* Bootstrap contact bookkeeping (src/bootstrap/contact.rs): ContactEntry  *)
(* with QualityMetrics, ConnectionHistory, QuicContactInfo and             *)
(* QualityCalculator.  Transition functions and score functions shared by  *)
(* the model (Contact.tla) and the acceptor (Trace_Contact.tla).           *)
(*                                                                         *)
(* Numbers.  All scores are integers in ppm (Unit = 1.0).  NaNV stands for *)
(* a NaN.  Every rule of the code except exp() is rational, so it is       *)
(* modelled on integers with floor division; the acceptor compares with a  *)
(* tolerance of a few ppm (the rule, not IEEE arithmetic, is the model).   *)
(* exp(-age/86400) is a table over the ages the driver / model uses.       *)
(*   latencies: whole milliseconds;  avg: 1/1000 ms;                       *)
(*   QUIC set-up average: 1/100 ms;  age: whole seconds (negative: the     *)
(*   time stamp lies in the future).                                       *)
(*                                                                         *)
(* A contact is a record                                                   *)
(*   att succ fail   counters of ConnectionHistory                         *)
(*   lats            recent_latencies (at most Window)                     *)
(*   fails           connection_failures: error id -> count                *)
(*   caps ver rep    capabilities (as a set: only `contains` is observable)*)
(*   rate avg q up   STORED success_rate, avg_latency_ms, quality_score,   *)
(*                   uptime_score                                          *)
(*   sess            total_session_time in ms, -1 = Duration::MAX          *)
(*   age             now - last_seen                                       *)
(*   quic qtypes qsetup qcsr qrates   Option<QuicContactInfo>              *)
(***************************************************************************)
EXTENDS Integers, Sequences, FiniteSets

CONSTANTS Window,                                   \* 10 in the code
          AsImplemented_FailureRefreshesLastSeen,   \* a FAILED attempt sets last_seen ("last seen online") to now
          AsImplemented_ZeroLatencyNoData,          \* an average latency of 0 ms is taken for "no measurement": latency score 0
          AsImplemented_NaNReputation,              \* update_reputation(NaN): f64::clamp lets NaN through, every score becomes NaN
          AsImplemented_DecayFactorUnchecked,       \* apply_age_decay multiplies by any factor (> 1, < 0)
          AsImplemented_TypeRateZeroIsNoData,       \* per-connection-type rate 0.0 is taken for "no entry": F,F,F,S gives 1.0
          AsImplemented_EFoldingRecency,            \* "24 hour half-life" is exp(-age/24h): 0.368 after a day, not 0.5
          Variant_FailureNotCounted                 \* deliberately wrong: a failure does not increment failed_connections

Unit == 1000000
NaNV == -2000000000
MinI(a, b) == IF a <= b THEN a ELSE b
MaxI(a, b) == IF a >= b THEN a ELSE b
AbsI(a) == IF a < 0 THEN 0 - a ELSE a
Clamp01(x) == MaxI(0, MinI(Unit, x))
(* projected values are clamped to +-10^9 by the driver, so the difference fits 32 bits *)
Close(a, b, tol) == IF a = NaNV \/ b = NaNV THEN a = b ELSE AbsI(a - b) <= tol

RECURSIVE SumSeq(_)
SumSeq(s) == IF s = <<>> THEN 0 ELSE Head(s) + SumSeq(Tail(s))
RECURSIVE SumFun(_, _)
SumFun(f, D) == IF D = {} THEN 0 ELSE LET x == CHOOSE y \in D : TRUE IN f[x] + SumFun(f, D \ {x})
SumF(f) == SumFun(f, DOMAIN f)
With(f, k, v) == [x \in DOMAIN f \cup {k} |-> IF x = k THEN v ELSE f[x]]

(* floor(10^6 * a / d) capped at 10^6, by long division (0 <= a, 0 < d < 2 * 10^6) *)
PpmDivCap(a, d) ==
  IF a >= d THEN Unit
  ELSE LET x == 1000 * a  q1 == x \div d  r1 == x % d  q2 == (1000 * r1) \div d
       IN 1000 * q1 + q2
(* floor(q * n / d) without an intermediate that is larger than the result *)
MulRat(q, n, d) == (q \div d) * n + ((q % d) * n) \div d

(* ---- exactly representable rules ---- *)
RatePpm(succ, att) == IF att = 0 THEN 0 ELSE (Unit * succ) \div att
RateMatches(ppm, succ, att) == AbsI(ppm * att - Unit * succ) <= att          \* |ppm/10^6 - succ/att| <= 10^-6
AvgMilli(lats) == IF lats = <<>> THEN 0 ELSE (1000 * SumSeq(lats)) \div Len(lats)
AvgMatches(milli, lats) == AbsI(milli * Len(lats) - 1000 * SumSeq(lats)) <= Len(lats)

(* ---- scores ---- *)
DHT == 1
RELAY == 2
CapCount(c) == Cardinality(c.caps \cap {DHT, RELAY})
(* latency score: min(1, 1000 / (avg + 100)) if avg > 0 else 0; avg = sum / len *)
LatScore(c) ==
  IF c.lats = <<>> THEN 0
  ELSE IF c.avg = 0 THEN (IF AsImplemented_ZeroLatencyNoData THEN 0 ELSE Unit)
  ELSE PpmDivCap(1000 * Len(c.lats), SumSeq(c.lats) + 100 * Len(c.lats))
(* recency: exp(-age_seconds / 86400), age_seconds = max(0, age); -1 = not in the table *)
ETable(a) == CASE a = 0 -> 1000000 [] a = 1 -> 999988 [] a = 2 -> 999977 [] a = 3 -> 999965 [] a = 60 -> 999306
               [] a = 3600 -> 959189 [] a = 43200 -> 606531 [] a = 86400 -> 367879 [] a = 172800 -> 135335
               [] a = 604800 -> 912 [] a = 2592000 -> 0 [] OTHER -> -1
HTable(a) == CASE a = 0 -> 1000000 [] a = 1 -> 999992 [] a = 2 -> 999984 [] a = 3 -> 999976 [] a = 60 -> 999519
               [] a = 3600 -> 971532 [] a = 43200 -> 707107 [] a = 86400 -> 500000 [] a = 172800 -> 250000
               [] a = 604800 -> 7812 [] a = 2592000 -> 0 [] OTHER -> -1
EffAge(a) == MaxI(0, a)                                   \* age_seconds(): num_seconds().max(0)
Recency(a) == IF AsImplemented_EFoldingRecency THEN ETable(EffAge(a)) ELSE HTable(EffAge(a))
KnownAge(a) == Recency(a) >= 0
(* quic_quality_score: 0.4 * set-up + 0.3 * types / 2 + 0.3 * connection_success_rate; 0 without QUIC info *)
SetupScore(c) == IF c.qsetup > 0 THEN PpmDivCap(500000, c.qsetup + 100000) ELSE 500000   \* min(1, 5000 / (avg + 1000))
QuicScore(c) == IF ~c.quic THEN 0
                ELSE Clamp01((4 * SetupScore(c) + 3 * (Cardinality(c.qtypes) * 500000) + 3 * c.qcsr) \div 10)
(* QuicQualityMetrics::overall_score: reliability = mean of the per-type rates *)
OverallScore(c) == LET n == Cardinality(DOMAIN c.qrates)
                       rel == IF n = 0 THEN 0 ELSE SumF(c.qrates) \div n
                   IN Clamp01((4 * SetupScore(c) + 3 * rel + 3 * c.qcsr) \div 10)
(* bonuses are added whatever the weights are *)
Bonus(c) == (IF c.ver THEN 50000 ELSE 0) + 20000 * CapCount(c)
            + (IF c.quic THEN QuicScore(c) \div 10 + 15000 * Cardinality(c.qtypes) ELSE 0)
(* QualityCalculator::calculate_quality with weights in tenths (calculate_with_weights sets them) *)
QualityW(c, ws, wl, wr, wp) ==
  IF c.rep = NaNV THEN NaNV
  ELSE Clamp01((ws * c.rate + wl * LatScore(c) + wr * Recency(c.age) + wp * c.rep) \div 10 + Bonus(c))
Quality(c) == QualityW(c, 4, 3, 2, 1)
Recalc(c) == [c EXCEPT !.q = Quality(c)]                  \* recalculate_quality_score

(* ---- constructors: ContactEntry::new / new_with_quic(QuicContactInfo::new, connection_success_rate = csr) ---- *)
NewEntry(quic, csr) ==
  [att |-> 0, succ |-> 0, fail |-> 0, lats |-> <<>>, fails |-> <<>>, caps |-> {}, ver |-> FALSE, rep |-> 500000,
   rate |-> 0, avg |-> 0, q |-> 0, up |-> 500000, sess |-> 0, age |-> 0,
   quic |-> quic, qtypes |-> {}, qsetup |-> 0, qcsr |-> IF quic THEN csr ELSE 0, qrates |-> <<>>]

(* ---- operations: every one yields [s |-> new state, ok |-> result] ---- *)
PushLat(l, x) == LET a == Append(l, x) IN IF Len(a) > Window THEN Tail(a) ELSE a      \* add_latency_measurement
UpdateRate(c) == IF c.att > 0 THEN [c EXCEPT !.rate = RatePpm(c.succ, c.att)] ELSE c   \* update_success_rate
UpdateLatAvg(c) == IF c.lats # <<>> THEN [c EXCEPT !.avg = AvgMilli(c.lats)] ELSE c    \* update_latency_average
(* update_connection_result(success, latency_ms, error): lat = -1 / err = 0 stand for None; a latency with a
   failure and an error with a success are ignored *)
ConnResult(c, success, lat, err) ==
  LET c1 == [c EXCEPT !.att = @ + 1,
                      !.age = IF success \/ AsImplemented_FailureRefreshesLastSeen THEN 0 ELSE @]
      c2 == IF success
            THEN [c1 EXCEPT !.succ = @ + 1, !.lats = IF lat >= 0 THEN PushLat(@, lat) ELSE @]
            ELSE [c1 EXCEPT !.fail = IF Variant_FailureNotCounted THEN @ ELSE @ + 1,
                            !.fails = IF err > 0 THEN With(@, err, (IF err \in DOMAIN @ THEN @[err] ELSE 0) + 1) ELSE @]
  IN [s |-> Recalc(UpdateLatAvg(UpdateRate(c2))), ok |-> TRUE]
UpdateRateOp(c) == [s |-> UpdateRate(c), ok |-> TRUE]
RecalcOp(c) == [s |-> Recalc(c), ok |-> TRUE]
UpdateCaps(c, S) == [s |-> Recalc([c EXCEPT !.caps = S]), ok |-> TRUE]                 \* replaces, does not merge
(* update_reputation(x): x in ppm, NaNV for NaN (the intended design ignores a NaN) *)
UpdateRep(c, x) ==
  LET r == IF x = NaNV THEN (IF AsImplemented_NaNReputation THEN NaNV ELSE c.rep) ELSE Clamp01(x)
  IN [s |-> Recalc([c EXCEPT !.rep = r]), ok |-> TRUE]
MarkVerified(c) == [s |-> Recalc([c EXCEPT !.ver = TRUE]), ok |-> TRUE]
SetAge(c, a) == [s |-> [c EXCEPT !.age = a], ok |-> TRUE]                              \* time passes / last_seen written
(* is_stale(max_age): signed age, to_std() fails for a time stamp in the future -> Duration::MAX -> stale *)
StaleRule(age, max) == age < 0 \/ age > max
IsStale(c, max) == [s |-> c, ok |-> StaleRule(c.age, max)]
HasCap(c, k) == [s |-> c, ok |-> k \in c.caps]
(* update_quic_contact(QuicContactInfo::new(..) with connection_success_rate = csr) *)
QuicSet(c, csr) == [s |-> Recalc([c EXCEPT !.quic = TRUE, !.qtypes = {}, !.qsetup = 0, !.qcsr = csr, !.qrates = <<>>]), ok |-> TRUE]
(* update_quic_connection_result(type, success, setup_time_ms): nothing at all without QUIC info (no recalculation) *)
QuicConn(c, t, success, setup) ==
  IF ~c.quic THEN [s |-> c, ok |-> TRUE]
  ELSE LET cur == IF t \in DOMAIN c.qrates THEN c.qrates[t] ELSE 0
           fresh == IF AsImplemented_TypeRateZeroIsNoData THEN cur = 0 ELSE t \notin DOMAIN c.qrates
           one == IF success THEN Unit ELSE 0
           new == IF fresh THEN one ELSE (cur + one) \div 2
           su == IF success /\ setup >= 0
                 THEN (IF c.qsetup = 0 THEN 100 * setup ELSE (c.qsetup + 100 * setup) \div 2)
                 ELSE c.qsetup
       IN [s |-> Recalc([c EXCEPT !.qtypes = IF success THEN @ \cup {t} ELSE @, !.qsetup = su, !.qrates = With(@, t, new)]),
           ok |-> TRUE]
Supports(c, t) == [s |-> c, ok |-> c.quic /\ t \in c.qtypes]
(* QualityMetrics::apply_age_decay(num / den) *)
DecayVal(v, n, d) == IF v = NaNV THEN NaNV ELSE MulRat(v, n, d)
Decay(c, num, den) ==
  LET n == IF AsImplemented_DecayFactorUnchecked THEN num ELSE MaxI(0, MinI(num, den))
  IN [s |-> [c EXCEPT !.q = DecayVal(@, n, den), !.up = DecayVal(@, n, den)], ok |-> TRUE]
(* ConnectionHistory::add_session_time: saturating (d = -1: Duration::MAX) *)
AddSession(c, d) == [s |-> [c EXCEPT !.sess = IF @ = -1 \/ d = -1 THEN -1 ELSE @ + d], ok |-> TRUE]
(* ConnectionHistory::get_failure_rate(error) = count / attempts, 0 without attempts *)
FailCount(c, e) == IF e \in DOMAIN c.fails THEN c.fails[e] ELSE 0
FailRate(c, e) == [s |-> c, ok |-> RatePpm(FailCount(c, e), c.att)]

(* ---- relations between scores (stated over the integer order) ---- *)
InRange(x) == x \in 0..Unit
ScoresInRange(c) == InRange(c.q) /\ InRange(c.up) /\ InRange(c.rep) /\ InRange(c.rate)
                    /\ (KnownAge(c.age) => InRange(Quality(c))) /\ InRange(QuicScore(c))
(* c continued with one more success s (no latency given) / one more failure f *)
SuccessVsFailure(c, s, f) == s.rate >= c.rate /\ c.rate >= f.rate /\ Quality(s) >= Quality(f)
SuccessNeverLowers(c, s) == c.age <= 0 => Quality(s) >= Quality(c)             \* same recency before and after
FailureNeverRaises(c, f) == KnownAge(c.age) => Quality(f) <= Quality(c)
FailedAttemptKeepsStale(c, f, max) == StaleRule(c.age, max) => StaleRule(f.age, max)
DecayNeverRaises(c, n, d) == LET r == Decay(c, n, d).s IN
  (c.q >= 0 /\ c.q # NaNV => r.q <= c.q) /\ (c.up >= 0 => r.up <= c.up) /\ (n = d => r.q = c.q /\ r.up = c.up)
=============================================================================
