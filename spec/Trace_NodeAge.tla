----------------------------- MODULE Trace_NodeAge -----------------------------
(***************************************************************************)
(* Conformance acceptor for the node age verification (harness module      *)
(* nodeage).  Every `Step` of a verifier segment carries the projected     *)
(* state before and after one public operation of the real NodeAgeVerifier *)
(* ([token, first_seen, last_seen, is_active, rejoin_count, uptime secs]   *)
(* per known token; times in microseconds since the segment's epoch), the  *)
(* clock band [t0, t1] read from SystemTime around the call and what the   *)
(* call returned.  The acceptor rebuilds the model state from `pre`,       *)
(* applies the function of NodeAgeRules.tla (as-implemented flags on) and  *)
(* compares.  The configuration is what the verifier reported at Reset.    *)
(*                                                                         *)
(* Time: the code looks at whole elapsed seconds only.  A step is accepted *)
(* iff it is right for SOME instant of the band (widened by one tick for   *)
(* the truncation of the logged values) - and, where the code reads the    *)
(* clock once per record or twice per call, for some instant per read.     *)
(* Steps of "pure" segments check NodeAgeCategory / NodeAgeConfig /        *)
(* NodeAgeRecord on back-dated records (bands in milliseconds).            *)
(* Mismatches are MODEL-DRIFT (informational).                             *)
(***************************************************************************)
EXTENDS NodeAgeRules, Json, IOUtils

Recs == ndJsonDeserialize(IOEnv.TRACE)
N == Len(Recs)
VARIABLES l, cfg, drift, ndrift, n
tvars == <<l, cfg, drift, ndrift, n>>
Ev == Recs[l]

SeqSet(q) == {q[i] : i \in 1..Len(q)}
(* a projected record is [token, first, last, active, rejoin, uptime]; the ghosts are not observable *)
RecOf(e) == [first |-> e[2], last |-> e[3], active |-> e[4], rejoin |-> e[5], uptime |-> e[6], sess |-> e[3], left |-> e[3], pres |-> 0]
ToState(j) == [t \in {j[i][1] : i \in 1..Len(j)} |-> RecOf(j[CHOOSE i \in 1..Len(j) : j[i][1] = t])]
Pre == ToState(Ev.pre)
Post == ToState(Ev.post)
SameObs(x, y) == Known(x) = Known(y) /\ \A t \in Known(x) : Obs(x[t]) = Obs(y[t])
Unchanged == SameObs(Pre, Post)
Between(lo, obs, hi) == lo \subseteq obs /\ obs \subseteq hi
NoCfg == [repl |-> 0, crit |-> 0, vet |-> 0, enforce |-> TRUE, bpd |-> 0, maxb |-> 0]
CfgOf(j) == [repl |-> j.repl, crit |-> j.crit, vet |-> j.vet, enforce |-> j.enforce, bpd |-> j.bpd, maxb |-> j.maxb]

(* ---- the clock band ---- *)
Lo == Ev.t0 - 1
Hi == Ev.t1 + 1
(* the whole seconds a clock read in the band can have seen since instant x, and the instants at which each is seen first *)
SecsSince(x) == SecOf(Lo - x)..SecOf(Hi - x)
Instants(x) == {Lo, Hi} \cup {y \in {x + v * Unit : v \in SecsSince(x)} : y >= Lo /\ y <= Hi}
AgeC(t) == IF t \in Known(Pre) THEN SecsSince(Pre[t].first) ELSE {0}
AgesLo == [t \in Known(Pre) |-> SecOf(Lo - Pre[t].first)]
AgesHi == [t \in Known(Pre) |-> SecOf(Hi - Pre[t].first)]
(* one age per record, each from its own read *)
AgeFns == {[t \in Known(Pre) |-> AgesLo[t] + b[t]] : b \in {c \in [Known(Pre) -> {0, 1}] : \A t \in Known(Pre) : AgesLo[t] + c[t] <= AgesHi[t]}}

(* ---- verifier steps ---- *)
RegisterOk == /\ Ev.n \in Known(Post)
              /\ LET nw == Post[Ev.n].last
                     r == Register(Pre, Ev.n, nw)
                 IN nw >= Lo /\ nw <= Hi /\ SameObs(r.s, Post) /\ Obs(r.ret) = <<Ev.ret[1], Ev.ret[2], Ev.ret[3], Ev.ret[4], Ev.ret[5]>>
DepartOk == IF Ev.n \in Known(Pre) THEN \E nw \in Instants(Pre[Ev.n].last) : SameObs(Depart(Pre, Ev.n, nw).s, Post)
            ELSE Unchanged
ResMatches(x, o) == /\ o.passes = x.passes /\ o.cat = x.cat /\ o.age = x.age /\ o.tm = x.tm /\ o.canrep = x.canrep /\ o.cancrit = x.cancrit
                    /\ o.reason = x.reason
                    /\ (x.reason = "age" => o.rs_age = x.age /\ o.rs_min = x.minage /\ o.rs_op = Ev.opn)
VerifyOk == Unchanged /\ Ev.opn \in OpTypes /\ \E a1 \in AgeC(Ev.n), a2 \in AgeC(Ev.n) : a2 >= a1 /\ ResMatches(Verify(Pre, cfg, Ev.n, Ev.opn, a1, a2), Ev.res)
ListOk(lo, hi) == Unchanged /\ ~Ev.dup /\ Between(lo, SeqSet(Ev.list), hi)
StatsOk == Unchanged /\ \E ac \in AgeFns, aa \in AgeFns : LET x == Stats(Pre, cfg, ac, aa) o == Ev.res IN
              /\ o.total = x.total /\ o.active = x.active /\ o.new = x.new /\ o.young = x.young /\ o.est = x.est /\ o.vet = x.vet /\ o.avg = x.avg
CleanCands == {Lo, Hi} \cup {y \in {Pre[t].last + Ev.r - d : t \in Known(Pre), d \in {0, 1}} : y >= Lo /\ y <= Hi}
CleanupOk == IF Ev.r < 0 THEN Unchanged /\ Ev.panic = Cleanup(Pre, Lo, -1).panic
             ELSE ~Ev.panic /\ \E nw \in CleanCands : SameObs(Cleanup(Pre, nw, Ev.r).s, Post)
CtorOk == /\ Len(Ev.pre) = 0 /\ CfgOf(Ev.cfg) = cfg
          /\ CASE Ev.ctor \in {"new", "default"} -> cfg = DefaultCfg
               [] Ev.ctor \in {"testnet", "permissive"} -> cfg = TestnetCfg
               [] OTHER -> cfg = CfgOf(Ev.arg)

(* ---- pure steps ---- *)
MsSec(x) == IF x <= 0 THEN 0 ELSE x \div 1000
MsSecs == MsSec(Ev.lo - 1)..MsSec(Ev.hi + 1)
CatFnsOk == Ev.cat \in Cats /\ Ev.tm = CatTrust(Ev.cat) /\ Ev.canrep = CanReplicate(Ev.cat) /\ Ev.cancrit = CanCritical(Ev.cat) /\ Ev.minage = MinAge(Ev.cat)
CfgOk == /\ Ev.relaxed = IsRelaxed(CfgOf(Ev.cfg))
         /\ CASE Ev.ctor = "default" -> CfgOf(Ev.cfg) = DefaultCfg
              [] Ev.ctor \in {"testnet", "permissive"} -> CfgOf(Ev.cfg) = TestnetCfg
              [] OTHER -> TRUE
Flags(r) == <<r.active, r.rejoin, r.uptime>>
RecNewOk == /\ <<Ev.rec[1], Ev.rec[2], Ev.rec[3]>> = Flags(NewRec(0)) /\ Ev.same /\ Ev.df >= 0 /\ Ev.df <= Ev.dt
            /\ Ev.age = 0 /\ Ev.cat = HardCat(0)
RecCatOk == (\E a \in MsSecs : Ev.age = a) /\ (\E a \in MsSecs : Ev.cat = HardCat(a))
PureRec(j) == [first |-> 0, last |-> 0, active |-> j[1], rejoin |-> j[2], uptime |-> j[3], sess |-> 0, left |-> 0, pres |-> 0]
PostFlags == <<Ev.post[1], Ev.post[2], Ev.post[3]>>
Fresh == ~Ev.lastkept /\ Ev.dl >= 0 /\ Ev.dl <= Ev.dt        \* last_seen was set to an instant of the call
RecDepartOk == Ev.firstkept /\ Ev.lastkept /\ \E el \in MsSecs : PostFlags = Flags(DepartRec(PureRec(Ev.pre), el, el, 0))
RecSeenOk == Ev.firstkept /\ Fresh /\ PostFlags = Flags(RecUpdateSeen(PureRec(Ev.pre), 0))
RecRejoinOk == Ev.firstkept /\ Fresh /\ PostFlags = Flags(RecRejoin(PureRec(Ev.pre), 0))

StepOk ==
  CASE Ev.op = "Ctor" -> CtorOk
    [] Ev.op = "Register" -> RegisterOk
    [] Ev.op = "Depart" -> DepartOk
    [] Ev.op = "Verify" -> VerifyOk
    [] Ev.op = "ReplList" -> ListOk(ReplList(Pre, cfg, AgesLo), ReplList(Pre, cfg, AgesHi))
    [] Ev.op = "CritList" -> ListOk(CritList(Pre, cfg, AgesLo), CritList(Pre, cfg, AgesHi))
    [] Ev.op = "VetList" -> ListOk(VetList(Pre, cfg, AgesLo), VetList(Pre, cfg, AgesHi))
    [] Ev.op = "Stats" -> StatsOk
    [] Ev.op = "Cleanup" -> CleanupOk
    [] Ev.op = "CatFns" -> CatFnsOk
    [] Ev.op = "Cfg" -> CfgOk
    [] Ev.op = "RecNew" -> RecNewOk
    [] Ev.op = "RecCat" -> RecCatOk
    [] Ev.op = "RecDepart" -> RecDepartOk
    [] Ev.op = "RecSeen" -> RecSeenOk
    [] Ev.op = "RecRejoin" -> RecRejoinOk
    [] OTHER -> FALSE

Init == l = 1 /\ cfg = NoCfg /\ drift = <<>> /\ ndrift = 0 /\ n = 0
Note(what) == /\ ndrift' = ndrift + 1
              /\ drift' = IF Len(drift) < 20 THEN Append(drift, [line |-> l, op |-> what]) ELSE drift
Next == /\ l <= N /\ l' = l + 1
        /\ CASE Ev.ev = "Reset" -> cfg' = (IF Ev.kind = "verifier" THEN CfgOf(Ev.cfg) ELSE NoCfg) /\ UNCHANGED <<drift, ndrift, n>>
             [] Ev.ev = "Step" -> /\ n' = n + 1 /\ UNCHANGED cfg
                                  /\ IF StepOk THEN UNCHANGED <<drift, ndrift>> ELSE Note(Ev.op)
             [] Ev.ev = "Panic" -> Note("panic") /\ UNCHANGED <<cfg, n>>
             [] OTHER -> UNCHANGED <<cfg, drift, ndrift, n>>
Spec == Init /\ [][Next]_tvars
Report == (l = N + 1) => JsonSerialize(IOEnv.OUT, [consumed |-> l - 1, total |-> N, nviol |-> ndrift, checked |-> n, viol |-> drift])
=============================================================================
