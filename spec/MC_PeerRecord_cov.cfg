SPECIFICATION Spec
CONSTANTS
  MaxDiff = 1
  MaxSign = 2
  MaxPresent = 2
  MaxCap = 1
  AsImplemented_CacheKey = FALSE
  AsImplemented_UidUnbound = FALSE
INVARIANTS TypeOK DirectIff CacheTransparent
CHECK_DEADLOCK FALSE
