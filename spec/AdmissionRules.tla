--------------------------- MODULE AdmissionRules ---------------------------
(***************************************************************************)
(* The P-level rule of property C13, shared by the design model            *)
(* (Admission.tla) and the trace acceptor (Trace_Admission.tla).           *)
(* A candidate x = [fam, a, b, c, asn, host]: fam 4 -> a = /16, b = /24,   *)
(* c = address; fam 6 -> a = /32, b = /48, c = /64; asn 0 = unknown.       *)
(* cfg = [c64, c48, c32, asn, ipcap, ppm, ip32, c24, c16].                 *)
(***************************************************************************)
EXTENDS Naturals, Integers, FiniteSets

Min2(a, b) == IF a < b THEN a ELSE b
Max2(a, b) == IF a > b THEN a ELSE b

Keys(x) == {<<"L1", x.fam, x.a, x.b, x.c>>, <<"L2", x.fam, x.a, x.b>>, <<"L3", x.fam, x.a>>}
           \cup (IF x.asn # 0 THEN {<<"ASN", x.asn>>} ELSE {})

(* dynamic per-address limit: min(cap, max(1, floor(size * fraction))) *)
PerIp(cfg, ns) == Min2(cfg.ipcap, Max2(1, (ns * cfg.ppm) \div 1000000))

BaseP(k, fam, cfg, p) ==
  IF k[1] = "ASN" THEN cfg.asn
  ELSE IF fam = 6 THEN (IF k[1] = "L1" THEN cfg.c64 ELSE IF k[1] = "L2" THEN cfg.c48 ELSE cfg.c32)
  ELSE (IF k[1] = "L1" THEN p ELSE IF k[1] = "L2" THEN Min2(cfg.c24, p * 3) ELSE Min2(cfg.c16, p * 10))
Base(k, fam, cfg, ns) == BaseP(k, fam, cfg, PerIp(cfg, ns))

Halve(x, v) == IF x.host THEN Max2(1, v \div 2) ELSE v

(* the cap of level k for candidate x: reading 1, the per-address limit is the network-size rule alone *)
Limit(k, x, cfg, ns) == Halve(x, Base(k, x.fam, cfg, ns))
(* reading 2: the configured per-address maximum (max_nodes_per_ipv4_32) bounds the rule as well *)
LimitLo(k, x, cfg, ns) == Halve(x, BaseP(k, x.fam, cfg, Min2(PerIp(cfg, ns), Max2(1, cfg.ip32))))

RECURSIVE SumBag(_, _)
SumBag(b, S) == IF S = {} THEN 0 ELSE LET x == CHOOSE y \in S : TRUE IN b[x] + SumBag(b, S \ {x})
=============================================================================
