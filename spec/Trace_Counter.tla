---------------------------- MODULE Trace_Counter ----------------------------
(***************************************************************************)
(* Acceptor for sequential histories recorded from the real                *)
(* MonotonicCounterSystem (harness module c12, command drive).  The model  *)
(* state is Counter.tla's P-level (mark per peer, what the file holds);    *)
(* every result is compared with CounterRules!AllowedT.  Violation         *)
(* collection: the model then follows the implementation's claim so one    *)
(* wrong answer is reported once.                                          *)
(***************************************************************************)
EXTENDS Naturals, Integers, Sequences, FiniteSets, TLC, Json, IOUtils, CounterRules

Rec == ndJsonDeserialize(IOEnv.TRACE)
N == Len(Rec)
P == 1 .. 8

VARIABLES l, last, persisted, floor, viol, nviol, nsub
vars == <<l, last, persisted, floor, viol, nviol, nsub>>
Ev == Rec[l]
Zero == [p \in P |-> 0]
Max2(a, b) == IF a > b THEN a ELSE b
Min2(a, b) == IF a < b THEN a ELSE b

Note(clause, cond) ==
  /\ nviol' = nviol + 1
  /\ viol' = IF Len(viol) < 100 THEN Append(viol, [line |-> l, clause |-> clause, cond |-> cond]) ELSE viol

Init == l = 1 /\ last = Zero /\ persisted = Zero /\ floor = Zero /\ viol = <<>> /\ nviol = 0 /\ nsub = 0

Reset == /\ Ev.ev = "Reset" /\ last' = Zero /\ persisted' = Zero /\ floor' = Zero
         /\ UNCHANGED <<viol, nviol, nsub>>

(* store opened on a file written beforehand with the library's own serialisable types *)
Preload == /\ Ev.ev = "Preload"
           /\ last' = [last EXCEPT ![Ev.p] = Ev.v] /\ persisted' = [persisted EXCEPT ![Ev.p] = Ev.v]
           /\ floor' = [floor EXCEPT ![Ev.p] = Ev.v]
           /\ UNCHANGED <<viol, nviol, nsub>>

Submit ==
  /\ Ev.ev = "Submit" /\ nsub' = nsub + 1
  /\ LET lp == last[Ev.p]  s == Ev.s  res == Ev.res IN
     /\ last' = IF res = "Valid" THEN [last EXCEPT ![Ev.p] = s] ELSE last       \* follow the implementation
     /\ IF res \in AllowedT(lp, s, Ev.ts)
        THEN IF Ev.applied = (res = "Valid") THEN UNCHANGED <<viol, nviol>> ELSE Note("AppliedIffValid", Ev.via)
        ELSE IF res = "Valid" /\ s <= floor[Ev.p] THEN Note("NoReacceptPersisted", Ev.via)
        ELSE IF res = "Valid" /\ s <= lp THEN Note("AtMostOnce", Ev.via)
        ELSE IF res = "Valid" /\ s > lp + 1 THEN Note("InOrder", Ev.via)
        ELSE IF res = "Valid" THEN Note("Timestamp", Ev.via)
        ELSE IF "Valid" \in AllowedT(lp, s, Ev.ts) /\ Cardinality(AllowedT(lp, s, Ev.ts)) = 1 THEN Note("AcceptNext", Ev.via)
        ELSE Note("Classified", Ev.via)
  /\ UNCHANGED <<persisted, floor>>

(* get_peer_counter().last_valid_sequence; 0 when the peer is unknown *)
Obs == /\ Ev.ev = "Obs"
       /\ IF Ev.v = last[Ev.p] THEN UNCHANGED <<viol, nviol, last>>
          ELSE Note("StateUnchanged", "get_peer_counter") /\ last' = [last EXCEPT ![Ev.p] = Ev.v]
       /\ UNCHANGED <<persisted, floor, nsub>>

Sync == /\ Ev.ev = "Sync"
        /\ persisted' = IF Ev.ok THEN last ELSE persisted
        /\ UNCHANGED <<last, floor, viol, nviol, nsub>>

(* drop + reopen.  The property allows the unsynced tail to be lost or kept: the new mark of *)
(* every peer lies in [persisted, last]; the observation picks the point, clamped to the band *)
Reload == /\ Ev.ev = "Reload"
          /\ last' = [p \in P |-> IF p <= Len(Ev.obs) THEN Max2(persisted[p], Min2(Ev.obs[p], last[p])) ELSE persisted[p]]
          /\ floor' = [p \in P |-> Max2(floor[p], persisted[p])]
          /\ UNCHANGED <<persisted, viol, nviol, nsub>>

Cleanup == Ev.ev = "Cleanup" /\ UNCHANGED <<last, persisted, floor, viol, nviol, nsub>>
Panic == Ev.ev = "Panic" /\ Note("NoPanic", Ev.via) /\ UNCHANGED <<last, persisted, floor, nsub>>
Err == Ev.ev = "Err" /\ Note("Classified", Ev.via) /\ UNCHANGED <<last, persisted, floor, nsub>>

Next == /\ l <= N /\ l' = l + 1
        /\ (Reset \/ Preload \/ Submit \/ Obs \/ Sync \/ Reload \/ Cleanup \/ Panic \/ Err)
Spec == Init /\ [][Next]_vars

Report == (l = N + 1) =>
  JsonSerialize(IOEnv.OUT, [consumed |-> l - 1, total |-> N, nviol |-> nviol, checked |-> nsub, viol |-> viol])
=============================================================================
