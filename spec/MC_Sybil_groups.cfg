\* intended design, group formation: 4 peers (two id prefixes of two peers each), 1 subnet, joins and analyses only, 7 operations
SPECIFICATION Spec
CONSTANTS
  MaxHistory = 2
  Peers = {p1, p2, p3, p4}
  PfxA = {p1, p2}
  NSub = 1
  BThr = 2
  Win = 1
  PThr = 2
  SimPm = 750
  AsymThrPm = 2000
  Age = 2
  AgeIsMax = FALSE
  MinObs = 1
  MaxT = 0
  MaxOps = 7
  OpSet = {"join", "joinnoip", "analyze"}
  Lats = {0}
  Sizes = {0}
  Claims = {0}
  Measures = {0}
  AsImplemented_BurstCountsRepeats = FALSE
  AsImplemented_BurstNotAged = FALSE
  AsImplemented_DepartedKeepTriggering = FALSE
  AsImplemented_EvidenceAccumulates = FALSE
  AsImplemented_NoGroupMerge = FALSE
  AsImplemented_OverallCountsMemberships = FALSE
  AsImplemented_ZeroAverageNaN = FALSE
  AsImplemented_HugeAgePanics = FALSE
  Variant_StrictThreshold = FALSE
SYMMETRY Sym
INVARIANTS TypeOK BurstExact JoinsOrdered BurstDistinctPeers PrefixExact PrefixNamesSharers EvidenceNamesPresentOnly
           IdenticalHistoriesSimilar SimilarityBounded AsymSound AnalysisIdempotent GroupsDisjoint AnalyzeCovers GroupsOnlyByAnalysis
           SuspectedIffMember RiskMonotoneUntilClear OverallIsSuspectedFraction GroupCountBounded ClearEmpties CleanupOnlyOld
           RecordsAreHistory RecordsWithinWindow NoPanic
CHECK_DEADLOCK FALSE
