\* must FAIL: two backups within one second under max_backups = 1 - the one just made is dropped
SPECIFICATION SpecB
CONSTANTS
  Vers = {1, 2}
  Toks = {1, 2}
  NPaths = 1
  MaxBs = {1, 2}
  MaxAgeB = 1
  MaxAgeS = 1
  MaxOps = 4
  MaxTicks = 2
  AsImplemented_TieKeepsOlder = TRUE
  AsImplemented_SharedBackupFile = FALSE
  AsImplemented_CleanupNeedsDir = FALSE
  AsImplemented_RollbackToVersionNeedsDir = FALSE
  AsImplemented_GetStagedUnverified = FALSE
  AsImplemented_SweepIgnoresMetadata = FALSE
  Variant_RollbackUnverified = FALSE
INVARIANTS CreatedBackupIsLatest BackupRollbackIdentity
CHECK_DEADLOCK FALSE
