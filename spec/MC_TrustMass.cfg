SPECIFICATION Spec
CONSTANTS
  AsImplemented_DropDangling = FALSE
INVARIANTS SybilBound AnchorFloor
CHECK_DEADLOCK FALSE
