SPECIFICATION Spec
CONSTANTS
  AsImplemented_NoRemoveHook = TRUE
  AsImplemented_FifoDuplicates = TRUE
  AsImplemented_UnseenNone = TRUE
  Variant_LruNoReindex = FALSE
INVARIANT Report
CHECK_DEADLOCK FALSE
