----------------------------- MODULE Trace_Lookup -----------------------------
(***************************************************************************)
(* Acceptor for lookup transcripts recorded at the in-memory hub (harness  *)
(* c01).  Each `Lookup` event is one complete run of the real               *)
(* find_closest_nodes: local knowledge before the call, every request with *)
(* its outcome and the ids the reply named, and the returned list.  Ids    *)
(* are small integers, XOR distances are ranks (rank[i] < rank[j] iff i is *)
(* closer to the target).  The clauses are the P-level of Lookup.tla.      *)
(* `Reply` events carry one find-node reply of a real node (C02 rule).     *)
(***************************************************************************)
EXTENDS Naturals, Integers, Sequences, FiniteSets, SequencesExt, FiniteSetsExt, TLC, Json, IOUtils

Rec == ndJsonDeserialize(IOEnv.TRACE)
N == Len(Rec)
Budget == 60          \* MAX_ITERATIONS * ALPHA of the code
IterCap == 20         \* MAX_ITERATIONS: a lookup that issued this many requests may have run out of rounds

VARIABLES l, viol, nviol, nlook, nreply
vars == <<l, viol, nviol, nlook, nreply>>
Ev == Rec[l]

Note(clause, site, cond) ==
  /\ nviol' = nviol + 1
  /\ viol' = IF Cardinality({i \in 1..Len(viol) : viol[i].clause = clause /\ viol[i].site = site /\ viol[i].cond = cond}) < 12
             THEN Append(viol, [line |-> l, clause |-> clause, site |-> site, cond |-> cond]) ELSE viol
NoNote == UNCHANGED <<viol, nviol>>

Rng(s) == {s[i] : i \in 1..Len(s)}
Distinct(s) == \A i, j \in 1..Len(s) : i # j => s[i] # s[j]
Take(s, n) == SubSeq(s, 1, IF n < Len(s) THEN n ELSE Len(s))

(* ---- one lookup ---- *)
Rank(i) == Ev.rank[i]
Closer(a, b) == Rank(a) < Rank(b)
SortByRank(S) == SetToSortSeq(S, LAMBDA a, b : Rank(a) < Rank(b))
Reqs == Ev.reqs
Queried == {Reqs[i].to : i \in 1..Len(Reqs)}
Answered == {Reqs[i].to : i \in {j \in 1..Len(Reqs) : Reqs[j].out = "answered"}}
Learned == Rng(Ev.initial) \cup UNION {Rng(Reqs[i].nodes) : i \in {j \in 1..Len(Reqs) : Reqs[j].out = "answered"}}
Res == Ev.result
Sorted(s) == \A i \in 1..(Len(s) - 1) : Rank(s[i]) < Rank(s[i + 1])
BudgetExcuse == Len(Reqs) >= IterCap
(* peers the origin has no connection to and cannot dial: a query attempt fails before any frame exists *)
Unreach == Rng(Ev.unreachable)

LookupVerdict ==
  IF Ev.hang THEN Note("Terminates", "find_closest_nodes", "hang")
  ELSE IF Ev.err # "" THEN Note("Terminates", "find_closest_nodes", "error")
  ELSE IF Len(Reqs) > Budget THEN Note("BoundedRequests", "find_closest_nodes", "budget")
  ELSE IF Ev.self \in Queried THEN Note("NoSelfQuery", "find_closest_nodes", "self")
  ELSE IF ~Distinct([i \in 1..Len(Reqs) |-> Reqs[i].to]) THEN Note("NoDoubleQuery", "find_closest_nodes", "twice")
  ELSE IF Len(Res) > Ev.k THEN Note("AtMostK", "find_closest_nodes", "len")
  ELSE IF ~Distinct(Res) THEN Note("Distinct", "find_closest_nodes", "dup")
  ELSE IF ~Sorted(Res) THEN Note("Ascending", "find_closest_nodes", "order")
  ELSE IF ~(Rng(Res) \subseteq Answered \cup {Ev.self}) THEN Note("OnlyAnswered", "find_closest_nodes", "member")
  ELSE IF Res # Take(SortByRank(Answered \cup {Ev.self}), Ev.k) THEN Note("ClosestAnswered", "find_closest_nodes", "subset")
  ELSE IF ~BudgetExcuse /\ Res # <<>> /\ \E p \in Learned \ ({Ev.self} \cup Unreach) : Closer(p, Res[Len(Res)]) /\ p \notin Queried
       THEN Note("NoCloserUnqueried", "find_closest_nodes", "closer")
  ELSE IF ~BudgetExcuse /\ Len(Res) < Ev.k /\ \E p \in Learned \ ({Ev.self} \cup Unreach) : p \notin Queried
       THEN Note("NoCloserUnqueried", "find_closest_nodes", "room")
  ELSE IF Ev.pure /\ Res # Take(SortByRank(Rng(Ev.honest)), Ev.k) THEN Note("FullMeshExact", "find_closest_nodes", "fullmesh")
  ELSE NoNote

Lookup == /\ Ev.ev = "Lookup" /\ nlook' = nlook + 1 /\ LookupVerdict /\ UNCHANGED nreply

(* ---- one find-node reply of a real node (C02): the K closest of what it knows; the requester may
        be excluded before or after the cut; each peer once; never more than the cap ---- *)
ReplyOk ==
  LET K == Rng(Ev.known)
      r == Ev.r
      A1 == Take(SortByRank(K \ {r}), Ev.cap)
      A2 == Take(SortByRank(K), Ev.cap)
      A3 == SelectSeq(A2, LAMBDA x : x # r)
  IN Ev.nodes = A1 \/ Ev.nodes = A2 \/ Ev.nodes = A3
Reply == /\ Ev.ev = "Reply" /\ nreply' = nreply + 1
         /\ IF Len(Ev.nodes) > Ev.cap THEN Note("ReplyCapped", "handle_lookup_request", "cap")
            ELSE IF ~Distinct(Ev.nodes) THEN Note("ReplyDistinct", "handle_lookup_request", "dup")
            ELSE IF ~(Rng(Ev.nodes) \subseteq Rng(Ev.known)) THEN Note("ReplySingleName", "handle_lookup_request", "alias-or-unknown")
            ELSE IF ~ReplyOk THEN Note("ReplyExact", "handle_lookup_request", "closest")
            ELSE NoNote
         /\ UNCHANGED nlook

(* ---- local knowledge of a node (C02: "everything the replying node knows"): exactly the peers it is connected to,
        each once, in ascending distance ---- *)
Local == /\ Ev.ev = "Local" /\ nreply' = nreply + 1
         /\ IF ~Distinct(Ev.initial) THEN Note("LocalDistinct", "find_closest_nodes_local", "dup")
            ELSE IF Ev.self \in Rng(Ev.initial) THEN Note("LocalNoSelf", "find_closest_nodes_local", "self")
            ELSE IF Ev.initial # SortByRank(Rng(Ev.neigh)) THEN Note("LocalExact", "find_closest_nodes_local", "members-or-order")
            ELSE NoNote
         /\ UNCHANGED nlook

Reset == Ev.ev = "Reset" /\ NoNote /\ UNCHANGED <<nlook, nreply>>

(* ---- spec -> impl replay (Replay_Lookup.tla): the real lookup on a configuration TLC enumerated, next to the answer of the
        implementation-shaped model for that configuration.  A difference is model drift (site "model"), not a verdict
        on the property: the P-level clauses above judge the same lookup. ---- *)
Model == /\ Ev.ev = "Model" /\ nreply' = nreply + 1
         /\ IF Ev.hang \/ Ev.err # "" THEN NoNote
            ELSE IF Ev.result # Ev.mresult THEN Note("ModelResult", "model", "result")
            ELSE IF Ev.answered # Ev.manswered THEN Note("ModelAnswered", "model", "answered")
            ELSE NoNote
         /\ UNCHANGED nlook

Init == l = 1 /\ viol = <<>> /\ nviol = 0 /\ nlook = 0 /\ nreply = 0
Next == l <= N /\ l' = l + 1 /\ (Reset \/ Lookup \/ Reply \/ Local \/ Model)
Spec == Init /\ [][Next]_vars
Report == (l = N + 1) =>
  JsonSerialize(IOEnv.OUT, [consumed |-> l - 1, total |-> N, nviol |-> nviol, checked |-> nlook + nreply,
                            lookups |-> nlook, replies |-> nreply, viol |-> viol])
=============================================================================
