------------------------------- MODULE Transport -------------------------------
(***************************************************************************)
(* Peer bookkeeping of TransportHandle (src/transport_handle.rs): the map  *)
(* `peers` (id -> status, last seen), the set `active_connections`, and    *)
(* the events broadcast to subscribers.  Growth item 2 of DESIGN.md        *)
(* section 9 (not one of the listed properties).                           *)
(*                                                                         *)
(* Step(st, op) is the transition FUNCTION: it is shared with              *)
(* Trace_Transport.tla, which checks every observed (pre, op, post) of the *)
(* real object against it.  Time is an integer (seconds).                  *)
(***************************************************************************)
EXTENDS TransportRules

CONSTANTS Peers, MaxTime, MaxOps

(* ---- state machine for TLC ---- *)
VARIABLES st, events, nops
vars == <<st, events, nops>>
Init == st = [peers |-> <<>>, active |-> {}, now |-> 0] /\ events = <<>> /\ nops = 0
Do(r) == st' = r.s /\ events' = events \o r.ev /\ nops' = nops + 1
Next == /\ nops < MaxOps
        /\ \/ \E p \in Peers : Do(Connect(st, p)) \/ Do(Accept(st, p)) \/ Do(Disconnect(st, p)) \/ Do(Forget(st, p))
                               \/ Do(Receive(st, p)) \/ Do(Send(st, p))
           \/ (st.now < MaxTime /\ Do(Advance(st, 1)))
           \/ LET r == Maintain(st) IN
                /\ st' = r.s /\ nops' = nops + 1
                /\ \E order \in SetToSeqs(r.evset) : events' = events \o order
Spec == Init /\ [][Next]_vars

(* ---- invariants of the design ---- *)
ActiveTracked == st.active \subseteq Tracked(st)
ActiveConnected == \A p \in st.active : st.peers[p].st = "Connected"
(* a Disconnected event is only ever emitted for a peer that had a Connected event before it and none since *)
RECURSIVE Balanced(_, _)
Balanced(evs, open) == IF evs = <<>> THEN TRUE
                       ELSE LET e == Head(evs) IN
                            IF e[1] = "Connected" THEN Balanced(Tail(evs), open \cup {e[2]})
                            ELSE e[2] \in open /\ Balanced(Tail(evs), open \ {e[2]})
DisconnectOnlyAfterConnect == Balanced(events, {})
=============================================================================
