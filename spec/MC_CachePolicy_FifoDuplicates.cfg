\* as implemented: FIFO queues a present key once more: insert(1), insert(1) -> queue <<1, 1>>
SPECIFICATION Spec
CONSTANTS
  Keys = {1, 2, 3}
  Kinds = {"LRU", "LFU", "FIFO", "Adaptive"}
  MaxFreq = 3
  MaxLen = 4
  AsImplemented_NoRemoveHook = FALSE
  AsImplemented_FifoDuplicates = TRUE
  AsImplemented_UnseenNone = FALSE
  Variant_LruNoReindex = FALSE
INVARIANTS NoLeak
CHECK_DEADLOCK FALSE
