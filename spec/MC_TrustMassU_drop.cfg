SPECIFICATION SpecU
CONSTANTS
  AsImplemented_DropDangling = TRUE
INVARIANTS LumpUpper LumpExactOutside
CHECK_DEADLOCK FALSE
