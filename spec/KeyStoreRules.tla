---------------------------- MODULE KeyStoreRules ----------------------------
(***************************************************************************)
(* P-level rules of property C18, shared by KeyStore.tla (model checking)  *)
(* and Trace_KeyStore.tla (acceptor).  Pure operators.                     *)
(*                                                                         *)
(* A store state is [pw, seeds]: the current password token (0 = no store  *)
(* yet; callers present tokens >= 1) and a function seed id -> seed token. *)
(* A retrieve result is 0 (error) or the token of the returned material.   *)
(***************************************************************************)
EXTENDS Integers, TLC

Err == 0
NoStore == [pw |-> 0, seeds |-> <<>>]

Has(t, id) == id \in DOMAIN t.seeds
Entitled(t, id, pw) == t.pw # 0 /\ pw = t.pw /\ Has(t, id)

(* a seed is returned to no caller presenting another password, and never as different material
   (this is also the accepted reading of "tampering ... fails rather than returning different key material") *)
OnlyCurrentPw(t, id, pw, res) == res # Err => (Entitled(t, id, pw) /\ res = t.seeds[id])

(* with the current password and an unaltered file the seed comes back unchanged *)
CurrentPwWorks(t, intact, id, pw, res) == (intact /\ Entitled(t, id, pw)) => res = t.seeds[id]

RetrieveOk(t, intact, id, pw, res) == OnlyCurrentPw(t, id, pw, res) /\ CurrentPwWorks(t, intact, id, pw, res)

(* effect of the two writing operations on the store state, when they are entitled to succeed *)
StoreEffect(t, id, seed) == [t EXCEPT !.seeds = (id :> seed) @@ t.seeds]
ChangeEffect(t, new) == [t EXCEPT !.pw = new]
=============================================================================
