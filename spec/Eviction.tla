------------------------------ MODULE Eviction ------------------------------
(***************************************************************************)
(* EvictionManager (src/dht/routing_maintenance/eviction.rs, liveness.rs). *)
(* I-level state: the three maps of the code (liveness_states,             *)
(* trust_scores, marked_for_eviction).  P-level state is their projection  *)
(* cf / trust / mark.  Invariant: the list built by                        *)
(* get_eviction_candidates (three loops with skip rules) names exactly the *)
(* peers for which the policy predicate holds, each once, with the reason  *)
(* the precedence rule gives.                                              *)
(***************************************************************************)
EXTENDS SidelineRules

CONSTANTS Peers, MaxFail, MinTrust, TrustGrid, Marks, MaxOps,
          Variant      \* "" = as read from the code; "NoResetOnSuccess", "SkipTrustOnly" = wrong designs

VARIABLES live,     \* set of peers with a liveness entry
          cfI,      \* consecutive failures of the entries
          trustI,   \* peer -> trust record ("none" = no entry)
          markI,    \* peer -> "" or reason
          nops
vars == <<live, cfI, trustI, markI, nops>>

Init == /\ live = {} /\ cfI = [p \in Peers |-> 0] /\ trustI = [p \in Peers |-> NoTrust]
        /\ markI = [p \in Peers |-> ""] /\ nops = 0

Step == nops < MaxOps /\ nops' = nops + 1
Failure(p) == /\ Step /\ live' = live \cup {p} /\ cfI' = [cfI EXCEPT ![p] = @ + 1] /\ UNCHANGED <<trustI, markI>>
Success(p) == /\ Step /\ live' = live \cup {p}
              /\ cfI' = IF Variant = "NoResetOnSuccess" THEN cfI ELSE [cfI EXCEPT ![p] = 0]
              /\ UNCHANGED <<trustI, markI>>
SetTrust(p, t) == /\ Step /\ trustI' = [trustI EXCEPT ![p] = t] /\ UNCHANGED <<live, cfI, markI>>
Mark(p, r) == /\ Step /\ markI' = [markI EXCEPT ![p] = r] /\ UNCHANGED <<live, cfI, trustI>>
Forget(p) == /\ Step /\ live' = live \ {p} /\ cfI' = [cfI EXCEPT ![p] = 0]
             /\ trustI' = [trustI EXCEPT ![p] = NoTrust] /\ markI' = [markI EXCEPT ![p] = ""]

TrustRecs == {[k |-> "val", v |-> v] : v \in TrustGrid} \cup {[k |-> "nan", v |-> 0]}
Next == \E p \in Peers : \/ Failure(p) \/ Success(p) \/ Forget(p)
                         \/ \E t \in TrustRecs : SetTrust(p, t)
                         \/ \E r \in Marks : Mark(p, r)
Spec == Init /\ [][Next]_vars

(* ---- P-level projection ---- *)
Cf(p) == IF p \in live THEN cfI[p] ELSE 0
IsCand(p) == Candidate(Cf(p), trustI[p], markI[p], MaxFail, MinTrust)
Kind(p) == ReasonKind(Cf(p), trustI[p], markI[p], MaxFail, MinTrust)

(* ---- I-level: get_eviction_reason / get_eviction_candidates ---- *)
IReason(p) ==
  IF markI[p] # "" THEN markI[p]
  ELSE IF p \in live /\ cfI[p] >= MaxFail THEN "ConsecutiveFailures"
  ELSE IF trustI[p].k # "none" /\ Below(trustI[p], MinTrust) THEN "LowTrust"
  ELSE ""
Loop1 == SetToSeq({p \in Peers : markI[p] # ""})
Loop2 == SetToSeq({p \in live : markI[p] = "" /\ IReason(p) # ""})
Loop3 == IF Variant = "SkipTrustOnly" THEN <<>>
         ELSE SetToSeq({p \in Peers : trustI[p].k # "none" /\ markI[p] = "" /\ p \notin live /\ IReason(p) # ""})
ICands == Loop1 \o Loop2 \o Loop3

CandidatesExact == ToSet(ICands) = {p \in Peers : IsCand(p)}
CandidatesOnce == Distinct(ICands)
ReasonPrecedence == \A p \in Peers : IReason(p) = Kind(p)
(* one success clears failure-based candidacy *)
SuccessClears == [][\A p \in Peers : Success(p) => (Cf(p)' = 0 /\ (IsCand(p)' => (markI[p] # "" \/ Below(trustI[p], MinTrust))))]_vars
=============================================================================
