\* non-vacuity: the circuit is re-opened after its reset time within the bounds; must violate Vac_NeverReopens
SPECIFICATION Spec
CONSTANTS
  Base = 2
  MaxD = 8
  MaxAtt = 3
  Window = 4
  CbThr = 2
  CbReset = 3
  Jit = 250
  Track = TRUE
  Bits = 12
  HCap = 1
  Ids <- MCIds
  EvalReasons = {1}
  HistCaps = {1, 2}
  HistReasons = {1, 2}
  HistAges = {0, 2}
  HistMaxTime = 2
  MaxTime = 5
  MaxOps = 4
  SecUnit = 2
  Epoch = 0
  AsImplemented_JitterAboveMax = FALSE
  AsImplemented_OpenAfterReset = FALSE
  AsImplemented_RegionLimitNotBlocking = FALSE
  AsImplemented_RateLimitedAsDiversity = FALSE
  AsImplemented_IgnoresRecommendation = FALSE
  AsImplemented_DefaultKeepsNothing = FALSE
  Variant_CriticalSkipsCooldown = FALSE
INVARIANTS TypeOK Vac_NeverReopens
PROPERTIES CountersMonotone BackoffGrows TimeOnlyHelps
CHECK_DEADLOCK FALSE
