SPECIFICATION Spec
CONSTANTS
  AsImplemented_FromStrNoSuffix = TRUE
  AsImplemented_AddNodeNoSuffix = FALSE
  AsImplemented_Port65535 = FALSE
INVARIANTS EveryHopSame InteropHolds
CHECK_DEADLOCK FALSE
