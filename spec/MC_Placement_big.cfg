SPECIFICATION Spec
CONSTANTS
  MaxCands = 5
  Regions = {1, 2}
  Asns = {1, 2}
  Sites = {1, 2, 3}
  MetaGrid = {TRUE}
  KMax = 5
  Variant = ""
INVARIANTS OutcomeAdmissible
CHECK_DEADLOCK FALSE
