SPECIFICATION Spec
CONSTANTS
  Window = 2
  MaxOps = 3
  Errs = {1}
  Csrs = {1000000}
  Types = {1, 2}
  Sessions <- MC_Sessions
  Lats <- MC_Lats
  CapSets <- MC_CapSets
  RepArgs <- MC_RepArgs
  Ages <- MC_Ages
  MaxAges <- MC_MaxAges
  Factors <- MC_Factors
  Setups <- MC_Setups
  Variant_FailureNotCounted = FALSE
  AsImplemented_FailureRefreshesLastSeen = FALSE
  AsImplemented_ZeroLatencyNoData = FALSE
  AsImplemented_NaNReputation = TRUE
  AsImplemented_DecayFactorUnchecked = FALSE
  AsImplemented_TypeRateZeroIsNoData = FALSE
  AsImplemented_EFoldingRecency = FALSE
INVARIANTS Bounded
PROPERTIES CountersNeverDecrease VerifiedSticks
CHECK_DEADLOCK FALSE
