---------------------------- MODULE Trace_Address ----------------------------
(***************************************************************************)
(* Acceptor for traces recorded from the real address codecs and address   *)
(* consumers (harness module c19).  Rules (AddressRules): RoundTripOk for  *)
(* every round trip the library itself performs, VariantOk for separator / *)
(* case variants, MalformedOk for malformed strings, and Interop over the  *)
(* wiring table with Emits / Accepts as OBSERVED in this trace.            *)
(***************************************************************************)
EXTENDS Integers, Sequences, FiniteSets, SequencesExt, TLC, Json, IOUtils, AddressRules

Rec == ndJsonDeserialize(IOEnv.TRACE)
N == Len(Rec)

VARIABLES l, emits, good, bad, viol, nviol, nchk, segv
vars == <<l, emits, good, bad, viol, nviol, nchk, segv>>
Ev == Rec[l]

CountOf(c, s, d) == Cardinality({i \in 1..Len(viol) : viol[i].clause = c /\ viol[i].site = s /\ viol[i].cond = d})
NoteAll(vs) ==
  /\ nviol' = nviol + Len(vs)
  /\ segv' = IF Len(segv) = 0 THEN segv ELSE [segv EXCEPT ![Len(segv)] = @ + Len(vs)]
  /\ viol' = viol \o SelectSeq([i \in 1..Len(vs) |-> [line |-> l, clause |-> vs[i].clause, site |-> vs[i].site, cond |-> vs[i].cond]],
                               LAMBDA v : CountOf(v.clause, v.site, v.cond) < 10)
V(c, s, d) == <<[clause |-> c, site |-> s, cond |-> d]>>

Init == /\ l = 1 /\ emits = {} /\ good = {} /\ bad = {} /\ viol = <<>> /\ nviol = 0 /\ nchk = 0 /\ segv = <<>>

Reset == /\ Ev.ev = "Reset" /\ emits' = {} /\ good' = {} /\ bad' = {}
         /\ segv' = Append(segv, 0) /\ UNCHANGED <<viol, nviol, nchk>>

RT == /\ Ev.ev = "RT"
      /\ IF RoundTripOk(Ev.out) THEN NoteAll(<<>>) ELSE NoteAll(V("RoundTrip", Ev.site, Ev.out \o "_" \o AddrClass(Ev.a)))
      /\ nchk' = nchk + 1 /\ UNCHANGED <<emits, good, bad>>

(* all ports lo..hi of one address gave the same outcome *)
RTSweep == /\ Ev.ev = "RTSweep"
           /\ IF RoundTripOk(Ev.out) THEN NoteAll(<<>>)
              ELSE NoteAll(V("RoundTrip", Ev.site,
                             Ev.out \o "_" \o AddrClass([Ev.ip EXCEPT ![Len(Ev.ip)] = IF Ev.lo = 65535 THEN 65535 ELSE 0])
                             \o (IF Ev.lo = Ev.hi THEN "" ELSE "_port_range")))
           /\ nchk' = nchk + (Ev.hi - Ev.lo + 1) /\ UNCHANGED <<emits, good, bad>>

(* n samples, `same` of them round-tripped; the others were logged as RT events except `unlogged` = <<out, count>> pairs *)
RTBulk == /\ Ev.ev = "RTBulk"
          /\ NoteAll([i \in 1..Len(Ev.unlogged) |-> [clause |-> "RoundTrip", site |-> Ev.site, cond |-> Ev.unlogged[i][1] \o "_unlogged"]])
          /\ nchk' = nchk + Ev.same /\ UNCHANGED <<emits, good, bad>>

Variant == /\ Ev.ev = "Variant"
           /\ IF VariantOk(Ev.out) THEN NoteAll(<<>>)
              ELSE NoteAll(V("VariantSameOrError", Ev.site, Ev.variant \o "_" \o Ev.out \o "_" \o AddrClass(Ev.a)))
           /\ nchk' = nchk + 1 /\ UNCHANGED <<emits, good, bad>>

Malformed == /\ Ev.ev = "Malformed"
             /\ IF MalformedOk(Ev.out) THEN NoteAll(<<>>) ELSE NoteAll(V("MalformedRejected", Ev.site, Ev.class \o "_" \o Ev.out))
             /\ nchk' = nchk + 1 /\ UNCHANGED <<emits, good, bad>>

Produce == /\ Ev.ev = "Produce" /\ emits' = emits \cup {<<Ev.producer, Ev.form>>}
           /\ NoteAll(<<>>) /\ UNCHANGED <<good, bad, nchk>>

Consume == /\ Ev.ev = "Consume"
           /\ IF Ev.out = "same" THEN good' = good \cup {<<Ev.consumer, Ev.form>>} /\ bad' = bad
              ELSE bad' = bad \cup {<<Ev.consumer, Ev.form>>} /\ good' = good
           /\ IF Ev.out \in {"different", "panic"} THEN NoteAll(V("Interop", Ev.consumer, Ev.form \o "_" \o Ev.out)) ELSE NoteAll(<<>>)
           /\ nchk' = nchk + 1 /\ UNCHANGED emits

(* end of the interop segment: the wiring table against what was observed *)
EmitsObs == [p \in Producers |-> {f \in Forms : <<p, f>> \in emits}]
AcceptsObs == [c \in Consumers |-> IF c \in DOMAIN AcceptsByReading THEN AcceptsByReading[c]
                                   ELSE {f \in Forms : <<c, f>> \in good /\ <<c, f>> \notin bad}]
InteropEv ==
  /\ Ev.ev = "Interop"
  /\ LET B == Broken(Wiring, EmitsObs, AcceptsObs)
         S == SetToSeq(B)
         silent == {p \in Producers : EmitsObs[p] = {}} IN
     NoteAll([i \in 1..Len(S) |-> [clause |-> "Interop", site |-> S[i][1][1] \o "->" \o S[i][1][2], cond |-> S[i][2]]]
             \o [i \in 1..Cardinality(silent) |-> [clause |-> "Interop", site |-> "producer", cond |-> "not_observed"]])
  /\ nchk' = nchk + Cardinality(Wiring) /\ UNCHANGED <<emits, good, bad>>

Panic == /\ Ev.ev = "Panic" /\ NoteAll(V("NoPanic", Ev.where, "panic")) /\ UNCHANGED <<emits, good, bad, nchk>>

Next == /\ l <= N /\ l' = l + 1
        /\ (Reset \/ RT \/ RTSweep \/ RTBulk \/ Variant \/ Malformed \/ Produce \/ Consume \/ InteropEv \/ Panic)
Spec == Init /\ [][Next]_vars

Report == (l = N + 1) =>
  JsonSerialize(IOEnv.OUT, [consumed |-> l - 1, total |-> N, nviol |-> nviol, checked |-> nchk, viol |-> viol, segv |-> segv])
=============================================================================
