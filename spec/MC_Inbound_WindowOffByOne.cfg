SPECIFICATION Spec
CONSTANTS
  AsImplemented_WindowOffByOne = TRUE
  AsImplemented_TrustClaimedFrom = FALSE
  AsImplemented_DecodeBeforeSize = FALSE
INVARIANTS FrameOK DhtOK EngineOK
CHECK_DEADLOCK FALSE
