SPECIFICATION Spec
CONSTANTS
  Peers = {1, 2, 3}
  MaxFail = 2
  MinTrust = 150
  TrustGrid = {100, 150, 200}
  Marks = {"Stale", "LowTrust"}
  MaxOps = 6
  Variant = ""
INVARIANTS CandidatesExact CandidatesOnce ReasonPrecedence
PROPERTIES SuccessClears
CHECK_DEADLOCK FALSE
