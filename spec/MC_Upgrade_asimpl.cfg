\* RollbackManager as implemented (every flag TRUE): the invariants that survive
SPECIFICATION SpecB
CONSTANTS
  Vers = {1, 2}
  Toks = {1, 2}
  NPaths = 1
  MaxBs = {1, 2}
  MaxAgeB = 1
  MaxAgeS = 1
  MaxOps = 5
  MaxTicks = 2
  AsImplemented_TieKeepsOlder = TRUE
  AsImplemented_SharedBackupFile = TRUE
  AsImplemented_CleanupNeedsDir = TRUE
  AsImplemented_RollbackToVersionNeedsDir = TRUE
  AsImplemented_GetStagedUnverified = TRUE
  AsImplemented_SweepIgnoresMetadata = TRUE
  Variant_RollbackUnverified = FALSE
INVARIANTS TypeOKB FileKeysUnique RollbackRestoresRecorded RollbackTouchesNothingElse
  NoOrphanFiles AtMostMaxBackups NothingTooOldAfterCleanup CleanupKeepsNewest
  CleanupAllLeavesNothingB FailureIsHarmless
CHECK_DEADLOCK FALSE
