\* as implemented: evidence connecting two groups leaves a peer in both; must violate GroupsDisjoint
SPECIFICATION Spec
CONSTANTS
  MaxHistory = 2
  Peers = {p1, p2, p3, p4}
  PfxA = {p1, p2}
  NSub = 1
  BThr = 2
  Win = 1
  PThr = 2
  SimPm = 750
  AsymThrPm = 2000
  Age = 2
  AgeIsMax = FALSE
  MinObs = 1
  MaxT = 0
  MaxOps = 5
  OpSet = {"joinnoip", "analyze"}
  Lats = {0}
  Sizes = {0}
  Claims = {0}
  Measures = {0}
  AsImplemented_BurstCountsRepeats = FALSE
  AsImplemented_BurstNotAged = FALSE
  AsImplemented_DepartedKeepTriggering = FALSE
  AsImplemented_EvidenceAccumulates = FALSE
  AsImplemented_NoGroupMerge = TRUE
  AsImplemented_OverallCountsMemberships = FALSE
  AsImplemented_ZeroAverageNaN = FALSE
  AsImplemented_HugeAgePanics = FALSE
  Variant_StrictThreshold = FALSE
INVARIANTS TypeOK GroupsDisjoint
CHECK_DEADLOCK FALSE
