\* intended design, thorough tier: 3 nodes, 4 seconds, 6 operations
SPECIFICATION Spec
CONSTANTS
  Unit = 1
  YoungAge = 1
  EstAge = 2
  VetAge = 3
  DaySecs = 2
  Nodes = {n1, n2, n3}
  MaxT = 4
  MaxOps = 6
  MaxRejoin = 2
  ReplSet = {0, 1}
  CritSet = {0, 2}
  VetSet = {0, 3}
  BpdSet = {0, 100}
  MaxbM = 150
  Retentions = {0, 1, 2}
  AsImplemented_CategoryHardcoded = FALSE
  AsImplemented_UptimeSinceLastSeen = FALSE
  AsImplemented_UnknownReasonWhenPassing = FALSE
  AsImplemented_CleanupByLastSeen = FALSE
  AsImplemented_RelaxedByReplOnly = FALSE
  AsImplemented_HugeRetentionPanics = FALSE
  Variant_RejoinResetsAge = FALSE
SYMMETRY Perms
CONSTRAINT Bounded
INVARIANTS TypeOK CategoryMonotone TrustMonotone TrustMatchesCategory ListsExact VerifyAgreesWithLists BasicAlwaysOpen VerifyFlagsAgree
           ReasonIffFails RelaxedAdmitsAll StatsAddUp RegisterIdempotent RejoinCounts RegisterNew DepartIdempotent DepartMarks
           UptimeIsPresence CleanupOnlyLongDeparted NoPanic CountersGrow
CHECK_DEADLOCK FALSE
