---------------------------- MODULE Trace_Resource ----------------------------
(***************************************************************************)
(* Conformance acceptor for ResourceManager (harness module resource).     *)
(* Most of the manager's state is private (token buckets, bandwidth        *)
(* window, task states, the shutting-down flag), so the acceptor carries   *)
(* the model state `ms` through a segment: at every `Step` the observable  *)
(* part is taken from the logged `pre`, the step function After of         *)
(* ResourceRules.tla is applied (as-implemented flags on), and the result  *)
(* and the observable part of the outcome are compared with `ok` / `post`. *)
(*                                                                         *)
(* Real time: the step ran in the band [t0, t1] (microseconds).  A         *)
(* check_rate_limit answer is accepted iff it is right for SOME instant of *)
(* the band given the bands kept for the bucket (CheckOutcomes); a         *)
(* collected bandwidth figure iff it lies in the band of one of            *)
(* CollectOptions.  Tokio time is exact (paused runtime).                  *)
(* Mismatches are MODEL-DRIFT (informational).                             *)
(***************************************************************************)
EXTENDS ResourceRules, TLC, Json, IOUtils

Recs == ndJsonDeserialize(IOEnv.TRACE)
N == Len(Recs)
VARIABLES l, ms, drift, ndrift, n, cov
tvars == <<l, ms, drift, ndrift, n, cov>>
Ev == Recs[l]

ObsOf(j) == [guards |-> SeqSet(j.guards), waiters |-> j.waiters, mconn |-> j.mconn, mbw |-> j.mbw, mem |-> j.mem,
             alive |-> j.alive, now |-> j.now]
(* the model state with the observable fields as logged (a drift does not cascade through them) *)
Overlay(s, j) == [s EXCEPT !.guards = SeqSet(j.guards), !.waiters = j.waiters, !.avail = s.cfg.max - Len(j.guards),
                           !.mConn = j.mconn, !.mBw = j.mbw, !.mem = j.mem, !.now = j.now]
Pre == Overlay(ms, Ev.pre)
R == After(Pre, Ev)
Opts == CollectOptions(R.s, Ev.t0, Ev.t1)
Good == {x \in Opts : x.lo <= Ev.post.mbw /\ Ev.post.mbw <= x.hi}
(* the state after the step; an ambiguous collection (both "window rolled" and "not yet" fit) keeps the older window start *)
Collected ==
  IF ~R.coll THEN R.s
  ELSE IF Cardinality(Good) = 1 THEN ApplyCollect(R.s, CHOOSE x \in Good : TRUE, Ev.post.mbw, Ev.t0, Ev.t1, R.cavail)
  ELSE IF Good = {} THEN ApplyCollect(R.s, CHOOSE x \in Opts : TRUE, Ev.post.mbw, Ev.t0, Ev.t1, R.cavail)
  ELSE [ApplyCollect(R.s, [reset |-> TRUE], Ev.post.mbw, Ev.t0, Ev.t1, R.cavail) EXCEPT !.rLo = R.s.rLo]
AnswerOk == IF Ev.op = "check" THEN Ev.ok \in CheckOutcomes(Pre, Ev.p, Ev.o, Ev.t0, Ev.t1) ELSE Ev.ok = R.ok
What == IF Obs(ms) # ObsOf(Ev.pre) THEN "pre"
        ELSE IF ~AnswerOk THEN "ok"
        ELSE IF R.coll /\ Good = {} THEN "bandwidth"
        ELSE IF Obs(Collected) # ObsOf(Ev.post) THEN "post"
        ELSE ""

Blank == New([max |-> 0, dht |-> 0, mcp |-> 0, message |-> 0, burst |-> 0, ivM |-> 1, ivH |-> 1, ivC |-> 1, track |-> FALSE,
              cleanup |-> FALSE, shutTo |-> 0, acqTo |-> 0, maxMem |-> 0], 0, 0)
(* coverage: check answers decided by the model / left open by the clock band, collections, late admissions, tasks that
   outlive a shutdown *)
Cov0 == [decided |-> 0, open |-> 0, denied |-> 0, collections |-> 0, rolls |-> 0, late |-> 0, survivors |-> 0, pending |-> 0]
CovNext ==
  LET two == Ev.op = "check" /\ Cardinality(CheckOutcomes(Pre, Ev.p, Ev.o, Ev.t0, Ev.t1)) = 2 IN
  [cov EXCEPT !.decided = @ + (IF Ev.op = "check" /\ ~two THEN 1 ELSE 0), !.open = @ + (IF two THEN 1 ELSE 0),
              !.denied = @ + (IF Ev.op = "check" /\ Ev.ok = 0 THEN 1 ELSE 0),
              !.collections = @ + (IF R.coll THEN 1 ELSE 0),
              !.rolls = @ + (IF R.coll /\ \E x \in Good : x.reset THEN 1 ELSE 0),
              !.late = @ + (Collected.late - Pre.late),
              !.survivors = @ + (IF Ev.op = "shutdown" /\ Ev.settle /\ Len(Collected.tasks) > 0 THEN 1 ELSE 0),
              !.pending = @ + (IF Ev.ok = 2 THEN 1 ELSE 0)]
Init == l = 1 /\ ms = Blank /\ drift = <<>> /\ ndrift = 0 /\ n = 0 /\ cov = Cov0
Note(op, what) == /\ ndrift' = ndrift + 1
                  /\ drift' = IF Len(drift) < 20 THEN Append(drift, [line |-> l, op |-> op, what |-> what]) ELSE drift
Next == /\ l <= N /\ l' = l + 1
        /\ CASE Ev.ev = "Reset" -> ms' = New(Ev.cfg, Ev.t0, Ev.t1) /\ UNCHANGED <<drift, ndrift, n, cov>>
             [] Ev.ev = "Step" -> /\ n' = n + 1
                                  /\ ms' = Overlay(Collected, Ev.post) /\ cov' = CovNext
                                  /\ IF What = "" THEN UNCHANGED <<drift, ndrift>> ELSE Note(Ev.op, What)
             [] Ev.ev = "Panic" -> Note("panic", "panic") /\ UNCHANGED <<ms, n, cov>>
             [] OTHER -> UNCHANGED <<ms, drift, ndrift, n, cov>>
Spec == Init /\ [][Next]_tvars
Report == (l = N + 1) => JsonSerialize(IOEnv.OUT, [consumed |-> l - 1, total |-> N, nviol |-> ndrift, checked |-> n, viol |-> drift, cov |-> cov])
=============================================================================
