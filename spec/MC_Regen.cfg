\* intended design, both modes, 4 operations and 5 ticks
SPECIFICATION Spec
CONSTANTS
  Base = 2
  MaxD = 8
  MaxAtt = 3
  Window = 4
  CbThr = 2
  CbReset = 3
  Jit = 250
  Track = TRUE
  Bits = 12
  HCap = 1
  Ids <- MCIds
  EvalReasons = {1}
  HistCaps = {1, 2}
  HistReasons = {1, 2}
  HistAges = {0, 2}
  HistMaxTime = 2
  MaxTime = 5
  MaxOps = 4
  SecUnit = 2
  Epoch = 0
  AsImplemented_JitterAboveMax = FALSE
  AsImplemented_OpenAfterReset = FALSE
  AsImplemented_RegionLimitNotBlocking = FALSE
  AsImplemented_RateLimitedAsDiversity = FALSE
  AsImplemented_IgnoresRecommendation = FALSE
  AsImplemented_DefaultKeepsNothing = FALSE
  Variant_CriticalSkipsCooldown = FALSE
INVARIANTS TypeOK Decisions ReasonClasses BackoffWithinCap BackoffMonotoneInFailures AttemptSetsBackoff SuccessResets CircuitTrips
           OpenMeansFailures PrefixTracking EvalRecords HBounded HRecordKeepsLatest HRecentRules HCommonRules
PROPERTIES CountersMonotone BackoffGrows TimeOnlyHelps
CHECK_DEADLOCK FALSE
