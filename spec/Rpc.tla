--------------------------------- MODULE Rpc ---------------------------------
(***************************************************************************)
(* Request/response correlation of saorsa-core's pending tables            *)
(* (TransportHandle::send_request "/rr/", DhtNetworkManager::             *)
(* send_dht_request, DhtCoreEngine::query_node_for_key).                   *)
(* A caller registers an entry, sends, then waits for: a reply routed to   *)
(* its entry, its timeout, or its own cancellation (future dropped).       *)
(* The network (adversary) may deliver any (id, sender, value) at any      *)
(* time, any number of times.                                              *)
(* Properties C04: OnlyMatching, ExactlyOnce, NoResidue, CapRespected.     *)
(***************************************************************************)
EXTENDS Naturals, FiniteSets, TLC

Timed == 1000000   \* result of a call that timed out (not a member of Vals)
CONSTANTS Ids, Peers, Vals, Cap,
          WithSender,                      \* FALSE for the engine table (no sender in the API)
          AsImplemented_NoCancelCleanup,   \* a dropped future leaves its entry (pinned tree)
          AsImplemented_NoSenderCheck      \* replies accepted from any peer

VARIABLES pend,     \* id -> [peer, slot] for registered entries; slot = 0 or the delivered value
          call,     \* id -> "idle" | "waiting" | "returned" | "cancelled" | "refused"
          result,   \* id -> 0 (none) | value | Timed
          returns,  \* id -> number of times the call returned
          from      \* id -> the (id', sender) pair of the reply that filled the slot, for OnlyMatching
vars == <<pend, call, result, returns, from>>

Init == /\ pend = [i \in {} |-> 0] /\ call = [i \in Ids |-> "idle"] /\ result = [i \in Ids |-> 0]
        /\ returns = [i \in Ids |-> 0] /\ from = [i \in Ids |-> <<>>]

Dom == DOMAIN pend
Send(i, p) == /\ call[i] = "idle"
              /\ IF Cardinality(Dom) >= Cap
                 THEN /\ call' = [call EXCEPT ![i] = "refused"] /\ returns' = [returns EXCEPT ![i] = @ + 1]
                      /\ UNCHANGED <<pend, result, from>>
                 ELSE /\ pend' = [j \in Dom \cup {i} |-> IF j = i THEN [peer |-> p, slot |-> 0] ELSE pend[j]]
                      /\ call' = [call EXCEPT ![i] = "waiting"] /\ UNCHANGED <<result, returns, from>>

(* the receive loop: route a reply to the entry with that id, if the sender is the contacted peer; the entry is consumed *)
Deliver(j, s, v) ==
  /\ IF j \in Dom /\ pend[j].slot = 0 /\ (AsImplemented_NoSenderCheck \/ ~WithSender \/ s = pend[j].peer)
     THEN /\ pend' = [pend EXCEPT ![j].slot = v] /\ from' = [from EXCEPT ![j] = <<j, s>>]
     ELSE UNCHANGED <<pend, from>>
  /\ UNCHANGED <<call, result, returns>>

Remove(i) == pend' = [j \in Dom \ {i} |-> pend[j]]
(* the caller wakes up with the reply *)
ReturnReply(i) == /\ call[i] = "waiting" /\ i \in Dom /\ pend[i].slot # 0
                  /\ result' = [result EXCEPT ![i] = pend[i].slot] /\ returns' = [returns EXCEPT ![i] = @ + 1]
                  /\ call' = [call EXCEPT ![i] = "returned"] /\ Remove(i) /\ UNCHANGED from
(* ... or with its timeout (only if no reply was routed to it) *)
Timeout(i) == /\ call[i] = "waiting" /\ i \in Dom /\ pend[i].slot = 0
              /\ result' = [result EXCEPT ![i] = Timed] /\ returns' = [returns EXCEPT ![i] = @ + 1]
              /\ call' = [call EXCEPT ![i] = "returned"] /\ Remove(i) /\ UNCHANGED from
(* ... or its future is dropped *)
Cancel(i) == /\ call[i] = "waiting"
             /\ call' = [call EXCEPT ![i] = "cancelled"]
             /\ IF AsImplemented_NoCancelCleanup THEN UNCHANGED pend ELSE Remove(i)
             /\ UNCHANGED <<result, returns, from>>

Next == \/ \E i \in Ids, p \in Peers : Send(i, p)
        \/ \E j \in Ids, s \in Peers, v \in Vals : Deliver(j, s, v)
        \/ \E i \in Ids : ReturnReply(i) \/ Timeout(i) \/ Cancel(i)
Spec == Init /\ [][Next]_vars

OnlyMatching == \A i \in Ids : result[i] \in Vals => from[i][1] = i
SenderBound == \A i \in Dom : (WithSender /\ pend[i].slot # 0) => from[i][2] = pend[i].peer
ExactlyOnce == \A i \in Ids : returns[i] <= 1 /\ (call[i] \in {"returned", "refused"} => returns[i] = 1)
NoResidue == \A i \in Ids : call[i] \in {"returned", "cancelled", "refused", "idle"} => i \notin Dom
CapRespected == Cardinality(Dom) <= Cap
=============================================================================
