SPECIFICATION Spec
CONSTANTS
  MaxHistory = 100
  AsImplemented_BurstCountsRepeats = TRUE
  AsImplemented_BurstNotAged = TRUE
  AsImplemented_DepartedKeepTriggering = TRUE
  AsImplemented_EvidenceAccumulates = TRUE
  AsImplemented_NoGroupMerge = TRUE
  AsImplemented_OverallCountsMemberships = TRUE
  AsImplemented_ZeroAverageNaN = TRUE
  AsImplemented_HugeAgePanics = TRUE
  Variant_StrictThreshold = FALSE
INVARIANT Report
CHECK_DEADLOCK FALSE
