SPECIFICATION Spec
CONSTANTS
  AuditCap = 1000
  AuditDrop = 100
  AsImplemented_ErrorMutates = TRUE
  AsImplemented_LastLeaderDemotable = TRUE
  AsImplemented_CreateSkipsValidate = TRUE
  AsImplemented_PermissionIgnoresStatus = TRUE
  AsImplemented_DeadPermissions = TRUE
  AsImplemented_HugeSuspensionPanics = TRUE
  Variant_ThresholdIgnoresActive = FALSE
INVARIANT Report
CHECK_DEADLOCK FALSE
