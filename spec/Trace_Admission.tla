--------------------------- MODULE Trace_Admission ---------------------------
(***************************************************************************)
(* Acceptor for admission histories recorded from the real code (harness   *)
(* module c13): IPDiversityEnforcer (api "enforcer"), DhtCoreEngine        *)
(* add_node / evict_node / handle_node_failure (api "engine"),             *)
(* BootstrapManager::add_peer (api "bootstrap") and a real                 *)
(* DhtNetworkManager whose transport accepts inbound peers (api "connect").*)
(*                                                                         *)
(* The model state is Admission.tla's P-level: adm = the admitted nodes    *)
(* (id -> candidate).  Every decision is judged by AdmissionRules: an      *)
(* admission must not push a level over Limit (reading 1, the looser cap), *)
(* a refusal for IP reasons needs a level at LimitLo (reading 2, the       *)
(* stricter cap).  `ghost` is diagnosis only: slots the pinned tree is     *)
(* known to leave behind (eviction, failed insert, refreshed id); it names *)
(* the cause in the violation's cond, it never produces or excuses one.    *)
(***************************************************************************)
EXTENDS Naturals, Integers, Sequences, FiniteSets, TLC, Json, IOUtils, AdmissionRules

Rec == ndJsonDeserialize(IOEnv.TRACE)
N == Len(Rec)

VARIABLES l, api, cfg, ns, adm, ghost, conn, viol, nviol, ndec, sb
vars == <<l, api, cfg, ns, adm, ghost, conn, viol, nviol, ndec, sb>>
Ev == Rec[l]
Empty == [x \in {} |-> 0]

Note(clause, cond) ==
  /\ nviol' = nviol + 1
  /\ viol' = IF Len(viol) < 6000 THEN Append(viol, [line |-> l, clause |-> clause, cond |-> cond]) ELSE viol

Init == l = 1 /\ api = "" /\ cfg = Empty /\ ns = 0 /\ adm = Empty /\ ghost = <<>> /\ conn = Empty
        /\ viol = <<>> /\ nviol = 0 /\ ndec = 0 /\ sb = FALSE

Reset == /\ Ev.ev = "Reset" /\ api' = Ev.api /\ cfg' = Ev.cfg /\ ns' = Ev.ns
         /\ adm' = Empty /\ ghost' = <<>> /\ conn' = Empty /\ sb' = FALSE /\ UNCHANGED <<viol, nviol, ndec>>

SetNet == Ev.ev = "SetNet" /\ ns' = Ev.ns /\ UNCHANGED <<api, cfg, adm, ghost, conn, viol, nviol, ndec, sb>>

(* number of admitted nodes (ids in S) counted under key k *)
CountIn(a, S, k) == Cardinality({i \in S : k \in Keys(a[i])})
HasIp(x) == x.fam # 0                                     \* fam 0: the address is not an IP address, no level applies
KeysOf(x) == IF HasIp(x) THEN Keys(x) ELSE {}

(* cause of an unexpected refusal: which kinds of left-over slots share a level with the candidate *)
Srcs(x) == {ghost[i].src : i \in {j \in 1..Len(ghost) : Keys(ghost[j].x) \cap KeysOf(x) # {}}}
Cause(x) == IF api = "bootstrap" THEN (IF x.fam = 4 THEN "bootstrap-ipv4" ELSE "bootstrap-ipv6")
            ELSE IF Srcs(x) = {} THEN "none"
            ELSE "leak:" \o (IF "evict" \in Srcs(x) THEN "E" ELSE "") \o (IF "partial" \in Srcs(x) THEN "P" ELSE "")
                         \o (IF "refresh" \in Srcs(x) THEN "R" ELSE "")

(* the verdict on one decision about candidate x (id: the node's id, possibly listed already) *)
Others(id) == DOMAIN adm \ {id}
OverKeys(x, id) == {k \in KeysOf(x) : CountIn(adm, Others(id), k) + 1 > Limit(k, x, cfg, ns)}
Below(x) == \A k \in KeysOf(x) : CountIn(adm, DOMAIN adm, k) < LimitLo(k, x, cfg, ns)
OverCond(x, id) == IF x.fam = 4 /\ x.host /\ \A k \in OverKeys(x, id) : k[1] = "ASN" THEN "ipv4-hosting-asn"
                   ELSE (CHOOSE k \in OverKeys(x, id) : TRUE)[1]
Judge(x, id, ok, err) ==
  IF ok THEN (IF OverKeys(x, id) # {} THEN Note("CapAtAdmission", OverCond(x, id)) ELSE UNCHANGED <<viol, nviol>>)
  ELSE IF err \in {"bucket", "region", "validator"} THEN UNCHANGED <<viol, nviol>>      \* refused by another gate
  ELSE IF Below(x) THEN Note("AdmitWhenBelow", Cause(x)) ELSE UNCHANGED <<viol, nviol>>

Can == /\ Ev.ev = "Can" /\ ndec' = ndec + 1 /\ Judge(Ev.x, -1, Ev.ok, "ip")
       /\ UNCHANGED <<api, cfg, ns, adm, ghost, conn, sb>>

Add == /\ Ev.ev = "Add" /\ ndec' = ndec + 1 /\ Judge(Ev.x, Ev.id, Ev.ok, Ev.err)
       /\ IF Ev.ok
          THEN /\ adm' = [i \in DOMAIN adm \cup {Ev.id} |-> IF i = Ev.id THEN Ev.x ELSE adm[i]]
               /\ ghost' = IF Ev.id \in DOMAIN adm /\ HasIp(adm[Ev.id]) THEN Append(ghost, [x |-> adm[Ev.id], src |-> "refresh"]) ELSE ghost
          ELSE /\ UNCHANGED adm
               /\ ghost' = IF Ev.err \in {"bucket", "region"} /\ HasIp(Ev.x) THEN Append(ghost, [x |-> Ev.x, src |-> "partial"]) ELSE ghost
       /\ UNCHANGED <<api, cfg, ns, conn, sb>>

Rm == /\ Ev.ev = "Rm"
      /\ adm' = [i \in DOMAIN adm \ {Ev.id} |-> adm[i]]
      /\ ghost' = IF Ev.id \in DOMAIN adm /\ HasIp(adm[Ev.id]) /\ Ev.via # "remove_unified"
                  THEN Append(ghost, [x |-> adm[Ev.id], src |-> "evict"]) ELSE ghost
      /\ UNCHANGED <<api, cfg, ns, conn, viol, nviol, ndec, sb>>

(* get_diversity_stats(): per level the largest counter and the number of keys in use *)
LevelKeys(lv, fam) == {k \in UNION {KeysOf(adm[i]) : i \in DOMAIN adm} : k[1] = lv /\ k[2] = fam}
MaxOf(S) == IF S = {} THEN 0 ELSE CHOOSE m \in S : \A n \in S : n <= m
MaxCnt(lv, fam) == MaxOf({CountIn(adm, DOMAIN adm, k) : k \in LevelKeys(lv, fam)})
Stats == /\ Ev.ev = "Stats"
         /\ IF /\ Ev.mx = <<MaxCnt("L1", 6), MaxCnt("L2", 6), MaxCnt("L3", 6), MaxCnt("L1", 4), MaxCnt("L2", 4), MaxCnt("L3", 4)>>
               /\ Ev.tot = <<Cardinality(LevelKeys("L1", 6)), Cardinality(LevelKeys("L2", 6)), Cardinality(LevelKeys("L3", 6)),
                             Cardinality(LevelKeys("L1", 4)), Cardinality(LevelKeys("L2", 4)), Cardinality(LevelKeys("L3", 4))>>
            THEN UNCHANGED <<viol, nviol, sb>>
            ELSE /\ sb' = TRUE                                   \* reported once per segment, not at every later snapshot
                 /\ IF sb THEN UNCHANGED <<viol, nviol>> ELSE Note("SlotAccounting", "stats")
         /\ UNCHANGED <<api, cfg, ns, adm, ghost, conn, ndec>>

(* integrated path: peers that connected, then the content of the routing table *)
Connect == Ev.ev = "Connect" /\ conn' = [i \in DOMAIN conn \cup {Ev.id} |-> IF i = Ev.id THEN Ev.x ELSE conn[i]]
           /\ UNCHANGED <<api, cfg, ns, adm, ghost, viol, nviol, ndec, sb>>
Table == /\ Ev.ev = "Table" /\ ndec' = ndec + 1
         /\ LET S == {Ev.ids[i] : i \in 1..Len(Ev.ids)} \cap DOMAIN conn
                bad == {i \in S : \E k \in KeysOf(conn[i]) : CountIn(conn, S, k) > Limit(k, conn[i], cfg, ns)} IN
            IF bad = {} THEN UNCHANGED <<viol, nviol>> ELSE Note("CapAtAdmission", "connect-path")
         /\ UNCHANGED <<api, cfg, ns, adm, ghost, conn, sb>>

Panic == Ev.ev = "Panic" /\ Note("NoPanic", Ev.via) /\ UNCHANGED <<api, cfg, ns, adm, ghost, conn, ndec, sb>>

Next == /\ l <= N /\ l' = l + 1
        /\ (Reset \/ SetNet \/ Can \/ Add \/ Rm \/ Stats \/ Connect \/ Table \/ Panic)
Spec == Init /\ [][Next]_vars

Report == (l = N + 1) =>
  JsonSerialize(IOEnv.OUT, [consumed |-> l - 1, total |-> N, nviol |-> nviol, checked |-> ndec, viol |-> viol])
=============================================================================
