SPECIFICATION Spec
CONSTANTS
  Nodes = {1, 2, 3}
  MaxOps = 2
  VMax = 2
  AsImplemented_AbsentPerfect = TRUE
  StrictQuery = FALSE
INVARIANTS QueryIsLast DomainWellFormed SumWellFormed SuccessMonotone FailureMonotone FreshFailureZero SeverityOrder RelSound
CHECK_DEADLOCK FALSE
