SPECIFICATION Spec
CONSTANTS
  Tasks = {1, 2}
  MaxTime = 4
  ExecutorMayDie = FALSE
INVARIANTS NoDoubleHandOut
PROPERTIES HandOutRule CountersGrow
CHECK_DEADLOCK FALSE
