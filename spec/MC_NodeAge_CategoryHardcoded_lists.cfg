\* as implemented (same flag): the eligibility lists are not the active nodes whose category allows the operation; must violate ListsExact
SPECIFICATION Spec
CONSTANTS
  Unit = 1
  YoungAge = 1
  EstAge = 2
  VetAge = 3
  DaySecs = 2
  Nodes = {n1, n2}
  MaxT = 4
  MaxOps = 5
  MaxRejoin = 2
  ReplSet = {0, 1}
  CritSet = {0, 2}
  VetSet = {0, 3}
  BpdSet = {100}
  MaxbM = 150
  Retentions = {1}
  AsImplemented_CategoryHardcoded = TRUE
  AsImplemented_UptimeSinceLastSeen = FALSE
  AsImplemented_UnknownReasonWhenPassing = FALSE
  AsImplemented_CleanupByLastSeen = FALSE
  AsImplemented_RelaxedByReplOnly = FALSE
  AsImplemented_HugeRetentionPanics = FALSE
  Variant_RejoinResetsAge = FALSE
SYMMETRY Perms
CONSTRAINT Bounded
INVARIANTS TypeOK ListsExact
CHECK_DEADLOCK FALSE
