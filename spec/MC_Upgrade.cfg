\* RollbackManager, intended design (every AsImplemented_* flag FALSE): all backup-side invariants hold
SPECIFICATION SpecB
CONSTANTS
  Vers = {1, 2}
  Toks = {1, 2}
  NPaths = 1
  MaxBs = {1, 2}
  MaxAgeB = 1
  MaxAgeS = 1
  MaxOps = 4
  MaxTicks = 2
  AsImplemented_TieKeepsOlder = FALSE
  AsImplemented_SharedBackupFile = FALSE
  AsImplemented_CleanupNeedsDir = FALSE
  AsImplemented_RollbackToVersionNeedsDir = FALSE
  AsImplemented_GetStagedUnverified = FALSE
  AsImplemented_SweepIgnoresMetadata = FALSE
  Variant_RollbackUnverified = FALSE
INVARIANTS TypeOKB FileKeysUnique RollbackRestoresRecorded RollbackTouchesNothingElse BackupRollbackIdentity
  CreatedBackupIsLatest ListedBackupsExist NoOrphanFiles AtMostMaxBackups NothingTooOldAfterCleanup CleanupKeepsNewest
  CleanupAllLeavesNothingB CleanupFailsOnlyOnBadMetadata RestoreFailsOnlyOnBadBackup CanRollbackIsAPromise FailureIsHarmless
CHECK_DEADLOCK FALSE
