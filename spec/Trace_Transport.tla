---------------------------- MODULE Trace_Transport ----------------------------
(***************************************************************************)
(* Conformance acceptor for TransportHandle's peer bookkeeping (harness    *)
(* module tl).  Every `Step` event carries the projected state before and  *)
(* after one operation on the real object, the result and the events a     *)
(* subscriber received; the acceptor recomputes the step with the          *)
(* transition functions of TransportRules.tla (as-implemented variant).    *)
(* Mismatches are MODEL-DRIFT (informational): the module is not one of    *)
(* the listed properties.                                                  *)
(***************************************************************************)
EXTENDS TransportRules, Integers, Json, IOUtils

Recs == ndJsonDeserialize(IOEnv.TRACE)
N == Len(Recs)
VARIABLES l, drift, ndrift, n
tvars == <<l, drift, ndrift, n>>
Ev == Recs[l]

ToState(j) == [peers |-> [q \in {j.peers[i][1] : i \in 1..Len(j.peers)} |->
                           LET e == CHOOSE x \in {j.peers[i] : i \in 1..Len(j.peers)} : x[1] = q IN Rec(e[2], e[3])],
               active |-> {j.active[i] : i \in 1..Len(j.active)}, now |-> j.now]
Expected == LET s == ToState(Ev.pre) IN
  CASE Ev.op = "connect" -> Connect(s, Ev.p)
    [] Ev.op = "accept" -> Accept(s, Ev.p)
    [] Ev.op = "disconnect" -> Disconnect(s, Ev.p)
    [] Ev.op = "remove" -> Forget(s, Ev.p)
    [] Ev.op = "receive" -> Receive(s, Ev.p)
    [] Ev.op = "send" -> Send(s, Ev.p)
    [] Ev.op = "advance" -> Advance(s, Ev.d)
    [] OTHER -> [s |-> s, ev |-> <<>>, ok |-> TRUE]
ObservedEvents == [i \in 1..Len(Ev.events) |-> <<Ev.events[i][1], Ev.events[i][2]>>]
StepOk ==
  IF Ev.op = "maintain"
  THEN LET r == Maintain(ToState(Ev.pre)) IN
       ToState(Ev.post) = r.s /\ {ObservedEvents[i] : i \in 1..Len(ObservedEvents)} = r.evset /\ Len(ObservedEvents) = Cardinality(r.evset)
  ELSE LET r == Expected IN ToState(Ev.post) = r.s /\ Ev.ok = r.ok /\ ObservedEvents = r.ev

Init == l = 1 /\ drift = <<>> /\ ndrift = 0 /\ n = 0
Next == /\ l <= N /\ l' = l + 1
        /\ IF Ev.ev = "Step"
           THEN /\ n' = n + 1
                /\ IF StepOk THEN UNCHANGED <<drift, ndrift>>
                   ELSE /\ ndrift' = ndrift + 1
                        /\ drift' = IF Len(drift) < 20 THEN Append(drift, [line |-> l, op |-> Ev.op]) ELSE drift
           ELSE UNCHANGED <<drift, ndrift, n>>
Spec == Init /\ [][Next]_tvars
Report == (l = N + 1) => JsonSerialize(IOEnv.OUT, [consumed |-> l - 1, total |-> N, nviol |-> ndrift, checked |-> n, viol |-> drift])
=============================================================================
