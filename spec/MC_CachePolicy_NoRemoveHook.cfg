\* as implemented: the trait has no removal hook - insert(1), remove(1) leaves 1 in the bookkeeping for ever
SPECIFICATION Spec
CONSTANTS
  Keys = {1, 2, 3}
  Kinds = {"LRU", "LFU", "FIFO", "Adaptive"}
  MaxFreq = 3
  MaxLen = 4
  AsImplemented_NoRemoveHook = TRUE
  AsImplemented_FifoDuplicates = FALSE
  AsImplemented_UnseenNone = FALSE
  Variant_LruNoReindex = FALSE
INVARIANTS RemovedIsForgotten
CHECK_DEADLOCK FALSE
