------------------------------- MODULE Refresh -------------------------------
(***************************************************************************)
(* State machine of the bucket refresh / validation bookkeeping            *)
(* (BucketRefreshManager + the attack-mode switch of its validator) for    *)
(* exhaustive checking.  The transition functions are RefreshRules.tla and *)
(* are the same ones Trace_Refresh.tla holds against the real object.      *)
(* Specification growth module (not one of the listed properties).         *)
(*                                                                         *)
(* `last` remembers the operation that produced the current state so that  *)
(* the post-conditions of single operations can be stated as invariants.   *)
(***************************************************************************)
EXTENDS RefreshRules

CONSTANTS Buckets, Nodes, Counts, BatchClasses, MaxBatch, MaxAge, MaxCnt, MaxTracked, MaxOps, Thr,
          Ops        \* names of the operations Next may apply (lets a configuration go deep on one aspect)

VARIABLES st, last, nops
vars == <<st, last, nops>>

Start == [bk |-> <<>>, close |-> {}, recent |-> {}, thr |-> Thr, tvf |-> 0, val |-> TRUE, attack |-> FALSE, ind |-> ZeroInd]
NoArg == [op |-> "init", b |-> -1, n |-> -1, f |-> FALSE]
Init == st = Start /\ last = NoArg /\ nops = 0

Do(r, op, b, n, f) == op \in Ops /\ st' = r.s /\ last' = [op |-> op, b |-> b, n |-> n, f |-> f] /\ nops' = nops + 1
AllOps == {"touch", "success", "failure", "markclose", "markrecent", "retier", "vpass", "vfail", "vresult", "track", "untrack",
           "validate", "advance", "reset", "deesc"}

Batches == UNION {[1..k -> BatchClasses] : k \in 0..MaxBatch}
OldestAge == IF Exists(st) = {} THEN 0 ELSE CHOOSE a \in {st.bk[b].age : b \in Exists(st)} : \A c \in Exists(st) : st.bk[c].age <= a

Next ==
  /\ nops < MaxOps
  /\ \/ \E b \in Buckets :
          \/ Do(Touch(st, b), "touch", b, -1, FALSE)
          \/ \E n \in Counts : Do(Success(st, b, n), "success", b, n, FALSE)
          \/ Do(Failure(st, b), "failure", b, -1, FALSE)
          \/ Do(MarkClose(st, b), "markclose", b, -1, FALSE)
          \/ Do(MarkRecent(st, b), "markrecent", b, -1, FALSE)
          \/ Do(UpdateTier(st, b, b \in st.close, b \in st.recent), "retier", b, -1, FALSE)   \* the caller passes the truth
          \/ Do(VPass(st, b), "vpass", b, -1, FALSE)
          \/ Do(VFail(st, b), "vfail", b, -1, FALSE)
          \/ Do(VResult(st, b), "vresult", b, -1, FALSE)
          \/ \E n \in Nodes : Do(Track(st, b, n), "track", b, n, FALSE) \/ Do(Untrack(st, b, n), "untrack", b, n, FALSE)
          \/ \E cs \in Batches : Do(Validate(st, b, cs), "validate", b, Len(cs), st.attack \/ Trigger(st))
     \/ (OldestAge < MaxAge /\ Do(Advance(st, 1), "advance", -1, 1, FALSE))
     \/ Do(ResetFailures(st), "reset", -1, -1, FALSE)
     \/ Do(Deescalate(st), "deesc", -1, -1, st.attack /\ DeescGuard(st))
Spec == Init /\ [][Next]_vars

(* state constraint: keeps the counters small *)
Bounded == \A b \in Exists(st) : /\ st.bk[b].succ <= MaxCnt /\ st.bk[b].fail <= MaxCnt
                                 /\ st.bk[b].vp <= MaxCnt /\ st.bk[b].vf <= MaxCnt /\ Len(st.bk[b].tr) <= MaxTracked

(* ---- invariants of the design ---- *)
BucketOK(r) == /\ r.age \in 0..MaxAge /\ r.cnt \in Nat /\ r.tier \in Tiers /\ r.vage \in -1..MaxAge
               /\ r.succ \in Nat /\ r.fail \in Nat /\ r.vp \in Nat /\ r.vf \in Nat /\ Elems(r.tr) \subseteq Nodes
TypeOK == /\ Exists(st) \subseteq Buckets /\ \A b \in Exists(st) : BucketOK(st.bk[b])
          /\ st.close \subseteq Buckets /\ st.recent \subseteq Buckets /\ st.tvf \in Nat
          /\ st.attack \in BOOLEAN /\ st.ind.ecl \in 0..1000 /\ st.ind.recent \in Nat

(* a bucket that was just refreshed is not listed as needing refresh, and one refreshed "now" never is *)
FreshNotListed == /\ \A b \in Exists(st) : st.bk[b].age = 0 => b \notin RefreshSet(st)
                  /\ last.op = "success" => last.b \notin RefreshSet(st)
(* the tier is a function of (close group, recently used, population) with close group first *)
TierIsFunction == \A b \in Exists(st) : st.bk[b].tier = TierOf(b \in st.close, b \in st.recent, st.bk[b].cnt)
CloseGroupIsCritical == \A b \in Exists(st) \cap st.close : st.bk[b].tier = "Critical"
(* critical buckets are asked for first: with equal age a bucket of a more urgent tier is listed whenever a less urgent one is *)
UrgentFirst == \A b, c \in Exists(st) :
                  (st.bk[b].age = st.bk[c].age /\ Rank(st.bk[b].tier) <= Rank(st.bk[c].tier) /\ c \in RefreshSet(st)) => b \in RefreshSet(st)
(* tracked nodes are a set; untrack removes; the population follows the tracked nodes *)
TrackedIsSet == \A b \in Exists(st) : NoDup(st.bk[b].tr)
UntrackRemoves == last.op = "untrack" => last.n \notin Elems(NodesIn(st, last.b))
TrackCounts == last.op \in {"track", "untrack"} /\ last.b \in Exists(st) => st.bk[last.b].cnt = Len(st.bk[last.b].tr)
(* attack mode: entered exactly when the documented threshold is crossed at a batch; needs recorded failures;
   reset clears the counter; the validator's snapshot never claims more failures than the manager counts;
   de-escalation works when its condition holds and the last batch showed neither eclipse nor collusion *)
TriggerEscalates == last.op = "validate" /\ last.f => st.attack
AttackNeedsFailures == st.attack => Failed(st) > 0
ResetClears == last.op = "reset" => st.tvf = 0 /\ (Trigger(st) <=> RateBelow(Passed(st), Failed(st)))
SnapshotNotStale == st.ind.recent <= st.tvf
DeescalationEffective == (last.op = "deesc" /\ last.f /\ st.ind.ecl <= 500 /\ ~st.ind.manip) => ~st.attack
(* deliberately false statements: their counterexamples show that attack mode is entered and left within the bounds *)
Vac_NeverAttack == ~st.attack
Vac_NeverDeescalates == ~(last.op = "deesc" /\ last.f /\ ~st.attack)

(* counters only grow (nothing but reset_validation_failures ever lowers one); buckets are never forgotten *)
CountersGrow == [][/\ Exists(st) \subseteq Exists(st')
                   /\ \A b \in Exists(st) : /\ st'.bk[b].succ >= st.bk[b].succ /\ st'.bk[b].fail >= st.bk[b].fail
                                            /\ st'.bk[b].vp >= st.bk[b].vp /\ st'.bk[b].vf >= st.bk[b].vf
                   /\ (st'.tvf >= st.tvf \/ last'.op = "reset")
                   /\ st.close \subseteq st'.close /\ st.recent \subseteq st'.recent]_vars
=============================================================================
