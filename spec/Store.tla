-------------------------------- MODULE Store --------------------------------
(***************************************************************************)
(* Put / get of DhtNetworkManager over per-node stores.  The lookup that a *)
(* put or get embeds is abstracted by its guarantee (Lookup.tla, C01): the *)
(* K closest responsive peers the origin can reach through the knowledge   *)
(* graph, plus itself.  One action per RPC-level step: BeginPut, PutRpc(p), *)
(* EndPut; Get is atomic (it only reads).  Peers may be silent.            *)
(* Properties C03: PutHolds, NoSelfRpc, GetSound, SizeLimit.               *)
(***************************************************************************)
EXTENDS Naturals, Sequences, FiniteSets, Bitwise, SequencesExt, FiniteSetsExt, TLC

CONSTANTS Node, Keys, Vals, BigVals, K, MaxOps,
          AsImplemented_AckWithoutStore,  \* a node with a non-empty routing table acknowledges without storing
          AsImplemented_SelfTarget        \* the origin is among the replication targets it addresses

AllVals == Vals \cup BigVals
Dist(a, b) == a ^^ b
Edges == {e \in SUBSET Node : Cardinality(e) = 2}

VARIABLES adj, silent, store, written, op, sent, acks, reply, nops, selfrpc
vars == <<adj, silent, store, written, op, sent, acks, reply, nops, selfrpc>>

Knows(n) == {m \in Node : {n, m} \in adj}
RECURSIVE Reach(_, _)
Reach(S, n) == LET S2 == S \cup UNION {Knows(m) : m \in {x \in S : x \notin silent \/ x = n}} IN IF S2 = S THEN S ELSE Reach(S2, n)
Reachable(n) == Reach({n}, n) \ {n}
SortSet(S, k) == SetToSortSeq(S, LAMBDA a, b : Dist(a, k) < Dist(b, k))
Take(s, n) == SubSeq(s, 1, IF n < Len(s) THEN n ELSE Len(s))
(* guarantee of the embedded lookup: the K closest among the responsive reachable peers and the origin *)
LookupResult(n, k) == LET s == Take(SortSet(({p \in Reachable(n) : p \notin silent}) \cup {n}, k), K) IN {s[i] : i \in 1..Len(s)}
NoOp == [kind |-> "none"]

Init == /\ adj \in SUBSET Edges /\ silent \in SUBSET Node
        /\ store = [n \in Node |-> [k \in Keys |-> 0]]
        /\ written = [n \in Node |-> [k \in Keys |-> {}]]
        /\ op = NoOp /\ sent = {} /\ acks = {} /\ reply = [kind |-> "none"] /\ nops = 0 /\ selfrpc = FALSE

StoreAt(n, k, v) == /\ store' = [store EXCEPT ![n][k] = v]
                    /\ written' = [written EXCEPT ![n][k] = @ \cup {v}]

BeginPut(n, k, v) ==
  /\ op = NoOp /\ nops < MaxOps /\ n \notin silent /\ nops' = nops + 1
  /\ IF v \in BigVals
     THEN /\ reply' = [kind |-> "puterr", n |-> n, k |-> k, v |-> v] /\ UNCHANGED <<store, written, op, sent, acks, selfrpc>>
     ELSE /\ op' = [kind |-> "put", n |-> n, k |-> k, v |-> v,
                    targets |-> IF AsImplemented_SelfTarget THEN LookupResult(n, k) ELSE LookupResult(n, k) \ {n}]
          /\ IF AsImplemented_AckWithoutStore /\ Knows(n) # {} THEN UNCHANGED <<store, written>> ELSE StoreAt(n, k, v)
          /\ sent' = {} /\ acks' = {} /\ reply' = [kind |-> "none"] /\ UNCHANGED selfrpc
  /\ UNCHANGED <<adj, silent>>

PutRpc(p) ==
  /\ op.kind = "put" /\ p \in op.targets \ sent
  /\ sent' = sent \cup {p}
  /\ selfrpc' = (selfrpc \/ p = op.n)
  /\ IF p \in silent \/ p = op.n
     THEN UNCHANGED <<store, written, acks>>        \* no answer (a request to oneself fails in the transport)
     ELSE /\ acks' = acks \cup {p}
          /\ IF AsImplemented_AckWithoutStore /\ Knows(p) # {} THEN UNCHANGED <<store, written>> ELSE StoreAt(p, op.k, op.v)
  /\ UNCHANGED <<adj, silent, op, reply, nops>>

EndPut ==
  /\ op.kind = "put" /\ sent = op.targets
  /\ reply' = [kind |-> "putok", n |-> op.n, k |-> op.k, v |-> op.v, holders |-> acks \cup {op.n}]
  /\ op' = NoOp /\ UNCHANGED <<adj, silent, store, written, sent, acks, nops, selfrpc>>

(* remote PUT handler reached directly (raw request), incl. oversized values *)
RawPut(p, k, v) ==
  /\ op = NoOp /\ nops < MaxOps /\ p \notin silent /\ nops' = nops + 1
  /\ IF v \in BigVals THEN reply' = [kind |-> "puterr", n |-> p, k |-> k, v |-> v] /\ UNCHANGED <<store, written>>
     ELSE /\ reply' = [kind |-> "putok", n |-> p, k |-> k, v |-> v, holders |-> {p}]
          /\ IF AsImplemented_AckWithoutStore /\ Knows(p) # {} THEN UNCHANGED <<store, written>> ELSE StoreAt(p, k, v)
  /\ UNCHANGED <<adj, silent, op, sent, acks, selfrpc>>

Get(n, k) ==
  /\ op = NoOp /\ nops < MaxOps /\ n \notin silent /\ nops' = nops + 1
  /\ LET reached == {n} \cup {p \in Reachable(n) : p \notin silent}
         holders == {p \in reached : store[p][k] # 0} IN
     IF store[n][k] # 0 THEN reply' = [kind |-> "got", n |-> n, k |-> k, v |-> store[n][k], reached |-> reached] /\ UNCHANGED <<store, written>>
     ELSE IF holders = {} THEN reply' = [kind |-> "notfound", n |-> n, k |-> k, reached |-> reached] /\ UNCHANGED <<store, written>>
     ELSE \E h \in holders : /\ reply' = [kind |-> "got", n |-> n, k |-> k, v |-> store[h][k], reached |-> reached]
                             /\ StoreAt(n, k, store[h][k])       \* cached at the origin
  /\ UNCHANGED <<adj, silent, op, sent, acks, selfrpc>>

Next == \/ \E n \in Node, k \in Keys, v \in AllVals : BeginPut(n, k, v) \/ RawPut(n, k, v)
        \/ \E p \in Node : PutRpc(p)
        \/ EndPut
        \/ \E n \in Node, k \in Keys : Get(n, k)
Spec == Init /\ [][Next]_vars

(* ---- properties ---- *)
PutHolds == reply.kind = "putok" => \A h \in reply.holders : store[h][reply.k] = reply.v
NoSelfRpc == ~selfrpc
GetSound == reply.kind = "got" => \E m \in reply.reached : reply.v \in written[m][reply.k]
GetComplete == reply.kind = "notfound" => \A m \in reply.reached : store[m][reply.k] = 0
SizeLimit == /\ \A n \in Node, k \in Keys : store[n][k] \notin BigVals
             /\ reply.kind = "putok" => reply.v \notin BigVals
=============================================================================
