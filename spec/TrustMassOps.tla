---------------------------- MODULE TrustMassOps ----------------------------
(***************************************************************************)
(* Operators of the trust mass-flow model (see TrustMass.tla).  Shared by  *)
(* TrustMass.tla (lumped, exhaustive), TrustMassU.tla (un-lumped 4-node    *)
(* graph against its lumping) and Trace_TrustMass.tla (acceptor).          *)
(***************************************************************************)
EXTENDS Naturals, Integers, Sequences, FiniteSets, TLC

P == 1000000
Tol == 10                              \* ppm lost to integer division over the rounds

RECURSIVE SumF(_, _)
SumF(f, T) == IF T = {} THEN 0 ELSE LET c == CHOOSE x \in T : TRUE IN f[c] + SumF(f, T \ {c})
Abs(x) == IF x < 0 THEN -x ELSE x

(* one round; m, tele : [Cells -> Nat], out : [Cells -> SUBSET Cells] *)
StepOf(m, out, tele, drop) ==
  LET Cells == DOMAIN m
      share == [i \in Cells |-> IF out[i] = {} THEN 0 ELSE m[i] \div Cardinality(out[i])]
      inn == [c \in Cells |-> SumF([i \in Cells |-> IF c \in out[i] THEN share[i] ELSE 0], Cells)]
      dang == SumF([i \in Cells |-> IF out[i] = {} THEN m[i] ELSE 0], Cells)
      p == [c \in Cells |-> (6 * inn[c]) \div 10 + (4 * tele[c]) \div 10
                            + (IF drop THEN 0 ELSE (6 * ((dang * (tele[c] \div 1000)) \div 1000)) \div 10)]
      tot == SumF(p, Cells) IN
  \* floor(p*P/tot) by two-stage long division (TLC integers are 32 bit)
  [c \in Cells |-> ((p[c] * 1000) \div tot) * 1000 + (((p[c] * 1000) % tot) * 1000) \div tot]
L1(m1, m2) == SumF([c \in DOMAIN m1 |-> Abs(m1[c] - m2[c])], DOMAIN m1)
RoundsFor(n) == IF n > 500 THEN 4 ELSE IF n > 100 THEN 7 ELSE 50

(* ---- lumped configurations ---- *)
Cls == {"A", "H", "S"}
OutSet(x) == IF x = "none" THEN {} ELSE {x}
LumpOut(oA, oH, oS) == [c \in Cls |-> IF c = "A" THEN OutSet(oA) ELSE IF c = "H" THEN OutSet(oH) ELSE OutSet(oS)]
LumpTele == [c \in Cls |-> IF c = "A" THEN P ELSE 0]
LumpInit(a, h, s) == LET n == a + h + s IN
  [c \in Cls |-> IF c = "A" THEN (P * a) \div n ELSE IF c = "H" THEN (P * h) \div n ELSE (P * s) \div n]
ConfigOK(a, h, s, oA, oH, oS) ==
  /\ a >= 1 /\ s >= 1
  /\ oA \in {"A", "H", "none"} /\ oH \in {"A", "H", "none"} /\ oS \in {"S", "none"}
  /\ (h = 0 => oH = "none" /\ oA # "H")
ShareOf(s, n) == (P * s) \div n
(* does the configuration have a cell outside S that makes no statement (its mass is dangling) *)
DanglingOutside(h, oA, oH) == oA = "none" \/ (h > 0 /\ oH = "none")

=============================================================================
