\* intended design (a removal reaches the strategy, no duplicates, a non-empty cache always gets a victim): everything holds
SPECIFICATION Spec
CONSTANTS
  Keys = {1, 2, 3}
  Kinds = {"LRU", "LFU", "FIFO", "Adaptive"}
  MaxFreq = 4
  MaxLen = 4
  AsImplemented_NoRemoveHook = FALSE
  AsImplemented_FifoDuplicates = FALSE
  AsImplemented_UnseenNone = FALSE
  Variant_LruNoReindex = FALSE
INVARIANTS TypeOK VictimMember VictimSomeWhenNonEmpty VictimForOwnCache VictimsAgree LruNamesLeastRecent FifoNamesOldest LfuNamesMinCount CountsMatch
           TouchMakesNewest FreshInsertIsNewest InsertRestartsCount RemovedIsForgotten NoLeak PosConsistent CacheKnown
PROPERTIES FifoIgnoresAccess AccessCounts
CHECK_DEADLOCK FALSE
