SPECIFICATION Spec
CONSTANTS
  B = 4
  Cap = 2
  Self = 5
  MaxOps = 4
  NMax = 3
  AsImplemented_BucketWalk = TRUE
  AsImplemented_DupAdd = FALSE
INVARIANTS TypeOK TableWellFormed AnswerExact RemovedStaysOut
CHECK_DEADLOCK FALSE
