-------------------------- MODULE RateLimit_apalache --------------------------
(***************************************************************************)
(* Typed single-bucket core of RateLimit.tla for Apalache, with UNBOUNDED   *)
(* time: `now` is any natural number, a step advances it by 0..MaxStep.    *)
(* The bucket is Bucket::try_consume of src/rate_limit.rs as modelled in   *)
(* RateLimit.tla (tokens scaled by W, refill of `max` units per tick,      *)
(* capped at the burst; fixed window of length W with counter wc).         *)
(* An INDUCTIVE invariant shows, for histories of any length and any       *)
(* duration:                                                               *)
(*   n * W + tok <= burst * W + upd * max     (admitted <= burst + refill  *)
(*                                            earned, the C14 bound)       *)
(*   wc <= max                                (per-window maximum)         *)
(*   0 <= tok <= burst * W                    (cap at the burst size)      *)
(* Queries: Init => IndInv (length 0), IndInv /\ Next => IndInv' (length   *)
(* 1), IndInv => Props (length 0).                                          *)
(***************************************************************************)
EXTENDS Integers

W == 4
MaxStep == 9
Bursts == 1 .. 3
Maxes == 1 .. 3

VARIABLES
  \* @type: Int;
  now,
  \* @type: Int;
  burst,
  \* @type: Int;
  max,
  \* @type: Int;
  tok,
  \* @type: Int;
  upd,
  \* @type: Int;
  ws,
  \* @type: Int;
  wc,
  \* @type: Int;
  n

\* @type: (Int, Int) => Int;
Min2(a, b) == IF a < b THEN a ELSE b

Init == /\ now = 0 /\ burst \in Bursts /\ max \in Maxes
        /\ tok = burst * W /\ upd = 0 /\ ws = 0 /\ wc = 0 /\ n = 0

Tick == /\ \E d \in 0 .. MaxStep : now' = now + d
        /\ UNCHANGED <<burst, max, tok, upd, ws, wc, n>>

(* one try_consume at time `now`: roll the window, refill, then admit iff a token is there and the window has room *)
Request ==
  LET roll == now - ws > W
      tk   == Min2(tok + (now - upd) * max, burst * W)
      wc1  == IF roll THEN 0 ELSE wc
      ok   == tk >= W /\ wc1 < max IN
  /\ upd' = now /\ ws' = (IF roll THEN now ELSE ws)
  /\ tok' = (IF ok THEN tk - W ELSE tk)
  /\ wc' = (IF ok THEN wc1 + 1 ELSE wc1)
  /\ n' = (IF ok THEN n + 1 ELSE n)
  /\ UNCHANGED <<now, burst, max>>

Next == Tick \/ Request

IndInv == /\ burst \in Bursts /\ max \in Maxes
          /\ now \in Nat /\ upd \in Nat /\ ws \in Nat /\ tok \in Nat /\ wc \in Nat /\ n \in Nat
          /\ upd <= now /\ ws <= upd
          /\ tok >= 0 /\ tok <= burst * W
          /\ wc >= 0 /\ wc <= max
          /\ n >= 0
          /\ n * W + tok <= burst * W + upd * max
Props == /\ n * W <= burst * W + now * max      \* admitted <= burst + refill earned so far
         /\ wc <= max                           \* never more than the per-window maximum inside one fixed window
         /\ tok <= burst * W
===============================================================================
