-------------------------- MODULE Trace_CounterConc --------------------------
(***************************************************************************)
(* Acceptor for concurrent histories of the real MonotonicCounterSystem    *)
(* (harness module c12, command conc).  Events are ordered by a global     *)
(* ticket taken before every call and after every return:                  *)
(*   Call {t, reqs, res}   task t invokes validate_sequence / batch_update *)
(*                         (res = what this call later returned)           *)
(*   Ret  {t}              the call of task t has returned                 *)
(* A call takes effect at one internal step Lin(t) between its Call and    *)
(* its Ret (Counter.tla); TLC searches the positions of the Lin steps.     *)
(* This specification BRANCHES, so there is no violation collection: a     *)
(* segment is accepted iff some path consumes all of its lines; every      *)
(* accepted segment prints <<"SEGOK", index>>.  At each Reset the path     *)
(* also forks into a `skip` copy that swallows the segment, so a rejected  *)
(* segment does not stop the validation of the following ones.             *)
(***************************************************************************)
EXTENDS Naturals, Integers, Sequences, FiniteSets, SequencesExt, TLC, Json, IOUtils, CounterRules

Rec == ndJsonDeserialize(IOEnv.TRACE)
N == Len(Rec)
P == 1 .. 8
T == 1 .. 16

VARIABLES l, seg, skip, last, pend
vars == <<l, seg, skip, last, pend>>
Ev == Rec[l]
None == [phase |-> "none"]

Init == l = 1 /\ seg = 0 /\ skip = FALSE /\ last = [p \in P |-> 0] /\ pend = [t \in T |-> None]
        /\ TLCSet(1, 0)

Reached == TLCSet(1, IF l > TLCGet(1) THEN l ELSE TLCGet(1))

(* Reset and End close the previous segment; a path that arrives here unskipped accepted it *)
Boundary == /\ l <= N /\ Ev.ev \in {"Reset", "End"}
            /\ (seg > 0 /\ ~skip) => PrintT(<<"SEGOK", seg>>)
            /\ seg' = seg + 1 /\ skip' \in {FALSE, TRUE}
            /\ last' = [p \in P |-> 0] /\ pend' = [t \in T |-> None]
            /\ l' = l + 1 /\ (IF skip THEN TRUE ELSE Reached)

Skip == /\ l <= N /\ skip /\ Ev.ev \notin {"Reset", "End"}
        /\ l' = l + 1 /\ UNCHANGED <<seg, skip, last, pend>>

Call == /\ l <= N /\ ~skip /\ Ev.ev = "Call" /\ pend[Ev.t] = None
        /\ pend' = [pend EXCEPT ![Ev.t] = [phase |-> "called", reqs |-> Ev.reqs, res |-> Ev.res]]
        /\ l' = l + 1 /\ Reached /\ UNCHANGED <<seg, skip, last>>

(* effect of the call of task t on the marks, given the results it returned; "bad" when a  *)
(* result is not allowed at this point                                                    *)
RECURSIVE Run(_, _, _, _)
Run(reqs, res, i, lst) ==
  IF i > Len(reqs) THEN [ok |-> TRUE, last |-> lst]
  ELSE LET r == reqs[i] IN
       IF res[i] \notin AllowedT(lst[r.p], r.s, r.ts) THEN [ok |-> FALSE, last |-> lst]
       ELSE Run(reqs, res, i + 1, IF res[i] = "Valid" THEN [lst EXCEPT ![r.p] = r.s] ELSE lst)

(* linearisation step: no line consumed.  Complete although restricted to the moment just   *)
(* before a Ret of a task whose call has not taken effect yet: Lin steps commute with Call  *)
(* events, and a Lin(u) after Lin(t) can be postponed beyond Ret(t).                       *)
Lin(t) == /\ l <= N /\ ~skip /\ Ev.ev = "Ret" /\ pend[Ev.t].phase = "called"
          /\ pend[t].phase = "called"
          /\ LET out == Run(pend[t].reqs, pend[t].res, 1, last) IN
             /\ out.ok
             /\ last' = out.last
          /\ pend' = [pend EXCEPT ![t] = [phase |-> "done"]]
          /\ UNCHANGED <<l, seg, skip>>

Ret == /\ l <= N /\ ~skip /\ Ev.ev = "Ret" /\ pend[Ev.t].phase = "done"
       /\ pend' = [pend EXCEPT ![Ev.t] = None]
       /\ l' = l + 1 /\ Reached /\ UNCHANGED <<seg, skip, last>>

Next == Boundary \/ Skip \/ Call \/ Ret \/ \E t \in T : Lin(t)
Spec == Init /\ [][Next]_vars

(* highest line reached by an unskipped path (diagnostic for a rejected single segment) *)
Post == JsonSerialize(IOEnv.OUT, [total |-> N, maxline |-> TLCGet(1)])
=============================================================================
