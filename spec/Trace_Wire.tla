------------------------------ MODULE Trace_Wire ------------------------------
(***************************************************************************)
(* Conformance acceptor for the "/dht/1.0.0" frames the in-memory hub saw  *)
(* (harness c01, frames=<file>).  Frames sent by REAL nodes are judged:    *)
(* request ids are never reused by a node; a response answers a request    *)
(* that was delivered to the responder and is not answered yet, goes to    *)
(* the requester, and carries a result kind that belongs to the            *)
(* operation (Wire!Answers).  Mismatches = MODEL-DRIFT.                    *)
(***************************************************************************)
EXTENDS Naturals, Integers, Sequences, FiniteSets, TLC, Json, IOUtils

Answers(op) ==
  CASE op = "Put" -> {"PutSuccess"}
    [] op = "FindNode" -> {"NodesFound", "GetNotFound"}
    [] op \in {"FindValue", "Get"} -> {"ValueFound", "GetSuccess", "NodesFound", "GetNotFound"}
    [] op = "Ping" -> {"PongReceived"}
    [] op = "Join" -> {"JoinSuccess"}
    [] op = "Leave" -> {"LeaveSuccess"}
    [] OTHER -> {}

Recs == ndJsonDeserialize(IOEnv.TRACE)
N == Len(Recs)
VARIABLES l, open, usedIds, drift, ndrift, n
tvars == <<l, open, usedIds, drift, ndrift, n>>
Ev == Recs[l]
Drift(what) == /\ ndrift' = ndrift + 1
               /\ drift' = IF Len(drift) < 20 THEN Append(drift, [line |-> l, what |-> what]) ELSE drift
NoDrift == UNCHANGED <<drift, ndrift>>

Init == l = 1 /\ open = {} /\ usedIds = {} /\ drift = <<>> /\ ndrift = 0 /\ n = 0
Reset == Ev.ev = "Reset" /\ open' = {} /\ usedIds' = {} /\ NoDrift /\ UNCHANGED n
Req == /\ Ev.ev = "Frame" /\ Ev.mtype = "Request" /\ n' = n + 1
       /\ IF Ev.real /\ <<Ev.from, Ev.id>> \in usedIds THEN Drift("request-id-reused") ELSE NoDrift
       /\ usedIds' = usedIds \cup {<<Ev.from, Ev.id>>}
       /\ open' = IF Ev.fate = "delivered" THEN open \cup {[src |-> Ev.from, dst |-> Ev.to, id |-> Ev.id, op |-> Ev.op]} ELSE open
Resp == /\ Ev.ev = "Frame" /\ Ev.mtype = "Response" /\ n' = n + 1
        /\ LET match == {r \in open : r.src = Ev.to /\ r.dst = Ev.from /\ r.id = Ev.id} IN
           /\ IF ~Ev.real THEN NoDrift
              ELSE IF match = {} THEN Drift("response-without-open-request")
              ELSE IF Ev.result \notin Answers((CHOOSE r \in match : TRUE).op) THEN Drift("result-kind")
              ELSE NoDrift
           /\ open' = open \ match
        /\ UNCHANGED usedIds
Other == Ev.ev = "Frame" /\ Ev.mtype \notin {"Request", "Response"} /\ NoDrift /\ UNCHANGED <<open, usedIds, n>>
Next == l <= N /\ l' = l + 1 /\ (Reset \/ Req \/ Resp \/ Other)
Spec == Init /\ [][Next]_tvars
Report == (l = N + 1) => JsonSerialize(IOEnv.OUT, [consumed |-> l - 1, total |-> N, nviol |-> ndrift, checked |-> n, viol |-> drift])
=============================================================================
