\* the code as it is (all deviations on): what still holds
SPECIFICATION Spec
CONSTANTS
  Keys = {1, 2, 3}
  Kinds = {"LRU", "LFU", "FIFO", "Adaptive"}
  MaxFreq = 3
  MaxLen = 4
  AsImplemented_NoRemoveHook = TRUE
  AsImplemented_FifoDuplicates = TRUE
  AsImplemented_UnseenNone = TRUE
  Variant_LruNoReindex = FALSE
INVARIANTS TypeOK VictimMember VictimForOwnCache VictimsAgree LruNamesLeastRecent LfuNamesMinCount CountsMatch TouchMakesNewest InsertRestartsCount PosConsistent CacheKnown
PROPERTIES FifoIgnoresAccess AccessCounts OthersUndisturbed
CHECK_DEADLOCK FALSE
