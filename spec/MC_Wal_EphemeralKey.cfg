SPECIFICATION Spec
CONSTANTS
  Keys = {1, 2}
  Vals = {1, 2}
  MaxOps = 4
  RotAt = 2
  MaxCrash = 2
  MaxClock = 2
  WithBatch = TRUE
  AsImplemented_EphemeralKey = TRUE
  AsImplemented_CurSortsFirst = FALSE
  AsImplemented_NameBySecond = FALSE
  AsImplemented_AppendAfterTorn = FALSE
  AsImplemented_OldestSnapshot = FALSE
  AsImplemented_BatchPerRecord = FALSE
INVARIANTS PrefixRecovery CounterMonotone CleanRestart
CHECK_DEADLOCK FALSE
