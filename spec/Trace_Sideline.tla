--------------------------- MODULE Trace_Sideline ---------------------------
(***************************************************************************)
(* Acceptor for traces recorded by harness module c16 from the real        *)
(* EvictionManager (segments of kind "evict"), TrustAwarePeerSelector      *)
(* (kind "select") and DhtCoreEngine (kind "engine").  The model state is  *)
(* the P-level state of SidelineRules / Kademlia: per-peer (cf, trust,     *)
(* mark) and the member / removed sets of the routing table.  Every        *)
(* observation is compared with the policy; mismatches are collected.      *)
(***************************************************************************)
EXTENDS SidelineRules, Json, IOUtils

Rec == ndJsonDeserialize(IOEnv.TRACE)
N == Len(Rec)

VARIABLES l, seg,                   \* line, current Reset record
          cf, trust, mark,          \* eviction model
          S, removed,               \* engine model
          viol, nviol, nchk, pareto, vacEq
vars == <<l, seg, cf, trust, mark, S, removed, viol, nviol, nchk, pareto, vacEq>>

Ev == Rec[l]
NoMark == [k |-> "", n |-> 0]

(* violation collection: at most 40 entries per (clause, site, cond) signature are kept in viol.list, so a
   frequent (known) signature can never crowd out a different one; viol.bad lists every rejected line *)
Note(clause, site, cond) ==
  /\ nviol' = nviol + 1
  /\ viol' = [list |-> IF Cardinality({i \in 1..Len(viol.list) : viol.list[i].clause = clause /\ viol.list[i].site = site
                                                                   /\ viol.list[i].cond = cond}) < 40
                       THEN Append(viol.list, [line |-> l, clause |-> clause, site |-> site, cond |-> cond])
                       ELSE viol.list,
              bad |-> IF Len(viol.bad) < 50000 THEN Append(viol.bad, l) ELSE viol.bad]
Quiet == UNCHANGED <<viol, nviol>>

Init == /\ l = 1 /\ seg = [kind |-> "none"] /\ cf = <<>> /\ trust = <<>> /\ mark = <<>>
        /\ S = {} /\ removed = {} /\ viol = [list |-> <<>>, bad |-> <<>>] /\ nviol = 0 /\ nchk = 0 /\ pareto = 0 /\ vacEq = 0

Reset == /\ Ev.ev = "Reset" /\ seg' = Ev
         /\ IF Ev.kind = "evict"
            THEN /\ cf' = [p \in 1..Ev.npeers |-> 0] /\ trust' = [p \in 1..Ev.npeers |-> NoTrust]
                 /\ mark' = [p \in 1..Ev.npeers |-> NoMark]
            ELSE cf' = <<>> /\ trust' = <<>> /\ mark' = <<>>
         /\ S' = {} /\ removed' = {}
         /\ UNCHANGED <<viol, nviol, nchk, pareto, vacEq>>

(* ------------------------------ eviction ------------------------------ *)
EvOp == /\ Ev.ev \in {"Fail", "Succ", "Trust", "Mark", "Forget"}
        /\ LET p == Ev.p IN
           /\ cf' = CASE Ev.ev = "Fail" -> [cf EXCEPT ![p] = @ + 1]
                      [] Ev.ev \in {"Succ", "Forget"} -> [cf EXCEPT ![p] = 0]
                      [] OTHER -> cf
           /\ trust' = CASE Ev.ev = "Trust" -> [trust EXCEPT ![p] = Ev.t]
                         [] Ev.ev = "Forget" -> [trust EXCEPT ![p] = NoTrust]
                         [] OTHER -> trust
           /\ mark' = CASE Ev.ev = "Mark" -> [mark EXCEPT ![p] = [k |-> Ev.k, n |-> Ev.n]]
                        [] Ev.ev = "Forget" -> [mark EXCEPT ![p] = NoMark]
                        [] OTHER -> mark
        /\ Quiet /\ UNCHANGED <<seg, S, removed, nchk, pareto, vacEq>>

IsCand(p) == Candidate(cf[p], trust[p], mark[p].k, seg.maxFail, seg.minTrust)
Kind(p) == ReasonKind(cf[p], trust[p], mark[p].k, seg.maxFail, seg.minTrust)
(* a logged reason [k, n] is the one the precedence rule gives (n = the count for ConsecutiveFailures) *)
ReasonOk(p, r) ==
  /\ r.k = Kind(p)
  /\ (r.k = "ConsecutiveFailures") => r.n = (IF mark[p].k # "" THEN mark[p].n ELSE cf[p])

Cands ==
  /\ Ev.ev = "Cands"
  /\ LET listed == {Ev.c[i].p : i \in 1..Len(Ev.c)}
         expected == {p \in DOMAIN cf : IsCand(p)}
     IN IF listed # expected
        THEN Note("CandidatesExact", "get_eviction_candidates", IF expected \ listed # {} THEN "missing" ELSE "extra")
        ELSE IF \E i \in 1..Len(Ev.c) : ~ReasonOk(Ev.c[i].p, Ev.c[i])
             THEN Note("ReasonPrecedence", "get_eviction_candidates", "any")
             ELSE Quiet
  /\ nchk' = nchk + 1
  /\ UNCHANGED <<seg, cf, trust, mark, S, removed, pareto, vacEq>>

Peer ==
  /\ Ev.ev = "Peer"
  /\ LET p == Ev.p IN
     IF (Ev.reason.k # "") # IsCand(p) THEN Note("CandidatesExact", "get_eviction_reason", IF IsCand(p) THEN "missing" ELSE "extra")
     ELSE IF Ev.reason.k # "" /\ ~ReasonOk(p, Ev.reason) THEN Note("ReasonPrecedence", "get_eviction_reason", "any")
     ELSE IF Ev.evictF # (cf[p] >= seg.maxFail) THEN Note("CandidatesExact", "should_evict", "any")
     ELSE IF Ev.evictT # Below(trust[p], seg.minTrust) THEN Note("CandidatesExact", "should_evict_for_trust", "any")
     ELSE IF Ev.cf # cf[p] THEN Note("SuccessClears", "get_consecutive_failures", "any")
     ELSE Quiet
  /\ nchk' = nchk + 1
  /\ UNCHANGED <<seg, cf, trust, mark, S, removed, pareto, vacEq>>

(* ------------------------------ selection ------------------------------ *)
RECURSIVE HighBit(_, _)      \* index from the most significant of `bits` bits of the highest set bit of x > 0
HighBit(x, bits) == IF x >= 2^(bits - 1) THEN 0 ELSE 1 + HighBit(x, bits - 1)
(* the pair's distances agree in every bit the f64 score of the pinned tree can see
   (margins: 53 mantissa bits minus what 1/(1+x) and the product may merge; 128-bit prefix;
   1e30 dampening hides everything below bit ~78) *)
Erased(a, b, key) ==
  LET da == Dist(a, key)  db == Dist(b, key)
      p0 == seg.pos[1 + HighBit(IF da > db THEN da ELSE db, seg.bits)]
      q == seg.pos[1 + HighBit(da ^^ db, seg.bits)]
  IN q >= 128 \/ q - p0 >= 45 \/ q >= 70

(* trust_weight 0 and trust 0: the trust factor, hence every score, is 0 whatever the distance *)
ZeroFactor(a) == Ev.alpha = 0 /\ Tr(Ev.cands, a).v = 0

Select ==
  /\ Ev.ev = "Select"
  /\ LET b == SelBroken(Ev.cands, Ev.ans, Ev.key, Ev.count, Ev.excl, Ev.thr)
         bad == FartherAheadPairs(Ev.cands, Ev.ans, Ev.key)
     IN /\ IF b = "" THEN Quiet
           ELSE IF b = "NoFartherAhead"
                THEN Note(b, Ev.via,
                          IF \A p \in bad : Erased(p[1], p[2], Ev.key) THEN "score-tie:f64"
                          ELSE IF \A p \in bad : ZeroFactor(p[1]) THEN "score-tie:zero-factor"
                          ELSE IF \A p \in bad : Erased(p[1], p[2], Ev.key) \/ ZeroFactor(p[1]) THEN "score-tie:f64+zero-factor"
                          ELSE "unexplained")
                ELSE Note(b, Ev.via, "any")
        /\ pareto' = pareto + (IF b = "" /\ ParetoInversions(Ev.cands, Ev.ans, Ev.key) # {} THEN 1 ELSE 0)
  /\ nchk' = nchk + 1
  /\ UNCHANGED <<seg, cf, trust, mark, S, removed, vacEq>>

(* ------------------------------ engine ------------------------------ *)
Add == /\ Ev.ev = "Add"
       /\ IF Ev.ok /\ Ev.x # seg.self THEN S' = S \cup {Ev.x} /\ removed' = removed \ {Ev.x}
          ELSE UNCHANGED <<S, removed>>
       /\ Quiet /\ UNCHANGED <<seg, cf, trust, mark, nchk, pareto, vacEq>>
Rm == /\ Ev.ev = "Rm"
      /\ S' = S \ {Ev.x} /\ removed' = removed \cup {Ev.x}
      /\ Quiet /\ UNCHANGED <<seg, cf, trust, mark, nchk, pareto, vacEq>>
(* an evicted or failed peer appears in no closest-node answer until it is added again
   (exactness of the answer itself is property C02) *)
Find == /\ Ev.ev = "Find"
        /\ IF \E i \in 1..Len(Ev.ans) : Ev.ans[i] \in removed THEN Note("RemovedStaysOut", Ev.via, "any") ELSE Quiet
        /\ nchk' = nchk + 1
        /\ UNCHANGED <<seg, cf, trust, mark, S, removed, pareto, vacEq>>
(* trust selection enabled on the engine (a real EigenTrustEngine is the provider): the storage targets are a selection, in the
   sense of SelBroken, from the 3n closest members (the engine's candidate widening for storage) under the storage
   configuration, and as many as the eligible candidates allow.  Ev.tr[x + 1] is the trust record of model id x as the
   provider reported it at the call, values being dense ranks (order-preserving; Ev.thr is the rank of the threshold). *)
StoreCands == LET c3 == Closest(S, Ev.key, 3 * Ev.n) IN [i \in 1..Len(c3) |-> [id |-> c3[i], t |-> Ev.tr[c3[i] + 1]]]
StoreEligible == {i \in 1..Len(StoreCands) : ~(Ev.excl /\ Below(StoreCands[i].t, Ev.thr)) /\ StoreCands[i].t.k # "nan"}
StoreTrustBroken ==
  LET b == SelBroken(StoreCands, Ev.ans, Ev.key, Ev.n, Ev.excl, Ev.thr) IN
  IF b # "" THEN b
  ELSE IF Len(Ev.ans) # (IF Cardinality(StoreEligible) < Ev.n THEN Cardinality(StoreEligible) ELSE Ev.n) THEN "SelCount"
  ELSE ""
(* trust selection disabled: the storage targets are exactly the closest members in distance order *)
Store == /\ Ev.ev = "Store"
         /\ IF \E i \in 1..Len(Ev.ans) : Ev.ans[i] \in removed THEN Note("RemovedStaysOut", "store", "any")
            ELSE IF ~Ev.trustSel /\ Ev.ans # Closest(S, Ev.key, Ev.n) THEN Note("DisabledIsClosest", "store", "any")
            ELSE IF Ev.trustSel /\ StoreTrustBroken # "" THEN Note(StoreTrustBroken, "store", "trust-selection")
            ELSE Quiet
         /\ nchk' = nchk + 1
         /\ UNCHANGED <<seg, cf, trust, mark, S, removed, pareto, vacEq>>
Failed == /\ Ev.ev \in {"FindErr", "Panic"} /\ Note("NoPanicNoError", Ev.via, "any")
          /\ UNCHANGED <<seg, cf, trust, mark, S, removed, nchk, pareto, vacEq>>

Next == /\ l <= N /\ l' = l + 1
        /\ (Reset \/ EvOp \/ Cands \/ Peer \/ Select \/ Add \/ Rm \/ Find \/ Store \/ Failed)
Spec == Init /\ [][Next]_vars

Report == (l = N + 1) =>
  JsonSerialize(IOEnv.OUT, [consumed |-> l - 1, total |-> N, nviol |-> nviol, checked |-> nchk, viol |-> viol.list, badlines |-> viol.bad,
                            pareto |-> pareto])
=============================================================================
