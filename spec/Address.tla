------------------------------ MODULE Address ------------------------------
(***************************************************************************)
(* Textual address formats of saorsa-core and who hands them to whom.      *)
(*                                                                         *)
(* Producers (form each emits)                                             *)
(*   Display        impl Display for NetworkAddress        address.rs:141  *)
(*   SockToString   SocketAddr::to_string (listen_addr, PeerInfo.addresses)*)
(*   FourWords      NetworkAddress::four_words             address.rs:84   *)
(*   ToMultiaddr    socket_addr_to_multiaddr string  dht_network_manager.rs:1613 *)
(*   BootEncode     bootstrap::WordEncoder::encode_socket_addr  bootstrap/mod.rs:113 *)
(* Consumers (forms each understands)                                      *)
(*   FromStr        impl FromStr for NetworkAddress        address.rs:151  *)
(*   FromFourWords  NetworkAddress::from_four_words        address.rs:105  *)
(*   AddNode        DhtCoreEngine::add_node IP gates       core_engine.rs:1303 *)
(*   MultiaddrFrom  multiaddr_from_address (strips " (")   dht_network_manager.rs:1591 *)
(*   Dial           dial_candidate (strips " (") -> connect_peer  :1847    *)
(*   BootDecode     bootstrap::WordEncoder::decode_to_socket_addr  bootstrap/mod.rs:95 *)
(* Wiring (producer -> consumer, where in the code)                        *)
(*   Display -> FromStr        the rendering is the type's own text form   *)
(*   Display -> AddNode        handle_peer_connected: addr.to_string() -> NodeInfo.address :2324 *)
(*   Display -> Dial           NodeInfo.address -> DHTNode.address (find-node replies) -> dial_candidate *)
(*   SockToString -> Dial      local_dht_node listen_addr.to_string() :1533 *)
(*   SockToString -> MultiaddrFrom   PeerInfo.addresses -> parse_peer_addresses :1583 *)
(*   ToMultiaddr -> FromStr    socket_addr_to_multiaddr parses its own string :1628 *)
(*   FourWords -> FromFourWords, FourWords -> FromStr                      *)
(*   BootEncode -> BootDecode                                              *)
(*   Reply -> Dial             the string inside a NodesFound reply of a   *)
(*                             real node, dialled by the node that asked   *)
(*                                                                         *)
(* The model sends an address through a producer and along the wiring and  *)
(* checks at every consumer that the same address comes out.  Addresses:   *)
(* "a" ordinary, "p65535" one with port 65535.                             *)
(*                                                                         *)
(* Deviations of the pinned tree:                                          *)
(*   AsImplemented_FromStrNoSuffix  FromStr does not understand sockWords  *)
(*   AsImplemented_AddNodeNoSuffix  add_node does not understand sockWords *)
(*   AsImplemented_Port65535        the word encoding of port 65535 cannot *)
(*                                  be decoded (four-word-networking)      *)
(***************************************************************************)
EXTENDS Integers, Sequences, FiniteSets, TLC, AddressRules

CONSTANTS AsImplemented_FromStrNoSuffix, AsImplemented_AddNodeNoSuffix, AsImplemented_Port65535

Addr == {"a", "p65535"}
Emits == [p \in Producers |->
  CASE p = "Display" -> {"sockWords"}      \* "ip:port (w-w-w-w)"; plain sock when no words exist
    [] p = "SockToString" -> {"sock"}
    [] p = "FourWords" -> {"words"}
    [] p = "ToMultiaddr" -> {"multiaddr"}
    [] p = "BootEncode" -> {"words"}
    [] p = "Reply" -> {"sockWords"}]         \* NodeInfo.address as stored by handle_peer_connected (Display of the Multiaddr)

Accepts == [c \in Consumers |->
  CASE c = "FromStr" -> {"sock", "multiaddr", "words"} \cup (IF AsImplemented_FromStrNoSuffix THEN {} ELSE {"sockWords"})
    [] c = "FromFourWords" -> {"words"}
    [] c = "AddNode" -> {"sock", "ipOnly"} \cup (IF AsImplemented_AddNodeNoSuffix THEN {} ELSE {"sockWords"})
    [] c = "MultiaddrFrom" -> {"sock", "sockWords"}
    [] c = "Dial" -> {"sock", "sockWords"}
    [] c = "BootDecode" -> {"words"}]

(* consumers that turn what they read into a NetworkAddress and render it again (the string travels on) *)
Relays == [c \in Consumers |-> IF c \in {"FromStr", "MultiaddrFrom", "FromFourWords"} THEN {"Display", "FourWords"} ELSE {}]

(* ---- encode / decode of abstract strings <<address, form>> ---- *)
Encode(p, a, f) == IF f \in {"words", "sockWords"} /\ a = "p65535" /\ AsImplemented_Port65535 /\ f = "words"
                   THEN <<"undecodable", f>> ELSE <<a, f>>
Decode(c, s) == IF s[2] \in Accepts[c] /\ s[1] # "undecodable" THEN s[1] ELSE "error"

VARIABLES orig, str, holder, hops, verdict
vars == <<orig, str, holder, hops, verdict>>

Init == /\ orig \in Addr /\ holder \in Producers /\ hops = 0 /\ verdict = "same"
        /\ str \in {Encode(holder, orig, f) : f \in Emits[holder]}

(* the string held by producer `holder` is handed to a consumer it is wired to *)
Hand(c) ==
  /\ hops < 3 /\ <<holder, c>> \in Wiring
  /\ verdict' = IF Decode(c, str) = orig THEN "same" ELSE IF Decode(c, str) = "error" THEN "error" ELSE "different"
  /\ hops' = hops + 1
  /\ \/ \E p \in Relays[c] : \E f \in Emits[p] : holder' = p /\ str' = Encode(p, orig, f)
     \/ holder' = holder /\ str' = str
  /\ UNCHANGED orig

Next == \E c \in Consumers : Hand(c)
Spec == Init /\ [][Next]_vars

(* ---- properties ---- *)
EveryHopSame == RoundTripOk(verdict)
InteropHolds == (hops >= 0) => Interop(Wiring, Emits, Accepts)
=============================================================================
