--------------------------- MODULE Trace_Placement ---------------------------
(***************************************************************************)
(* Acceptor for traces recorded by harness module c17 from the real        *)
(* WeightedPlacementStrategy / PlacementEngine (Place events),             *)
(* WeightedSampler::sample_nodes (Sample events), the 10:1 sampling tally  *)
(* (Tally), ReplicationFactor / ByzantineTolerance (Rf, RfValid, Bt).      *)
(* Stateless: each event carries its input and outcome; the P-level rules  *)
(* of PlacementRules.tla decide.  `near` pairs are derived by the harness  *)
(* from the grid construction (site ids), not from the library.            *)
(***************************************************************************)
EXTENDS PlacementRules, Json, IOUtils

Rec == ndJsonDeserialize(IOEnv.TRACE)
N == Len(Rec)

VARIABLES l, viol, nviol, nchk, nok, distodd
vars == <<l, viol, nviol, nchk, nok, distodd>>
Ev == Rec[l]

(* violation collection: at most 40 entries per (clause, site, cond) signature are kept in viol.list, so a
   frequent (known) signature can never crowd out a different one; viol.bad lists every rejected line *)
Note(clause, site, cond) ==
  /\ nviol' = nviol + 1
  /\ viol' = [list |-> IF Cardinality({i \in 1..Len(viol.list) : viol.list[i].clause = clause /\ viol.list[i].site = site
                                                                   /\ viol.list[i].cond = cond}) < 40
                       THEN Append(viol.list, [line |-> l, clause |-> clause, site |-> site, cond |-> cond])
                       ELSE viol.list,
              bad |-> IF Len(viol.bad) < 50000 THEN Append(viol.bad, l) ELSE viol.bad]
Quiet == UNCHANGED <<viol, nviol>>

Init == l = 1 /\ viol = [list |-> <<>>, bad |-> <<>>] /\ nviol = 0 /\ nchk = 0 /\ nok = 0 /\ distodd = 0

Reset == Ev.ev = "Reset" /\ Quiet /\ UNCHANGED <<nchk, nok, distodd>>

(* a placement call: out.ok with the selected ids, or an error (always admissible), or a panic *)
Place ==
  /\ Ev.ev = "Place"
  /\ IF Ev.out.kind = "panic" THEN Note("NoPanic", Ev.via, Ev.scores)
     ELSE IF Ev.out.kind = "ok"
          THEN LET b == OkBroken(Ev.cands, Ev.out.sel, Ev.k) IN
               IF b # "" THEN Note(b, Ev.via, "any") ELSE Quiet
          ELSE Quiet
  /\ nchk' = nchk + 1
  /\ nok' = nok + (IF Ev.out.kind = "ok" THEN 1 ELSE 0)
  (* informational: the library's own distance for a selected pair contradicts the grid *)
  /\ distodd' = distodd + (IF Ev.out.kind = "ok" /\ \E i \in 1..Len(Ev.out.pairs) :
                                 LET p == Ev.out.pairs[i] IN
                                 (ById(Ev.cands, p.a).site = ById(Ev.cands, p.b).site) # (p.m < 50000)
                           THEN 1 ELSE 0)

Sample ==
  /\ Ev.ev = "Sample"
  /\ IF Ev.out.kind = "panic" THEN Note("NoPanic", "sample_nodes", Ev.scores)
     ELSE IF Ev.out.kind = "ok"
          THEN LET b == SampleBroken(Ev.n, Ev.k, Ev.out.sel) IN
               IF b # "" THEN Note(b, "sample_nodes", Ev.scores) ELSE Quiet
          ELSE Quiet
  /\ nchk' = nchk + 1 /\ UNCHANGED <<nok, distodd>>

Weight ==
  /\ Ev.ev = "Weight"
  /\ IF Ev.out.kind = "panic" THEN Note("NoPanic", "calculate_weight", Ev.scores) ELSE Quiet
  /\ nchk' = nchk + 1 /\ UNCHANGED <<nok, distodd>>

(* one-sided statistical tally: with weights 10:1 the heavy candidate is drawn first more often *)
Tally ==
  /\ Ev.ev = "Tally"
  /\ IF Ev.heavy <= Ev.light THEN Note("FavoursHeavier", "sample_nodes", "10:1") ELSE Quiet
  /\ nchk' = nchk + 1 /\ UNCHANGED <<nok, distodd>>

Rf ==
  /\ Ev.ev = "Rf"
  /\ IF Ev.ok # RfOk(Ev.min, Ev.def, Ev.max) THEN Note("RfBounds", "ReplicationFactor::new", IF Ev.ok THEN "accepted" ELSE "refused") ELSE Quiet
  /\ nchk' = nchk + 1 /\ UNCHANGED <<nok, distodd>>
RfV ==
  /\ Ev.ev = "RfValid"
  /\ IF Ev.valid # RfValid(Ev.min, Ev.max, Ev.v) THEN Note("RfBounds", "ReplicationFactor::is_valid", "any") ELSE Quiet
  /\ nchk' = nchk + 1 /\ UNCHANGED <<nok, distodd>>
Bt ==
  /\ Ev.ev = "Bt"
  /\ IF Ev.kind = "classic" /\ (Ev.required # 3 * Ev.f + 1 \/ Ev.maxf # Ev.f \/ Ev.valid # (Ev.f > 0))
        THEN Note("BtBounds", "ByzantineTolerance", "classic")
     ELSE IF Ev.kind = "none" /\ (Ev.required # 1 \/ Ev.maxf # 0 \/ ~Ev.valid) THEN Note("BtBounds", "ByzantineTolerance", "none")
     ELSE IF Ev.kind = "custom" /\ Ev.valid /\ ~(Ev.maxf < Ev.total) THEN Note("BtBounds", "ByzantineTolerance", "custom")
     ELSE Quiet
  /\ nchk' = nchk + 1 /\ UNCHANGED <<nok, distodd>>

Next == /\ l <= N /\ l' = l + 1
        /\ (Reset \/ Place \/ Sample \/ Weight \/ Tally \/ Rf \/ RfV \/ Bt)
Spec == Init /\ [][Next]_vars

Report == (l = N + 1) =>
  JsonSerialize(IOEnv.OUT, [consumed |-> l - 1, total |-> N, nviol |-> nviol, checked |-> nchk, viol |-> viol.list, badlines |-> viol.bad,
                            placements_ok |-> nok, distance_contradicts_grid |-> distodd])
=============================================================================
