------------------------------ MODULE Lifecycle ------------------------------
(***************************************************************************)
(* Concurrent DHT operations and shutdown of one DhtNetworkManager (C20).  *)
(* Client operations are loops of rounds; a round sends one request and    *)
(* then waits for its reply or its timeout (peers may fall silent at any   *)
(* time).  Stop sends Leave to every peer in turn (reply or timeout each), *)
(* then cancels the shutdown token, then joins the background tasks, which *)
(* observe the token.  After the token is cancelled a send fails at once.  *)
(* Properties: no deadlock, every operation and stop complete (liveness    *)
(* under weak fairness), each consumes a bounded number of timeouts,       *)
(* nothing is sent after stop has returned, background tasks have ended.   *)
(***************************************************************************)
EXTENDS Naturals, FiniteSets, TLC

CONSTANTS Ops, Peers, MaxRounds,
          AsImplemented_NoShutdownCheck   \* requests are still sent after the token is cancelled (pinned tree)

VARIABLES pc,        \* op -> "idle" | "send" | "wait" | "done"
          round,     \* op -> rounds used
          touts,     \* op -> timeouts consumed
          target,    \* op -> peer of the request in flight
          silent,    \* set of peers that no longer answer
          stop,      \* "idle" | "leave" | "leavewait" | "cancel" | "join" | "returned"
          left,      \* peers still to be told Leave
          stouts,    \* timeouts consumed by stop
          token,     \* shutdown token cancelled
          bg,        \* background tasks running
          sentAfter  \* history: a request was sent after stop returned
vars == <<pc, round, touts, target, silent, stop, left, stouts, token, bg, sentAfter>>

Init == /\ pc = [o \in Ops |-> "idle"] /\ round = [o \in Ops |-> 0] /\ touts = [o \in Ops |-> 0]
        /\ target = [o \in Ops |-> 0] /\ silent = {} /\ stop = "idle" /\ left = Peers /\ stouts = 0
        /\ token = FALSE /\ bg = TRUE /\ sentAfter = FALSE

Begin(o) == /\ pc[o] = "idle" /\ pc' = [pc EXCEPT ![o] = "send"]
            /\ UNCHANGED <<round, touts, target, silent, stop, left, stouts, token, bg, sentAfter>>
(* one round: the send either goes out, or fails at once when the manager has been stopped *)
Send(o, p) ==
  /\ pc[o] = "send"
  /\ IF round[o] >= MaxRounds THEN pc' = [pc EXCEPT ![o] = "done"] /\ UNCHANGED <<round, target, sentAfter>>
     ELSE IF token /\ ~AsImplemented_NoShutdownCheck
          THEN /\ round' = [round EXCEPT ![o] = @ + 1] /\ pc' = pc /\ UNCHANGED <<target, sentAfter>>   \* error, next candidate
          ELSE /\ round' = [round EXCEPT ![o] = @ + 1] /\ target' = [target EXCEPT ![o] = p]
               /\ pc' = [pc EXCEPT ![o] = "wait"]
               /\ sentAfter' = (sentAfter \/ stop = "returned")
  /\ UNCHANGED <<touts, silent, stop, left, stouts, token, bg>>
Reply(o) == /\ pc[o] = "wait" /\ target[o] \notin silent
            /\ pc' = [pc EXCEPT ![o] = "send"]          \* next round (or done when the rounds are used up)
            /\ UNCHANGED <<round, touts, target, silent, stop, left, stouts, token, bg, sentAfter>>
Timeout(o) == /\ pc[o] = "wait" /\ target[o] \in silent
              /\ touts' = [touts EXCEPT ![o] = @ + 1] /\ pc' = [pc EXCEPT ![o] = "send"]
              /\ UNCHANGED <<round, target, silent, stop, left, stouts, token, bg, sentAfter>>
Finish(o) == /\ pc[o] = "send" /\ pc' = [pc EXCEPT ![o] = "done"]      \* the operation found what it wanted
             /\ UNCHANGED <<round, touts, target, silent, stop, left, stouts, token, bg, sentAfter>>
FallSilent(p) == /\ p \notin silent /\ silent' = silent \cup {p}
                 /\ UNCHANGED <<pc, round, touts, target, stop, left, stouts, token, bg, sentAfter>>

StopBegin == /\ stop = "idle" /\ stop' = "leave"
             /\ UNCHANGED <<pc, round, touts, target, silent, left, stouts, token, bg, sentAfter>>
StopLeave == /\ stop = "leave"
             /\ IF left = {} THEN stop' = "cancel" /\ UNCHANGED <<left, stouts>>
                ELSE \E p \in left : /\ left' = left \ {p}
                                     /\ IF p \in silent THEN stouts' = stouts + 1 ELSE UNCHANGED stouts
                                     /\ stop' = "leave"
             /\ UNCHANGED <<pc, round, touts, target, silent, token, bg, sentAfter>>
StopCancel == /\ stop = "cancel" /\ token' = TRUE /\ stop' = "join"
              /\ UNCHANGED <<pc, round, touts, target, silent, left, stouts, bg, sentAfter>>
BgExit == /\ bg /\ token /\ bg' = FALSE
          /\ UNCHANGED <<pc, round, touts, target, silent, stop, left, stouts, token, sentAfter>>
StopJoin == /\ stop = "join" /\ ~bg /\ stop' = "returned"
            /\ UNCHANGED <<pc, round, touts, target, silent, left, stouts, token, bg, sentAfter>>

Next == \/ \E o \in Ops : Begin(o) \/ Reply(o) \/ Timeout(o) \/ Finish(o) \/ (\E p \in Peers : Send(o, p))
        \/ \E p \in Peers : FallSilent(p)
        \/ StopBegin \/ StopLeave \/ StopCancel \/ BgExit \/ StopJoin
AllDone == (\A o \in Ops : pc[o] = "done") /\ stop = "returned"
Spec == Init /\ [][Next]_vars
        /\ \A o \in Ops : WF_vars(Begin(o)) /\ WF_vars(Reply(o)) /\ WF_vars(Timeout(o)) /\ WF_vars(\E p \in Peers : Send(o, p))
        /\ WF_vars(StopBegin) /\ WF_vars(StopLeave) /\ WF_vars(StopCancel) /\ WF_vars(BgExit) /\ WF_vars(StopJoin)

QuietAfterStop == ~sentAfter
BoundedTimeouts == (\A o \in Ops : touts[o] <= MaxRounds) /\ stouts <= Cardinality(Peers)
TasksEnd == stop = "returned" => ~bg
EveryOpCompletes == \A o \in Ops : <>(pc[o] = "done")
StopCompletes == <>(stop = "returned")
=============================================================================
