-------------------------- MODULE Trace_TrustMass --------------------------
(***************************************************************************)
(* Acceptor for traces of harness module c11: one `Case` event per trust   *)
(* graph that was run through the real EigenTrustEngine.  P-level rules of *)
(* property C11 (the only source of violations):                           *)
(*   SybilBound  7 * sum(S) <= share(S) (+2 ppm on the sum)                *)
(*   SybilSmall  n <= 100  =>  sum(S) < 0.1% (+1 ppm)                      *)
(*   AnchorFloor min over anchors >= 0.4/|A| (-2 ppm)                      *)
(* for every graph in which anchors exist, statistics are equal and S      *)
(* receives no statement from outside (`closed`; recomputed here from the  *)
(* logged edges when the graph has at most 400 of them).                   *)
(* The condition string of a violation names the class of the graph, which *)
(* is what the known-finding signature is keyed on.                        *)
(*                                                                         *)
(* Informational (never a violation): for class-symmetric graphs the       *)
(* lumped model of TrustMass.tla is stepped next to the event, once as     *)
(* implemented (dangling mass dropped) and once as intended; `drift` lists *)
(* the cases whose observation is more than 0.5% away from both.           *)
(***************************************************************************)
EXTENDS TrustMassOps, SequencesExt, Json, IOUtils

Rec == ndJsonDeserialize(IOEnv.TRACE)
N == Len(Rec)
EmptyFn == [x \in {} |-> 0]
Put(fn, k, v) == [x \in DOMAIN fn \cup {k} |-> IF x = k THEN v ELSE fn[x]]

VARIABLES l, phase, mI, mF, kI, kF, dI, dF, viol, vkeys, nviol, cnt, drift
vars == <<l, phase, mI, mF, kI, kF, dI, dF, viol, vkeys, nviol, cnt, drift>>

Ev == Rec[l]
Cnt0 == [cases |-> 0, judged |-> 0, fallback |-> 0, sym |-> 0, matchImpl |-> 0, matchFixed |-> 0, drift |-> 0,
         edgesChecked |-> 0, lumpedConfigs |-> 0]
V(clause, site, cond) == [line |-> l, clause |-> clause, site |-> site, cond |-> cond]
If(c, v) == IF c THEN <<v>> ELSE <<>>
Key(x) == <<x.clause, x.site, x.cond>>
RECURSIVE AddTo(_, _, _)
AddTo(vl, vk, vs) ==
  IF vs = <<>> THEN <<vl, vk>>
  ELSE LET x == Head(vs)
           c == IF Key(x) \in DOMAIN vk THEN vk[Key(x)] ELSE 0 IN
       AddTo(IF c < 6 THEN Append(vl, x) ELSE vl, Put(vk, Key(x), c + 1), Tail(vs))
AddViols(vs) == /\ nviol' = nviol + Len(vs)
                /\ LET r == AddTo(viol, vkeys, vs) IN viol' = r[1] /\ vkeys' = r[2]

Init == /\ l = 1 /\ phase = "idle" /\ mI = EmptyFn /\ mF = EmptyFn /\ kI = 0 /\ kF = 0 /\ dI = TRUE /\ dF = TRUE
        /\ viol = <<>> /\ vkeys = EmptyFn /\ nviol = 0 /\ cnt = Cnt0 /\ drift = <<>>

IsCase == l <= N /\ Ev.ev = "Case"
Predictable == IsCase /\ Ev.sym /\ Ev.outA # "?" /\ ConfigOK(Ev.nA, Ev.nH, Ev.nS, Ev.outA, Ev.outH, Ev.outS)

(* ---- lumped prediction, stepped as TLC states (both variants side by side) ---- *)
Start == /\ phase = "idle" /\ Predictable
         /\ phase' = "iter"
         /\ mI' = LumpInit(Ev.nA, Ev.nH, Ev.nS) /\ mF' = LumpInit(Ev.nA, Ev.nH, Ev.nS)
         /\ kI' = 0 /\ kF' = 0 /\ dI' = FALSE /\ dF' = FALSE
         /\ UNCHANGED <<l, viol, vkeys, nviol, cnt, drift>>
Iter == /\ phase = "iter" /\ ~(dI /\ dF)
        /\ LET out == LumpOut(Ev.outA, Ev.outH, Ev.outS)
               kmax == RoundsFor(Ev.nA + Ev.nH + Ev.nS)
               nI == StepOf(mI, out, LumpTele, TRUE)
               nF == StepOf(mF, out, LumpTele, FALSE) IN
           /\ IF dI THEN UNCHANGED <<mI, kI, dI>>
              ELSE mI' = nI /\ kI' = kI + 1 /\ dI' = (L1(mI, nI) < 100 \/ kI + 1 >= kmax)
           /\ IF dF THEN UNCHANGED <<mF, kF, dF>>
              ELSE mF' = nF /\ kF' = kF + 1 /\ dF' = (L1(mF, nF) < 100 \/ kF + 1 >= kmax)
        /\ UNCHANGED <<l, phase, viol, vkeys, nviol, cnt, drift>>

(* ---- judgement ---- *)
Abs2(x) == IF x < 0 THEN -x ELSE x
Near(obsS, obsA, m) == Abs2(obsS - m["S"]) <= 5000 /\ Abs2(obsA - m["A"]) <= 5000
GraphClass == IF Ev.sIn /\ Ev.dangOut > 0 THEN "closed-set-rates-itself+outside-node-without-statements"
              ELSE IF Ev.sIn THEN "closed-set-rates-itself+every-outside-node-makes-statements"
              ELSE "closed-set-makes-no-statements"
(* the driver's facts about its own graph, recomputed from the logged positive edges *)
EdgeSet == {<<Ev.edges[i][1], Ev.edges[i][2]>> : i \in 1..Len(Ev.edges)}
FactsOK == LET o == Ev.nA + Ev.nH
               E == EdgeSet IN
  /\ Ev.dangOut = Cardinality({i \in 1..o : ~\E e \in E : e[1] = i})
  /\ Ev.sIn = (\E e \in E : e[1] > o)
  /\ Ev.closed = (\A e \in E : e[2] > o => e[1] > o)
  /\ Ev.n = Ev.nA + Ev.nH + Ev.nS

Judge == /\ IsCase /\ (phase = "iter" => dI /\ dF) /\ (phase = "idle" => ~Predictable)
         /\ LET n == Ev.n
                share == ShareOf(Ev.nS, n)
                inScope == Ev.closed /\ Ev.nA >= 1 /\ Ev.nS >= 1
                sane == Ev.sumS >= 0 /\ Ev.sumS <= P + 10 /\ Ev.minA >= 0 /\ Ev.minA <= P + 10
                vs == If(Ev.hasEdges /\ ~FactsOK, V("DriverFacts", "driver", "mismatch"))
                      \o (IF ~inScope THEN <<>>
                          ELSE IF ~sane THEN <<V("Finite", "compute_global_trust", "score-out-of-range")>>
                          ELSE If(7 * Ev.sumS > share + 14, V("SybilBound", "compute_global_trust", GraphClass))
                               \o If(n <= 100 /\ Ev.sumS > 1001, V("SybilSmall", "compute_global_trust", GraphClass))
                               \o If(Ev.minA < (400000 \div Ev.nA) - 2, V("AnchorFloor", "compute_global_trust", "any")))
                pred == phase = "iter"
                obsA == IF Ev.minA > 0 /\ Ev.minA <= P THEN Ev.minA * Ev.nA ELSE 0
                okI == pred /\ Near(Ev.sumS, obsA, mI)
                okF == pred /\ Near(Ev.sumS, obsA, mF) IN
            /\ AddViols(vs)
            /\ cnt' = [cnt EXCEPT !.cases = @ + 1, !.judged = @ + (IF inScope THEN 1 ELSE 0),
                                  !.fallback = @ + (IF Ev.fb THEN 1 ELSE 0),
                                  !.sym = @ + (IF pred THEN 1 ELSE 0),
                                  !.matchImpl = @ + (IF okI THEN 1 ELSE 0),
                                  !.matchFixed = @ + (IF okF THEN 1 ELSE 0),
                                  !.drift = @ + (IF pred /\ ~okI /\ ~okF THEN 1 ELSE 0),
                                  !.edgesChecked = @ + (IF Ev.hasEdges THEN 1 ELSE 0),
                                  !.lumpedConfigs = @ + (IF Ev.kind = "lumped" /\ pred THEN 1 ELSE 0)]
            /\ drift' = IF pred /\ ~okI /\ ~okF /\ Len(drift) < 20
                        THEN Append(drift, [line |-> l, obsS |-> Ev.sumS, obsA |-> obsA, impl |-> mI, fixed |-> mF]) ELSE drift
         /\ phase' = "idle" /\ l' = l + 1
         /\ UNCHANGED <<mI, mF, kI, kF, dI, dF>>

Panic == /\ l <= N /\ Ev.ev = "Panic" /\ phase = "idle"
         /\ AddViols(<<V("NoPanic", Ev.at, "any")>>)
         /\ l' = l + 1 /\ UNCHANGED <<phase, mI, mF, kI, kF, dI, dF, cnt, drift>>

Next == Start \/ Iter \/ Judge \/ Panic
Spec == Init /\ [][Next]_vars

Report == (l = N + 1) =>
  JsonSerialize(IOEnv.OUT, [consumed |-> l - 1, total |-> N, nviol |-> nviol, checked |-> cnt.judged, cnt |-> cnt,
                            viol |-> viol, drift |-> drift,
                            keys |-> [i \in 1..Len(SetToSeq(DOMAIN vkeys)) |-> [k |-> SetToSeq(DOMAIN vkeys)[i], n |-> vkeys[SetToSeq(DOMAIN vkeys)[i]]]]])
=============================================================================
