------------------------------- MODULE Inbound -------------------------------
(***************************************************************************)
(* Admission rules for bytes received from a peer (C05).                   *)
(* An inbound item is described by the features the rules talk about;      *)
(* the implementation-shaped decision procedures (guards in code order:    *)
(* parse_protocol_message, DhtNetworkManager::handle_dht_message,          *)
(* DhtCoreEngine::handle_request, DhtRecord::deserialize) are transcribed  *)
(* and TLC checks over the whole feature grid that they satisfy the        *)
(* P-level rules, which Trace_Inbound.tla applies to observations of the   *)
(* real code.  AsImplemented_* flags are classic wrong variants.           *)
(***************************************************************************)
EXTENDS Naturals, Integers, FiniteSets, TLC

CONSTANTS AsImplemented_WindowOffByOne,   \* accepts age 301 s / future 31 s
          AsImplemented_TrustClaimedFrom, \* surfaces the sender named inside the payload
          AsImplemented_DecodeBeforeSize  \* decodes a DHT message before checking its size

MaxAge == 300
MaxFuture == 30
MaxDhtMessage == 65536
MaxValue == 512
MaxRecord == 512
MaxFindNode == 20

(* ---- frame parser ---- *)
FrameFeatures == [decodes : BOOLEAN, off : {-302, -301, -300, -299, 0, 29, 30, 31, 32}, claimedSame : BOOLEAN]
FrameImpl(f) ==
  IF ~f.decodes THEN [surfaced |-> FALSE, source |-> "none"]
  ELSE IF f.off < -(IF AsImplemented_WindowOffByOne THEN MaxAge + 1 ELSE MaxAge) THEN [surfaced |-> FALSE, source |-> "none"]
  ELSE IF f.off > (IF AsImplemented_WindowOffByOne THEN MaxFuture + 1 ELSE MaxFuture) THEN [surfaced |-> FALSE, source |-> "none"]
  ELSE [surfaced |-> TRUE, source |-> IF AsImplemented_TrustClaimedFrom /\ ~f.claimedSame THEN "claimed" ELSE "conn"]
FrameRule(f, o) ==
  /\ o.surfaced => f.decodes /\ f.off >= -MaxAge /\ f.off <= MaxFuture /\ o.source = "conn"
  /\ (f.decodes /\ f.off >= -MaxAge /\ f.off <= MaxFuture) => o.surfaced

(* ---- DHT message handler ---- *)
DhtFeatures == [len : {100, 65536, 65537}, decodes : BOOLEAN, isPut : BOOLEAN, putLen : {0, 512, 513}]
DhtImpl(f) ==
  IF ~AsImplemented_DecodeBeforeSize /\ f.len > MaxDhtMessage THEN [ok |-> FALSE, decoded |-> FALSE, stored |-> FALSE]
  ELSE IF ~f.decodes THEN [ok |-> FALSE, decoded |-> TRUE, stored |-> FALSE]
  ELSE IF f.len > MaxDhtMessage THEN [ok |-> FALSE, decoded |-> TRUE, stored |-> FALSE]
  ELSE IF f.isPut /\ f.putLen > MaxValue THEN [ok |-> FALSE, decoded |-> TRUE, stored |-> FALSE]
  ELSE [ok |-> TRUE, decoded |-> TRUE, stored |-> f.isPut]
DhtRule(f, o) ==
  /\ f.len > MaxDhtMessage => ~o.ok /\ ~o.decoded /\ ~o.stored      \* refused before decoding
  /\ (f.isPut /\ f.putLen > MaxValue) => ~o.stored
  /\ o.stored => f.decodes /\ f.isPut /\ f.putLen <= MaxValue

(* ---- engine requests, records ---- *)
Min2(a, b) == IF a < b THEN a ELSE b
EngineRule(count, known, nodes) == nodes <= Min2(count, MaxFindNode) /\ nodes <= known
RecordRule(len, ok) == len > MaxRecord => ~ok

VARIABLE done
Init == done = FALSE
Next == done' = TRUE
Spec == Init /\ [][Next]_done

FrameOK == done \in BOOLEAN /\ \A f \in FrameFeatures : FrameRule(f, FrameImpl(f))
DhtOK == done \in BOOLEAN /\ \A f \in DhtFeatures : DhtRule(f, DhtImpl(f))
EngineOK == done \in BOOLEAN /\ \A count \in {0, 1, 19, 20, 21, 1000}, known \in {0, 5, 60} : EngineRule(count, known, Min2(Min2(count, MaxFindNode), known))
=============================================================================
