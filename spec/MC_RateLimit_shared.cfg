SPECIFICATION Spec
CONSTANTS
  Keys = {1, 2}
  W = 4
  H = 7
  MaxBurst = 3
  MaxMax = 3
  GMul = 2
  Variant_RefillFromWindowStart = FALSE
  Variant_NoCap = FALSE
  Variant_SharedBucket = TRUE
INVARIANTS TypeOK BurstPlusRefill WindowMax KeyIsolation
PROPERTIES OthersUntouched DenialNeverIncreases
CHECK_DEADLOCK FALSE
