SPECIFICATION Spec
CONSTANTS
  Tasks = {1, 2}
  MaxTime = 4
  ExecutorMayDie = TRUE
INVARIANTS NoDoubleHandOut
PROPERTY NotStuck
PROPERTIES HandOutRule CountersGrow
CHECK_DEADLOCK FALSE
