SPECIFICATION Spec
CONSTANTS
  Bs = {1, 2}
  Cs = {1, 2}
  Asns = {0, 1}
  NetSizes = {0, 1000}
  MaxOps = 5
  Cfg <- CfgSmall
  AsImplemented_V4AsnNotHalved = FALSE
  AsImplemented_IncrementBeforeBucket = FALSE
  AsImplemented_NoDecrementOnEvict = FALSE
  AsImplemented_RefreshKeepsOld = FALSE
  AsImplemented_V4MappedTo64 = FALSE
INVARIANTS CapAtAdmission AdmitWhenBelow SlotAccounting
CHECK_DEADLOCK FALSE
