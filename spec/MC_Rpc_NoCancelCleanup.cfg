SPECIFICATION Spec
CONSTANTS
  Ids = {1, 2, 3}
  Peers = {10, 20}
  Vals = {7, 8}
  Cap = 2
  WithSender = TRUE
  AsImplemented_NoCancelCleanup = TRUE
  AsImplemented_NoSenderCheck = FALSE
INVARIANTS OnlyMatching SenderBound ExactlyOnce NoResidue CapRespected
CHECK_DEADLOCK FALSE
