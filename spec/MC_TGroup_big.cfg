\* intended design, thorough tier: every initial status mix (Active, Inactive, Suspended), 4 mutations
SPECIFICATION Spec
CONSTANTS
  Sizes = {2, 3}
  InitStatuses = {"Active", "Inactive", "Suspended"}
  MaxInitIdle = 3
  ArgIds = {1, 2, 3, 9}
  NewIds = {1, 4}
  Tokens = {"S", "F", "P"}
  HugeChoices = {FALSE, TRUE}
  MaxVer = 5
  AuditCap = 5
  AuditDrop = 2
  AsImplemented_ErrorMutates = FALSE
  AsImplemented_LastLeaderDemotable = FALSE
  AsImplemented_CreateSkipsValidate = FALSE
  AsImplemented_PermissionIgnoresStatus = FALSE
  AsImplemented_DeadPermissions = FALSE
  AsImplemented_HugeSuspensionPanics = FALSE
  Variant_ThresholdIgnoresActive = FALSE
INVARIANTS TypeOK ThresholdWithinActive HasThresholdIff FreshGroupValid ValidateClosure Structure NoPermissionUnlessActive NotActiveNotListed UnknownNotFound EveryPermissionGrantable MatrixRules QueriesConsistent AuditBounded AuditKeepsLatest NoPanic
PROPERTIES ErrorsChangeNothing VersionCounts MembershipFixed Frames
CHECK_DEADLOCK FALSE
