------------------------------ MODULE Trace_Sig ------------------------------
(***************************************************************************)
(* Acceptor for traces recorded from the real signature entry points       *)
(* (harness module c08, shipping ML-DSA path).  Model state: what every    *)
(* identity really signed (`signed`, `signedIp`), the library's own        *)
(* definitions of checksums and address-bound ids (`sumOf`, `idOf`), the   *)
(* pinned update keys, and the origin of every key (only to describe the   *)
(* input condition of a violation).  Rules: SigRules.                      *)
(***************************************************************************)
EXTENDS Integers, Sequences, FiniteSets, TLC, Json, IOUtils, SigRules

Rec == ndJsonDeserialize(IOEnv.TRACE)
N == Len(Rec)

VARIABLES l, signed, signedIp, sumOf, idOf, pinned, originOf, viol, nviol, nchk, segv
vars == <<l, signed, signedIp, sumOf, idOf, pinned, originOf, viol, nviol, nchk, segv>>
Ev == Rec[l]
model == <<signed, signedIp, sumOf, idOf, pinned, originOf>>

CountOf(c, s, d) == Cardinality({i \in 1..Len(viol) : viol[i].clause = c /\ viol[i].site = s /\ viol[i].cond = d})
NoteAll(vs) ==
  /\ nviol' = nviol + Len(vs)
  /\ segv' = IF Len(segv) = 0 THEN segv ELSE [segv EXCEPT ![Len(segv)] = @ + Len(vs)]
  /\ viol' = viol \o SelectSeq([i \in 1..Len(vs) |-> [line |-> l, clause |-> vs[i].clause, site |-> vs[i].site, cond |-> vs[i].cond]],
                               LAMBDA v : CountOf(v.clause, v.site, v.cond) < 10)
V(c, s, d) == <<[clause |-> c, site |-> s, cond |-> d]>>
Quiet == UNCHANGED <<viol, nviol, segv>>

Origin(pk) == IF pk \in DOMAIN originOf THEN originOf[pk] ELSE "unknown_key"
Unsound(o) == o \in {"seed", "path"}
Accepted == Ev.res = "true"

(* an observed verdict against the expected one *)
Judge(clause, site, expected, originTag) ==
  IF Accepted = expected THEN NoteAll(<<>>)
  ELSE IF Ev.res = "panic" THEN NoteAll(V("NoPanic", site, "panic"))
  ELSE IF Accepted THEN NoteAll(V(clause, site, "accepts_" \o Ev.how))
  ELSE NoteAll(V(clause, site, "rejects_valid_" \o originTag))

Init == /\ l = 1 /\ signed = {} /\ signedIp = {} /\ sumOf = <<>> /\ idOf = <<>> /\ pinned = <<>> /\ originOf = <<>>
        /\ viol = <<>> /\ nviol = 0 /\ nchk = 0 /\ segv = <<>>

Reset == /\ Ev.ev = "Reset"
         /\ signed' = {} /\ signedIp' = {} /\ sumOf' = <<>> /\ idOf' = <<>> /\ pinned' = <<>> /\ originOf' = <<>>
         /\ segv' = Append(segv, 0) /\ UNCHANGED <<viol, nviol, nchk>>

Key == /\ Ev.ev = "Key"
       /\ originOf' = IF Ev.pk \in DOMAIN originOf THEN originOf ELSE (Ev.pk :> Ev.origin) @@ originOf
       /\ Quiet /\ UNCHANGED <<signed, signedIp, sumOf, idOf, pinned, nchk>>

Sign == /\ Ev.ev = "Sign" /\ signed' = signed \cup {[pk |-> Ev.pk, msg |-> Ev.msg, sig |-> Ev.sig]}
        /\ Quiet /\ UNCHANGED <<signedIp, sumOf, idOf, pinned, originOf, nchk>>

Info == /\ Ev.ev \in {"Note", "SignErr"} /\ Quiet /\ UNCHANGED <<signed, signedIp, sumOf, idOf, pinned, originOf, nchk>>

Verify == /\ Ev.ev = "Verify"
          /\ Judge("VerifyIff", Ev.entry, Valid(signed, Ev.pk, Ev.msg, Ev.sig), "own_signature_" \o Origin(Ev.pk))
          /\ nchk' = nchk + 1 /\ UNCHANGED model

(* n single-bit flips of the signature (or of the key) of a genuine triple, verified one by one by the driver;
   `accepted` lists the flipped positions that verified.  A flipped object is a new token nobody signed / owns. *)
VerifyFlips == /\ Ev.ev = "VerifyFlips"
               /\ IF Len(Ev.accepted) = 0 THEN NoteAll(<<>>) ELSE NoteAll(V("VerifyIff", Ev.entry, "accepts_" \o Ev.target \o ":bit"))
               /\ nchk' = nchk + Ev.n /\ UNCHANGED model

KeySet == {Ev.keys[i] : i \in 1..Len(Ev.keys)}
AuthSite == CASE Ev.kind = "single" -> "SingleWriteAuth::verify"
              [] Ev.kind = "delegated" -> "DelegatedWriteAuth::verify"
              [] Ev.kind = "threshold" -> "ThresholdWriteAuth::verify"
              [] OTHER -> "CompositeWriteAuth::verify"
AuthExpected == CASE Ev.kind = "single" -> SingleOk(signed, Ev.keys[1], Ev.msg, Ev.sigs)
                  [] Ev.kind = "delegated" -> DelegatedOk(signed, KeySet, Ev.msg, Ev.sigs)
                  [] Ev.kind = "threshold" -> ThresholdOk(signed, Ev.t, KeySet, Ev.msg, Ev.sigs)
                  [] Ev.kind = "composite_all" -> SingleOk(signed, Ev.keys[1], Ev.msg, Ev.sigs) /\ ThresholdOk(signed, Ev.t, KeySet, Ev.msg, Ev.sigs)
                  [] OTHER -> SingleOk(signed, Ev.keys[1], Ev.msg, Ev.sigs) \/ ThresholdOk(signed, Ev.t, KeySet, Ev.msg, Ev.sigs)
Auth == /\ Ev.ev = "Auth"
        /\ IF Accepted = AuthExpected THEN NoteAll(<<>>)
           ELSE IF Ev.res = "panic" THEN NoteAll(V("NoPanic", AuthSite, "panic"))
           ELSE IF Accepted
                THEN NoteAll(V("WriteAuthIff", AuthSite,
                               IF Ev.kind \in {"threshold", "composite_all", "composite_any"}
                               THEN "accepts_without_enough_valid_signatures" ELSE "accepts_" \o Ev.how))
                ELSE NoteAll(V("WriteAuthIff", AuthSite,
                               "rejects_valid_signature" \o (IF \E k \in KeySet : Unsound(Origin(k)) THEN "_seed_or_path_key_involved" ELSE "")))
        /\ nchk' = nchk + 1 /\ UNCHANGED model

Checksum == /\ Ev.ev = "Checksum" /\ sumOf' = (Ev.msg :> Ev.sum) @@ sumOf
            /\ Quiet /\ UNCHANGED <<signed, signedIp, idOf, pinned, originOf, nchk>>
Pin == /\ Ev.ev = "Pin"
       /\ pinned' = (Ev.key_id :> [pk |-> Ev.pk, valid |-> (Ev.from # "future" /\ Ev.until # "past")]) @@ pinned
       /\ Quiet /\ UNCHANGED <<signed, signedIp, sumOf, idOf, originOf, nchk>>
Update == /\ Ev.ev = "Update"
          /\ Judge("UpdateIff", "SignatureVerifier::" \o Ev.entry,
                   UpdateOk(signed, sumOf, pinned, Ev.msg, Ev.sum, Ev.key_id, Ev.sig),
                   "package_" \o (IF Ev.key_id \in DOMAIN pinned THEN Origin(pinned[Ev.key_id].pk) ELSE "unknown_key"))
          /\ nchk' = nchk + 1 /\ UNCHANGED model

IpGen == /\ Ev.ev = "IpGen"
         /\ idOf' = (IpFields(Ev.rec) :> Ev.rec.nid) @@ idOf
         /\ signedIp' = signedIp \cup {[f |-> IpFields(Ev.rec), sig |-> Ev.rec.sig]}
         /\ Quiet /\ UNCHANGED <<signed, sumOf, pinned, originOf, nchk>>
(* the id of a crafted record, recomputed by the harness as an attacker would: the id matches, nobody signed the fields *)
IpId == /\ Ev.ev = "IpId"
        /\ idOf' = (IpFields(Ev.rec) :> Ev.rec.nid) @@ idOf
        /\ Quiet /\ UNCHANGED <<signed, signedIp, sumOf, pinned, originOf, nchk>>
IpVerify == /\ Ev.ev = "IpVerify"
            /\ Judge("IpNodeIdIff", IF Ev.v = 4 THEN "IPv4NodeID::verify" ELSE "IPv6NodeID::verify",
                     IpIdOk(signedIp, idOf, Ev.rec), "own_signature_" \o Origin(Ev.rec.pk))
            /\ nchk' = nchk + 1 /\ UNCHANGED model

Panic == /\ Ev.ev = "Panic" /\ NoteAll(V("NoPanic", Ev.where, "panic")) /\ UNCHANGED model /\ UNCHANGED nchk

Next == /\ l <= N /\ l' = l + 1
        /\ (Reset \/ Key \/ Sign \/ Info \/ Verify \/ VerifyFlips \/ Auth \/ Checksum \/ Pin \/ Update \/ IpGen \/ IpId \/ IpVerify \/ Panic)
Spec == Init /\ [][Next]_vars

Report == (l = N + 1) =>
  JsonSerialize(IOEnv.OUT, [consumed |-> l - 1, total |-> N, nviol |-> nviol, checked |-> nchk, viol |-> viol, segv |-> segv])
=============================================================================
