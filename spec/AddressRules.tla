---------------------------- MODULE AddressRules ----------------------------
(***************************************************************************)
(* P-level rules of property C19, shared by Address.tla and                *)
(* Trace_Address.tla.  Pure operators.                                     *)
(*                                                                         *)
(* Outcome classes of one decode / parse observation, relative to the      *)
(* address that was encoded: "same", "different", "error", "none" (the     *)
(* producer emitted nothing to decode), "panic".                           *)
(***************************************************************************)
EXTENDS Integers, Sequences, FiniteSets

(* a round trip the library itself performs must give back the same address *)
RoundTripOk(out) == out = "same"
(* a variant of a library form that the library does not itself produce may be refused, never misread *)
VariantOk(out) == out \in {"same", "error"}
(* a malformed string is refused with an error *)
MalformedOk(out) == out = "error"

(* textual forms *)
Forms == {"sock", "sockWords", "multiaddr", "words", "ipOnly"}

(* Interop: every form a producer emits is understood (as the same address) by every consumer it is wired to *)
Interop(wiring, emits, accepts) == \A w \in wiring : emits[w[1]] \subseteq accepts[w[2]]
Broken(wiring, emits, accepts) == {<<w, f>> \in wiring \X Forms : f \in emits[w[1]] /\ f \notin accepts[w[2]]}

(* ---- the wiring of the code (who hands strings to whom), shared with the acceptor ---- *)
Producers == {"Display", "SockToString", "FourWords", "ToMultiaddr", "BootEncode", "Reply"}
Consumers == {"FromStr", "FromFourWords", "AddNode", "MultiaddrFrom", "Dial", "BootDecode"}
Wiring == {<<"Display", "FromStr">>, <<"Display", "AddNode">>, <<"Display", "Dial">>,
           <<"SockToString", "Dial">>, <<"SockToString", "MultiaddrFrom">>, <<"ToMultiaddr", "FromStr">>,
           <<"FourWords", "FromFourWords">>, <<"FourWords", "FromStr">>, <<"BootEncode", "BootDecode">>,
           <<"Reply", "Dial">>}
(* multiaddr_from_address is a private function of DhtNetworkManager fed only by the transport's own peer info: what it
   accepts is taken from reading (it strips a " (" suffix and then parses a SocketAddr).  "Reply" is the address string a
   real node puts into a find-node reply; "Dial" (dial_candidate) is observed on the wire: a harness endpoint names a peer
   under each form and the in-memory hub records what the transport was asked to dial. *)
AcceptsByReading == [c \in {"MultiaddrFrom"} |-> {"sock", "sockWords"}]

(* ---- description of an address [o1,o2,o3,o4,port] / [g1..g8,port] for violation conditions ---- *)
V6Class(g) ==
  IF \A i \in 1..7 : g[i] = 0 THEN (IF g[8] = 1 THEN "loopback" ELSE IF g[8] = 0 THEN "unspecified" ELSE "global")
  ELSE IF (\A i \in 1..5 : g[i] = 0) /\ g[6] = 65535 THEN "mapped"
  ELSE IF g[1] \div 64 = 1018 THEN "linklocal"
  ELSE IF g[1] \div 512 = 126 THEN "ula"
  ELSE IF g[1] \div 256 = 255 THEN "multicast"
  ELSE IF g[1] = 8193 /\ g[2] = 3512 THEN "documentation"
  ELSE "global"
(* number of non-zero 16-bit groups: the dependency's IPv6 word encoding depends on the shape of the address, not only on its class *)
NzDigits == <<"0", "1", "2", "3", "4", "5", "6", "7", "8">>
Nz(g) == Cardinality({i \in 1..8 : g[i] # 0})
AddrClass(a) == (IF Len(a) = 5 THEN "ipv4" ELSE "ipv6_" \o V6Class(a) \o "_nz" \o NzDigits[Nz(a) + 1])
                \o (IF a[Len(a)] = 65535 THEN "_port_65535" ELSE "")
=============================================================================
