---------------------------- MODULE AddressRules ----------------------------
(***************************************************************************)
(* P-level rules of property C19, shared by Address.tla and                *)
(* Trace_Address.tla.  Pure operators.                                     *)
(*                                                                         *)
(* Outcome classes of one decode / parse observation, relative to the      *)
(* address that was encoded: "same", "different", "error", "none" (the     *)
(* producer emitted nothing to decode), "panic".                           *)
(***************************************************************************)
EXTENDS Integers, Sequences, FiniteSets

(* a round trip the library itself performs must give back the same address *)
RoundTripOk(out) == out = "same"
(* a variant of a library form that the library does not itself produce may be refused, never misread *)
VariantOk(out) == out \in {"same", "error"}
(* a malformed string is refused with an error *)
MalformedOk(out) == out = "error"

(* textual forms *)
Forms == {"sock", "sockWords", "multiaddr", "words", "ipOnly"}

(* Interop: every form a producer emits is understood (as the same address) by every consumer it is wired to *)
Interop(wiring, emits, accepts) == \A w \in wiring : emits[w[1]] \subseteq accepts[w[2]]
Broken(wiring, emits, accepts) == {<<w, f>> \in wiring \X Forms : f \in emits[w[1]] /\ f \notin accepts[w[2]]}
=============================================================================
