\* must FAIL (deliberately wrong variant): rollback without checksum comparison restores a corrupted backup
SPECIFICATION SpecB
CONSTANTS
  Vers = {1, 2}
  Toks = {1, 2}
  NPaths = 1
  MaxBs = {1, 2}
  MaxAgeB = 1
  MaxAgeS = 1
  MaxOps = 4
  MaxTicks = 2
  AsImplemented_TieKeepsOlder = FALSE
  AsImplemented_SharedBackupFile = FALSE
  AsImplemented_CleanupNeedsDir = FALSE
  AsImplemented_RollbackToVersionNeedsDir = FALSE
  AsImplemented_GetStagedUnverified = FALSE
  AsImplemented_SweepIgnoresMetadata = FALSE
  Variant_RollbackUnverified = TRUE
INVARIANTS RollbackRestoresRecorded
CHECK_DEADLOCK FALSE
