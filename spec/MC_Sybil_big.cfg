\* intended design as MC_Sybil.cfg, joins without address too, 5 operations, 3 ticks
SPECIFICATION Spec
CONSTANTS
  MaxHistory = 2
  Peers = {p1, p2, p3}
  PfxA = {p1, p2}
  NSub = 2
  BThr = 2
  Win = 1
  PThr = 2
  SimPm = 750
  AsymThrPm = 2000
  Age = 2
  AgeIsMax = FALSE
  MinObs = 1
  MaxT = 3
  MaxOps = 5
  OpSet = {"join", "joinnoip", "leave", "analyze", "clear", "cleanup"}
  Lats = {0}
  Sizes = {0}
  Claims = {0}
  Measures = {0}
  AsImplemented_BurstCountsRepeats = FALSE
  AsImplemented_BurstNotAged = FALSE
  AsImplemented_DepartedKeepTriggering = FALSE
  AsImplemented_EvidenceAccumulates = FALSE
  AsImplemented_NoGroupMerge = FALSE
  AsImplemented_OverallCountsMemberships = FALSE
  AsImplemented_ZeroAverageNaN = FALSE
  AsImplemented_HugeAgePanics = FALSE
  Variant_StrictThreshold = FALSE
SYMMETRY Sym
INVARIANTS TypeOK BurstExact JoinsOrdered BurstDistinctPeers PrefixExact PrefixNamesSharers EvidenceNamesPresentOnly
           IdenticalHistoriesSimilar SimilarityBounded AsymSound AnalysisIdempotent GroupsDisjoint AnalyzeCovers GroupsOnlyByAnalysis
           SuspectedIffMember RiskMonotoneUntilClear OverallIsSuspectedFraction GroupCountBounded ClearEmpties CleanupOnlyOld
           RecordsAreHistory RecordsWithinWindow NoPanic
CHECK_DEADLOCK FALSE
