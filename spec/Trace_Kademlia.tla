--------------------------- MODULE Trace_Kademlia ---------------------------
(***************************************************************************)
(* Acceptor for traces recorded from the real DhtCoreEngine (harness       *)
(* module c02).  The model state is the member set of Kademlia.tla's       *)
(* P-level; every logged answer is compared with Closest(members, key, n). *)
(* A mismatch is recorded in `viol` (violation collection) and the model   *)
(* keeps following the operations, so one bad answer never hides the rest. *)
(***************************************************************************)
EXTENDS Naturals, Integers, Sequences, FiniteSets, Bitwise, SequencesExt, FiniteSetsExt, TLC, Json, IOUtils

Rec == ndJsonDeserialize(IOEnv.TRACE)
N == Len(Rec)

VARIABLES l, self, S, removed, viol, nviol, nfind
vars == <<l, self, S, removed, viol, nviol, nfind>>

Ev == Rec[l]
Dist(a, b) == a ^^ b
Take(s, n) == SubSeq(s, 1, IF n < Len(s) THEN n ELSE Len(s))
SortByDist(T, key) == SetToSortSeq(T, LAMBDA a, b : Dist(a, key) < Dist(b, key))
Closest(T, key, n) == Take(SortByDist(T, key), n)
Distinct(s) == \A i, j \in 1..Len(s) : i # j => s[i] # s[j]

Note(clause, cond) ==
  /\ nviol' = nviol + 1
  /\ viol' = IF Len(viol) < 100 THEN Append(viol, [line |-> l, clause |-> clause, cond |-> cond]) ELSE viol

Init == l = 1 /\ self = 0 /\ S = {} /\ removed = {} /\ viol = <<>> /\ nviol = 0 /\ nfind = 0

Reset == /\ Ev.ev = "Reset"
         /\ self' = Ev.self /\ S' = {} /\ removed' = {}
         /\ UNCHANGED <<viol, nviol, nfind>>

(* an addition that reports success lists the peer (never Self); one that reports an error changes nothing *)
Add == /\ Ev.ev = "Add"
       /\ IF Ev.ok /\ Ev.x # self THEN S' = S \cup {Ev.x} /\ removed' = removed \ {Ev.x}
          ELSE UNCHANGED <<S, removed>>
       /\ UNCHANGED <<self, viol, nviol, nfind>>

Rm == /\ Ev.ev = "Rm"
      /\ S' = S \ {Ev.x} /\ removed' = removed \cup {Ev.x}
      /\ UNCHANGED <<self, viol, nviol, nfind>>

Find == /\ Ev.ev = "Find"
        /\ nfind' = nfind + 1
        /\ LET ans == Ev.ans
               exp == Closest(S, Ev.key, Ev.n) IN
           IF ans = exp THEN UNCHANGED <<viol, nviol>>
           ELSE IF Len(ans) > Ev.n THEN Note("Capped", Ev.via)
           ELSE IF ~Distinct(ans) THEN Note("Distinct", Ev.via)
           ELSE IF \E i \in 1..Len(ans) : ans[i] = self THEN Note("NoSelf", Ev.via)
           ELSE IF \E i \in 1..Len(ans) : ans[i] \in removed THEN Note("RemovedStaysOut", Ev.via)
           ELSE Note("Exact", Ev.via)
        /\ UNCHANGED <<self, S, removed>>

(* an answer call that fails where the API promises a list *)
FindErr == /\ Ev.ev = "FindErr" /\ Note("Answers", Ev.via) /\ UNCHANGED <<self, S, removed, nfind>>

Next == /\ l <= N /\ l' = l + 1
        /\ (Reset \/ Add \/ Rm \/ Find \/ FindErr)
Spec == Init /\ [][Next]_vars

Report == (l = N + 1) =>
  JsonSerialize(IOEnv.OUT, [consumed |-> l - 1, total |-> N, nviol |-> nviol, checked |-> nfind, viol |-> viol])
=============================================================================
