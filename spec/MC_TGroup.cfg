\* intended design: groups of 2..3 participants, every mix of Active and Inactive participants at the start (up to renaming), 2 mutations, audit log of capacity 5
SPECIFICATION Spec
CONSTANTS
  Sizes = {2, 3}
  InitStatuses = {"Active", "Inactive"}
  MaxInitIdle = 3
  ArgIds = {1, 2, 3, 9}
  NewIds = {1, 4}
  Tokens = {"S", "F", "P"}
  HugeChoices = {FALSE, TRUE}
  MaxVer = 3
  AuditCap = 5
  AuditDrop = 2
  AsImplemented_ErrorMutates = FALSE
  AsImplemented_LastLeaderDemotable = FALSE
  AsImplemented_CreateSkipsValidate = FALSE
  AsImplemented_PermissionIgnoresStatus = FALSE
  AsImplemented_DeadPermissions = FALSE
  AsImplemented_HugeSuspensionPanics = FALSE
  Variant_ThresholdIgnoresActive = FALSE
INVARIANTS TypeOK ThresholdWithinActive HasThresholdIff FreshGroupValid ValidateClosure Structure NoPermissionUnlessActive NotActiveNotListed UnknownNotFound EveryPermissionGrantable MatrixRules QueriesConsistent AuditBounded AuditKeepsLatest NoPanic
PROPERTIES ErrorsChangeNothing VersionCounts MembershipFixed Frames
CHECK_DEADLOCK FALSE
