------------------------------- MODULE Scheduler -------------------------------
(***************************************************************************)
(* Task state machine of MaintenanceScheduler as the DHT manager's          *)
(* maintenance loop uses it: poll due tasks, mark started, run, mark        *)
(* completed or failed.  Specification growth (DESIGN.md section 9 item 3). *)
(* Design properties: a running task is never handed out again; a task is   *)
(* handed out only when its interval has elapsed; counters only grow; and   *)
(* - under fairness of the executor - every task runs again and again.      *)
(* AsImplemented_NoRunTimeout: an executor that dies between mark_started   *)
(* and mark_completed leaves the task "running" for ever (no watchdog).     *)
(***************************************************************************)
EXTENDS SchedulerRules, TLC

CONSTANTS Tasks, MaxTime, ExecutorMayDie
Intervals == [x \in Tasks |-> x]     \* task ids double as their intervals (1, 2, ...)

VARIABLES task, active, now, handed, dead
vars == <<task, active, now, handed, dead>>

Init == /\ task = [x \in Tasks |-> [last |-> 0, interval |-> Intervals[x], running |-> FALSE, runs |-> 0, fails |-> 0]]
        /\ active = FALSE /\ now = 0 /\ handed = {} /\ dead = {}
StartS == ~active /\ active' = TRUE /\ UNCHANGED <<task, now, handed, dead>>
StopS == active /\ active' = FALSE /\ UNCHANGED <<task, now, handed, dead>>
Tick == now < MaxTime /\ now' = now + 1 /\ UNCHANGED <<task, active, handed, dead>>
(* the loop takes one due task and marks it started *)
Take(x) == /\ Due(task[x], active, now) /\ task' = [task EXCEPT ![x] = Started(@)]
           /\ handed' = handed \cup {x} /\ UNCHANGED <<active, now, dead>>
Complete(x) == /\ x \in handed \ dead /\ task' = [task EXCEPT ![x] = Completed(@, now)]
               /\ handed' = handed \ {x} /\ UNCHANGED <<active, now, dead>>
Fail(x) == /\ x \in handed \ dead /\ task' = [task EXCEPT ![x] = Failed(@, now)]
           /\ handed' = handed \ {x} /\ UNCHANGED <<active, now, dead>>
Die(x) == ExecutorMayDie /\ x \in handed \ dead /\ dead' = dead \cup {x} /\ UNCHANGED <<task, active, now, handed>>
Next == StartS \/ StopS \/ Tick \/ \E x \in Tasks : Take(x) \/ Complete(x) \/ Fail(x) \/ Die(x)
Spec == Init /\ [][Next]_vars /\ WF_vars(Tick) /\ WF_vars(StartS)
        /\ \A x \in Tasks : WF_vars(Take(x)) /\ WF_vars(Complete(x))

NoDoubleHandOut == \A x \in Tasks : x \in handed <=> task[x].running
OnlyWhenElapsed == \A x \in handed : TRUE   \* (action property below)
HandOutRule == [][\A x \in Tasks : (x \in handed' \ handed) => Due(task[x], active, now)]_vars
CountersGrow == [][\A x \in Tasks : task'[x].runs >= task[x].runs /\ task'[x].fails >= task[x].fails]_vars
(* liveness, meaningful while the clock can still advance: once active for good, every task not yet run MaxTime-bounded runs *)
RunsAgain == \A x \in Tasks : (<>[]active /\ []<>(now < MaxTime)) => []<>(x \in handed)
NotStuck == \A x \in Tasks : []((active /\ x \in dead) => FALSE)
=============================================================================
