------------------------------- MODULE Trace_Rpc -------------------------------
(***************************************************************************)
(* Acceptor for request/response correlation traces (harness c04).  The    *)
(* model is the P-level of Rpc.tla: a pending table maps request ids to    *)
(* the contacted peer; an injected reply completes a request iff it        *)
(* carries that id, comes from that peer (tables "rr" and "dht"; the       *)
(* engine table "core" has no sender in its API), arrives before the       *)
(* deadline and the request is still pending; every other reply changes    *)
(* nothing.  Every call returns exactly once with the value of the reply   *)
(* that completed it, or an error; nothing stays in the table.             *)
(***************************************************************************)
EXTENDS Naturals, Integers, Sequences, FiniteSets, TLC, Json, IOUtils

Rec == ndJsonDeserialize(IOEnv.TRACE)
N == Len(Rec)

VARIABLES l, table, timeout, calls, reqs, viol, nviol, ncalls, ninj
vars == <<l, table, timeout, calls, reqs, viol, nviol, ncalls, ninj>>
Ev == Rec[l]

Note(clause, site, cond) ==
  /\ nviol' = nviol + 1
  /\ viol' = IF Cardinality({i \in 1..Len(viol) : viol[i].clause = clause /\ viol[i].site = site /\ viol[i].cond = cond}) < 12
             THEN Append(viol, [line |-> l, clause |-> clause, site |-> site, cond |-> cond]) ELSE viol
NoNote == UNCHANGED <<viol, nviol>>

(* calls: set of records [t, start, state]; reqs: set of records [id, t, peer, done, doneAt] *)
CallOf(t) == CHOOSE c \in calls : c.t = t
HasCall(t) == \E c \in calls : c.t = t
ReqsOf(t) == {r \in reqs : r.t = t}

Init == /\ l = 1 /\ table = "none" /\ timeout = 0 /\ calls = {} /\ reqs = {}
        /\ viol = <<>> /\ nviol = 0 /\ ncalls = 0 /\ ninj = 0

Reset == /\ Ev.ev = "Reset" /\ table' = Ev.table /\ timeout' = Ev.timeout /\ calls' = {} /\ reqs' = {}
         /\ NoNote /\ UNCHANGED <<ncalls, ninj>>

Call == /\ Ev.ev = "Call" /\ ncalls' = ncalls + 1
        /\ calls' = calls \cup {[t |-> Ev.t, start |-> Ev.at, state |-> "running"]}
        /\ NoNote /\ UNCHANGED <<table, timeout, reqs, ninj>>

(* in table "core" one call (t = 0) issues several requests, numbered by Ev.t *)
OwnerOf(t) == IF table = "core" THEN 0 ELSE t
Sent == /\ Ev.ev = "Sent"
        /\ reqs' = reqs \cup {[id |-> Ev.id, t |-> OwnerOf(Ev.t), q |-> Ev.t, peer |-> Ev.peer, done |-> 0, doneAt |-> 0]}
        /\ NoNote /\ UNCHANGED <<table, timeout, calls, ncalls, ninj>>

Pending(r) == r.done = 0 /\ HasCall(r.t) /\ CallOf(r.t).state = "running"
Matches(r) == /\ r.id = Ev.id
              /\ (table = "core" \/ r.peer = Ev.sender)
              /\ Pending(r)
              /\ Ev.at < CallOf(r.t).start + timeout
Inject == /\ Ev.ev = "Inject" /\ ninj' = ninj + 1
          /\ reqs' = {IF Matches(r) THEN [r EXCEPT !.done = Ev.val, !.doneAt = Ev.at] ELSE r : r \in reqs}
          /\ NoNote /\ UNCHANGED <<table, timeout, calls, ncalls>>

Abort == /\ Ev.ev = "Abort"
         /\ calls' = {IF c.t = Ev.t THEN [c EXCEPT !.state = "aborted"] ELSE c : c \in calls}
         /\ NoNote /\ UNCHANGED <<table, timeout, reqs, ncalls, ninj>>

Completed(t) == {r \in ReqsOf(t) : r.done # 0}
FirstCompleted(t) == CHOOSE r \in Completed(t) : \A s \in Completed(t) : r.q <= s.q
Ret ==
  /\ Ev.ev = "Ret"
  /\ IF ~HasCall(Ev.t) \/ CallOf(Ev.t).state # "running" THEN Note("ExactlyOnce", table, "second-return")
     ELSE IF Ev.ok /\ Completed(Ev.t) = {} THEN Note("OnlyMatching", table, "completed-without-matching-reply")
     ELSE IF Ev.ok /\ Ev.val # FirstCompleted(Ev.t).done THEN Note("OnlyMatching", table, "other-reply-delivered")
     ELSE IF ~Ev.ok /\ Completed(Ev.t) # {} THEN Note("MatchingReplyLost", table, "timeout-despite-reply")
     ELSE IF ~Ev.ok /\ ReqsOf(Ev.t) # {} /\ Ev.at < CallOf(Ev.t).start + timeout THEN Note("ExactlyOnce", table, "early-error")
     ELSE IF Ev.at > CallOf(Ev.t).start + timeout + 1000 THEN Note("Completes", table, "late-return")
     ELSE NoNote
  /\ calls' = {IF c.t = Ev.t THEN [c EXCEPT !.state = "returned"] ELSE c : c \in calls}
  /\ UNCHANGED <<table, timeout, reqs, ncalls, ninj>>

Sizes == /\ Ev.ev = "Sizes"
         /\ IF \E c \in calls : c.state = "running" THEN Note("ExactlyOnce", table, "never-returned")
            ELSE IF Ev.pending # 0 THEN Note("NoResidue", table, IF \E c \in calls : c.state = "aborted" THEN "after-cancel" ELSE "after-return")
            ELSE NoNote
         /\ UNCHANGED <<table, timeout, calls, reqs, ncalls, ninj>>

Cap == /\ Ev.ev = "Cap"
       /\ IF Ev.peak > Ev.cap THEN Note("CapRespected", Ev.table, "exceeded")
          ELSE IF Ev.refused # Ev.issued - Ev.cap THEN Note("CapRespected", Ev.table, "refusals")
          ELSE IF Ev.end # 0 THEN Note("NoResidue", Ev.table, "after-timeouts")
          ELSE NoNote
       /\ UNCHANGED <<table, timeout, calls, reqs, ncalls, ninj>>

Next == l <= N /\ l' = l + 1 /\ (Reset \/ Call \/ Sent \/ Inject \/ Abort \/ Ret \/ Sizes \/ Cap)
Spec == Init /\ [][Next]_vars
Report == (l = N + 1) =>
  JsonSerialize(IOEnv.OUT, [consumed |-> l - 1, total |-> N, nviol |-> nviol, checked |-> ncalls, injected |-> ninj, viol |-> viol])
=============================================================================
