------------------------------- MODULE Lookup -------------------------------
(***************************************************************************)
(* Iterative closest-node lookup of DhtNetworkManager                      *)
(* (find_closest_nodes_network in src/dht_network_manager.rs), implemen-   *)
(* tation-shaped: sorted candidate queue, batches of Alpha, per-reply      *)
(* processing with the dominance filter, best list kept sorted/truncated,  *)
(* MaxIter rounds.  Peers answer with Reply(p) = the ReplyCap closest      *)
(* peers they know (requester excluded) or stay silent.                    *)
(*                                                                         *)
(* TLC enumerates every "who knows whom" graph over Node, every target,    *)
(* every set of silent peers.  Properties C01: the P-level clauses that    *)
(* Trace_Lookup.tla evaluates on transcripts of the real code.             *)
(* AsImplemented_* = the algorithm of the pinned tree (before the fix).    *)
(***************************************************************************)
EXTENDS Naturals, Sequences, FiniteSets, Bitwise, SequencesExt, FiniteSetsExt, TLC

CONSTANTS Node, Self, K, Alpha, MaxIter, ReplyCap, Targets,
          AsImplemented_ConvergeBreak,   \* stop after a round that queued nobody new
          AsImplemented_UnsortedWorst,   \* dominance test against the most recently answered peer
          AsImplemented_SeedOnlyK        \* seed with the K closest local peers only, FIFO queue

Dist(a, b) == a ^^ b
Edges == {e \in SUBSET Node : Cardinality(e) = 2}

VARIABLES adj, target, silent, phase, cand, queried, answered, best, iter, learned, nreq
vars == <<adj, target, silent, phase, cand, queried, answered, best, iter, learned, nreq>>

Knows(n) == {m \in Node : {n, m} \in adj}
SortSet(S) == SetToSortSeq(S, LAMBDA a, b : Dist(a, target) < Dist(b, target))
Take(s, n) == SubSeq(s, 1, IF n < Len(s) THEN n ELSE Len(s))
Reply(p, req) == Take(SortSet(Knows(p) \ {req}), ReplyCap)

Init == /\ adj \in SUBSET Edges
        /\ target \in Targets
        /\ silent \in SUBSET (Node \ {Self})
        /\ phase = "start" /\ cand = <<>> /\ queried = {} /\ answered = {} /\ best = <<>> /\ iter = 0
        /\ learned = {} /\ nreq = 0

Start == /\ phase = "start"
         /\ LET local == SortSet(Knows(Self))
                seed == IF AsImplemented_SeedOnlyK THEN Take(local, K) ELSE local IN
            /\ cand' = seed
         /\ learned' = Knows(Self)
         /\ queried' = {} /\ best' = <<Self>> /\ phase' = "loop"
         /\ UNCHANGED <<adj, target, silent, answered, iter, nreq>>

(* dominance: K answered nodes are known and x is no closer than the farthest of them *)
Worst(b) == b[Len(b)]
Dominated(b, x) == Len(b) >= K /\ Dist(x, target) >= Dist(Worst(b), target)
SortSeqByDist(s) == SortSet({s[i] : i \in 1..Len(s)})

(* drain: pop until Alpha selected; already queried or dominated ones are discarded *)
RECURSIVE Drain(_, _, _)
Drain(c, b, bst) == IF Len(b) >= Alpha \/ c = <<>> THEN <<c, b>>
                    ELSE LET h == Head(c) IN
                         IF h \in queried \/ (~AsImplemented_SeedOnlyK /\ Dominated(bst, h))
                         THEN Drain(Tail(c), b, bst) ELSE Drain(Tail(c), Append(b, h), bst)

(* st = [cand, queried, answered, best, learned, found] ; one reply *)
RECURSIVE ProcNodes(_, _)
ProcNodes(st, nodes) ==
  IF nodes = <<>> THEN st ELSE
  LET x == Head(nodes)
      st1 == [st EXCEPT !.learned = @ \cup {x}]
      skip == x \in st.queried \/ x \in {st.cand[i] : i \in 1..Len(st.cand)} \/ x = Self
  IN ProcNodes(IF skip \/ Dominated(st.best, x) THEN st1
               ELSE [st1 EXCEPT !.cand = Append(@, x), !.found = TRUE], Tail(nodes))
RECURSIVE Proc(_, _)
Proc(st, b) ==
  IF b = <<>> THEN st ELSE
  LET p == Head(b)
      st0 == [st EXCEPT !.queried = @ \cup {p}]
      newbest == IF AsImplemented_UnsortedWorst THEN Append(st0.best, p)
                 ELSE Take(SortSeqByDist(Append(st0.best, p)), K)
      st1 == IF p \in silent THEN st0
             ELSE ProcNodes([st0 EXCEPT !.best = newbest, !.answered = @ \cup {p}], Reply(p, Self))
  IN Proc(st1, Tail(b))

Iterate ==
  /\ phase = "loop"
  /\ IF iter >= MaxIter \/ cand = <<>>
     THEN phase' = "done" /\ UNCHANGED <<cand, queried, answered, best, iter, learned, nreq>>
     ELSE LET sorted == IF AsImplemented_SeedOnlyK THEN cand ELSE SortSeqByDist(cand)
              d == Drain(sorted, <<>>, best) IN
          IF d[2] = <<>>
          THEN phase' = "done" /\ cand' = d[1] /\ UNCHANGED <<queried, answered, best, iter, learned, nreq>>
          ELSE LET st == Proc([cand |-> d[1], queried |-> queried, answered |-> answered, best |-> best,
                               learned |-> learned, found |-> FALSE], d[2]) IN
               /\ cand' = st.cand /\ queried' = st.queried /\ answered' = st.answered
               /\ best' = Take(SortSeqByDist(st.best), K)
               /\ learned' = st.learned
               /\ nreq' = nreq + Len(d[2]) /\ iter' = iter + 1
               /\ phase' = IF AsImplemented_ConvergeBreak /\ ~st.found THEN "done" ELSE "loop"
  /\ UNCHANGED <<adj, target, silent>>

Next == Start \/ Iterate
Spec == Init /\ [][Next]_vars /\ WF_vars(Next)

Result == Take(SortSeqByDist(best), K)
Done == phase = "done"
FullMesh == adj = Edges

(* ---- properties (P-level: the clauses of Trace_Lookup.tla) ---- *)
Bounded == nreq <= MaxIter * Alpha
NoSelfQuery == Self \notin queried
OnlyAnswered == Done => {Result[i] : i \in 1..Len(Result)} \subseteq answered \cup {Self}
ClosestAnswered == Done => Result = Take(SortSet(answered \cup {Self}), K)
NoCloserUnqueried ==
  (Done /\ iter < MaxIter) =>
     /\ \A p \in learned \ {Self} : (Result # <<>> /\ Dist(p, target) < Dist(Result[Len(Result)], target)) => p \in queried
     /\ Len(Result) < K => learned \ {Self} \subseteq queried
FullMeshExact == (Done /\ FullMesh /\ iter < MaxIter) => Result = Take(SortSet(Node \ silent), K)
Terminates == <>Done
=============================================================================
