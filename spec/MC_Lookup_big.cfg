SPECIFICATION Spec
CONSTANTS
  Node = {1, 2, 4, 7, 8}
  Self = 1
  K = 3
  Alpha = 2
  MaxIter = 4
  ReplyCap = 2
  Targets = {0, 3, 6, 9, 12}
  AsImplemented_ConvergeBreak = FALSE
  AsImplemented_UnsortedWorst = FALSE
  AsImplemented_SeedOnlyK = FALSE
INVARIANTS Bounded NoSelfQuery OnlyAnswered ClosestAnswered NoCloserUnqueried FullMeshExact
PROPERTY Terminates
CHECK_DEADLOCK FALSE
