\* all as-implemented flags on: the structural invariants still hold
SPECIFICATION Spec
CONSTANTS
  MaxHistory = 2
  Peers = {p1, p2, p3}
  PfxA = {p1, p2}
  NSub = 2
  BThr = 2
  Win = 1
  PThr = 2
  SimPm = 750
  AsymThrPm = 2000
  Age = 2
  AgeIsMax = FALSE
  MinObs = 1
  MaxT = 2
  MaxOps = 4
  OpSet = {"join", "leave", "analyze", "clear", "cleanup"}
  Lats = {0}
  Sizes = {0}
  Claims = {0}
  Measures = {0}
  AsImplemented_BurstCountsRepeats = TRUE
  AsImplemented_BurstNotAged = TRUE
  AsImplemented_DepartedKeepTriggering = TRUE
  AsImplemented_EvidenceAccumulates = TRUE
  AsImplemented_NoGroupMerge = TRUE
  AsImplemented_OverallCountsMemberships = TRUE
  AsImplemented_ZeroAverageNaN = TRUE
  AsImplemented_HugeAgePanics = TRUE
  Variant_StrictThreshold = FALSE
SYMMETRY Sym
INVARIANTS TypeOK JoinsOrdered PrefixExact PrefixNamesSharers SimilarityBounded AsymSound AnalyzeCovers GroupsOnlyByAnalysis SuspectedIffMember GroupCountBounded ClearEmpties CleanupOnlyOld RecordsWithinWindow
CHECK_DEADLOCK FALSE
