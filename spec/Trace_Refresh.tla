----------------------------- MODULE Trace_Refresh -----------------------------
(***************************************************************************)
(* Conformance acceptor for BucketRefreshManager (harness module refresh). *)
(* Every `Step` carries the projected state before and after one public    *)
(* operation of the real object and what the operation returned.  The      *)
(* acceptor rebuilds the model state from `pre` (plus the three private    *)
(* fields it has to carry itself: the close-group list, the recently-used  *)
(* list and the validation age threshold), applies the function of         *)
(* RefreshRules.tla (as-implemented flags on) and compares.                *)
(*                                                                         *)
(* Time: ages are milliseconds read from std::time::Instant.  The real     *)
(* call happens between the two projections, so a time-dependent answer is *)
(* accepted iff it is right for SOME age in [pre age, post age + 1); ages  *)
(* in `post` may exceed the computed ones by the real time the step took   *)
(* (at most Slack).  Mismatches are MODEL-DRIFT (informational).           *)
(***************************************************************************)
EXTENDS RefreshRules, Json, IOUtils

CONSTANTS Slack, DefaultThr

Recs == ndJsonDeserialize(IOEnv.TRACE)
N == Len(Recs)
VARIABLES l, hid, drift, ndrift, n
tvars == <<l, hid, drift, ndrift, n>>
Ev == Recs[l]

SeqSet(q) == {q[i] : i \in 1..Len(q)}
(* a bucket entry is [index, age, cnt, tier, succ, fail, vp, vf, vage, tracked] *)
BucketOf(e, dt) == [age |-> e[2] + dt, cnt |-> e[3], tier |-> e[4], succ |-> e[5], fail |-> e[6], vp |-> e[7], vf |-> e[8],
                    vage |-> IF e[9] < 0 THEN -1 ELSE e[9] + dt, tr |-> e[10]]
ToState(j, h, dt) ==
  [bk |-> [b \in {j.bk[i][1] : i \in 1..Len(j.bk)} |-> BucketOf(j.bk[CHOOSE i \in 1..Len(j.bk) : j.bk[i][1] = b], dt)],
   close |-> h.close, recent |-> h.recent, thr |-> h.thr,
   tvf |-> j.tvf, val |-> j.val, attack |-> j.attack, ind |-> j.ind]
Pre == ToState(Ev.pre, hid, 0)              \* the youngest the buckets can have been at the call
Late == ToState(Ev.post, hid, 1)            \* strictly older than they can have been
Post == ToState(Ev.post, hid, 0)

AgeOk(exp, obs) == IF exp < 0 THEN obs = exp ELSE obs >= exp /\ obs <= exp + Slack
BucketMatches(x, o) == /\ AgeOk(x.age, o.age) /\ AgeOk(x.vage, o.vage) /\ x.cnt = o.cnt /\ x.tier = o.tier /\ x.succ = o.succ
                       /\ x.fail = o.fail /\ x.vp = o.vp /\ x.vf = o.vf /\ x.tr = o.tr
Matches(x) == LET o == Post IN
  /\ Exists(x) = Exists(o) /\ \A b \in Exists(x) : BucketMatches(x.bk[b], o.bk[b])
  /\ x.tvf = o.tvf /\ x.val = o.val /\ x.attack = o.attack /\ x.ind = o.ind
Same(r) == Matches(r.s) /\ Ev.ok = r.ok     \* boolean results
Unchanged == Matches(Pre)
Between(lo, obs, hi) == lo \subseteq obs /\ obs \subseteq hi

Expected == LET s == Pre IN
  CASE Ev.op = "init" -> InitBuckets(s, Ev.n)
    [] Ev.op = "touch" -> Touch(s, Ev.b)
    [] Ev.op = "success" -> Success(s, Ev.b, Ev.n)
    [] Ev.op = "failure" -> Failure(s, Ev.b)
    [] Ev.op = "markclose" -> MarkClose(s, Ev.b)
    [] Ev.op = "markrecent" -> MarkRecent(s, Ev.b)
    [] Ev.op = "retier" -> UpdateTier(s, Ev.b, Ev.cg, Ev.ru)
    [] Ev.op = "advance" -> Advance(s, Ev.d)
    [] Ev.op = "vpass" -> VPass(s, Ev.b)
    [] Ev.op = "vfail" -> VFail(s, Ev.b)
    [] Ev.op = "process" -> Process(s, Ev.b, Ev.valid)
    [] Ev.op = "vresult" -> VResult(s, Ev.b)
    [] Ev.op = "track" -> Track(s, Ev.b, Ev.n)
    [] Ev.op = "untrack" -> Untrack(s, Ev.b, Ev.n)
    [] Ev.op = "setthr" -> SetThr(s, Ev.d)
    [] Ev.op = "reset" -> ResetFailures(s)
    [] Ev.op = "deesc" -> Deescalate(s)
    [] Ev.op = "setval" -> SetValidator(s)
    [] Ev.op = "validate" -> Validate(s, Ev.b, Ev.cs)
    [] OTHER -> [s |-> s, ok |-> TRUE]      \* queries: the state stays

StepOk ==
  CASE Ev.op = "needs" -> Unchanged /\ (Ev.ok => Stale(Late, Ev.b)) /\ (~Ev.ok => ~Stale(Pre, Ev.b))
    [] Ev.op = "needswith" -> Unchanged /\ (Ev.ok => StaleWith(Late, Ev.b, Ev.iv)) /\ (~Ev.ok => ~StaleWith(Pre, Ev.b, Ev.iv))
    [] Ev.op = "list" -> /\ Unchanged /\ NoDup(Ev.list) /\ Between(RefreshSet(Pre), SeqSet(Ev.list), RefreshSet(Late))
                         /\ TierSorted(Pre, Ev.list)
    [] Ev.op = "needval" -> Unchanged /\ NoDup(Ev.list) /\ Between(NeedValSet(Pre), SeqSet(Ev.list), NeedValSet(Late))
    [] Ev.op = "nodes" -> Unchanged /\ Ev.list = NodesIn(Pre, Ev.b)
    [] Ev.op = "rate" -> Unchanged /\ PmOk(Ev.res, Pre.bk[Ev.b].vp, Pre.bk[Ev.b].vp + Pre.bk[Ev.b].vf)
    [] Ev.op = "orate" -> Unchanged /\ PmOk(Ev.res, Passed(Pre), Passed(Pre) + Failed(Pre))
    [] Ev.op = "trigger" -> Unchanged /\ Ev.ok = Trigger(Pre)
    [] Ev.op = "genkey" -> Unchanged /\ Ev.res = GenKey(Pre, Ev.n)
    [] Ev.op = "validate" -> LET r == Expected IN Matches(r.s) /\ Ev.valid = r.valid /\ Ev.invalid = r.invalid
    [] OTHER -> Same(Expected)

Init == l = 1 /\ hid = [close |-> {}, recent |-> {}, thr |-> DefaultThr] /\ drift = <<>> /\ ndrift = 0 /\ n = 0
Note(what) == /\ ndrift' = ndrift + 1
              /\ drift' = IF Len(drift) < 20 THEN Append(drift, [line |-> l, op |-> what]) ELSE drift
Next == /\ l <= N /\ l' = l + 1
        /\ CASE Ev.ev = "Reset" -> hid' = [close |-> {}, recent |-> {}, thr |-> DefaultThr] /\ UNCHANGED <<drift, ndrift, n>>
             [] Ev.ev = "Step" -> /\ n' = n + 1
                                  /\ LET x == Expected.s IN hid' = [close |-> x.close, recent |-> x.recent, thr |-> x.thr]
                                  /\ IF StepOk THEN UNCHANGED <<drift, ndrift>> ELSE Note(Ev.op)
             [] Ev.ev = "Panic" -> Note("panic") /\ UNCHANGED <<hid, n>>
             [] OTHER -> UNCHANGED <<hid, drift, ndrift, n>>
Spec == Init /\ [][Next]_tvars
Report == (l = N + 1) => JsonSerialize(IOEnv.OUT, [consumed |-> l - 1, total |-> N, nviol |-> ndrift, checked |-> n, viol |-> drift])
=============================================================================
