------------------------------- MODULE Regen -------------------------------
(***************************************************************************)
(* State machine of the identity regeneration trigger (RegenerationTrigger *)
(* in src/identity/regeneration.rs) and of a stand-alone RejectionHistory  *)
(* (src/identity/rejection.rs) for exhaustive checking.  The transition    *)
(* and verdict functions are RegenRules.tla - the same ones                *)
(* Trace_Regen.tla holds against the real objects.  Specification growth   *)
(* module (not one of the listed properties).                              *)
(*                                                                         *)
(* A behaviour is either about the trigger (mode "trigger": attempts,      *)
(* results, disable / enable / reset, evaluations, the clock) or about a   *)
(* history (mode "history"); the two objects do not interact beyond        *)
(* evaluate_rejection writing the trigger's private history.  The decision *)
(* queries are pure: the invariants quantify over EVERY input of           *)
(* evaluate_rejection / evaluate_fitness in every reachable state.         *)
(* `last` remembers the operation that produced the current state.         *)
(***************************************************************************)
EXTENDS RegenRules

CONSTANTS Base, MaxD, MaxAtt, Window, CbThr, CbReset, Jit, Track, Bits, HCap,   \* the configuration
          Ids,           \* NodeIds (byte sequences) a regeneration may produce
          EvalReasons,   \* reasons of the evaluate_rejection STEPS (they write the private history)
          HistCaps, HistReasons, HistAges,   \* history mode: capacities of with_capacity, reasons and ages recorded
          HistMaxTime,   \* history mode: the clock stops here (the trigger is idle in that mode)
          MaxTime, MaxOps

MCIds == {<<171, 1>>, <<18, 2>>}     \* for the configurations: two identities with different 12-bit prefixes
Cfg == [base |-> Base, maxd |-> MaxD, maxatt |-> MaxAtt, window |-> Window, cbthr |-> CbThr, cbreset |-> CbReset,
        jit |-> Jit, track |-> Track, bits |-> Bits, hcap |-> HCap]

VARIABLES mode, st, h, now, last, nops
vars == <<mode, st, h, now, last, nops>>

NoArg == [op |-> "init", r |-> 0, t |-> 0]
Init == /\ mode \in {"trigger", "history"}
        /\ st = NewTrigger(Cfg)
        /\ h \in IF mode = "history" THEN {HNew, HDefault} \cup {HWithCap(n) : n \in HistCaps} ELSE {HNew}
        /\ now = 0 /\ last = NoArg /\ nops = 0

DoT(r, op, a) == st' = r.s /\ last' = [op |-> op, r |-> a, t |-> now] /\ nops' = nops + 1 /\ UNCHANGED <<mode, h, now>>
DoH(x, op, a, t) == h' = x /\ last' = [op |-> op, r |-> a, t |-> t] /\ nops' = nops + 1 /\ UNCHANGED <<mode, st, now>>
Tick == now < (IF mode = "history" THEN HistMaxTime ELSE MaxTime) /\ now' = now + 1 /\ last' = [op |-> "tick", r |-> 0, t |-> now] /\ UNCHANGED <<mode, st, h, nops>>
BackoffChoices(c, f) == BackoffLo(c, f)..BackoffHi(c, f)

Next ==
  \/ Tick
  \/ /\ nops < MaxOps /\ mode = "trigger"
     /\ \/ \E b \in BackoffChoices(st.c, st.fails) : DoT(RecordAttempt(st, now, b), "attempt", 0)
        \/ \E id \in Ids : DoT(RecordResult(st, now, FALSE, id), "failure", 0)
        \/ \E id \in Ids : DoT(RecordResult(st, now, TRUE, id), "success", 0)
        \/ DoT(Disable(st), "disable", 0) \/ DoT(Enable(st), "enable", 0) \/ DoT(ResetOp(st), "reset", 0)
        \/ \E r \in EvalReasons : DoT(EvalRejection(st, now, r, TRUE, FALSE, 0, 0), "evalrej", r)     \* wall-clock second: not modelled here
  \/ /\ nops < MaxOps /\ mode = "history"
     /\ \/ \E r \in HistReasons, a \in HistAges : now - a >= Epoch /\ DoH(HRecord(h, r, now - a), "hrecord", r, now - a)
        \/ DoH(HClear(h), "hclear", 0, 0)
Spec == Init /\ [][Next]_vars

(* ---- every decision the trigger can give in the current state ---- *)
RejInputs == [r : Reasons, rec : BOOLEAN, tgt : {TRUE}, retry : {SecUnit}]
RejD(i) == EvalRejection(st, now, i.r, i.rec, i.tgt, i.retry, 0).d
FitD(v) == EvalFitness(st, now, v).d
AllD == {RejD(i) : i \in RejInputs} \cup {FitD(v) : v \in Verdicts}
InCooldown == st.la >= 0 /\ now - st.la < st.bo
OverMax == RecentAttempts(st, now) >= st.c.maxatt

(* ---- invariants of the design ---- *)
Kinds == {"Proceed", "Wait", "Recommend", "Blocked", "NotNeeded"}
TypeOK == /\ st.en \in BOOLEAN /\ st.fails \in Nat /\ st.bo \in Nat /\ st.la \in -1..MaxTime /\ st.open \in BOOLEAN
          /\ \A i \in 1..Len(st.att) : st.att[i] \in 0..MaxTime
          /\ st.oa \in -1..MaxTime /\ (st.open <=> st.oa >= 0)
          /\ (st.la >= 0 => st.att # <<>> /\ st.la = st.att[Len(st.att)])
(* The rules about decisions are stated per decision d (for the rejection input i; fu = the decision for an unfit
   verdict in the same state), so that the configuration of the intended design can check them with one pass over
   the inputs (Decisions) and every deviation configuration can name the one it violates. *)
(* regeneration is never recommended while disabled, in cooldown, above the attempt maximum, or while the
   circuit breaker reports itself open *)
PGated(d) == d.kind \in Kinds /\ (d.kind = "Proceed" => st.en /\ ~InCooldown /\ ~OverMax /\ ~IsCircuitOpen(st, now))
(* a wait is a real wait: positive and not longer than the current backoff (or the retry-after of the rejection) *)
PWait(i, d) == d.kind = "Wait" => IF i.r \in DocTransient THEN d.rem = i.retry ELSE d.rem > 0 /\ d.rem <= st.bo
(* a reason the documentation calls permanent is answered Blocked in every state - never "wait and retry", never "proceed" *)
PPermanent(i, d) == i.r \in DocPermanent => d.kind = "Blocked" /\ d.why \in {"Blocklisted", "DiversityConstraint"}
(* ... and a transient one (rate limiting) is never answered with a permanent block *)
PTransient(i, d) == i.r \in DocTransient => d.kind = "Wait"
(* the trigger proceeds on a rejection only if RejectionInfo::should_regenerate() says so *)
PFollows(i, d) == d.kind = "Proceed" => ShouldRegenerate(i.r, i.rec) /\ d.urg = UrgencyOfReason(i.r) /\ d.tgt = i.tgt
(* a rejection regeneration can help with and an unfit verdict pass the same gates *)
PSame(i, d, fu) == MayHelp(i.r) /\ i.rec => d.kind = fu.kind /\ d.why = fu.why /\ d.rem = fu.rem /\ d.att = fu.att
PFitness(fh, fm, fu, fc) ==
  /\ fh.kind = "NotNeeded" /\ fm.kind = "Recommend" /\ fu.kind = fc.kind
  /\ (fu.kind = "Proceed" => fu.urg = "Medium" /\ fc.urg = "Critical")
  /\ \A f \in {fh, fm, fu, fc} : f.why \notin {"Blocklisted", "DiversityConstraint"} /\ PGated(f)

NoProceedWhenGated == \A d \in AllD : PGated(d)
WaitBounded == \A i \in RejInputs : PWait(i, RejD(i))
PermanentNeverRetried == \A i \in RejInputs : PPermanent(i, RejD(i))
TransientNotBlocked == \A i \in RejInputs : PTransient(i, RejD(i))
ProceedFollowsRecommendation == \A i \in RejInputs : PFollows(i, RejD(i))
SameGates == \A i \in RejInputs : PSame(i, RejD(i), FitD("unfit"))
FitnessMapping == PFitness(FitD("healthy"), FitD("marginal"), FitD("unfit"), FitD("critical"))
(* all of the above in one pass *)
Decisions == LET g == Gates(st, now)
                 fh == DecideFitness(st, g, "healthy")  fm == DecideFitness(st, g, "marginal")
                 fu == DecideFitness(st, g, "unfit")    fc == DecideFitness(st, g, "critical")
             IN /\ PFitness(fh, fm, fu, fc)
                /\ \A i \in RejInputs : LET d == DecideRejection(st, g, i.r, i.rec, i.tgt, i.retry)
                                        IN PGated(d) /\ PWait(i, d) /\ PPermanent(i, d) /\ PTransient(i, d) /\ PFollows(i, d) /\ PSame(i, d, fu)
(* the three predicates on reasons agree with the documentation of the variants (for every reason, recorded or not) *)
ReasonClasses == /\ \A r \in Reasons \cup HPresent(h) : (MayHelp(r) <=> r \in DocHelpful) /\ (IsBlocking(r) <=> r \in DocPermanent)
                 /\ \A r \in Reasons : IsDiversity(r) => IsBlocking(r) /\ ~MayHelp(r)
                 /\ (nops = 0 => \A b \in 0..255 : FromByte(b) \in Reasons /\ (b \in Reasons => FromByte(b) = b))
(* backoff: within [base, max]; grows with the failures up to the cap; set by an attempt; reset by a success *)
BackoffWithinCap == st.bo <= MaxOf(st.c.base, st.c.maxd) /\ (st.la >= 0 => st.bo >= st.c.base)
BackoffMonotoneInFailures == nops = 0 => \A f \in 0..(MaxOps + 1) : /\ Clamped(st.c, f) <= Clamped(st.c, f + 1) /\ Clamped(st.c, f) <= MaxOf(st.c.base, st.c.maxd)
                                                        /\ BackoffLo(st.c, f) <= BackoffLo(st.c, f + 1)
                                                        /\ (f > 0 /\ 2 * Clamped(st.c, f - 1) <= st.c.maxd => Clamped(st.c, f) = 2 * Clamped(st.c, f - 1))
AttemptSetsBackoff == last.op = "attempt" => BackoffOk(st.c, st.fails, st.bo, 0) /\ st.la = now
SuccessResets == last.op = "success" => st.fails = 0 /\ st.bo = st.c.base /\ ~st.open /\ ~IsCircuitOpen(st, now)
(* circuit breaker: trips exactly at the threshold, and an open circuit means that many failures in a row *)
CircuitTrips == last.op = "failure" /\ st.fails >= st.c.cbthr => st.open /\ st.oa = now /\ IsCircuitOpen(st, now)
OpenMeansFailures == st.open => st.fails >= st.c.cbthr
(* failed identities are remembered (when tracking is on) and only those *)
PrefixTracking == /\ (last.op = "failure" /\ st.c.track => st.pref # {})
                  /\ \A p \in st.pref : \E id \in Ids : p = Prefix(id, st.c.bits)
                  /\ (~st.c.track => st.pref = {})
(* evaluate_rejection leaves the rejection in the private history *)
EvalRecords == last.op = "evalrej" /\ st.c.hcap > 0 => st.hist.items # <<>> /\ st.hist.items[Len(st.hist.items)] = <<last.r, 0>>
(* rejection history: bounded; the newest rejection is kept; recent() is a sub-sequence that grows with the window;
   loop detection is monotone in the threshold; the most common reason is a most frequent one *)
HBounded == Len(h.items) <= h.cap /\ Len(st.hist.items) <= st.hist.cap
HRecordKeepsLatest == last.op = "hrecord" => h.items # <<>> /\ h.items[Len(h.items)] = <<last.r, last.t>>
Windows == {0, 999, 1000, 2000, -1}
HRecentRules == /\ \A d \in Windows : Elems(HRecent(h, now, d)) \subseteq Elems(h.items) /\ Len(HRecent(h, now, d)) <= Len(h.items)
                /\ HRecent(h, now, -1) = h.items
                /\ HRecent(h, now, 999) = HRecent(h, now, 0)
                /\ Len(HRecent(h, now, 1000)) <= Len(HRecent(h, now, 2000))
                /\ \A k \in 0..3 : HLoop(h, now, k + 1, 2000) => HLoop(h, now, k, 2000)
HCommonRules == /\ (h.items = <<>> <=> HCommonSet(h) = {})
                /\ \A r \in HCommonSet(h) : HCount(h, r) > 0 /\ \A q \in Reasons : HCount(h, q) <= HCount(h, r)
(* deliberately false statements: their counterexamples show that the interesting states are reached within the bounds *)
Vac_NeverMaxAttempts == \A d \in AllD : d.why # "MaxAttemptsReached"
Vac_NeverReopens == ~(last.op = "failure" /\ st.open /\ st.oa >= st.c.cbreset /\ st.fails > st.c.cbthr)

(* counters never decrease except by the documented operations; an attempt is exactly one more attempt; the backoff
   an attempt sets does not fall below the previous one by more than the jitter allows *)
CountersMonotone == [][/\ (Len(st'.att) >= Len(st.att) \/ last'.op = "reset")
                       /\ (st'.fails >= st.fails \/ last'.op \in {"success", "reset"})
                       /\ (last'.op = "attempt" => Len(st'.att) = Len(st.att) + 1 /\ st'.fails = st.fails)
                       /\ (last'.op = "failure" => st'.fails = st.fails + 1 /\ st'.bo = st.bo)
                       /\ st.pref \subseteq st'.pref \/ last'.op = "reset"]_vars
BackoffGrows == [][last'.op = "attempt" => st'.bo + 2 * JitterSpan(st.c, st.fails) >= st.bo]_vars
(* the clock alone never turns a Proceed into anything else, nor opens the circuit *)
TimeOnlyHelps == [][last'.op = "tick" => LET g0 == Gates(st, now)  g1 == Gates(st', now') IN \A i \in RejInputs :
                       DecideRejection(st, g0, i.r, i.rec, i.tgt, i.retry).kind = "Proceed"
                         => DecideRejection(st', g1, i.r, i.rec, i.tgt, i.retry).kind = "Proceed"]_vars
=============================================================================
