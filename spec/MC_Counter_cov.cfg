SPECIFICATION Spec
CONSTANTS
  Peers = {1, 2}
  MaxSeq = 2
  BIG = 99
  Tasks = {1, 2}
  MaxCalls = 2
  MaxBatch = 1
  Variant_TwoStep = FALSE
  Variant_MonotonicOnly = FALSE
  Variant_ReplayLt = FALSE
INVARIANTS TypeOK AtMostOnce InOrder Classified PersistedBelow
PROPERTY MarkMoves
CHECK_DEADLOCK FALSE
