-------------------------------- MODULE Trust --------------------------------
(***************************************************************************)
(* EigenTrust engine of saorsa-core (src/adaptive/trust.rs:                *)
(* EigenTrustEngine::{update_local_trust, update_node_stats,               *)
(* add_pre_trusted, remove_pre_trusted, compute_global_trust},             *)
(* TrustProvider::{get_trust, update_trust, remove_node}; report mapping   *)
(* P2PNode::report_peer_* in src/network.rs).          Property C10.       *)
(*                                                                         *)
(* The score vector itself is a floating point power iteration and is NOT  *)
(* recomputed here.  The module has three parts:                           *)
(*  1. P-level abstract state of one engine (report history folded into    *)
(*     per-edge outcome sequences, per-node report counters, anchors), the *)
(*     relation detector Rel(cur, old) that says which clause of C10       *)
(*     relates two states, and the bookkeeping behind the per-peer query.  *)
(*     These operators are shared with the acceptor Trace_Trust.tla.       *)
(*  2. I-level design model of the final step of compute_global_trust:     *)
(*     score[n] = v[n]*factor(n) / Sum(v*factor), v an arbitrary weight    *)
(*     vector that depends on the graph only (universally quantified),     *)
(*     factor modelled exactly as a rational (cross-multiplication).       *)
(*  3. A small-scope state machine over twin engines A, B (equal histories *)
(*     plus at most one extra report on B) and the I-level cache of A,     *)
(*     checked exhaustively by TLC.                                        *)
(* Deviation flags:                                                        *)
(*  AsImplemented_AbsentPerfect = TRUE: a node without a statistics entry  *)
(*     keeps factor 1 (pinned tree) - violates SuccessMonotone.            *)
(*  StrictQuery = TRUE: only the strict reading of "query returns the last *)
(*     computed score (0 for unknown)" - the I-level cache (never pruned)  *)
(*     violates it; the check accepts the lenient readings listed at       *)
(*     QueryOK.                                                            *)
(***************************************************************************)
EXTENDS TrustCore

(* part 1 (P-level operators) lives in TrustCore.tla *)

(* ================== 2. I-level design model of scores ================== *)
CONSTANTS Nodes, MaxOps, VMax, AsImplemented_AbsentPerfect, StrictQuery

Min2(a, b) == IF a < b THEN a ELSE b
UpCount(r) == Cardinality({i \in 1..Len(r.other) : r.other[i][1] = "up"})
(* factor * 10 as a rational <<num, den>>: 4*response_rate + 2*uptime_factor (one "up" report =
   half a day); contributions are 0 in the small model *)
FactorOfRep(r) ==
  LET c == r.ok
      f == r.fail + r.unavail + 2 * r.corrupt + 2 * r.viol
      rn == IF c + f = 0 THEN 1 ELSE c
      rd == IF c + f = 0 THEN 2 ELSE c + f
      un == Min2(UpCount(r), 2) IN
  <<4 * rn + un * rd, rd>>
Factor(S, n) ==
  IF n \in DOMAIN S.reps THEN FactorOfRep(S.reps[n])
  ELSE IF AsImplemented_AbsentPerfect THEN <<10, 1>>       \* factor 1.0: adjustment skipped
  ELSE FactorOfRep(ZeroRep)                                 \* intended: default statistics
ScoreDom(S) == IF Known(S) = {} THEN {} ELSE Known(S) \cup S.pre

RECURSIVE ProdDen(_, _)
ProdDen(S, T) == IF T = {} THEN 1 ELSE LET n == CHOOSE x \in T : TRUE IN Factor(S, n)[2] * ProdDen(S, T \ {n})
RECURSIVE SumW(_, _, _)
(* unnormalised weight of n over the common denominator *)
W(S, v, n) == v[n] * Factor(S, n)[1] * ProdDen(S, ScoreDom(S) \ {n})
SumW(S, v, T) == IF T = {} THEN 0 ELSE LET n == CHOOSE x \in T : TRUE IN W(S, v, n) + SumW(S, v, T \ {n})
Total(S, v) == SumW(S, v, ScoreDom(S))
(* score of p as <<num, den>>; <<0,1>> when p is not listed or everything is zero *)
Score(S, v, p) == IF p \notin ScoreDom(S) \/ Total(S, v) = 0 THEN <<0, 1>> ELSE <<W(S, v, p), Total(S, v)>>
Leq(x, y) == x[1] * y[2] <= y[1] * x[2]

(* ================== 3. small-scope state machine ======================= *)
VARIABLES sa, sb,        \* abstract states of the twin engines
          extra,         \* has B already received its extra report
          nops,
          cache,         \* I-level: trust_cache of engine A (node -> value token)
          q,             \* P-level query bookkeeping of engine A
          limbo,         \* removed nodes whose statistics remain
          ncomp          \* number of computes so far (value tokens are <<ncomp, n>>)
vars == <<sa, sb, extra, nops, cache, q, limbo, ncomp>>

Prior == <<0, 0>>
Zero == <<0, -1>>

Init == /\ \E pre \in SUBSET Nodes :
             /\ Cardinality(pre) <= 1
             /\ sa = NewState(pre) /\ sb = NewState(pre)
             /\ cache = [n \in pre |-> Prior]
             /\ q = QInit(pre, Prior)
        /\ extra = FALSE /\ nops = 0 /\ limbo = {} /\ ncomp = 0

Step == nops < MaxOps /\ nops' = nops + 1
Local(f, t, ok) == /\ Step /\ sa' = ApplyLocal(sa, f, t, ok) /\ sb' = ApplyLocal(sb, f, t, ok)
                   /\ limbo' = limbo \ {f, t}
                   /\ UNCHANGED <<extra, cache, q, ncomp>>
Stat(n, kind) == /\ Step /\ sa' = ApplyStat(sa, n, kind, 1) /\ sb' = ApplyStat(sb, n, kind, 1)
                 /\ limbo' = limbo \ {n}
                 /\ UNCHANGED <<extra, cache, q, ncomp>>
Extra(n, kind) == /\ ~extra /\ extra' = TRUE /\ sb' = ApplyStat(sb, n, kind, 1)
                  /\ UNCHANGED <<sa, nops, cache, q, limbo, ncomp>>
AddPre(n) == /\ Step /\ sa' = ApplyAddPre(sa, n) /\ sb' = ApplyAddPre(sb, n)
             /\ cache' = Put(cache, n, Prior) /\ q' = QAddPre(q, n, Prior)
             /\ UNCHANGED <<extra, limbo, ncomp>>
RemPre(n) == /\ Step /\ sa' = ApplyRemPre(sa, n) /\ sb' = ApplyRemPre(sb, n)
             /\ UNCHANGED <<extra, cache, q, limbo, ncomp>>
Remove(n) == /\ Step /\ sa' = ApplyRemove(sa, n) /\ sb' = ApplyRemove(sb, n)
             /\ cache' = Drop(cache, {n}) /\ q' = QRemove(q, n)
             /\ limbo' = IF n \in DOMAIN sa.reps THEN limbo \cup {n} ELSE limbo
             /\ UNCHANGED <<extra, ncomp>>
(* compute on A: publishes fresh (distinct) values for ScoreDom; the cache is only ever extended *)
Compute == /\ Step /\ ncomp' = ncomp + 1
           /\ LET dom == ScoreDom(sa)
                  val == [n \in dom |-> <<ncomp + 1, n>>] IN
              /\ cache' = [n \in DOMAIN cache \cup dom |-> IF n \in dom THEN val[n] ELSE cache[n]]
              /\ q' = QCompute(q, dom, val)
           /\ UNCHANGED <<sa, sb, extra, limbo>>

Next == \/ \E f, t \in Nodes : Local(f, t, TRUE)
        \/ \E n \in Nodes, k \in {"ok", "fail", "corrupt", "up"} : Stat(n, k) \/ Extra(n, k)
        \/ \E n \in Nodes : AddPre(n) \/ RemPre(n) \/ Remove(n)
        \/ Compute
Spec == Init /\ [][Next]_vars

(* ---- properties ---- *)
Weights(S) == [ScoreDom(S) -> 0..VMax]
CacheGet(n) == IF n \in DOMAIN cache THEN cache[n] ELSE Zero

(* the per-peer query (= cache lookup) is always one of the accepted readings *)
QueryIsLast == \A n \in Nodes : QueryOK(CacheGet(n), n, q, sa, Zero, Prior, StrictQuery)

(* the published domain is admissible *)
DomainWellFormed == DomainOK(ScoreDom(sa), sa, limbo)

(* scores are a distribution: by construction Sum = Total/Total; stated for completeness *)
SumWellFormed == \A v \in Weights(sa) :
  Total(sa, v) = 0 \/ SumW(sa, v, ScoreDom(sa)) = Total(sa, v)

(* twin relations, for every weight vector that depends on the graph only *)
Twin(kinds, cmp(_, _)) ==
  LET r == Rel(sb, sa) IN
  r.k \in kinds => (ScoreDom(sa) = ScoreDom(sb) =>
                      \A v \in Weights(sb) : cmp(Score(sa, v, r.p), Score(sb, v, r.p)))
SuccessMonotone == Twin({"ok+"}, LAMBDA a, b : Leq(a, b))
FailureMonotone == Twin({"fail+"}, LAMBDA a, b : Leq(b, a))
(* new nodes: a node unknown before its first report has score 0 without the report *)
FreshFailureZero ==
  LET r == Rel(sb, sa) IN
  (r.k = "fail+" /\ ScoreDom(sa) # ScoreDom(sb)) => \A v \in Weights(sb) : Score(sb, v, r.p)[1] = 0
(* severity: H+corrupt never scores above H+fail (H = sa; both one report away from it) *)
SeverityOrder ==
  \A p \in Nodes, s \in Severe :
    LET x == ApplyStat(sa, p, "fail", 1)
        y == ApplyStat(sa, p, s, 1) IN
    \A v \in Weights(x) : Leq(Score(y, v, p), Score(x, v, p))
(* the relation detector is exact on the twin construction *)
RelSound == (~extra => Rel(sb, sa).k = "eq") /\ Rel(sa, sa).k = "eq"
=============================================================================
