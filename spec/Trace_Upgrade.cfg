SPECIFICATION Spec
CONSTANTS
  AsImplemented_TieKeepsOlder = TRUE
  AsImplemented_SharedBackupFile = TRUE
  AsImplemented_CleanupNeedsDir = TRUE
  AsImplemented_RollbackToVersionNeedsDir = TRUE
  AsImplemented_GetStagedUnverified = TRUE
  AsImplemented_SweepIgnoresMetadata = TRUE
  Variant_RollbackUnverified = FALSE
INVARIANT Report
CHECK_DEADLOCK FALSE
