--------------------------- MODULE Replay_Kademlia ---------------------------
(***************************************************************************)
(* Behaviour generator for the spec -> impl direction of C02.  Extends     *)
(* Kademlia.tla with a history variable; TLC (-simulate) prints one JSON   *)
(* line per behaviour: the operations with the model's member set and the  *)
(* model's answers for every key after each step.  The harness replays     *)
(* the operations on the real DhtCoreEngine (ids embedded order-           *)
(* preservingly) and compares after every step.                            *)
(***************************************************************************)
EXTENDS Kademlia, Json

VARIABLE hist
rvars == <<table, members, removed, nops, hist>>

Answers == [key \in Id |-> Closest(members, key, NMax)]
Snap(op, x) == [op |-> op, x |-> x, members |-> SetToSortSeq(members', <), answers |-> [key \in Id |-> Closest(members', key, NMax)]]

RInit == Init /\ hist = <<>>
RNext == \E x \in Id : \/ (Add(x) /\ hist' = Append(hist, Snap("add", x)))
                       \/ (Rm(x) /\ hist' = Append(hist, Snap("rm", x)))
RSpec == RInit /\ [][RNext]_rvars

Emit == nops = MaxOps => PrintT(<<"REPLAY", ToJson([self |-> Self, bits |-> B, cap |-> Cap, n |-> NMax, steps |-> hist])>>)
=============================================================================
