SPECIFICATION Spec
CONSTANTS
  Peers = {1, 2}
  MaxFail = 2
  MinTrust = 150
  TrustGrid = {100, 150, 200}
  Marks = {"Stale"}
  MaxOps = 6
  Variant = ""
INVARIANTS CandidatesExact CandidatesOnce ReasonPrecedence
PROPERTIES SuccessClears
CHECK_DEADLOCK FALSE
