----------------------------- MODULE CloseGroup -----------------------------
(***************************************************************************)
(* Exhaustive small-scope check of the close-group verdict function        *)
(* (property C15).  A state is one witness multiset: `Honest` fixed        *)
(* denying, trusted, regionally spread witnesses with distinct response    *)
(* times (the honest majority of the f-liars family; 0 otherwise) followed *)
(* by up to MaxW witnesses drawn from the full grid                        *)
(*   ConfGrid x TrustGrid x RegionGrid x LatGrid                           *)
(* (kept in non-decreasing type order, so every multiset occurs once).     *)
(* The invariants say that the I-level transcription of the code           *)
(* (CloseGroupRules!Verdict) satisfies every P-level clause of the         *)
(* property for every mode and candidate trust.                            *)
(***************************************************************************)
EXTENDS CloseGroupRules

CONSTANTS ConfGrid, TrustGrid, RegionGrid, LatGrid,   \* the witness grid
          MaxW, Honest,
          MinPeers, TwNum, TwDen, BftNum, BftDen, MinTrust, MinRegions,   \* configuration
          Cands,        \* candidate trust values (-1 = unknown)
          Modes,        \* subset of BOOLEAN: TRUE = attack (BFT) mode
          Variant       \* "" = the design as read from the code; see CloseGroupRules

Cfg == [minPeers |-> MinPeers, twNum |-> TwNum, twDen |-> TwDen, bftNum |-> BftNum, bftDen |-> BftDen,
        minTrust |-> MinTrust, minRegions |-> MinRegions]

None == 9999                    \* cfg files cannot hold negative numbers: 9999 stands for "unknown" (-1)
Tr(t) == IF t = None THEN -1 ELSE t
TypeSet == {[c |-> c, t |-> Tr(t), r |-> r, l |-> l] : c \in ConfGrid, t \in TrustGrid, r \in RegionGrid, l \in LatGrid}
TypeSeq == SetToSeqLocal(TypeSet)
NT == Len(TypeSeq)

HonestW == [i \in 1..Honest |-> [c |-> FALSE, t |-> 900, r |-> 1 + (i % 4), l |-> 1000000 + 50000 * i]]

VARIABLE ks
W == HonestW \o [i \in 1..Len(ks) |-> TypeSeq[ks[i]]]

Init == ks = <<>>
Next == /\ Len(ks) < MaxW
        /\ \E k \in (IF ks = <<>> THEN 1 ELSE ks[Len(ks)]) .. NT : ks' = Append(ks, k)
Spec == Init /\ [][Next]_ks

V(bft, cand, X) == Verdict(Variant, bft, Cfg, Tr(cand), X)

ClausesHold == \A bft \in Modes, cand \in Cands : Broken(bft, Cfg, Tr(cand), W, V(bft, cand, W)) = ""
FlipHolds == \A bft \in Modes, cand \in Cands, i \in ConfIdx(W) :
               FlipMonotone(V(bft, cand, W), V(bft, cand, Flip(W, i)))
(* stricter reading of the region clause (regions of trusted confirmations); reported, not required *)
StrictRegionsHold == \A cand \in Cands : BftRegionsStrict(TRUE, Cfg, W, V(TRUE, cand, W))

(* non-vacuity probes: each of these must be violated *)
NeverAccepted == \A bft \in Modes, cand \in Cands : ~V(bft, cand, W).valid
NeverUnanimousPremise == \A cand \in Cands : ~UnanimousPremise(Cfg, Tr(cand), W)
NeverFLiarsPremise == ~FLiarsPremise(TRUE, Cfg, W)
NeverCollusion == \A cand \in Cands : "SuspectedCollusion" \notin V(TRUE, cand, W).reasons
=============================================================================
