------------------------------- MODULE Counter -------------------------------
(***************************************************************************)
(* Per-peer sequence counters of saorsa-core (src/monotonic_counter.rs:    *)
(* MonotonicCounterSystem::{validate_sequence, batch_update, sync_counters,*)
(* load_counters}).                                                        *)
(*                                                                         *)
(* P-level state : last[p]      high-water mark (0 = nothing accepted)     *)
(*                 A[p]         numbers accepted in this incarnation       *)
(*                 persisted[p] what the file on disk holds                *)
(* I-level       : pend[t]      call in flight of task t; a call takes     *)
(*                 effect at one internal step Lin(t) between Call and Ret *)
(*                 (validate-and-apply under ONE write lock).              *)
(*                                                                         *)
(* Property C12: a (peer, number) is accepted at most once, accepted       *)
(* numbers are exactly 1,2,3,..., every other submission is classified     *)
(* (Replay / Gap / TooOld / FromFuture) without state change, peers are    *)
(* isolated, a reloaded store never re-accepts a persisted number.         *)
(***************************************************************************)
EXTENDS Naturals, Sequences, FiniteSets, SequencesExt, TLC, CounterRules

CONSTANTS Peers, MaxSeq, BIG,      \* sequence values 0..MaxSeq and BIG (stands for u64::MAX)
          Tasks, MaxCalls, MaxBatch,
          Variant_TwoStep,         \* TRUE = validate under a read lock, apply later under a write lock
          Variant_MonotonicOnly,   \* TRUE = accept every number above the mark (no gap test)
          Variant_ReplayLt         \* TRUE = replay test `s < last` instead of `s <= last`

SeqVals == (0 .. MaxSeq) \cup {BIG}
TsClasses == {"ok", "future", "old"}
Results == {"Valid", "Replay", "Gap", "TooOld", "FromFuture"}

(* ---- P-level rule Allowed(lp, s, ts): module CounterRules, shared with the trace acceptors ---- *)

(* ---- I-level decision, order of validate_sequence_internal ----------------------------- *)
Decide(lp, s, ts) ==
  IF ts = "future" THEN "FromFuture"
  ELSE IF ts = "old" THEN "TooOld"
  ELSE IF Variant_MonotonicOnly THEN (IF s > lp THEN "Valid" ELSE "Replay")
  ELSE IF s > lp + 1 THEN "Gap"
  ELSE IF (IF Variant_ReplayLt THEN s < lp ELSE s <= lp) THEN "Replay"
  ELSE "Valid"

VARIABLES last, A, persisted, pend, ncalls, dbl, bad
vars == <<last, A, persisted, pend, ncalls, dbl, bad>>

None == [phase |-> "none"]
Req == [p : Peers, s : SeqVals, ts : TsClasses]
Batches == UNION {[1..n -> Req] : n \in 1..MaxBatch}
(* to keep the space small a batch of more than one request uses one timestamp class *)
GoodBatch(b) == Len(b) = 1 \/ \A i \in 1..Len(b) : b[i].ts = "ok"

Init == /\ last = [p \in Peers |-> 0] /\ A = [p \in Peers |-> {}]
        /\ persisted = [p \in Peers |-> 0]
        /\ pend = [t \in Tasks |-> None] /\ ncalls = 0 /\ dbl = FALSE /\ bad = FALSE

Call(t, b) == /\ pend[t] = None /\ ncalls < MaxCalls /\ GoodBatch(b)
              /\ pend' = [pend EXCEPT ![t] = [phase |-> "called", reqs |-> b, res |-> <<>>]]
              /\ ncalls' = ncalls + 1
              /\ UNCHANGED <<last, A, persisted, dbl, bad>>

(* one request applied to a state record [last, A, dbl, bad, res] *)
Step(st, r) ==
  LET res == Decide(st.last[r.p], r.s, r.ts)
      b2  == st.bad \/ res \notin Allowed(st.last[r.p], r.s, r.ts) IN
  IF res = "Valid"
  THEN [last |-> [st.last EXCEPT ![r.p] = r.s], A |-> [st.A EXCEPT ![r.p] = @ \cup {r.s}],
        dbl |-> st.dbl \/ r.s \in st.A[r.p], bad |-> b2, res |-> Append(st.res, res)]
  ELSE [st EXCEPT !.bad = b2, !.res = Append(@, res)]

(* validate_sequence / batch_update: everything under one write lock *)
Lin(t) == /\ pend[t].phase = "called"
          /\ ~(Variant_TwoStep /\ Len(pend[t].reqs) = 1)
          /\ LET st == FoldLeft(Step, [last |-> last, A |-> A, dbl |-> dbl, bad |-> bad, res |-> <<>>], pend[t].reqs) IN
             /\ last' = st.last /\ A' = st.A /\ dbl' = st.dbl /\ bad' = st.bad
             /\ pend' = [pend EXCEPT ![t] = [@ EXCEPT !.phase = "done", !.res = st.res]]
          /\ UNCHANGED <<persisted, ncalls>>

(* the classic wrong variant: decision taken on a snapshot, applied later *)
Validate(t) == /\ Variant_TwoStep /\ pend[t].phase = "called" /\ Len(pend[t].reqs) = 1
               /\ LET r == pend[t].reqs[1] IN
                  pend' = [pend EXCEPT ![t] = [@ EXCEPT !.phase = "validated", !.res = <<Decide(last[r.p], r.s, r.ts)>>]]
               /\ UNCHANGED <<last, A, persisted, ncalls, dbl, bad>>
Apply(t) == /\ pend[t].phase = "validated"
            /\ LET r == pend[t].reqs[1] IN
               IF pend[t].res[1] = "Valid"
               THEN /\ last' = [last EXCEPT ![r.p] = r.s] /\ A' = [A EXCEPT ![r.p] = @ \cup {r.s}]
                    /\ dbl' = (dbl \/ r.s \in A[r.p])
               ELSE UNCHANGED <<last, A, dbl>>
            /\ pend' = [pend EXCEPT ![t] = [@ EXCEPT !.phase = "done"]]
            /\ UNCHANGED <<persisted, ncalls, bad>>

Ret(t) == /\ pend[t].phase = "done" /\ pend' = [pend EXCEPT ![t] = None]
          /\ UNCHANGED <<last, A, persisted, ncalls, dbl, bad>>

(* sync_counters: snapshot of the whole map written to the file *)
Sync == /\ persisted' = last /\ UNCHANGED <<last, A, pend, ncalls, dbl, bad>>

(* drop + new(): only possible when no call is in flight (calls borrow the system) *)
Reload == /\ \A t \in Tasks : pend[t] = None
          /\ last' = persisted
          /\ A' = [p \in Peers |-> {s \in A[p] : s <= persisted[p]}]   \* numbers lost with the unsynced tail
          /\ UNCHANGED <<persisted, pend, ncalls, dbl, bad>>

Next == \/ \E t \in Tasks : (\E b \in Batches : Call(t, b)) \/ Lin(t) \/ Validate(t) \/ Apply(t) \/ Ret(t)
        \/ Sync \/ Reload
Spec == Init /\ [][Next]_vars

(* ---- properties ---- *)
TypeOK == /\ last \in [Peers -> SeqVals] /\ persisted \in [Peers -> SeqVals]
          /\ A \in [Peers -> SUBSET SeqVals] /\ ncalls \in 0..MaxCalls
AtMostOnce == ~dbl                                    \* no (peer, number) accepted twice (persisted ones: ever)
InOrder == \A p \in Peers : A[p] = 1 .. last[p]       \* accepted numbers are exactly 1,2,3,...,last
Classified == ~bad                                    \* every result is one the property allows
PersistedBelow == \A p \in Peers : persisted[p] <= last[p] /\ (1 .. persisted[p]) \subseteq A[p]

(* a mark moves only by accepting that very number for that very peer (RejectsPure, PeerIsolation), or by Reload *)
MarkMoves == [][\A q \in Peers : last'[q] # last[q] =>
                  \/ (last'[q] = persisted[q] /\ \A t \in Tasks : pend[t] = None)
                  \/ \E t \in Tasks : /\ pend[t].phase \in {"called", "validated"}
                                      /\ \E i \in 1..Len(pend[t].reqs) :
                                           pend[t].reqs[i] = [p |-> q, s |-> last'[q], ts |-> "ok"]]_vars
=============================================================================
