SPECIFICATION Spec
CONSTANTS
  MaxDiff = 1
  MaxSign = 2
  MaxPresent = 3
  MaxCap = 2
  AsImplemented_CacheKey = FALSE
  AsImplemented_UidUnbound = FALSE
INVARIANTS TypeOK DirectIff CacheTransparent
CHECK_DEADLOCK FALSE
