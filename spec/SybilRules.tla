---------------------------- MODULE SybilRules ----------------------------
(***************************************************************************)
(* Verdict / transition functions of the Sybil detector                    *)
(* (src/dht/sybil_detector.rs: SybilDetectorConfig, BehaviorProfile,       *)
(* SybilEvidence, SybilGroup, SybilDetector).  Shared by the model         *)
(* (Sybil.tla) and the acceptor (Trace_Sybil.tla).                         *)
(*                                                                         *)
(* A detector state is a record                                            *)
(*   joins  : subnet key -> sequence of [p, lo, hi]   subnet_joins: the    *)
(*            join records of a subnet in arrival order; joined_at lies in *)
(*            the band [lo, hi] (model: lo = hi)                           *)
(*   pfx    : id prefix -> set of peers               id_prefix_map        *)
(*   prof   : peer -> [lat, size, obs, claimed, measured]  behavior_profiles*)
(*            (latencies / response sizes: the last MaxHistory values,     *)
(*            -1 = no claim / no measurement)                              *)
(*   known  : set of peers                            known_peers          *)
(*   groups : sequence of [m, ev]                     suspected_groups:    *)
(*            members and the evidence list                                *)
(* A configuration is [bthr, win, pthr, sim, asym, age, minobs]: burst     *)
(* threshold and window, prefix threshold, similarity and asymmetry        *)
(* thresholds in per-mille, max_record_age (-1 = Duration::MAX),           *)
(* min_observations.  An evidence item is [k, key, ps]: kind ("burst" /    *)
(* "prefix" / "behav" / "asym"), subnet key / <<prefix>> / <<>>, the set   *)
(* of peers it names.  Confidence and scores are ppm.                      *)
(* Operations that read the clock take the band [t0, t1] of the call and   *)
(* yield the SET of states that are right for some instant of the band.    *)
(***************************************************************************)
EXTENDS Naturals, Integers, Sequences, FiniteSets, TLC

CONSTANTS MaxHistory,                          \* the literal 100 of BehaviorProfile::record_response
          AsImplemented_BurstCountsRepeats,    \* check_subnet_bursts counts join records: one peer re-joining n times is "n nodes"
          AsImplemented_BurstNotAged,          \* check_subnet_bursts never looks at the clock: records are aged only by the next join of that subnet
          AsImplemented_DepartedKeepTriggering,\* record_leave keeps the join records and the behaviour profile of the peer
          AsImplemented_EvidenceAccumulates,   \* every run_analysis appends the same evidence again (confidence grows with the number of runs)
          AsImplemented_NoGroupMerge,          \* evidence is added to the FIRST overlapping group only: groups that it connects are not merged
          AsImplemented_OverallCountsMemberships, \* overall_risk_score: sum of the group sizes / known peers (departed and doubly listed members count)
          AsImplemented_ZeroAverageNaN,        \* similarity of two zero averages is 0/0 = NaN -> 0 instead of 1
          AsImplemented_HugeAgePanics,         \* cleanup_old_records: `Instant::now() - Duration::MAX` panics
          Variant_StrictThreshold              \* WRONG on purpose: a burst needs MORE than the threshold

(* ---- helpers ---- *)
MinOf2(a, b) == IF a < b THEN a ELSE b
MaxOf2(a, b) == IF a > b THEN a ELSE b
AbsDiff(a, b) == IF a > b THEN a - b ELSE b - a
Upd(f, k, v) == [x \in DOMAIN f \cup {k} |-> IF x = k THEN v ELSE f[x]]
Without(f, k) == [x \in DOMAIN f \ {k} |-> f[x]]
RoundDiv(a, b) == (2 * a + b) \div (2 * b)          \* a / b rounded half up (a >= 0, b > 0)
SeqToSet(q) == {q[i] : i \in 1..Len(q)}
RECURSIVE SumSeq(_)
SumSeq(q) == IF q = <<>> THEN 0 ELSE Head(q) + SumSeq(Tail(q))
LeadCount(q, P(_)) == LET bad == {i \in 1..Len(q) : ~P(q[i])}        \* how many leading elements satisfy P
                      IN IF bad = {} THEN Len(q) ELSE (CHOOSE i \in bad : \A j \in bad : i <= j) - 1
RECURSIVE SetToSeqs(_)
SetToSeqs(S) == IF S = {} THEN {<<>>} ELSE UNION {{<<x>> \o q : q \in SetToSeqs(S \ {x})} : x \in S}    \* all orders of a set
Get(f, k, d) == IF k \in DOMAIN f THEN f[k] ELSE d

(* ---- subnet_prefix: /24 of an IPv4 address, /48 of an IPv6 address.  ip = <<4, a, b, c, d>> / <<6, s1 .. s8>> / <<>> (None) ---- *)
NoSub == <<>>
SubnetKey(ip) == IF ip = <<>> THEN NoSub ELSE <<ip[1], ip[2], ip[3], ip[4]>>

(* ---- BehaviorProfile ---- *)
NewProfile == [lat |-> <<>>, size |-> <<>>, obs |-> 0, claimed |-> -1, measured |-> -1]      \* Default
Capped(q, x) == Append(IF Len(q) >= MaxHistory THEN Tail(q) ELSE q, x)
ProfRespond(pr, lat, size) == [pr EXCEPT !.lat = Capped(@, lat), !.size = Capped(@, size), !.obs = @ + 1]     \* record_response
Avg(q) == SumSeq(q) \div Len(q)                  \* average_latency (whole microseconds) / average_response_size; q # <<>>
RECURSIVE ProfAfter(_, _, _, _)
ProfAfter(pr, lats, sizes, i) == IF i > Len(lats) THEN pr ELSE ProfAfter(ProfRespond(pr, lats[i], sizes[i]), lats, sizes, i + 1)   \* a run of responses
VoteLen(nv) == MinOf2(nv, MaxHistory)            \* record_vote keeps the last MaxHistory hashes
HasAsym(pr) == pr.claimed >= 0 /\ pr.measured > 0                                             \* resource_asymmetry is Some
AsymPm(pr) == RoundDiv(pr.claimed * 1000, pr.measured)                                        \* the ratio in per-mille

(* ---- SybilDetectorConfig::default(): 10 joins per /24 or /48 within an hour, 5 ids per prefix, similarity 0.95, asymmetry 3.0,
        records for 24 hours, 10 observations (windows in seconds) ---- *)
DefaultCfgSecs == [bthr |-> 10, win_s |-> 3600, pthr |-> 5, sim |-> 950, asym |-> 3000, age_s |-> 86400, minobs |-> 10]

(* ---- the empty detector ---- *)
Empty == [joins |-> [x \in {} |-> <<>>], pfx |-> [x \in {} |-> {}], prof |-> [x \in {} |-> NewProfile], known |-> {}, groups |-> <<>>]

(* ---- record_join(peer, ip) at an instant of [t0, t1]: the records of the subnet that are older than the window are popped
        from the front (stopping at the first younger one), then the new record is pushed ---- *)
Join(st, c, p, pf, sub, t0, t1) ==
  LET base == [st EXCEPT !.known = @ \cup {p}, !.pfx = Upd(@, pf, Get(@, pf, {}) \cup {p}),
                         !.prof = IF p \in DOMAIN @ THEN @ ELSE Upd(@, p, NewProfile)]
  IN IF sub = NoSub THEN {base}
     ELSE LET q == Get(st.joins, sub, <<>>)
              Sure(r) == t0 - r.hi > c.win
              Maybe(r) == t1 - r.lo > c.win
          IN {[base EXCEPT !.joins = Upd(@, sub, Append(SubSeq(q, k + 1, Len(q)), [p |-> p, lo |-> t0, hi |-> t1]))]
                : k \in LeadCount(q, Sure)..LeadCount(q, Maybe)}

(* ---- record_leave ---- *)
Leave(st, p, pf) ==
  LET a == [st EXCEPT !.known = @ \ {p}, !.pfx = IF pf \in DOMAIN @ THEN Upd(@, pf, @[pf] \ {p}) ELSE @]
  IN IF AsImplemented_DepartedKeepTriggering THEN a
     ELSE [a EXCEPT !.joins = [s \in DOMAIN @ |-> SelectSeq(@[s], LAMBDA r : r.p # p)], !.prof = Without(@, p)]

(* ---- record_response / record_claimed_resources / record_measured_bandwidth: peers without a profile are ignored ---- *)
Respond(st, p, lat, size) == IF p \in DOMAIN st.prof THEN [st EXCEPT !.prof[p] = ProfRespond(@, lat, size)] ELSE st
Claim(st, p, bw) == IF p \in DOMAIN st.prof THEN [st EXCEPT !.prof[p].claimed = bw] ELSE st
Measure(st, p, bw) == IF p \in DOMAIN st.prof THEN [st EXCEPT !.prof[p].measured = bw] ELSE st

(* ---- check_subnet_bursts ---- *)
BurstRecs(st, c, s, now) == IF AsImplemented_BurstNotAged THEN st.joins[s] ELSE SelectSeq(st.joins[s], LAMBDA r : now - r.lo <= c.win)
BurstPeers(st, c, s, now) == LET q == BurstRecs(st, c, s, now) IN [i \in 1..Len(q) |-> q[i].p]      \* the peers of the evidence, in order
BurstFlagged(st, c, now) ==
  {s \in DOMAIN st.joins : LET q == BurstPeers(st, c, s, now)
                               cnt == IF AsImplemented_BurstCountsRepeats THEN Len(q) ELSE Cardinality(SeqToSet(q))
                           IN q # <<>> /\ IF Variant_StrictThreshold THEN cnt > c.bthr ELSE cnt >= c.bthr}
BurstEv(st, c, now) == {[k |-> "burst", key |-> s, ps |-> SeqToSet(BurstPeers(st, c, s, now))] : s \in BurstFlagged(st, c, now)}

(* ---- check_id_prefix_clustering ---- *)
PrefixEv(st, c) == {[k |-> "prefix", key |-> <<pf>>, ps |-> st.pfx[pf]] : pf \in {x \in DOMAIN st.pfx : Cardinality(st.pfx[x]) >= c.pthr}}

(* ---- calculate_behavioral_similarity: the mean of the latency and the size similarity, each 1 - |a - b| / max(a, b) of the
        averages (vote hashes cannot be recorded through the detector).  As a fraction num / den ---- *)
Comparable(pa, pb, c) == pa.obs >= c.minobs /\ pb.obs >= c.minobs /\ pa.lat # <<>> /\ pb.lat # <<>>
Part(a, b) == LET m == MaxOf2(a, b) IN
              IF m = 0 THEN (IF AsImplemented_ZeroAverageNaN THEN <<0, 1>> ELSE <<1, 1>>) ELSE <<m - AbsDiff(a, b), m>>
SimFrac(pa, pb) == LET x == Part(Avg(pa.lat), Avg(pb.lat)) y == Part(Avg(pa.size), Avg(pb.size))
                   IN <<x[1] * y[2] + y[1] * x[2], 2 * x[2] * y[2]>>
SimCmp(pa, pb, c) == LET f == SimFrac(pa, pb) IN 1000 * f[1] - c.sim * f[2]          \* >= 0: similar; = 0: exactly at the threshold
SimP100k(pa, pb) == LET f == SimFrac(pa, pb) IN RoundDiv(100000 * f[1], f[2])
Pairs(S) == {ps \in SUBSET S : Cardinality(ps) = 2}
PairSim(st, ps, F(_, _)) == LET a == CHOOSE x \in ps : TRUE b == CHOOSE x \in ps \ {a} : TRUE IN F(st.prof[a], st.prof[b])
BehavPairs(st, c) == {ps \in Pairs(DOMAIN st.prof) : PairSim(st, ps, LAMBDA x, y : Comparable(x, y, c) /\ SimCmp(x, y, c) >= 0)}
BehavEdge(st, c) == {ps \in Pairs(DOMAIN st.prof) : PairSim(st, ps, LAMBDA x, y : Comparable(x, y, c) /\ SimCmp(x, y, c) = 0)}
BehavEv(st, c) == {[k |-> "behav", key |-> <<>>, ps |-> ps] : ps \in BehavPairs(st, c)}

(* ---- check_resource_asymmetry: claimed / measured > threshold ---- *)
AsymPeers(st, c) == {p \in DOMAIN st.prof : HasAsym(st.prof[p]) /\ st.prof[p].claimed * 1000 > c.asym * st.prof[p].measured}
AsymEv(st, c) == {[k |-> "asym", key |-> <<>>, ps |-> {p}] : p \in AsymPeers(st, c)}

(* the evidence lists run_analysis can see: the four detectors in this order, each in hash order *)
EvidenceOrders(st, c, now) ==
  {a \o b \o d \o e : a \in SetToSeqs(BurstEv(st, c, now)), b \in SetToSeqs(PrefixEv(st, c)), d \in SetToSeqs(BehavEv(st, c)), e \in SetToSeqs(AsymEv(st, c))}
AllEvidence(st, c, now) == BurstEv(st, c, now) \cup PrefixEv(st, c) \cup BehavEv(st, c) \cup AsymEv(st, c)

(* ---- SybilGroup ---- *)
Confidence(g) == MinOf2(Len(g.ev) * 200000, 1000000)                      \* min(evidence.len() / 5, 1)
EvId(e) == [k |-> e.k, key |-> e.key, ps |-> IF e.k \in {"behav", "asym"} THEN e.ps ELSE {}]       \* what an item is evidence OF
AddEv(evs, e) ==        \* add_evidence; intended: evidence a group already holds is refreshed, not appended again
  IF AsImplemented_EvidenceAccumulates \/ \A i \in 1..Len(evs) : EvId(evs[i]) # EvId(e) THEN Append(evs, e)
  ELSE [i \in 1..Len(evs) |-> IF EvId(evs[i]) = EvId(e) THEN e ELSE evs[i]]
RECURSIVE AddAll(_, _)
AddAll(evs, more) == IF more = <<>> THEN evs ELSE AddAll(AddEv(evs, Head(more)), Tail(more))
RECURSIVE Drop(_, _, _)
Drop(q, I, i) == IF i > Len(q) THEN <<>> ELSE (IF i \in I THEN <<>> ELSE <<q[i]>>) \o Drop(q, I, i + 1)
RECURSIVE MergeFrom(_, _, _)
MergeFrom(gs, I, g) == IF I = {} THEN g ELSE LET i == CHOOSE x \in I : \A y \in I : x <= y
                                            IN MergeFrom(gs, I \ {i}, [m |-> g.m \cup gs[i].m, ev |-> AddAll(g.ev, gs[i].ev)])

(* ---- update_sybil_groups, one evidence item: the first overlapping group takes the peers and the item; without an overlapping
        group an item naming at least two peers founds a new group.  (The pruning of groups older than 24 hours is not modelled.) ---- *)
GroupStep(gs, e) ==
  LET I == {i \in 1..Len(gs) : gs[i].m \cap e.ps # {}} IN
  IF I = {} THEN (IF Cardinality(e.ps) >= 2 THEN Append(gs, [m |-> e.ps, ev |-> <<e>>]) ELSE gs)
  ELSE LET i == CHOOSE x \in I : \A y \in I : x <= y IN
       IF AsImplemented_NoGroupMerge THEN [gs EXCEPT ![i] = [m |-> @.m \cup e.ps, ev |-> AddEv(@.ev, e)]]
       ELSE LET g == MergeFrom(gs, I \ {i}, gs[i])        \* intended: the groups the item connects become one
            IN Drop([gs EXCEPT ![i] = [m |-> g.m \cup e.ps, ev |-> AddEv(g.ev, e)]], I \ {i}, 1)
RECURSIVE UpdateGroups(_, _)
UpdateGroups(gs, evs) == IF evs = <<>> THEN gs ELSE UpdateGroups(GroupStep(gs, Head(evs)), Tail(evs))
(* run_analysis with the evidence in the order the detectors produced it *)
Analyze(st, evs) == [st EXCEPT !.groups = UpdateGroups(@, evs)]

(* ---- queries ---- *)
Members(st) == UNION {st.groups[i].m : i \in 1..Len(st.groups)}
Suspected(st, p) == \E i \in 1..Len(st.groups) : p \in st.groups[i].m                           \* is_peer_suspected
Risk(st, p) == LET cs == {Confidence(st.groups[i]) : i \in {j \in 1..Len(st.groups) : p \in st.groups[j].m}}      \* sybil_risk_score
               IN IF cs = {} THEN 0 ELSE CHOOSE x \in cs : \A y \in cs : y <= x
GroupCount(st) == Len(st.groups)                                                                 \* group_count
Overall(st) ==                                                                                   \* overall_risk_score
  IF st.known = {} THEN 0
  ELSE IF AsImplemented_OverallCountsMemberships
       THEN MinOf2(RoundDiv(SumSeq([i \in 1..Len(st.groups) |-> Cardinality(st.groups[i].m)]) * 1000000, Cardinality(st.known)), 1000000)
       ELSE RoundDiv(Cardinality(Members(st) \cap st.known) * 1000000, Cardinality(st.known))
Clear(st) == [st EXCEPT !.groups = <<>>]                                                         \* clear_groups

(* ---- cleanup_old_records at an instant of [t0, t1]: join records with joined_at <= now - max_record_age are forgotten, then
        subnets without records.  Nothing else is ever forgotten.  c.age < 0 stands for Duration::MAX ---- *)
Cleanup(st, c, t0, t1) ==
  IF c.age < 0 THEN [S |-> {st}, panic |-> AsImplemented_HugeAgePanics]
  ELSE LET Keep(r) == r.lo > t1 - c.age
           Unsure(r) == ~Keep(r) /\ r.hi > t0 - c.age
           U == {<<s, i>> \in UNION {{<<s, i>> : i \in 1..Len(st.joins[s])} : s \in DOMAIN st.joins} : Unsure(st.joins[s][i])}
           Kept(K) == LET j == [s \in DOMAIN st.joins |-> LET q == st.joins[s] IN Drop(q, {i \in 1..Len(q) : ~Keep(q[i]) /\ <<s, i>> \notin K}, 1)]
                      IN [s \in {x \in DOMAIN j : j[x] # <<>>} |-> j[s]]
       IN [S |-> {[st EXCEPT !.joins = Kept(K)] : K \in SUBSET U}, panic |-> FALSE]
=============================================================================
