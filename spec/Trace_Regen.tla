---------------------------- MODULE Trace_Regen ----------------------------
(***************************************************************************)
(* Conformance acceptor for the identity regeneration trigger, the         *)
(* rejection history and the rejection-reason predicates (harness module   *)
(* regen).  Every `Step` carries the projected trigger state and the       *)
(* history list before and after one public operation of the real objects, *)
(* the arguments and everything the operation returned (a decision with    *)
(* all its fields).  The acceptor rebuilds the model state from `pre` plus *)
(* the private fields it has to carry itself (times of the attempts, of    *)
(* the last attempt and of the circuit opening; the trigger's private      *)
(* rejection history; the configuration; the history capacity), applies    *)
(* the functions of RegenRules.tla (as-implemented flags on) and compares. *)
(*                                                                         *)
(* Time: the trigger reads std::time::Instant.  Every step carries the     *)
(* clock band [t0, t1] (microseconds) around the call, and every private   *)
(* instant is kept as a band [lo, hi].  A decision is accepted iff it is   *)
(* the decision of RegenRules for SOME instant of the call's band and SOME *)
(* instants of the private bands: the three clock-dependent gates (circuit *)
(* blocking, attempts within the window, backoff running) are each taken   *)
(* between their value for the earliest and for the latest reading, and    *)
(* the numbers a decision carries (remaining wait, seconds to the circuit  *)
(* reset, attempts counted) must lie between the two readings as well.     *)
(* The backoff an attempt draws is random within the jitter range: the     *)
(* observed value must lie in that range (Eps microseconds of rounding).   *)
(* The history reads SystemTime in whole seconds; its steps carry the band *)
(* [n0, n1] of that second.  Mismatches are MODEL-DRIFT (informational).   *)
(***************************************************************************)
EXTENDS RegenRules, Json, IOUtils

CONSTANTS Eps,      \* microseconds of slack for rounding the logged durations / band edges
          ProjSlack \* the projection after a call is read within this many microseconds after t1

TraceEpoch == -2000000000     \* the unix epoch on the driver's relative second scale: out of reach
Recs == ndJsonDeserialize(IOEnv.TRACE)
N == Len(Recs)
VARIABLES l, hid, prev, hprev, drift, ndrift, n
tvars == <<l, hid, prev, hprev, drift, ndrift, n>>
Ev == Recs[l]

NoBand == <<-1, -1>>
Hid0(c, hc) == [c |-> c, la |-> NoBand, att |-> <<>>, open |-> FALSE, oa |-> NoBand, th |-> <<>>, hcap |-> hc]
HistOf(kind, capArg) == IF kind = "new" THEN HNew ELSE IF kind = "default" THEN HDefault ELSE HWithCap(capArg)

(* the model state for the reading k of the private bands (1 = earliest instants, 2 = latest instants) *)
Mk(j, k) == [c |-> hid.c, en |-> j.en, fails |-> j.fails, bo |-> j.bo, la |-> hid.la[k],
             att |-> [i \in 1..Len(hid.att) |-> hid.att[i][k]], open |-> hid.open, oa |-> hid.oa[k],
             pref |-> Elems(j.pref), hist |-> [items |-> hid.th, cap |-> hid.c.hcap]]
(* what is compared exactly; `open` is the answer of is_circuit_open() and is compared by OpenOk *)
Obs(s) == [en |-> s.en, fails |-> s.fails, bo |-> s.bo, natt |-> Len(s.att), pref |-> s.pref]
ObsJ(j) == [en |-> j.en, fails |-> j.fails, bo |-> j.bo, natt |-> j.natt, pref |-> Elems(j.pref)]
PreLo == Mk(Ev.pre, 1)
PreHi == Mk(Ev.pre, 2)
H(items) == [items |-> items, cap |-> hid.hcap]

(* ---- the operation applied to both readings: r[1] at t0 with the earliest instants, r[2] at t1 with the latest ---- *)
Both(f(_, _)) == <<f(PreLo, Ev.t0), f(PreHi, Ev.t1)>>
Applied ==
  CASE Ev.op = "attempt" -> Both(LAMBDA s, t : RecordAttempt(s, t, Ev.post.bo))
    [] Ev.op = "result" -> Both(LAMBDA s, t : RecordResult(s, t, Ev.succeeded, Ev.id))
    [] Ev.op = "disable" -> Both(LAMBDA s, t : Disable(s))
    [] Ev.op = "enable" -> Both(LAMBDA s, t : Enable(s))
    [] Ev.op = "reset" -> Both(LAMBDA s, t : ResetOp(s))
    [] Ev.op = "evalrej" -> Both(LAMBDA s, t : EvalRejection(s, t, Ev.r, Ev.rec, Ev.tgt, Ev.retry * SecUnit, Ev.n0))
    [] OTHER -> Both(LAMBDA s, t : [s |-> s, ok |-> TRUE])
NewHid == LET a == Applied[1].s  b == Applied[2].s IN
  [hid EXCEPT !.la = <<a.la, b.la>>, !.open = a.open, !.oa = <<a.oa, b.oa>>, !.att = [i \in 1..Len(a.att) |-> <<a.att[i], b.att[i]>>], !.th = a.hist.items]

(* ---- decisions under the clock band ---- *)
Early == Gates(PreHi, Ev.t0 - Eps)      \* the least time that can have passed
Late == Gates(PreLo, Ev.t1 + Eps)       \* the most
GateCands == {[cb |-> cb, secs |-> Ev.d.secs, recent |-> k, waiting |-> w, rem |-> Ev.d.rem] :
                cb \in {Early.cb, Late.cb}, k \in Late.recent..Early.recent, w \in {Early.waiting, Late.waiting}}
ObsD == [kind |-> Ev.d.kind, urg |-> Ev.d.urg, why |-> Ev.d.why, c |-> Ev.d.c, tgt |-> Ev.d.tgt, rem |-> Ev.d.rem,
         secs |-> Ev.d.secs, att |-> Ev.d.att, max |-> Ev.d.max]
(* the numbers: remaining wait between the two readings (and positive), seconds to the reset likewise *)
RemOk == LET hi == PreHi.bo - ((Ev.t0 - Eps) - hid.la[2])  lo == PreLo.bo - ((Ev.t1 + Eps) - hid.la[1])
         IN Ev.d.rem >= MaxOf(0, lo - Eps) /\ Ev.d.rem <= hi + Eps /\ Ev.d.rem <= Ev.pre.bo
SecsOk == LET hi == (hid.c.cbreset - ((Ev.t0 - Eps) - hid.oa[2])) \div SecUnit
              lo == MaxOf(0, (hid.c.cbreset - ((Ev.t1 + Eps) - hid.oa[1])) \div SecUnit)
          IN Ev.d.secs >= lo /\ Ev.d.secs <= hi
NumbersOk == /\ (Ev.d.kind = "Wait" => RemOk)
             /\ (Ev.d.why = "CircuitBreakerOpen" => SecsOk)
DecisionOk(decide(_)) == (\E g \in GateCands : decide(g) = ObsD) /\ NumbersOk
Unchanged == ObsJ(Ev.post) = ObsJ(Ev.pre)
(* is_circuit_open() as read after the call: right for some instant of [t0, t1 + ProjSlack] *)
OpenOk == Ev.post.open \in {IsCircuitOpen(Applied[2].s, Ev.t0 - Eps), IsCircuitOpen(Applied[1].s, Ev.t1 + ProjSlack)}
HUnchanged == Ev.hpost = Ev.hpre

(* ---- history queries under the band of the wall-clock second ---- *)
Secs == Ev.n0..Ev.n1
CommonOk == IF Ev.hpre = <<>> THEN Ev.res = -1 ELSE Ev.res \in HCommonSet(H(Ev.hpre))

StepOp ==
  CASE Ev.op = "attempt" -> /\ ObsJ(Ev.post) = Obs(Applied[1].s) /\ HUnchanged
                            /\ BackoffOk(hid.c, Ev.pre.fails, Ev.post.bo, Eps)
    [] Ev.op \in {"result", "disable", "enable", "reset"} -> ObsJ(Ev.post) = Obs(Applied[1].s) /\ HUnchanged
    [] Ev.op = "evalrej" -> /\ Unchanged /\ HUnchanged /\ Ev.rec = Recommended(Ev.r, Ev.ov)
                            /\ DecisionOk(LAMBDA g : DecideRejection(PreLo, g, Ev.r, Ev.rec, Ev.tgt, Ev.retry * SecUnit))
                            /\ Ev.ok = (Ev.d.kind = "Proceed")
    [] Ev.op = "evalfit" -> /\ Unchanged /\ HUnchanged
                            /\ DecisionOk(LAMBDA g : DecideFitness(PreLo, g, Ev.v))
                            /\ Ev.ok = (Ev.d.kind = "Proceed")
    [] Ev.op = "isrej" -> Unchanged /\ HUnchanged /\ Ev.ok = IsPrefixRejected(PreLo, Ev.id)
    [] Ev.op = "hrecord" -> Unchanged /\ Ev.hpost = HRecord(H(Ev.hpre), Ev.r, Ev.ts).items
    [] Ev.op = "hclear" -> Unchanged /\ Ev.hpost = HClear(H(Ev.hpre)).items
    [] Ev.op = "hrecent" -> Unchanged /\ HUnchanged /\ \E s \in Secs : Ev.res = HRecent(H(Ev.hpre), s, Ev.dms)
    [] Ev.op = "hloop" -> Unchanged /\ HUnchanged /\ \E s \in Secs : Ev.ok = HLoop(H(Ev.hpre), s, Ev.thr, Ev.dms)
    [] Ev.op = "hcount" -> Unchanged /\ HUnchanged /\ Ev.res = HCount(H(Ev.hpre), Ev.r)
    [] Ev.op = "hcommon" -> Unchanged /\ HUnchanged /\ CommonOk
    [] Ev.op = "hlen" -> Unchanged /\ HUnchanged /\ Ev.res = Len(Ev.hpre) /\ Ev.ok = (Ev.hpre = <<>>)
    [] Ev.op = "class" -> /\ Unchanged /\ HUnchanged /\ Ev.help = MayHelp(Ev.r) /\ Ev.div = IsDiversity(Ev.r) /\ Ev.blk = IsBlocking(Ev.r)
                          /\ Ev.byte = Ev.r
    [] Ev.op = "frombyte" -> Unchanged /\ HUnchanged /\ Ev.res = FromByte(Ev.b)
    [] Ev.op = "info" -> /\ Unchanged /\ HUnchanged /\ Ev.rec = Recommended(Ev.r, Ev.ov) /\ Ev.should = ShouldRegenerate(Ev.r, Ev.rec)
                         /\ Ev.blk = IsBlocking(Ev.r) /\ Ev.delay = Ev.retry
    [] OTHER -> FALSE
(* nothing happens to the objects between two steps; the attempts the acceptor knows of are the ones the trigger counts;
   the history never exceeds its capacity *)
Continuous == /\ Ev.pre = prev /\ Ev.hpre = hprev /\ Ev.pre.natt = Len(hid.att)
              /\ Ev.t0 <= Ev.t1 /\ Ev.n0 <= Ev.n1
              /\ Len(Ev.hpost) <= hid.hcap
StepOk == Continuous /\ StepOp /\ OpenOk
(* a new trigger / a new history *)
ResetOk == ObsJ(Ev.state) = Obs(NewTrigger(Ev.cfg)) /\ ~Ev.state.open /\ Ev.hstate = <<>>

Init == l = 1 /\ hid = Hid0(<<>>, 0) /\ prev = <<>> /\ hprev = <<>> /\ drift = <<>> /\ ndrift = 0 /\ n = 0
Note(what) == /\ ndrift' = ndrift + 1
              /\ drift' = IF Len(drift) < 20 THEN Append(drift, [line |-> l, op |-> what]) ELSE drift
Next == /\ l <= N /\ l' = l + 1
        /\ CASE Ev.ev = "Reset" -> /\ hid' = Hid0(Ev.cfg, HistOf(Ev.hkind, Ev.hcap).cap) /\ prev' = Ev.state /\ hprev' = Ev.hstate
                                   /\ n' = n + 1
                                   /\ IF ResetOk THEN UNCHANGED <<drift, ndrift>> ELSE Note("new")
             [] Ev.ev = "Step" -> /\ n' = n + 1 /\ prev' = Ev.post /\ hprev' = Ev.hpost
                                  /\ hid' = IF Continuous THEN NewHid ELSE hid
                                  /\ IF StepOk THEN UNCHANGED <<drift, ndrift>> ELSE Note(Ev.op)
             [] Ev.ev = "Panic" -> Note("panic") /\ UNCHANGED <<hid, prev, hprev, n>>
             [] OTHER -> UNCHANGED <<hid, prev, hprev, drift, ndrift, n>>
Spec == Init /\ [][Next]_tvars
Report == (l = N + 1) => JsonSerialize(IOEnv.OUT, [consumed |-> l - 1, total |-> N, nviol |-> ndrift, checked |-> n, viol |-> drift])
=============================================================================
