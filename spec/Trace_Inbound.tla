----------------------------- MODULE Trace_Inbound -----------------------------
(***************************************************************************)
(* Acceptor for observations of the real inbound entry points (harness     *)
(* c05).  Every event carries the features of the input and what the call  *)
(* did; the rules are those of Inbound.tla, with the clock band            *)
(* [off_lo, off_hi] for the timestamp window and measured peak allocation  *)
(* for the memory clauses.                                                 *)
(***************************************************************************)
EXTENDS Naturals, Integers, Sequences, FiniteSets, TLC, Json, IOUtils

Rec == ndJsonDeserialize(IOEnv.TRACE)
N == Len(Rec)
MaxAge == 300
MaxFuture == 30
MaxDhtMessage == 65536
MaxValue == 512
MaxRecord == 512
MaxFindNode == 20
K == 8
Slack == 262144            \* constant part of the allocation bound (runtime, logging, response)

VARIABLES l, viol, nviol, n
vars == <<l, viol, nviol, n>>
Ev == Rec[l]
Note(clause, site, cond) ==
  /\ nviol' = nviol + 1
  /\ viol' = IF Cardinality({i \in 1..Len(viol) : viol[i].clause = clause /\ viol[i].site = site /\ viol[i].cond = cond}) < 12
             THEN Append(viol, [line |-> l, clause |-> clause, site |-> site, cond |-> cond]) ELSE viol
NoNote == UNCHANGED <<viol, nviol>>
Min2(a, b) == IF a < b THEN a ELSE b

Frame == /\ Ev.ev = "Frame"
         /\ IF Ev.panic THEN Note("NoPanic", "parse_protocol_message", Ev.built)
            ELSE IF Ev.surfaced /\ ~Ev.decodes THEN Note("SurfacedOnlyIfValid", "parse_protocol_message", "undecodable")
            (* surfaced => the timestamp was inside the window at some instant of the clock band *)
            ELSE IF Ev.surfaced /\ (Ev.off_hi < -MaxAge \/ Ev.off_lo > MaxFuture)
                 THEN Note("TimestampWindow", "parse_protocol_message", IF Ev.off_hi < -MaxAge THEN "too-old" ELSE "future")
            (* inside the window at every instant of the band => surfaced *)
            ELSE IF ~Ev.surfaced /\ Ev.decodes /\ Ev.off_lo >= -MaxAge /\ Ev.off_hi <= MaxFuture
                 THEN Note("TimestampWindow", "parse_protocol_message", "valid-rejected")
            ELSE IF Ev.surfaced /\ ~Ev.source_ok THEN Note("SourceIsConnection", "parse_protocol_message", IF Ev.claimed_same THEN "other" ELSE "claimed")
            ELSE IF Ev.surfaced /\ ~Ev.data_ok THEN Note("PayloadIntact", "parse_protocol_message", "data")
            ELSE IF Ev.peak > 4 * Ev.len + Slack THEN Note("BoundedAllocation", "parse_protocol_message", Ev.built)
            ELSE NoNote

DhtMsg == /\ Ev.ev = "DhtMsg"
          /\ IF Ev.panic THEN Note("NoPanic", "handle_dht_message", Ev.built)
             ELSE IF Ev.len > MaxDhtMessage /\ Ev.ok THEN Note("SizeGate", "handle_dht_message", "accepted")
             ELSE IF Ev.len > MaxDhtMessage /\ Ev.peak > 16384 THEN Note("SizeGate", "handle_dht_message", "work-before-refusal")
             ELSE IF Ev.is_put /\ Ev.put_len > MaxValue /\ Ev.stored_len >= 0 THEN Note("ValueLimit", "handle_dht_message", "stored")
             ELSE IF Ev.is_put /\ Ev.put_len > MaxValue /\ Ev.ok THEN Note("ValueLimit", "handle_dht_message", "acknowledged")
             ELSE IF Ev.stored_len > MaxValue THEN Note("ValueLimit", "handle_dht_message", "oversized-held")
             ELSE IF Ev.built = "valid" /\ Ev.is_put /\ Ev.put_len <= MaxValue /\ Ev.len <= MaxDhtMessage /\ (~Ev.ok \/ Ev.stored_len # Ev.put_len)
                  THEN Note("ValidAccepted", "handle_dht_message", "put")
             ELSE IF Ev.peak > 4 * Ev.len + Slack THEN Note("BoundedAllocation", "handle_dht_message", Ev.built)
             ELSE NoNote

EngineReq == /\ Ev.ev = "EngineReq"
             /\ IF Ev.panic THEN Note("NoPanic", "handle_request", Ev.kind)
                ELSE IF Ev.kind = "FindNode" /\ Ev.nodes > Min2(Ev.count, MaxFindNode) THEN Note("CountCapped", "handle_request", "FindNode")
                ELSE IF Ev.kind = "FindValue" /\ Ev.nodes > K THEN Note("CountCapped", "handle_request", "FindValue")
                ELSE IF Ev.kind = "Store" /\ Ev.vlen > MaxValue /\ (Ev.acked \/ Ev.held) THEN Note("ValueLimit", "handle_request", "Store")
                ELSE IF Ev.kind = "Store" /\ Ev.vlen <= MaxValue /\ ~(Ev.acked /\ Ev.held) THEN Note("ValidAccepted", "handle_request", "Store")
                ELSE IF Ev.peak > Slack THEN Note("BoundedAllocation", "handle_request", Ev.kind)
                ELSE NoNote

Record == /\ Ev.ev = "Record"
          /\ IF Ev.panic THEN Note("NoPanic", "DhtRecord::deserialize", "bytes")
             ELSE IF Ev.len > MaxRecord /\ Ev.ok THEN Note("RecordLimit", "DhtRecord::deserialize", "accepted")
             ELSE IF Ev.peak > 4 * Ev.len + Slack THEN Note("BoundedAllocation", "DhtRecord::deserialize", "bytes")
             ELSE NoNote

(* a lookup answered by a hostile peer with a value: whatever the caller gets, the node retains nothing over the limit *)
HostileGet == /\ Ev.ev = "HostileGet"
              /\ IF Ev.panic THEN Note("NoPanic", "get", "hostile-value")
                 ELSE IF Ev.held_len > MaxValue THEN Note("ValueLimit", "get", "oversized-reply-cached")
                 ELSE NoNote

Reset == Ev.ev = "Reset" /\ NoNote
Init == l = 1 /\ viol = <<>> /\ nviol = 0 /\ n = 0
Next == l <= N /\ l' = l + 1 /\ n' = n + 1 /\ (Reset \/ Frame \/ DhtMsg \/ EngineReq \/ Record \/ HostileGet)
Spec == Init /\ [][Next]_vars
Report == (l = N + 1) =>
  JsonSerialize(IOEnv.OUT, [consumed |-> l - 1, total |-> N, nviol |-> nviol, checked |-> n, viol |-> viol])
=============================================================================
