---------------------------- MODULE NodeAgeRules ----------------------------
(***************************************************************************)
(* Verdict / transition functions of the anti-Sybil node age verification  *)
(* (src/dht/node_age_verifier.rs: NodeAgeCategory, NodeAgeConfig,          *)
(* NodeAgeRecord, NodeAgeVerifier).  Shared by the model (NodeAge.tla) and *)
(* the acceptor (Trace_NodeAge.tla).                                       *)
(*                                                                         *)
(* A verifier state is a function: registered node token -> record         *)
(*   [first, last, active, rejoin, uptime,   the five fields of the code   *)
(*    sess, left, pres]                      ghosts: start of the current  *)
(*                                           session, instant of the last  *)
(*                                           departure, true presence      *)
(*                                           (seconds of finished sessions)*)
(* A configuration is [repl, crit, vet, enforce, bpd, maxb]: the three age *)
(* thresholds in seconds, enforce_age_requirements, trust_bonus_per_day    *)
(* and max_age_trust_bonus in per-mille.  Trust multipliers are ppm.       *)
(* Time is an integer with Unit ticks per second (model: 1, acceptor:      *)
(* 1000000); the code only ever looks at whole elapsed seconds             *)
(* (`elapsed().as_secs()`), which is SecOf.  Operations that read the      *)
(* clock once take `now`; queries that read it once per record take the    *)
(* ages (in seconds) they saw, so that the acceptor can give every read    *)
(* its own instant of the call's clock band.                               *)
(***************************************************************************)
EXTENDS Naturals, Integers, Sequences, FiniteSets, TLC

CONSTANTS Unit,                \* ticks per second
          YoungAge, EstAge, VetAge,   \* the literals 3600 / 86400 / 604800 of NodeAgeRecord::category, min_age_secs
          DaySecs,             \* the literal 86400.0 of calculate_trust_multiplier
          AsImplemented_CategoryHardcoded,       \* category() / the base multiplier use the literals, the lists and `passes` the configuration
          AsImplemented_UptimeSinceLastSeen,     \* mark_departed adds the time since last_seen (moved by every register_node), not since the session began
          AsImplemented_UnknownReasonWhenPassing,\* an unknown node gets failure_reason "Unknown node" even when it passes (enforcement off)
          AsImplemented_CleanupByLastSeen,       \* cleanup_old_records measures retention from last_seen (last registration), not from the departure
          AsImplemented_RelaxedByReplOnly,       \* is_relaxed: min_replication_age_secs == 0 alone counts as relaxed
          AsImplemented_HugeRetentionPanics,     \* cleanup_old_records(Duration::MAX): `SystemTime::now() - retention` panics
          Variant_RejoinResetsAge                \* WRONG on purpose: a rejoin restarts first_seen

(* ---- helpers ---- *)
MinOf(a, b) == IF a < b THEN a ELSE b
Upd(f, k, v) == [x \in DOMAIN f \cup {k} |-> IF x = k THEN v ELSE f[x]]
RoundDiv(a, b) == (2 * a + b) \div (2 * b)          \* a / b rounded half up (a >= 0, b > 0)
RECURSIVE GcdOf(_, _)
GcdOf(a, b) == IF b = 0 THEN a ELSE GcdOf(b, a % b)
RECURSIVE SumOver(_, _)
SumOver(f, S) == IF S = {} THEN 0 ELSE LET x == CHOOSE y \in S : TRUE IN f[x] + SumOver(f, S \ {x})
(* `t.elapsed().map(|d| d.as_secs()).unwrap_or(0)` for an elapsed time of d ticks (negative: the clock is behind t) *)
SecOf(d) == IF d <= 0 THEN 0 ELSE d \div Unit

(* ---- NodeAgeCategory ---- *)
Cats == {"New", "Young", "Established", "Veteran"}
Rank(c) == CASE c = "New" -> 0 [] c = "Young" -> 1 [] c = "Established" -> 2 [] OTHER -> 3
CatTrust(c) == CASE c = "New" -> 200000 [] c = "Young" -> 500000 [] c = "Established" -> 1000000 [] OTHER -> 1200000   \* trust_multiplier, ppm
CanReplicate(c) == c # "New"                                  \* can_replicate
CanCritical(c) == c \in {"Established", "Veteran"}            \* can_participate_in_critical_ops
MinAge(c) == CASE c = "New" -> 0 [] c = "Young" -> YoungAge [] c = "Established" -> EstAge [] OTHER -> VetAge     \* min_age_secs
(* NodeAgeRecord::category: literal thresholds *)
HardCat(age) == IF age >= VetAge THEN "Veteran" ELSE IF age >= EstAge THEN "Established" ELSE IF age >= YoungAge THEN "Young" ELSE "New"
(* the category the configuration describes: replication age = Young, critical-operation age = Established, veteran age *)
CfgCat(age, c) == IF age >= c.vet THEN "Veteran" ELSE IF age >= c.crit THEN "Established" ELSE IF age >= c.repl THEN "Young" ELSE "New"
CatOf(age, c) == IF AsImplemented_CategoryHardcoded THEN HardCat(age) ELSE CfgCat(age, c)

(* ---- NodeAgeConfig ---- *)
DefaultCfg == [repl |-> YoungAge, crit |-> EstAge, vet |-> VetAge, enforce |-> TRUE, bpd |-> 50, maxb |-> 300]   \* Default
TestnetCfg == [repl |-> 0, crit |-> 0, vet |-> 0, enforce |-> FALSE, bpd |-> 0, maxb |-> 0]                       \* testnet() = permissive()
IsRelaxed(c) == \/ ~c.enforce                                                                                     \* is_relaxed
                \/ IF AsImplemented_RelaxedByReplOnly THEN c.repl = 0 ELSE c.repl = 0 /\ c.crit = 0
Ordered(c) == c.repl <= c.crit /\ c.crit <= c.vet

(* ---- calculate_trust_multiplier (ppm) ---- *)
BonusG == GcdOf(1000, DaySecs)
BonusPpm(age, c) ==      \* min(age / 86400 * bonus_per_day, max_bonus); bpd, maxb per-mille; the fraction 1000 / DaySecs is reduced first (32-bit integers)
  MinOf(RoundDiv(age * c.bpd * (1000 \div BonusG), DaySecs \div BonusG), c.maxb * 1000)
TrustBase(age, c) ==     \* veteran threshold from the configuration, the other two literal
  IF AsImplemented_CategoryHardcoded
  THEN CatTrust(IF age >= c.vet THEN "Veteran" ELSE IF age >= EstAge THEN "Established" ELSE IF age >= YoungAge THEN "Young" ELSE "New")
  ELSE CatTrust(CfgCat(age, c))
TrustPpm(age, c) == TrustBase(age, c) + BonusPpm(age, c)

(* ---- NodeAgeRecord ---- *)
NewRec(now) == [first |-> now, last |-> now, active |-> TRUE, rejoin |-> 0, uptime |-> 0, sess |-> now, left |-> now, pres |-> 0]   \* new()
AgeSecs(r, now) == SecOf(now - r.first)                                                                        \* age_secs
RecUpdateSeen(r, now) == [r EXCEPT !.last = now, !.active = TRUE, !.sess = IF r.active THEN @ ELSE now]        \* update_seen
(* mark_departed; el / elsess: whole seconds since last_seen / since the session began *)
DepartRec(r, el, elsess, now) ==
  IF r.active THEN [r EXCEPT !.uptime = @ + (IF AsImplemented_UptimeSinceLastSeen THEN el ELSE elsess), !.active = FALSE,
                             !.left = now, !.pres = @ + elsess]
  ELSE r
RecDepart(r, now) == DepartRec(r, SecOf(now - r.last), SecOf(now - r.sess), now)
RecRejoin(r, now) == [r EXCEPT !.rejoin = @ + 1, !.last = now, !.active = TRUE, !.sess = IF r.active THEN @ ELSE now,   \* record_rejoin
                               !.first = IF Variant_RejoinResetsAge THEN now ELSE @]
Obs(r) == <<r.first, r.last, r.active, r.rejoin, r.uptime>>    \* what get_record shows

(* ---- NodeAgeVerifier ---- *)
Known(st) == DOMAIN st
Empty == [n \in {} |-> 0]
(* register_node: new record / rejoin of a departed node / update_seen of an active one; returns a copy of the record *)
Register(st, n, now) ==
  IF n \in Known(st)
  THEN LET r == IF ~st[n].active THEN RecRejoin(st[n], now) ELSE RecUpdateSeen(st[n], now) IN [s |-> Upd(st, n, r), ret |-> r, new |-> FALSE]
  ELSE [s |-> Upd(st, n, NewRec(now)), ret |-> NewRec(now), new |-> TRUE]
(* mark_departed: unknown nodes are ignored *)
Depart(st, n, now) == IF n \in Known(st) THEN [s |-> Upd(st, n, RecDepart(st[n], now))] ELSE [s |-> st]

OpTypes == {"BasicRead", "BasicWrite", "Replication", "CriticalOperation"}
MinAgeFor(op, c) == CASE op = "Replication" -> c.repl [] op = "CriticalOperation" -> c.crit [] OTHER -> 0
(* verify_for_operation; a1: the age read by age_secs(), a2: the age read again inside category().  Departed nodes are not
   treated differently.  reason: "none" / "age" (with the numbers age, minage and the operation) / "unknown" *)
Verify(st, c, n, op, a1, a2) ==
  IF n \in Known(st)
  THEN LET cat == CatOf(a2, c)
           passes == ~c.enforce \/ a1 >= MinAgeFor(op, c)
       IN [passes |-> passes, cat |-> cat, age |-> a1, tm |-> TrustPpm(a1, c), canrep |-> CanReplicate(cat), cancrit |-> CanCritical(cat),
           reason |-> IF passes THEN "none" ELSE "age", minage |-> MinAgeFor(op, c)]
  ELSE [passes |-> ~c.enforce, cat |-> "New", age |-> 0, tm |-> CatTrust("New"), canrep |-> FALSE, cancrit |-> FALSE,
        reason |-> IF c.enforce \/ AsImplemented_UnknownReasonWhenPassing THEN "unknown" ELSE "none", minage |-> MinAgeFor(op, c)]

(* get_replication_eligible_nodes / get_critical_ops_eligible_nodes / get_veteran_nodes; ages: node -> seconds *)
ActiveOld(st, ages, thr) == {n \in Known(st) : st[n].active /\ ages[n] >= thr}
ReplList(st, c, ages) == ActiveOld(st, ages, c.repl)
CritList(st, c, ages) == ActiveOld(st, ages, c.crit)
VetList(st, c, ages) == ActiveOld(st, ages, c.vet)

(* get_age_stats: categories of ALL records (departed ones too), ac: the ages seen by category(), aa: those seen by the average *)
Stats(st, c, ac, aa) ==
  LET tot == Cardinality(Known(st))
      cnt(k) == Cardinality({n \in Known(st) : CatOf(ac[n], c) = k})
  IN [total |-> tot, active |-> Cardinality({n \in Known(st) : st[n].active}),
      new |-> cnt("New"), young |-> cnt("Young"), est |-> cnt("Established"), vet |-> cnt("Veteran"),
      avg |-> IF tot = 0 THEN 0 ELSE SumOver(aa, Known(st)) \div tot]

(* cleanup_old_records(retention): keeps a record iff it is active or its stamp is younger than the cutoff; r < 0 stands for
   Duration::MAX ("keep forever") *)
Stamp(x) == IF AsImplemented_CleanupByLastSeen THEN x.last ELSE x.left
Cleanup(st, now, r) ==
  IF r < 0 THEN [s |-> st, panic |-> AsImplemented_HugeRetentionPanics]
  ELSE [s |-> [n \in {m \in Known(st) : st[m].active \/ Stamp(st[m]) > now - r} |-> st[n]], panic |-> FALSE]
=============================================================================
