--------------------------- MODULE PlacementRules ---------------------------
(***************************************************************************)
(* Property C17: a successful placement names exactly the requested number *)
(* of distinct candidates, at most two per region, at most three per       *)
(* autonomous system, no two closer than 50 km; otherwise an error; never  *)
(* a panic.  Constant-free operator library shared by Placement.tla and    *)
(* Trace_Placement.tla.                                                    *)
(* A candidate is [id, region, asn, site]; metadata may be missing         *)
(* (meta = FALSE).  `site` stands for the location: two candidates are     *)
(* closer than 50 km exactly when they are at the same site (the harness   *)
(* places sites >= 80 km apart and members of a site <= 30 km apart).      *)
(***************************************************************************)
EXTENDS Naturals, Integers, Sequences, FiniteSets, TLC

MaxPerRegion == 2
MaxPerAsn == 3

Distinct(s) == \A i, j \in 1..Len(s) : i # j => s[i] # s[j]
ById(cands, x) == cands[CHOOSE i \in 1..Len(cands) : cands[i].id = x]
IdsOf(cands) == {cands[i].id : i \in 1..Len(cands)}
SelSet(sel) == {sel[i] : i \in 1..Len(sel)}

(* P-level: what a successful decision must look like *)
OkExact(sel, k) == Len(sel) = k
OkDistinct(sel) == Distinct(sel)
OkMembers(cands, sel) == SelSet(sel) \subseteq IdsOf(cands)
OkHasMeta(cands, sel) == \A x \in SelSet(sel) : x \in IdsOf(cands) => ById(cands, x).meta
OkRegion(cands, sel) ==
  \A x \in SelSet(sel) : Cardinality({y \in SelSet(sel) : ById(cands, y).region = ById(cands, x).region}) <= MaxPerRegion
OkAsn(cands, sel) ==
  \A x \in SelSet(sel) : Cardinality({y \in SelSet(sel) : ById(cands, y).asn = ById(cands, x).asn}) <= MaxPerAsn
OkSpread(cands, sel) ==
  \A x, y \in SelSet(sel) : x # y => ById(cands, x).site # ById(cands, y).site

OkBroken(cands, sel, k) ==
  IF ~OkExact(sel, k) THEN "ExactlyK"
  ELSE IF ~OkDistinct(sel) THEN "Distinct"
  ELSE IF ~OkMembers(cands, sel) THEN "FromCandidates"
  ELSE IF ~OkHasMeta(cands, sel) THEN "FromCandidates"
  ELSE IF ~OkRegion(cands, sel) THEN "RegionCap"
  ELSE IF ~OkAsn(cands, sel) THEN "AsnCap"
  ELSE IF ~OkSpread(cands, sel) THEN "MinDistance"
  ELSE ""

(* weighted sampling without replacement: k distinct members of the offered list (indices 1..n) *)
SampleBroken(n, k, out) ==
  IF Len(out) # k THEN "SampleExactlyK"
  ELSE IF ~Distinct(out) THEN "SampleWithoutReplacement"
  ELSE IF \E i \in 1..Len(out) : out[i] \notin 1..n THEN "SampleFromCandidates"
  ELSE ""

(* configuration bounds *)
RfOk(min, def, max) == min >= 1 /\ min <= def /\ def <= max
RfValid(min, max, v) == min <= v /\ v <= max
=============================================================================
