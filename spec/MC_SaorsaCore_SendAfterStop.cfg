SPECIFICATION Spec
CONSTANTS
  Node = {1, 2, 3}
  Keys = {1}
  Vals = {1, 2}
  K = 2
  MaxOps = 2
  MaxChurn = 4
  Variant_CloseForgets = FALSE
  Variant_SendAfterStop = TRUE
INVARIANTS QuietAfterStop
CHECK_DEADLOCK FALSE
