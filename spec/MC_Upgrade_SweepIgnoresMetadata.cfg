\* must FAIL: cleanup_old_updates removes the binary of the update whose metadata it keeps
SPECIFICATION SpecS
CONSTANTS
  Vers = {1, 2}
  Toks = {1, 2}
  NPaths = 1
  MaxBs = {1, 2}
  MaxAgeB = 1
  MaxAgeS = 1
  MaxOps = 4
  MaxTicks = 2
  AsImplemented_TieKeepsOlder = FALSE
  AsImplemented_SharedBackupFile = FALSE
  AsImplemented_CleanupNeedsDir = FALSE
  AsImplemented_RollbackToVersionNeedsDir = FALSE
  AsImplemented_GetStagedUnverified = FALSE
  AsImplemented_SweepIgnoresMetadata = TRUE
  Variant_RollbackUnverified = FALSE
INVARIANTS CleanupKeepsLiveBinary
CHECK_DEADLOCK FALSE
