\* as implemented: ... and FIFO then names a key that was evicted and came back as the OLDEST: insert(1), insert(2), remove(1), insert(1), victim{1,2} = 1
SPECIFICATION Spec
CONSTANTS
  Keys = {1, 2, 3}
  Kinds = {"LRU", "LFU", "FIFO", "Adaptive"}
  MaxFreq = 3
  MaxLen = 4
  AsImplemented_NoRemoveHook = TRUE
  AsImplemented_FifoDuplicates = FALSE
  AsImplemented_UnseenNone = FALSE
  Variant_LruNoReindex = FALSE
INVARIANTS FifoNamesOldest
CHECK_DEADLOCK FALSE
