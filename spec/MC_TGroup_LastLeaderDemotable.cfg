\* as implemented: update_participant_role demotes the last leader; must violate ValidateClosure
SPECIFICATION Spec
CONSTANTS
  Sizes = {2, 3}
  InitStatuses = {"Active", "Inactive"}
  MaxInitIdle = 3
  ArgIds = {1, 2, 3, 9}
  NewIds = {1, 4}
  Tokens = {"S", "F", "P"}
  HugeChoices = {FALSE, TRUE}
  MaxVer = 3
  AuditCap = 5
  AuditDrop = 2
  AsImplemented_ErrorMutates = FALSE
  AsImplemented_LastLeaderDemotable = TRUE
  AsImplemented_CreateSkipsValidate = FALSE
  AsImplemented_PermissionIgnoresStatus = FALSE
  AsImplemented_DeadPermissions = FALSE
  AsImplemented_HugeSuspensionPanics = FALSE
  Variant_ThresholdIgnoresActive = FALSE
INVARIANTS TypeOK FreshGroupValid ValidateClosure
CHECK_DEADLOCK FALSE
