---------------------------- MODULE TransportRules ----------------------------
(***************************************************************************)
(* Transition functions of TransportHandle's peer bookkeeping, shared by   *)
(* the model (Transport.tla) and the acceptor (Trace_Transport.tla).       *)
(***************************************************************************)
EXTENDS Naturals, Sequences, FiniteSets, SequencesExt, TLC

CONSTANTS Stale, Cleanup,
          AsImplemented_DoubleDisconnectEvent   \* disconnect_peer announces a peer that maintenance already announced as gone

(* a state: peers = function over a subset of Peers to [st, seen]; active = set; now = time *)
Tracked(s) == DOMAIN s.peers
Rec(st, seen) == [st |-> st, seen |-> seen]
With(f, p, v) == [q \in DOMAIN f \cup {p} |-> IF q = p THEN v ELSE f[q]]
Without(f, p) == [q \in DOMAIN f \ {p} |-> f[q]]

(* every operation yields [s: new state, ev: events emitted, ok: result] *)
Connect(s, p) ==       \* outbound dial succeeded (connect_peer)
  [s |-> [s EXCEPT !.peers = With(s.peers, p, Rec("Connected", s.now)), !.active = @ \cup {p}],
   ev |-> <<<<"Connected", p>>>>, ok |-> TRUE]
Accept(s, p) ==        \* inbound connection (accept loop): event first, then registration
  [s |-> [s EXCEPT !.peers = With(s.peers, p, Rec("Connected", s.now)), !.active = @ \cup {p}],
   ev |-> <<<<"Connected", p>>>>, ok |-> TRUE]
Disconnect(s, p) ==    \* disconnect_peer: both structures, event only if the peer was tracked
  [s |-> [s EXCEPT !.peers = Without(s.peers, p), !.active = @ \ {p}],
   ev |-> IF p \in Tracked(s) /\ (AsImplemented_DoubleDisconnectEvent \/ s.peers[p].st = "Connected")
          THEN <<<<"Disconnected", p>>>> ELSE <<>>, ok |-> TRUE]
Forget(s, p) ==        \* remove_peer: silent; result = "was tracked"
  [s |-> [s EXCEPT !.peers = Without(s.peers, p), !.active = @ \ {p}], ev |-> <<>>, ok |-> p \in Tracked(s)]
Receive(s, p) ==       \* any inbound data proves the peer alive
  [s |-> IF p \in Tracked(s) THEN [s EXCEPT !.peers[p].seen = s.now] ELSE s, ev |-> <<>>, ok |-> TRUE]
Send(s, p) ==          \* send_message: needs a tracked peer with an active connection; an inactive one is dropped
  IF p \notin Tracked(s) THEN [s |-> s, ev |-> <<>>, ok |-> FALSE]
  ELSE IF p \notin s.active THEN [s |-> [s EXCEPT !.peers = Without(s.peers, p)], ev |-> <<>>, ok |-> FALSE]
  ELSE [s |-> s, ev |-> <<>>, ok |-> TRUE]
Advance(s, d) == [s |-> [s EXCEPT !.now = @ + d], ev |-> <<>>, ok |-> TRUE]

(* maintenance_tick: connected peers silent for more than Stale are marked disconnected (event, connection
   dropped); disconnected ones silent for more than Cleanup are forgotten *)
StalePeers(s) == {p \in Tracked(s) : s.peers[p].st = "Connected" /\ s.now - s.peers[p].seen > Stale}
DeadPeers(s) == {p \in Tracked(s) : s.peers[p].st = "Disconnected" /\ s.now - s.peers[p].seen > Cleanup}
Maintain(s) ==
  LET stale == StalePeers(s)  dead == DeadPeers(s)
      marked == [q \in Tracked(s) |-> IF q \in stale THEN Rec("Disconnected", s.peers[q].seen) ELSE s.peers[q]]
      kept == [q \in Tracked(s) \ dead |-> marked[q]]
  IN [s |-> [s EXCEPT !.peers = kept, !.active = @ \ stale], evset |-> {<<"Disconnected", p>> : p \in stale}, ok |-> TRUE]

=============================================================================
