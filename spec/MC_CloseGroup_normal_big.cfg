SPECIFICATION Spec
CONSTANTS
  ConfGrid = {TRUE, FALSE}
  TrustGrid = {9999, 100, 290, 300, 900}
  RegionGrid = {1}
  LatGrid = {0}
  MaxW = 10
  Honest = 0
  MinPeers = 5
  TwNum = 700
  TwDen = 1000
  BftNum = 710
  BftDen = 1000
  MinTrust = 300
  MinRegions = 1
  Cands = {9999, 100, 300}
  Modes = {FALSE}
  Variant = ""
INVARIANTS ClausesHold FlipHolds
CHECK_DEADLOCK FALSE
