SPECIFICATION Spec
CONSTANTS
  AsImplemented_DropDangling = TRUE
INVARIANTS SybilBound AnchorFloor
CHECK_DEADLOCK FALSE
