SPECIFICATION Spec
CONSTANTS
  B = 3
  MaxC = 3
  TrustGrid = {0, 200}
  Alpha = 0
  Thr = 200
  LostBits = 1
  AsImplemented_F64Distance = FALSE
INVARIANTS SelectionOk UniformTrustIsClosest NoParetoInversion
CHECK_DEADLOCK FALSE
