SPECIFICATION Spec
CONSTANTS
  Unit = 1
  TPS = 1
  Window = 2
  Expire = 3
  Peers = {1, 2}
  OpsM = {"dht", "mcp"}
  MaxConn = 2
  LimDht = 2
  LimMcp = 1
  BurstC = 1
  IvM = 1
  IvH = 2
  IvC = 2
  ShutTo = 1
  AcqTo = 1
  MaxTime = 4
  MaxOps = 6
  MaxIds = 3
  MaxTasks = 6
  RecBytes = 5
  Advances = {1, 2}
  AsImplemented_SharedPeerBucket = FALSE
  AsImplemented_SwappedBurstRate = TRUE
  AsImplemented_WaiterAdmittedAfterShutdown = FALSE
  AsImplemented_LostShutdownSignal = FALSE
  AsImplemented_WindowRollReportsZero = FALSE
  Variant_DoubleRelease = FALSE
INVARIANTS RateBound
CHECK_DEADLOCK FALSE
