---------------------------- MODULE Trace_Trust ----------------------------
(***************************************************************************)
(* Acceptor for traces recorded from real EigenTrustEngine instances       *)
(* (harness module c10; twin engines A and B).  The model state is the     *)
(* P-level state of TrustCore.tla per engine; every observed score vector  *)
(* (integers in parts per billion) and every per-peer query is judged by   *)
(* the clauses of property C10.  Mismatches are collected in `viol`.       *)
(*                                                                         *)
(* Tolerances (DESIGN.md section 4 rule 5): 2 ppm on sums (this includes   *)
(* at most 0.3 ppm of rounding for 600 ppb-rounded scores), 1 ppm on       *)
(* monotonicity / determinism, 0 on the query (it returns a stored value). *)
(*                                                                         *)
(* Timeout fallback: `fb` = the 2 s timeout branch of compute_global_trust *)
(* was taken (exact, measured on the paused virtual clock).  Such a call   *)
(* returns the cache: the freshly published values merged into whatever    *)
(* the cache held before.  It is counted, reported as clause               *)
(* ComputeCompletes, entries outside known+anchors are reported as clause  *)
(* Domain/"fallback-stale-entries", and all other clauses are judged on    *)
(* the part of the map that the computation covers (known + anchors).      *)
(***************************************************************************)
EXTENDS TrustCore, SequencesExt, Json, IOUtils

Rec == ndJsonDeserialize(IOEnv.TRACE)
N == Len(Rec)
E2 == {"A", "B"}
PPB == 1000000000
PriorV == 900000000
TolSum == 2000
TolMono == 1000

VARIABLES l, S, Q, limbo, snap, viol, vkeys, nviol, cnt, marks
vars == <<l, S, Q, limbo, snap, viol, vkeys, nviol, cnt, marks>>

Ev == Rec[l]
Targets == IF Ev.e = "AB" THEN E2 ELSE {Ev.e}
NoSnap == [ok |-> FALSE]
Cnt0 == [compute |-> 0, fallback |-> 0, query |-> 0, eq |-> 0, ok |-> 0, fail |-> 0, sev |-> 0, firstok |-> 0, orphanq |-> 0]

V(clause, site, cond) == [line |-> l, clause |-> clause, site |-> site, cond |-> cond]
(* keep at most 6 examples per (clause, site, cond); vkeys counts all of them *)
Key(x) == <<x.clause, x.site, x.cond>>
KeyCount(k) == IF k \in DOMAIN vkeys THEN vkeys[k] ELSE 0
RECURSIVE AddTo(_, _, _)
AddTo(vl, vk, vs) ==
  IF vs = <<>> THEN <<vl, vk>>
  ELSE LET x == Head(vs)
           c == IF Key(x) \in DOMAIN vk THEN vk[Key(x)] ELSE 0 IN
       AddTo(IF c < 6 THEN Append(vl, x) ELSE vl, Put(vk, Key(x), c + 1), Tail(vs))
AddViols(vs) == /\ nviol' = nviol + Len(vs)
                /\ LET r == AddTo(viol, vkeys, vs) IN viol' = r[1] /\ vkeys' = r[2]
If(c, v) == IF c THEN <<v>> ELSE <<>>

Init == /\ l = 1 /\ S = [e \in E2 |-> NewState({})] /\ Q = [e \in E2 |-> QInit({}, PriorV)]
        /\ limbo = [e \in E2 |-> {}] /\ snap = [e \in E2 |-> NoSnap]
        /\ viol = <<>> /\ vkeys = EmptyFn /\ nviol = 0 /\ cnt = Cnt0 /\ marks = <<>>

Reset == /\ Ev.ev = "Reset"
         /\ LET pre == ToSet(Ev.pre) IN
            /\ S' = [e \in E2 |-> NewState(pre)]
            /\ Q' = [e \in E2 |-> QInit(pre, PriorV)]
         /\ limbo' = [e \in E2 |-> {}] /\ snap' = [e \in E2 |-> NoSnap]
         /\ UNCHANGED <<viol, vkeys, nviol, cnt>>

On(f(_)) == [e \in E2 |-> IF e \in Targets THEN f(e) ELSE S[e]]

Local == /\ Ev.ev = "Local"
         /\ S' = On(LAMBDA e : ApplyLocal(S[e], Ev.from, Ev.to, Ev.ok))
         /\ limbo' = [e \in E2 |-> IF e \in Targets THEN limbo[e] \ {Ev.from, Ev.to} ELSE limbo[e]]
         /\ UNCHANGED <<Q, snap, viol, vkeys, nviol, cnt>>
Stat == /\ Ev.ev = "Stat"
        /\ S' = On(LAMBDA e : ApplyStat(S[e], Ev.n, Ev.kind, Ev.amt))
        /\ limbo' = [e \in E2 |-> IF e \in Targets THEN limbo[e] \ {Ev.n} ELSE limbo[e]]
        /\ UNCHANGED <<Q, snap, viol, vkeys, nviol, cnt>>
AddPre == /\ Ev.ev = "AddPre"
          /\ S' = On(LAMBDA e : ApplyAddPre(S[e], Ev.n))
          /\ Q' = [e \in E2 |-> IF e \in Targets THEN QAddPre(Q[e], Ev.n, PriorV) ELSE Q[e]]
          /\ UNCHANGED <<limbo, snap, viol, vkeys, nviol, cnt>>
RemPre == /\ Ev.ev = "RemPre"
          /\ S' = On(LAMBDA e : ApplyRemPre(S[e], Ev.n))
          /\ UNCHANGED <<Q, limbo, snap, viol, vkeys, nviol, cnt>>
RemoveEv == /\ Ev.ev = "Remove"
          /\ S' = On(LAMBDA e : ApplyRemove(S[e], Ev.n))
          /\ Q' = [e \in E2 |-> IF e \in Targets THEN QRemove(Q[e], Ev.n) ELSE Q[e]]
          /\ limbo' = [e \in E2 |-> IF e \in Targets /\ Ev.n \in DOMAIN S[e].reps THEN limbo[e] \cup {Ev.n} ELSE limbo[e]]
          /\ UNCHANGED <<snap, viol, vkeys, nviol, cnt>>

(* saturating sum of v over the indices listed in sequence d that belong to set core *)
RECURSIVE SatSum(_, _, _, _, _)
SatSum(d, v, core, i, acc) ==
  IF i > Len(d) THEN acc
  ELSE LET x == IF d[i] \in core /\ v[d[i]] > 0 THEN v[d[i]] ELSE 0 IN
       SatSum(d, v, core, i + 1, IF x > 2000000000 - acc THEN 2000000000 ELSE acc + x)
Abs(x) == IF x < 0 THEN -x ELSE x
At(core, v, p) == IF p \in core THEN v[p] ELSE 0

(* violations of the relation between the vector (core, v) computed in state cur and snapshot sn *)
RelViols(cur, core, v, sn) ==
  IF ~sn.ok THEN <<>> ELSE
  LET r == Rel(cur, sn.S)
      a == At(core, v, r.p)
      b == At(sn.core, sn.v, r.p)
      fe == IF r.first THEN "first-entry" ELSE "has-entry" IN
  CASE r.k = "eq" -> If(core # sn.core \/ \E n \in core : Abs(v[n] - sn.v[n]) > TolMono,
                        V("Deterministic", "compute_global_trust", "equal-histories"))
    [] r.k = "ok+" -> If(a < b - TolMono, V("SuccessMonotone", "compute_global_trust", fe))
    [] r.k = "ok-" -> If(b < a - TolMono, V("SuccessMonotone", "compute_global_trust", fe))
    [] r.k = "fail+" -> If(a > b + TolMono, V("FailureMonotone", "compute_global_trust", fe))
    [] r.k = "fail-" -> If(b > a + TolMono, V("FailureMonotone", "compute_global_trust", fe))
    [] r.k = "sev+" -> If(a > b + TolMono, V("SeverityOrder", "compute_global_trust", "severe-vs-plain"))
    [] r.k = "sev-" -> If(b > a + TolMono, V("SeverityOrder", "compute_global_trust", "severe-vs-plain"))
    [] OTHER -> <<>>
RelKind(cur, sn) == IF ~sn.ok THEN "none" ELSE Rel(cur, sn.S).k
RelFirst(cur, sn) == IF ~sn.ok THEN FALSE ELSE LET r == Rel(cur, sn.S) IN r.k \in {"ok+", "ok-"} /\ r.first

Compute ==
  /\ Ev.ev = "Compute"
  /\ LET e == Ev.e
         cur == S[e]
         dom == ToSet(Ev.dom)
         v == Ev.v
         cover == Known(cur) \cup cur.pre
         core == IF Ev.fb THEN dom \cap cover ELSE dom
         sum == SatSum(Ev.dom, v, core, 1, 0)
         allzero == \A n \in core : v[n] = 0
         kA == RelKind(cur, snap["A"])
         kB == RelKind(cur, snap["B"])
         vs == If(Ev.fb, V("ComputeCompletes", "compute_global_trust", "timeout-fallback-to-cache"))
               \o If(Ev.bad # <<>>, V("Finite", "compute_global_trust", "non-finite-score"))
               \o If(Ev.foreign > 0, V("Domain", "compute_global_trust", "foreign-identity"))
               \o If(Ev.fb /\ ~(dom \subseteq cover), V("Domain", "compute_global_trust", "fallback-stale-entries"))
               \o If(~DomainOK(core, cur, limbo[e]), V("Domain", "compute_global_trust", "known-nodes"))
               \o If(\E n \in core : v[n] < 0 \/ v[n] > PPB, V("Range", "compute_global_trust", "outside-unit-interval"))
               \o If(~allzero /\ Abs(sum - PPB) > TolSum, V("Sum", "compute_global_trust", "not-one-nor-all-zero"))
               \o RelViols(cur, core, v, snap["A"])
               \o RelViols(cur, core, v, snap["B"])
         hit(k) == (IF kA \in k THEN 1 ELSE 0) + (IF kB \in k THEN 1 ELSE 0) IN
     /\ AddViols(vs)
     /\ Q' = [Q EXCEPT ![e] = QCompute(@, dom, v)]
     /\ snap' = [snap EXCEPT ![e] = [ok |-> TRUE, S |-> cur, core |-> core, v |-> v]]
     /\ cnt' = [cnt EXCEPT !.compute = @ + 1, !.fallback = @ + (IF Ev.fb THEN 1 ELSE 0),
                           !.eq = @ + hit({"eq"}), !.ok = @ + hit({"ok+", "ok-"}),
                           !.fail = @ + hit({"fail+", "fail-"}), !.sev = @ + hit({"sev+", "sev-"}),
                           !.firstok = @ + (IF RelFirst(cur, snap["A"]) THEN 1 ELSE 0) + (IF RelFirst(cur, snap["B"]) THEN 1 ELSE 0)]
  /\ UNCHANGED <<S, limbo>>

Query ==
  /\ Ev.ev = "Query"
  /\ LET e == Ev.e
         n == Ev.n
         x == IF Ev.fin THEN Ev.x ELSE -1
         q == Q[e]
         strictOK == QueryOK(x, n, q, S[e], 0, PriorV, TRUE)
         cond == IF n \in DOMAIN q.ovr THEN "after-" \o q.ovr[n]
                 ELSE IF n \in DOMAIN q.last THEN "listed" ELSE "unlisted" IN
     /\ AddViols(If(~QueryOK(x, n, q, S[e], 0, PriorV, FALSE), V("QueryIsLast", Ev.via, cond)))
     /\ cnt' = [cnt EXCEPT !.query = @ + 1, !.orphanq = @ + (IF strictOK THEN 0 ELSE 1)]
  /\ UNCHANGED <<S, Q, limbo, snap>>

Panic == /\ Ev.ev = "Panic"
         /\ AddViols(<<V("NoPanic", Ev.at, "any")>>)
         /\ UNCHANGED <<S, Q, limbo, snap, cnt>>
Note == /\ Ev.ev = "Note" /\ UNCHANGED <<S, Q, limbo, snap, viol, vkeys, nviol, cnt>>

(* cumulative violation count at the start of every segment (used by the binding self-test) *)
Mark == marks' = IF Ev.ev = "Reset" THEN Append(marks, <<l, nviol>>) ELSE marks
Next == /\ l <= N /\ l' = l + 1 /\ Mark
        /\ (Reset \/ Local \/ Stat \/ AddPre \/ RemPre \/ RemoveEv \/ Compute \/ Query \/ Panic \/ Note)
Spec == Init /\ [][Next]_vars

Report == (l = N + 1) =>
  JsonSerialize(IOEnv.OUT, [consumed |-> l - 1, total |-> N, nviol |-> nviol, checked |-> cnt.compute + cnt.query,
                            cnt |-> cnt, viol |-> viol, marks |-> marks,
                            keys |-> [i \in 1..Len(SetToSeq(DOMAIN vkeys)) |-> [k |-> SetToSeq(DOMAIN vkeys)[i], n |-> vkeys[SetToSeq(DOMAIN vkeys)[i]]]]])
=============================================================================
