----------------------------- MODULE Rpc_apalache -----------------------------
(***************************************************************************)
(* Typed variant of Rpc.tla (table with sender binding, cancel cleanup in  *)
(* place) for Apalache: an INDUCTIVE invariant, so the C04 clauses hold for *)
(* histories of any length (ids, peers, values bounded).  Three queries:   *)
(*   Init => IndInv            (--init=Init   --inv=IndInv --length=0)     *)
(*   IndInv /\ Next => IndInv'  (--init=IndInv --inv=IndInv --length=1)     *)
(*   IndInv => Props           (--init=IndInv --inv=Props  --length=0)     *)
(* The function-with-dynamic-domain `pend` of Rpc.tla is split into the    *)
(* set `dom` and total functions, which Apalache handles directly.         *)
(***************************************************************************)
EXTENDS Naturals, FiniteSets

Ids == {1, 2, 3}
Peers == {10, 20}
Vals == {7, 8}
Cap == 2
Timed == 1000000

VARIABLES
  \* @type: Set(Int);
  dom,
  \* @type: Int -> Int;
  peer,
  \* @type: Int -> Int;
  slot,
  \* @type: Int -> Str;
  call,
  \* @type: Int -> Int;
  result,
  \* @type: Int -> Int;
  returns,
  \* @type: Int -> Int;
  fromId,
  \* @type: Int -> Int;
  fromPeer

Init == /\ dom = {} /\ peer = [i \in Ids |-> 0] /\ slot = [i \in Ids |-> 0]
        /\ call = [i \in Ids |-> "idle"] /\ result = [i \in Ids |-> 0] /\ returns = [i \in Ids |-> 0]
        /\ fromId = [i \in Ids |-> 0] /\ fromPeer = [i \in Ids |-> 0]

Send(i, p) == /\ call[i] = "idle"
              /\ IF Cardinality(dom) >= Cap
                 THEN /\ call' = [call EXCEPT ![i] = "refused"] /\ returns' = [returns EXCEPT ![i] = @ + 1]
                      /\ UNCHANGED <<dom, peer, slot, result, fromId, fromPeer>>
                 ELSE /\ dom' = dom \union {i} /\ peer' = [peer EXCEPT ![i] = p] /\ slot' = [slot EXCEPT ![i] = 0]
                      /\ call' = [call EXCEPT ![i] = "waiting"] /\ UNCHANGED <<result, returns, fromId, fromPeer>>
Deliver(j, s, v) ==
  /\ IF j \in dom /\ slot[j] = 0 /\ s = peer[j]
     THEN /\ slot' = [slot EXCEPT ![j] = v] /\ fromId' = [fromId EXCEPT ![j] = j] /\ fromPeer' = [fromPeer EXCEPT ![j] = s]
     ELSE UNCHANGED <<slot, fromId, fromPeer>>
  /\ UNCHANGED <<dom, peer, call, result, returns>>
ReturnReply(i) == /\ call[i] = "waiting" /\ i \in dom /\ slot[i] # 0
                  /\ result' = [result EXCEPT ![i] = slot[i]] /\ returns' = [returns EXCEPT ![i] = @ + 1]
                  /\ call' = [call EXCEPT ![i] = "returned"] /\ dom' = dom \ {i} /\ UNCHANGED <<peer, slot, fromId, fromPeer>>
Timeout(i) == /\ call[i] = "waiting" /\ i \in dom /\ slot[i] = 0
              /\ result' = [result EXCEPT ![i] = Timed] /\ returns' = [returns EXCEPT ![i] = @ + 1]
              /\ call' = [call EXCEPT ![i] = "returned"] /\ dom' = dom \ {i} /\ UNCHANGED <<peer, slot, fromId, fromPeer>>
Cancel(i) == /\ call[i] = "waiting" /\ call' = [call EXCEPT ![i] = "cancelled"] /\ dom' = dom \ {i}
             /\ UNCHANGED <<peer, slot, result, returns, fromId, fromPeer>>
Next == \/ \E i \in Ids, p \in Peers : Send(i, p)
        \/ \E j \in Ids, s \in Peers, v \in Vals : Deliver(j, s, v)
        \/ \E i \in Ids : ReturnReply(i) \/ Timeout(i) \/ Cancel(i)

TypeOK == /\ dom \in SUBSET Ids /\ peer \in [Ids -> Peers \union {0}] /\ slot \in [Ids -> Vals \union {0}]
          /\ call \in [Ids -> {"idle", "waiting", "returned", "cancelled", "refused"}]
          /\ result \in [Ids -> Vals \union {0, Timed}] /\ returns \in [Ids -> 0..1]
          /\ fromId \in [Ids -> Ids \union {0}] /\ fromPeer \in [Ids -> Peers \union {0}]
(* inductive invariant: the table holds exactly the waiting calls; filled slots come from the contacted peer with the own id *)
IndInv == /\ TypeOK
          /\ \A i \in Ids : (i \in dom) <=> (call[i] = "waiting")
          /\ Cardinality(dom) <= Cap
          /\ \A i \in Ids : (i \in dom /\ slot[i] # 0) => (fromId[i] = i /\ fromPeer[i] = peer[i])
          /\ \A i \in Ids : returns[i] = (IF call[i] \in {"returned", "refused"} THEN 1 ELSE 0)
          /\ \A i \in Ids : (result[i] \in Vals) => (fromId[i] = i /\ fromPeer[i] = peer[i] /\ call[i] = "returned")
          /\ \A i \in Ids : call[i] = "idle" => (slot[i] = 0 /\ result[i] = 0)
(* the C04 clauses of Rpc.tla *)
Props == /\ \A i \in Ids : (result[i] \in Vals) => (fromId[i] = i /\ fromPeer[i] = peer[i])      \* OnlyMatching + SenderBound
         /\ \A i \in Ids : returns[i] <= 1 /\ (call[i] \in {"returned", "refused"} => returns[i] = 1) \* ExactlyOnce
         /\ \A i \in Ids : (call[i] \in {"returned", "cancelled", "refused", "idle"}) => i \notin dom    \* NoResidue
         /\ Cardinality(dom) <= Cap                                                                    \* CapRespected
==============================================================================
