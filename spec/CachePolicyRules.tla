---------------------------- MODULE CachePolicyRules ----------------------------
(***************************************************************************)
(* Transition / verdict functions of the cache eviction strategies of      *)
(* src/adaptive/eviction.rs: trait EvictionStrategy (select_victim,        *)
(* on_access, on_insert, name) with LRUStrategy, LFUStrategy, FIFOStrategy *)
(* and AdaptiveStrategy, made by EvictionStrategyType::create.  Shared by  *)
(* the model (CachePolicy.tla) and the acceptor (Trace_CachePolicy.tla).   *)
(*                                                                         *)
(* A strategy state s is the bookkeeping of one strategy object:           *)
(*   kind   "LRU" | "LFU" | "FIFO" | "Adaptive"  (what name() answers)     *)
(*   order  LRU: access_order (front = least recent); FIFO: insertion_order*)
(*          (front = oldest); <<>> otherwise                               *)
(*   pos    LRU: position_map, a function key -> 0-based index             *)
(*   freq   LFU: frequency_map, a function key -> count (>= 1)             *)
(* Keys are positive integers, None == 0 is "no victim".  The cache        *)
(* content is NOT part of the strategy: the caller owns it and presents it *)
(* (the key set of `access_info`) with every select_victim.                *)
(*                                                                         *)
(* The trait has NO removal hook: QLearnCacheManager::update_statistics    *)
(* drops an evicted key from its own map and tells the strategy nothing.   *)
(* OnRemove is the hook of the intended design; as implemented it is the   *)
(* identity (AsImplemented_NoRemoveHook).                                  *)
(***************************************************************************)
EXTENDS Naturals, Integers, Sequences, FiniteSets, TLC

CONSTANTS AsImplemented_NoRemoveHook,     \* an eviction never reaches the strategy: entries of removed keys stay for ever
          AsImplemented_FifoDuplicates,   \* FIFOStrategy::on_insert pushes a key that is already queued once more
          AsImplemented_UnseenNone,       \* LRU / FIFO answer None for a non-empty cache none of whose keys they have seen
          Variant_LruNoReindex            \* WRONG on purpose: on_access does not renumber position_map after the removal

None == 0
KindNames == {"LRU", "LFU", "FIFO", "Adaptive"}

(* ---- helpers ---- *)
Elems(q) == {q[i] : i \in 1..Len(q)}
Upd(f, k, v) == [x \in DOMAIN f \cup {k} |-> IF x = k THEN v ELSE f[x]]          \* HashMap::insert
Drop(f, k) == [x \in DOMAIN f \ {k} |-> f[x]]                                     \* HashMap::remove
Without(q, k) == SelectSeq(q, LAMBDA x : x # k)
RemoveAt0(q, p) == IF p >= 0 /\ p < Len(q) THEN SubSeq(q, 1, p) \o SubSeq(q, p + 2, Len(q)) ELSE q   \* VecDeque::remove(p), 0-based
FirstIdx(q, x) == CHOOSE i \in 1..Len(q) : q[i] = x /\ \A j \in 1..(i - 1) : q[j] # x
(* the first element of q that is presented; None if there is none   (iter().find(|h| access_info.contains_key(h))) *)
FirstIn(q, P) == IF \E i \in 1..Len(q) : q[i] \in P
                 THEN q[CHOOSE i \in 1..Len(q) : q[i] \in P /\ \A j \in 1..(i - 1) : q[j] \notin P]
                 ELSE None
(* for (i, hash) in access_order.iter().enumerate().skip(p): position_map.insert(hash, i)   - later entries win *)
Reindex(pm, o, p) ==
  LET idx == {i \in 1..Len(o) : i > p}
      touched == {o[i] : i \in idx}
      lastIdx(x) == CHOOSE i \in idx : o[i] = x /\ \A j \in idx : o[j] = x => j <= i
  IN [x \in DOMAIN pm \cup touched |-> IF x \in touched THEN lastIdx(x) - 1 ELSE pm[x]]

New(kind) == [kind |-> kind, order |-> <<>>, pos |-> <<>>, freq |-> <<>>]           \* XStrategy::new() / default() / create()
Tracked(s) == Elems(s.order) \cup DOMAIN s.pos \cup DOMAIN s.freq                  \* every key the bookkeeping holds an entry for
F(s, k) == IF k \in DOMAIN s.freq THEN s.freq[k] ELSE 0                            \* frequency_map.get(k).unwrap_or(&0)

(* ---- LRUStrategy::on_access (on_insert is the same call) ---- *)
LruTouch(s, k) ==
  LET had == k \in DOMAIN s.pos
      p == IF had THEN s.pos[k] ELSE -1
      o1 == IF had THEN RemoveAt0(s.order, p) ELSE s.order
      pm1 == IF had /\ ~Variant_LruNoReindex THEN Reindex(s.pos, o1, p) ELSE s.pos
      o2 == Append(o1, k)
  IN [s EXCEPT !.order = o2, !.pos = Upd(pm1, k, Len(o2) - 1)]

(* ---- on_access ---- *)
OnAccess(s, k) ==
  [s |-> CASE s.kind = "LRU" -> LruTouch(s, k)
           [] s.kind = "LFU" -> [s EXCEPT !.freq = Upd(s.freq, k, F(s, k) + 1)]      \* *entry(k).or_insert(0) += 1
           [] OTHER -> s,                                                             \* FIFO, Adaptive: nothing
   ok |-> TRUE]

(* ---- on_insert ---- *)
OnInsert(s, k) ==
  [s |-> CASE s.kind = "LRU" -> LruTouch(s, k)
           [] s.kind = "LFU" -> [s EXCEPT !.freq = Upd(s.freq, k, 1)]                 \* the count restarts
           [] s.kind = "FIFO" -> IF ~AsImplemented_FifoDuplicates /\ k \in Elems(s.order) THEN s
                                 ELSE [s EXCEPT !.order = Append(s.order, k)]         \* push_back, present or not
           [] OTHER -> s,
   ok |-> TRUE]

(* ---- removal of a key from the cache (intended: the strategy forgets it; implemented: there is no such call) ---- *)
Forget(s, k) ==
  CASE s.kind = "LRU" -> LET o == Without(s.order, k)
                         IN [s EXCEPT !.order = o, !.pos = [x \in Elems(o) |-> FirstIdx(o, x) - 1]]
    [] s.kind = "LFU" -> [s EXCEPT !.freq = Drop(s.freq, k)]
    [] s.kind = "FIFO" -> [s EXCEPT !.order = Without(s.order, k)]
    [] OTHER -> s
OnRemove(s, k) == [s |-> IF AsImplemented_NoRemoveHook THEN s ELSE Forget(s, k), ok |-> TRUE]

(* ---- select_victim ---- *)
(* The answers allowed for the presented key set P, whatever the iteration order of the caller's map.               *)
(* LRU / FIFO: the first bookkeeping entry that is presented.  LFU: a presented key of minimal count, a key the     *)
(* strategy has no count for counting 0.  Adaptive: a heuristic over the caller's AccessInfo and the wall clock -   *)
(* modelled as any presented key.                                                                                   *)
Victims(s, P) ==
  CASE s.kind \in {"LRU", "FIFO"} -> LET v == FirstIn(s.order, P)
                                     IN IF v # None \/ P = {} \/ AsImplemented_UnseenNone THEN {v} ELSE P
    [] s.kind = "LFU" -> IF P = {} THEN {None} ELSE {k \in P : \A j \in P : F(s, k) <= F(s, j)}
    [] OTHER -> IF P = {} THEN {None} ELSE P
(* The same with the iteration order `pres` of the presented map known (a sequence without repetitions): LFU is     *)
(* access_info.keys().min_by_key(count) - Iterator::min_by_key returns the FIRST minimal element, so ties are       *)
(* broken by the iteration order of the caller's HashMap (arbitrary, but visible to the caller).                    *)
VictimsSeq(s, pres) ==
  IF s.kind = "LFU" /\ pres # <<>>
  THEN {pres[CHOOSE i \in 1..Len(pres) : /\ \A j \in 1..Len(pres) : F(s, pres[i]) <= F(s, pres[j])
                                         /\ \A j \in 1..(i - 1) : F(s, pres[j]) > F(s, pres[i])]}
  ELSE Victims(s, Elems(pres))
=============================================================================
