------------------------------- MODULE Resource -------------------------------
(***************************************************************************)
(* ResourceManager of src/production.rs: connection permits and guards,    *)
(* queued acquires, per-peer rate limiting, the bandwidth window, the      *)
(* metrics snapshot, start / shutdown and the background tasks.            *)
(* Specification growth (not one of the listed properties).                *)
(*                                                                         *)
(* One clock: a tick is one second of real time and one unit of tokio      *)
(* time; Unit = 1 token, TPS = 1.  The step function After / CollectOptions*)
(* of ResourceRules.tla is shared with the acceptor Trace_Resource.tla.    *)
(*                                                                         *)
(* MC_Resource.cfg states the intended design (all AsImplemented_* FALSE). *)
(* Each AsImplemented_* flag, switched on alone, breaks one named          *)
(* invariant; Variant_DoubleRelease shows PermitConservation is not vacuous*)
(***************************************************************************)
EXTENDS ResourceRules, TLC

CONSTANTS Peers, OpsM, MaxConn, LimDht, LimMcp, BurstC, IvM, IvH, IvC, ShutTo, AcqTo,
          MaxTime, MaxOps, MaxIds, MaxTasks, RecBytes, Advances

ASSUME BurstC >= 1 /\ LimDht >= 1 /\ LimMcp >= 1 /\ Expire * Lo(LimDht, LimMcp) >= BurstC /\ RecBytes * TPS >= MaxTime + AcqTo

Cfg == [max |-> MaxConn, dht |-> LimDht, mcp |-> LimMcp, message |-> LimMcp, burst |-> BurstC, ivM |-> IvM, ivH |-> IvH,
        ivC |-> IvC, track |-> TRUE, cleanup |-> TRUE, shutTo |-> ShutTo, acqTo |-> AcqTo, maxMem |-> 1]

VARIABLES st,        \* the manager (ResourceRules state record)
          nextId,    \* next guard / waiter id
          adm,       \* history: admitted check_rate_limit calls per (peer, operation)
          used,      \* history: (peer, operation) pairs that have been checked
          denFirst,  \* history: a first check of a pair was denied
          missed,    \* history: a collection reported 0 although bytes were recorded in a window of positive length
          last,      \* the step just taken: [op, p, o, ok, settled]
          nops
vars == <<st, nextId, adm, used, denFirst, missed, last, nops>>

Pairs == Peers \X OpsM
Init == /\ st = New(Cfg, 0, 0) /\ nextId = 1 /\ adm = [x \in Pairs |-> 0] /\ used = {} /\ denFirst = FALSE /\ missed = FALSE
        /\ last = [op |-> "init", p |-> 0, o |-> "", ok |-> 1, settled |-> TRUE] /\ nops = 0

Ev(op, k, p, o, n, d, settle, ok) == [op |-> op, k |-> k, p |-> p, o |-> o, n |-> n, d |-> d, settle |-> settle,
                                      t0 |-> st.now, t1 |-> st.now, ok |-> ok]
(* one step with event e: the shared step function, then the (unique, the clock is exact) collection outcome *)
Do(e) ==
  LET r == After(st, e) IN
  /\ nops' = nops + 1
  /\ IF r.coll
     THEN \E opt \in CollectOptions(r.s, r.s.now, r.s.now) :
            /\ st' = ApplyCollect(r.s, opt, opt.lo, r.s.now, r.s.now, r.cavail)
            /\ missed' = (missed \/ (r.s.bytes > 0 /\ r.s.now > r.s.rLo /\ opt.lo = 0))
     ELSE st' = r.s /\ UNCHANGED missed
  /\ last' = [op |-> e.op, p |-> e.p, o |-> e.o, ok |-> r.ok, settled |-> e.settle \/ r.s.now > st.now]
  /\ nextId' = IF (e.op = "acquire" /\ r.ok = 1) \/ (e.op = "acquirebg" /\ r.ok # 0) THEN nextId + 1 ELSE nextId
  /\ IF e.op = "check"
     THEN /\ adm' = [adm EXCEPT ![<<e.p, e.o>>] = @ + r.ok]
          /\ used' = used \cup {<<e.p, e.o>>}
          /\ denFirst' = (denFirst \/ (<<e.p, e.o>> \notin used /\ r.ok = 0))
     ELSE UNCHANGED <<adm, used, denFirst>>

Next ==
  /\ nops < MaxOps
  /\ \/ (nextId <= MaxIds /\ Do(Ev("acquire", nextId, 0, "", 0, 0, TRUE, 1)))
     \/ (nextId <= MaxIds /\ Do(Ev("acquirebg", nextId, 0, "", 0, 0, TRUE, 1)))
     \/ \E k \in st.guards : Do(Ev("drop", k, 0, "", 0, 0, TRUE, 1))
     \/ \E k \in SeqSet(st.waiters) : Do(Ev("abort", k, 0, "", 0, 0, TRUE, 1))
     \/ \E p \in Peers, o \in OpsM : \E ok \in CheckOutcomes(st, p, o, st.now, st.now) : Do(Ev("check", 0, p, o, 0, 0, TRUE, ok))
     \/ (st.bytes = 0 /\ Do(Ev("record", 0, 0, "", RecBytes, 0, TRUE, 1)))
     \/ \E d \in Advances : st.now + d <= MaxTime /\ Do(Ev("advance", 0, 0, "", 0, d, TRUE, 1))
     \/ Do(Ev("health", 0, 0, "", 0, 0, TRUE, 1))
     \/ \E b \in BOOLEAN : Len(st.tasks) + 3 <= MaxTasks /\ Do(Ev("start", 0, 0, "", 0, 0, b, 1))
     \/ \E b \in BOOLEAN : st.nshut < 2 /\ st.now + ShutTo <= MaxTime /\ Do(Ev("shutdown", 0, 0, "", 0, 0, b, 1))
Spec == Init /\ [][Next]_vars

(* ---- the design ---- *)
(* every permit is either available or held by exactly one live guard: no leak, no double release *)
PermitConservation == st.avail >= 0 /\ st.avail + Cardinality(st.guards) = st.cfg.max
ConnBound == Cardinality(st.guards) <= st.cfg.max /\ st.mConn <= st.cfg.max
WaitersOnlyWhenFull == st.waiters # <<>> => st.avail = 0
(* no connection is admitted once shutdown has begun *)
NoLateAdmission == st.late = 0
(* per (peer, operation): at most burst + limit * elapsed admissions *)
LimitOfOp(o) == IF o = "dht" THEN LimDht ELSE LimMcp
RateBound == \A x \in Pairs : adm[x] <= BurstC + LimitOfOp(x[2]) * st.now
(* pairs do not share budget: the first call of a pair is admitted *)
FreshPairAdmitted == ~denFirst
(* traffic that was recorded shows up in the next snapshot *)
TrafficIsReported == ~missed
(* once shutdown has been called and the runtime has run, no task started before it is alive *)
NoTaskSurvivesShutdown == last.settled => \A i \in 1..Len(st.tasks) : st.tasks[i].born = st.nshut
(* health_check can only fail on memory, and nothing writes memory_used *)
HealthAlwaysOk == last.op = "health" => last.ok = 1
(* a denied call takes nothing from the budget *)
DeniedKeepsBudget ==
  [][(last'.op = "check" /\ last'.ok = 0 /\ KeyOf(last'.p, last'.o) \in DOMAIN st.buckets)
       => st'.buckets[KeyOf(last'.p, last'.o)].lo = Refilled(st.buckets[KeyOf(last'.p, last'.o)], st.now, st.now).lo]_vars
(* non-vacuity witnesses (each must be violated) *)
Vac_NeverPending == last.ok # 2
Vac_NeverDenied == ~(last.op = "check" /\ last.ok = 0)
=============================================================================
