---------------------------- MODULE Trace_Scheduler ----------------------------
(***************************************************************************)
(* Conformance acceptor for MaintenanceScheduler (harness module sched).   *)
(* The model keeps, per task, the band [lastLo, lastHi] in which its last  *)
(* run was recorded (real time, microseconds), its interval, running flag  *)
(* and counters.  A due-answer is accepted iff, for every task, it is the  *)
(* answer of SchedulerRules!Due for SOME instant of the call's band and    *)
(* SOME instant of the last-run band.  Mismatches = MODEL-DRIFT.           *)
(***************************************************************************)
EXTENDS SchedulerRules, Integers, TLC, Json, IOUtils

Recs == ndJsonDeserialize(IOEnv.TRACE)
N == Len(Recs)
VARIABLES l, task, active, drift, ndrift, n
tvars == <<l, task, active, drift, ndrift, n>>
Ev == Recs[l]
Drift(what) == /\ ndrift' = ndrift + 1
               /\ drift' = IF Len(drift) < 20 THEN Append(drift, [line |-> l, what |-> what]) ELSE drift
NoDrift == UNCHANGED <<drift, ndrift>>
Tasks == DOMAIN task

(* may / must be due, given the bands *)
MayBeDue(x) == active /\ ~task[x].running /\ Ev.t1 - task[x].lastLo >= task[x].interval
MustBeDue(x) == active /\ ~task[x].running /\ Ev.t0 - task[x].lastHi >= task[x].interval
DueSet == {Ev.due[i] : i \in 1..Len(Ev.due)}

Init == l = 1 /\ task = <<>> /\ active = FALSE /\ drift = <<>> /\ ndrift = 0 /\ n = 0
Reset == /\ Ev.ev = "Reset"
         /\ task' = [x \in 1..Ev.ntasks |-> [lastLo |-> Ev.t0, lastHi |-> Ev.t1, interval |-> 0, running |-> FALSE, runs |-> 0, fails |-> 0]]
         /\ active' = FALSE /\ NoDrift /\ UNCHANGED n
SetInterval == Ev.ev = "SetInterval" /\ task' = [task EXCEPT ![Ev.task].interval = Ev.interval] /\ NoDrift /\ UNCHANGED <<active, n>>
StartE == Ev.ev = "Start" /\ active' = TRUE /\ NoDrift /\ UNCHANGED <<task, n>>
StopE == Ev.ev = "Stop" /\ active' = FALSE /\ NoDrift /\ UNCHANGED <<task, n>>
DueE == /\ Ev.ev = "Due" /\ n' = n + 1
        /\ IF Ev.active # active THEN Drift("active")
           ELSE IF \E x \in Tasks : (x \in DueSet /\ ~MayBeDue(x)) \/ (x \notin DueSet /\ MustBeDue(x)) THEN Drift("due")
           ELSE NoDrift
        /\ UNCHANGED <<task, active>>
StartedE == Ev.ev = "Started" /\ task' = [task EXCEPT ![Ev.task].running = TRUE] /\ NoDrift /\ UNCHANGED <<active, n>>
CompletedE == /\ Ev.ev = "Completed"
              /\ task' = [task EXCEPT ![Ev.task].running = FALSE, ![Ev.task].lastLo = Ev.t0, ![Ev.task].lastHi = Ev.t1, ![Ev.task].runs = @ + 1]
              /\ NoDrift /\ UNCHANGED <<active, n>>
FailedE == /\ Ev.ev = "Failed"
           /\ task' = [task EXCEPT ![Ev.task].running = FALSE, ![Ev.task].lastLo = Ev.t0, ![Ev.task].lastHi = Ev.t1, ![Ev.task].fails = @ + 1]
           /\ NoDrift /\ UNCHANGED <<active, n>>
StatsE == /\ Ev.ev = "Stats" /\ n' = n + 1
          /\ IF \E i \in 1..Len(Ev.stats) : LET s == Ev.stats[i] IN
                   s[2] # task[s[1]].runs \/ s[3] # task[s[1]].fails \/ s[4] # task[s[1]].running
             THEN Drift("stats") ELSE NoDrift
          /\ UNCHANGED <<task, active>>
Next == l <= N /\ l' = l + 1 /\ (Reset \/ SetInterval \/ StartE \/ StopE \/ DueE \/ StartedE \/ CompletedE \/ FailedE \/ StatsE)
Spec == Init /\ [][Next]_tvars
Report == (l = N + 1) => JsonSerialize(IOEnv.OUT, [consumed |-> l - 1, total |-> N, nviol |-> ndrift, checked |-> n, viol |-> drift])
=============================================================================
