SPECIFICATION Spec
CONSTANTS
  Node = {1, 2}
  Ids = {1, 2}
  Ops = {"FindNode", "Put"}
  AsImplemented_AnswerTwice = TRUE
INVARIANTS AtMostOneResponse ResponsesAnswerRequests
CHECK_DEADLOCK FALSE
