SPECIFICATION Spec
CONSTANTS
  Stale = 3600000
  Cleanup = 7200000
  AsImplemented_DoubleDisconnectEvent = TRUE
INVARIANT Report
CHECK_DEADLOCK FALSE
