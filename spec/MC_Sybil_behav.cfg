\* intended design, behaviour profiles: 3 peers without addresses, responses (latency 0/3, size 0/4, history of 2), claimed / measured bandwidth, 4 operations
SPECIFICATION Spec
CONSTANTS
  MaxHistory = 2
  Peers = {p1, p2, p3}
  PfxA = {p1}
  NSub = 2
  BThr = 2
  Win = 1
  PThr = 3
  SimPm = 750
  AsymThrPm = 2000
  Age = 2
  AgeIsMax = FALSE
  MinObs = 1
  MaxT = 0
  MaxOps = 4
  OpSet = {"joinnoip", "leave", "respond", "claim", "measure", "analyze", "clear"}
  Lats = {0, 3}
  Sizes = {0, 4}
  Claims = {5}
  Measures = {0, 2}
  AsImplemented_BurstCountsRepeats = FALSE
  AsImplemented_BurstNotAged = FALSE
  AsImplemented_DepartedKeepTriggering = FALSE
  AsImplemented_EvidenceAccumulates = FALSE
  AsImplemented_NoGroupMerge = FALSE
  AsImplemented_OverallCountsMemberships = FALSE
  AsImplemented_ZeroAverageNaN = FALSE
  AsImplemented_HugeAgePanics = FALSE
  Variant_StrictThreshold = FALSE
SYMMETRY Sym
INVARIANTS TypeOK BurstExact JoinsOrdered BurstDistinctPeers PrefixExact PrefixNamesSharers EvidenceNamesPresentOnly
           IdenticalHistoriesSimilar SimilarityBounded AsymSound AnalysisIdempotent GroupsDisjoint AnalyzeCovers GroupsOnlyByAnalysis
           SuspectedIffMember RiskMonotoneUntilClear OverallIsSuspectedFraction GroupCountBounded ClearEmpties CleanupOnlyOld
           RecordsAreHistory RecordsWithinWindow NoPanic
CHECK_DEADLOCK FALSE
