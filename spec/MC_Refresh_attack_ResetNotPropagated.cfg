\* as implemented, attack-mode operations only: after a reset the stale failure snapshot keeps check_deescalation from leaving attack mode; must violate DeescalationEffective (thorough tier)
SPECIFICATION Spec
CONSTANTS
  Buckets = {0}
  Nodes = {1, 2}
  Counts = {0, 3}
  BatchClasses = {"none", "good", "oneregion", "collude"}
  MaxBatch = 2
  MaxAge = 5
  MaxCnt = 4
  MaxTracked = 2
  MaxOps = 6
  Thr = 1
  IvCritical = 1
  IvImportant = 2
  IvStandard = 3
  IvBackground = 4
  FailTrigger = 2
  TrigNum = 1
  TrigDen = 2
  DeescFailMax = 1
  DeescNum = 1
  DeescDen = 2
  IndFailTrigger = 1
  MaxBuckets = 256
  AsImplemented_MarkLostIfAbsent = FALSE
  AsImplemented_TierIgnoresCount = FALSE
  AsImplemented_TrackDuplicates = FALSE
  AsImplemented_ResetNotPropagated = TRUE
  Variant_RecentBeatsClose = FALSE
  Ops = {"vpass", "vfail", "vresult", "validate", "advance", "reset", "deesc"}
CONSTRAINT Bounded
INVARIANTS TypeOK DeescalationEffective
PROPERTIES CountersGrow
CHECK_DEADLOCK FALSE
