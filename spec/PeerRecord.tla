----------------------------- MODULE PeerRecord -----------------------------
(***************************************************************************)
(* Peer records and the signature-verdict cache of saorsa-core             *)
(* (src/peer_record.rs: PeerDHTRecord::{create_signable_message, sign,     *)
(* verify_signature, content_hash}, SignatureCache::verify_cached).        *)
(*                                                                         *)
(* P-level: `signed` (what owners really signed) and the rule Ideal of     *)
(*          PeerRecordRules.                                               *)
(* I-level: verify_signature as a predicate on the record; the cache as a  *)
(*          bounded partial map from cache key to verdict; when full ANY   *)
(*          entry may be evicted (the property must hold for every         *)
(*          eviction order, HashMap order in the code).                    *)
(*                                                                         *)
(* Field tokens are 0/1; the record universe is every body that differs    *)
(* from the all-zero base body in at most MaxDiff fields.  Key tokens are  *)
(* 0/1 and the user id derived from key k is the token k.                  *)
(*                                                                         *)
(* Deviations of the pinned tree:                                          *)
(*   AsImplemented_CacheKey   cache key = (uid, seq, ts) only              *)
(*   AsImplemented_UidUnbound verify_signature never compares the user id  *)
(*                            with the one derived from the embedded key   *)
(***************************************************************************)
EXTENDS Integers, Sequences, FiniteSets, TLC, PeerRecordRules

CONSTANTS MaxDiff, MaxSign, MaxPresent, MaxCap,
          AsImplemented_CacheKey, AsImplemented_UidUnbound

F == {"uid", "pk", "seq", "name", "eps", "ts", "ttl"}
Weight(b) == Cardinality({f \in F : b[f] = 1})
Body == {b \in [F -> {0, 1}] : Weight(b) <= MaxDiff}
Derived == [k \in {0, 1} |-> k]

VARIABLES signed,   \* set of [body, sig]; sig tokens 1..nsig are genuine signatures, 0 is a non-signature
          nsig, cap, cache, npres,
          last      \* [ideal, direct, cached] of the latest presentation (observation only)
vars == <<signed, nsig, cap, cache, npres, last>>

None == [ideal |-> FALSE, direct |-> FALSE, cached |-> FALSE]

Init == /\ signed = {} /\ nsig = 0 /\ cache = {} /\ npres = 0 /\ last = None
        /\ cap \in 1..MaxCap

(* an owner (honest or not) signs any body carrying his own key *)
Sign(b) == /\ nsig < MaxSign
           /\ nsig' = nsig + 1
           /\ signed' = signed \cup {[body |-> b, sig |-> nsig + 1]}
           /\ UNCHANGED <<cap, cache, npres, last>>

(* ---- PeerDHTRecord::verify_signature ---- *)
Direct(b, s) == /\ SignedExactly(signed, b, s)                      \* ML-DSA verify over the signable bytes (every field)
                /\ (AsImplemented_UidUnbound \/ UidBound(Derived, b))

(* ---- PeerDHTRecord::content_hash ---- *)
KeyOf(b, s) == IF AsImplemented_CacheKey THEN <<b.uid, b.seq, b.ts>> ELSE <<b, s>>

Keys == {e.key : e \in cache}
(* ---- SignatureCache::verify_cached ---- *)
Present(b, s) ==
  /\ s <= nsig
  /\ npres < MaxPresent /\ npres' = npres + 1
  /\ LET k == KeyOf(b, s)
         d == Direct(b, s)
         i == Ideal(signed, Derived, b, s) IN
     IF k \in Keys
     THEN /\ last' = [ideal |-> i, direct |-> d, cached |-> (CHOOSE e \in cache : e.key = k).ok]
          /\ cache' = cache
     ELSE /\ last' = [ideal |-> i, direct |-> d, cached |-> d]
          /\ IF Cardinality(cache) >= cap
             THEN \E victim \in cache : cache' = (cache \ {victim}) \cup {[key |-> k, ok |-> d]}
             ELSE cache' = cache \cup {[key |-> k, ok |-> d]}
  /\ UNCHANGED <<signed, nsig, cap>>

Clear == cache # {} /\ cache' = {} /\ UNCHANGED <<signed, nsig, cap, npres, last>>

Next == \/ \E b \in Body : Sign(b)
        \/ \E b \in Body, s \in 0..MaxSign : Present(b, s)
        \/ Clear
Spec == Init /\ [][Next]_vars

(* ---- properties ---- *)
TypeOK == /\ nsig \in 0..MaxSign /\ cap \in 1..MaxCap /\ npres \in 0..MaxPresent
          /\ Cardinality(cache) <= cap
          /\ \A e1, e2 \in cache : e1.key = e2.key => e1 = e2
DirectIff == last.direct = last.ideal
CacheTransparent == last.cached = last.direct
=============================================================================
