SPECIFICATION RSpec
CONSTANTS
  B = 5
  Cap = 8
  Self = 13
  MaxOps = 12
  NMax = 8
  AsImplemented_BucketWalk = FALSE
  AsImplemented_DupAdd = FALSE
INVARIANT Emit
CHECK_DEADLOCK FALSE
