SPECIFICATION Spec
CONSTANTS
  ConfGrid = {TRUE, FALSE}
  TrustGrid = {9999, 300, 900}
  RegionGrid = {1, 2}
  LatGrid = {0, 5000, 20000}
  MaxW = 3
  Honest = 0
  MinPeers = 2
  TwNum = 700
  TwDen = 1000
  BftNum = 710
  BftDen = 1000
  MinTrust = 300
  MinRegions = 2
  Cands = {9999, 100, 300}
  Modes = {TRUE, FALSE}
  Variant = ""
INVARIANTS NeverUnanimousPremise
CHECK_DEADLOCK FALSE
