\* thorough tier: RollbackManager, intended design, one more operation and two install paths
SPECIFICATION SpecB
CONSTANTS
  Vers = {1, 2}
  Toks = {1, 2}
  NPaths = 2
  MaxBs = {1, 2}
  MaxAgeB = 1
  MaxAgeS = 1
  MaxOps = 6
  MaxTicks = 2
  AsImplemented_TieKeepsOlder = FALSE
  AsImplemented_SharedBackupFile = FALSE
  AsImplemented_CleanupNeedsDir = FALSE
  AsImplemented_RollbackToVersionNeedsDir = FALSE
  AsImplemented_GetStagedUnverified = FALSE
  AsImplemented_SweepIgnoresMetadata = FALSE
  Variant_RollbackUnverified = FALSE
INVARIANTS TypeOKB FileKeysUnique RollbackRestoresRecorded RollbackTouchesNothingElse BackupRollbackIdentity
  CreatedBackupIsLatest ListedBackupsExist NoOrphanFiles AtMostMaxBackups NothingTooOldAfterCleanup CleanupKeepsNewest
  CleanupAllLeavesNothingB CleanupFailsOnlyOnBadMetadata RestoreFailsOnlyOnBadBackup CanRollbackIsAPromise FailureIsHarmless
CHECK_DEADLOCK FALSE
