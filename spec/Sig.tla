-------------------------------- MODULE Sig --------------------------------
(***************************************************************************)
(* Ideal signature functionality with the identity life cycle of           *)
(* saorsa-core and the verdict functions of its verification entry points  *)
(* (quantum_crypto::ml_dsa_sign/verify, NodeIdentity::{generate, import,   *)
(* from_seed}, HierarchicalKeyDerivation::derive_key, auth::{Single,       *)
(* Delegated, Threshold}WriteAuth::verify).                                *)
(*                                                                         *)
(* An identity holds a public key token pub[i] and the secret half of key  *)
(* pair sec[i]; for a well-formed identity sec[i] = pub[i].  Sign(i, m)    *)
(* yields a fresh signature token that is valid under key sec[i] only.     *)
(* Tamper makes a new object token that nobody ever signed / that is       *)
(* nobody's key.                                                           *)
(*                                                                         *)
(* AsImplemented_SeedHalvesIndependent : from_seed / derive_key expand the *)
(*     public and the secret bytes independently (sec[i] # pub[i]).        *)
(* AsImplemented_ThresholdCountsOnly   : ThresholdWriteAuth::verify counts *)
(*     the signatures without verifying any.                               *)
(***************************************************************************)
EXTENDS Integers, Sequences, FiniteSets, TLC, SigRules

CONSTANTS MaxId, Msgs, MaxSig,
          AsImplemented_SeedHalvesIndependent, AsImplemented_ThresholdCountsOnly

Origins == {"generated", "imported", "seed", "path"}
VARIABLES nid, origin, pub, sec, signed, nsig, last
vars == <<nid, origin, pub, sec, signed, nsig, last>>
(* key tokens 1..MaxId are real key pairs, 100+k are tampered / foreign keys; signature tokens 1..nsig are
   genuine, 200+k tampered; message tokens Msgs are genuine, 300+m the tampered copy of m *)
Ids == 1..nid
Init == /\ nid = 0 /\ origin = <<>> /\ pub = <<>> /\ sec = <<>> /\ signed = {} /\ nsig = 0
        /\ last = [kind |-> "none", got |-> FALSE, want |-> FALSE]

Create(o) ==
  /\ nid < MaxId /\ o \in {"generated", "seed", "path"}
  /\ nid' = nid + 1
  /\ origin' = Append(origin, o)
  /\ pub' = Append(pub, nid + 1)
  /\ sec' = Append(sec, IF o \in {"seed", "path"} /\ AsImplemented_SeedHalvesIndependent THEN 50 + nid + 1 ELSE nid + 1)
  /\ UNCHANGED <<signed, nsig, last>>

(* export + import: both halves are copied *)
Import(i) ==
  /\ nid < MaxId /\ i \in Ids
  /\ nid' = nid + 1 /\ origin' = Append(origin, "imported")
  /\ pub' = Append(pub, pub[i]) /\ sec' = Append(sec, sec[i])
  /\ UNCHANGED <<signed, nsig, last>>

Sign(i, m) ==
  /\ nsig < MaxSig /\ i \in Ids
  /\ nsig' = nsig + 1
  /\ signed' = signed \cup {[pk |-> sec[i], msg |-> m, sig |-> nsig + 1, by |-> i]}
  /\ UNCHANGED <<nid, origin, pub, sec, last>>

Triples == {[pk |-> x.pk, msg |-> x.msg, sig |-> x.sig] : x \in signed}
KeyToks == (1..MaxId) \cup {100}        \* keys of identities not created yet are nobody's keys
MsgToks == Msgs \cup {300 + m : m \in Msgs}
SigToks == (1..MaxSig) \cup {200}

(* ---- the entry points (I-level verdict functions) ---- *)
RawVerify(pk, m, s) == Valid(Triples, pk, m, s)                 \* ML-DSA verify
ThresholdImpl(t, keys, m, sigs) ==
  IF AsImplemented_ThresholdCountsOnly THEN Len(sigs) >= t /\ Len(sigs) <= Cardinality(keys)
  ELSE ThresholdOk(Triples, t, keys, m, sigs)

(* one verification call; the observation is compared with the P-level rule *)
CheckRaw(pk, m, s) ==
  /\ last' = [kind |-> "raw", got |-> RawVerify(pk, m, s), want |-> Valid(Triples, pk, m, s)]
  /\ UNCHANGED <<nid, origin, pub, sec, signed, nsig>>
(* the signature an identity made, verified under that identity's own public key *)
CheckOwn(i, m, s) ==
  /\ \E x \in signed : x.by = i /\ x.msg = m /\ x.sig = s
  /\ LET x == CHOOSE y \in signed : y.by = i /\ y.msg = m /\ y.sig = s IN
     last' = [kind |-> "own", got |-> RawVerify(pub[x.by], x.msg, x.sig), want |-> TRUE]
  /\ UNCHANGED <<nid, origin, pub, sec, signed, nsig>>
CheckThreshold(t, keys, m, sigs) ==
  /\ last' = [kind |-> "threshold", got |-> ThresholdImpl(t, keys, m, sigs), want |-> ThresholdOk(Triples, t, keys, m, sigs)]
  /\ UNCHANGED <<nid, origin, pub, sec, signed, nsig>>
CheckDelegated(keys, m, sigs) ==
  /\ last' = [kind |-> "delegated", got |-> (Len(sigs) >= 1 /\ \E k \in keys : RawVerify(k, m, sigs[1])),
              want |-> DelegatedOk(Triples, keys, m, sigs)]
  /\ UNCHANGED <<nid, origin, pub, sec, signed, nsig>>

SigSeqs == {<<>>} \cup {<<a>> : a \in SigToks} \cup {<<a, b>> : a, b \in SigToks}
Next == \/ \E o \in Origins : Create(o)
        \/ \E i \in 1..MaxId : Import(i)
        \/ \E i \in 1..MaxId, m \in Msgs : Sign(i, m)
        \/ \E pk \in KeyToks, m \in MsgToks, s \in SigToks : CheckRaw(pk, m, s)
        \/ \E i \in 1..MaxId, m \in Msgs, s \in 1..MaxSig : CheckOwn(i, m, s)
        \/ \E t \in 1..2, keys \in (SUBSET KeyToks) \ {{}}, m \in MsgToks, sigs \in SigSeqs : CheckThreshold(t, keys, m, sigs)
        \/ \E keys \in (SUBSET KeyToks) \ {{}}, m \in MsgToks, sigs \in SigSeqs : CheckDelegated(keys, m, sigs)
Spec == Init /\ [][Next]_vars

(* ---- properties ---- *)
VerifyIff == last.kind \in {"raw", "delegated"} => last.got = last.want
OwnSignatureVerifies == last.kind = "own" => last.got = last.want
ThresholdIff == last.kind = "threshold" => last.got = last.want
(* a signature is valid under at most one key and for one message (consistency of the functionality) *)
Unforgeable == \A x, y \in signed : x.sig = y.sig => x = y
=============================================================================
