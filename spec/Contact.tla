------------------------------- MODULE Contact -------------------------------
(***************************************************************************)
(* State machine of one bootstrap ContactEntry (src/bootstrap/contact.rs)  *)
(* under every public operation, with the design-level invariants of the   *)
(* bookkeeping and of the quality score.  The transition functions live in *)
(* ContactRules.tla and are shared with Trace_Contact.tla, which checks    *)
(* every observed (pre, op, post) of the real object against them.         *)
(* Growth module (not one of the listed properties).                       *)
(*                                                                         *)
(* g is a ghost: per QUIC connection type the successes / failures         *)
(* reported since the QUIC info was (re)placed.                            *)
(***************************************************************************)
EXTENDS ContactRules

CONSTANTS MaxOps, Lats, Errs, CapSets, RepArgs, Ages, MaxAges, Csrs, Types, Setups, Factors, Sessions

VARIABLES c, g, nops
vars == <<c, g, nops>>
G0 == [qs |-> [t \in Types |-> 0], qf |-> [t \in Types |-> 0]]
Init == c \in {NewEntry(FALSE, 0)} \cup {NewEntry(TRUE, x) : x \in Csrs} /\ g = G0 /\ nops = 0
Do(r) == c' = r.s /\ g' = g
Next == /\ nops < MaxOps /\ nops' = nops + 1
        /\ \/ \E l \in Lats \cup {-1} : Do(ConnResult(c, TRUE, l, 0))
           \/ \E e \in Errs \cup {0} : Do(ConnResult(c, FALSE, -1, e))
           \/ Do(UpdateRateOp(c)) \/ Do(RecalcOp(c)) \/ Do(MarkVerified(c))
           \/ \E S \in CapSets : Do(UpdateCaps(c, S))
           \/ \E x \in RepArgs : Do(UpdateRep(c, x))
           \/ \E a \in Ages : Do(SetAge(c, a))
           \/ \E f \in Factors : Do(Decay(c, f[1], f[2]))
           \/ \E d \in Sessions : Do(AddSession(c, d))
           \/ \E x \in Csrs : c' = QuicSet(c, x).s /\ g' = G0
           \/ \E t \in Types, ok \in BOOLEAN, su \in Setups \cup {-1} :
                /\ ok \/ su = -1
                /\ c' = QuicConn(c, t, ok, su).s
                /\ g' = IF ~c.quic THEN g ELSE IF ok THEN [g EXCEPT !.qs[t] = @ + 1] ELSE [g EXCEPT !.qf[t] = @ + 1]
Spec == Init /\ [][Next]_vars

(* ---- bookkeeping ---- *)
CountersAddUp == c.succ + c.fail = c.att
RateConsistent == IF c.att = 0 THEN c.rate = 0 ELSE RateMatches(c.rate, c.succ, c.att) /\ c.rate \in 0..Unit
FailuresAttributed == SumF(c.fails) <= c.fail /\ \A e \in DOMAIN c.fails : c.fails[e] >= 1 /\ FailRate(c, e).ok \in 1..Unit
WindowBounded == /\ Len(c.lats) <= Window /\ Len(c.lats) <= c.succ
                 /\ IF c.lats = <<>> THEN c.avg = 0 ELSE AvgMatches(c.avg, c.lats)
SessionSaturates == c.sess = -1 \/ c.sess >= 0
(* ---- scores ---- *)
Bounded == ScoresInRange(c)
(* one more success / one more failure: the two hypothetical successors are computed once *)
SuccS == ConnResult(c, TRUE, -1, 0).s
FailS == ConnResult(c, FALSE, -1, 1).s
SuccessBeatsFailure == SuccessVsFailure(c, SuccS, FailS) /\ SuccessNeverLowers(c, SuccS)
FailureDoesNotHelp == FailureNeverRaises(c, FailS) /\ \A m \in MaxAges : FailedAttemptKeepsStale(c, FailS, m)
(* a lower latency of the next success is never worse *)
LatencyMonotone == LET qs == [l \in Lats |-> Quality(ConnResult(c, TRUE, l, 0).s)]
                   IN \A l1, l2 \in Lats : l1 <= l2 => qs[l1] >= qs[l2]
DecayMonotone == \A f \in Factors : DecayNeverRaises(c, f[1], f[2])
(* all weight on one component = that component plus the bonuses *)
OneHot == c.rep # NaNV /\ KnownAge(c.age) =>
            /\ QualityW(c, 10, 0, 0, 0) = Clamp01(c.rate + Bonus(c))
            /\ QualityW(c, 0, 0, 0, 10) = Clamp01(c.rep + Bonus(c))
            /\ QualityW(c, 0, 0, 0, 0) = Bonus(c)
            /\ (Bonus(c) = 0 => QualityW(c, 0, 10, 0, 0) = LatScore(c) /\ QualityW(c, 0, 0, 10, 0) = Recency(c.age))
(* ---- QUIC part ---- *)
QuicAbsent == ~c.quic => QuicScore(c) = 0 /\ c.qtypes = {} /\ c.qrates = <<>> /\ \A t \in Types : ~Supports(c, t).ok
QuicTypes == /\ c.qtypes \subseteq DOMAIN c.qrates /\ DOMAIN c.qrates \subseteq Types
             /\ \A t \in Types : (Supports(c, t).ok <=> g.qs[t] > 0) /\ (t \in DOMAIN c.qrates <=> g.qs[t] + g.qf[t] > 0)
             /\ \A t \in DOMAIN c.qrates : InRange(c.qrates[t])
(* a type whose rate is 1.0 has never failed (since the info was placed) *)
TypeRateOneMeansNoFailure == \A t \in DOMAIN c.qrates : c.qrates[t] = Unit => g.qf[t] = 0
(* the recency comment says "24 hour half-life": a contact last seen one day ago has half the recency score *)
DocumentedHalfLife == c.age = 86400 => Recency(c.age) = Unit \div 2
(* ---- action properties ---- *)
CountersNeverDecrease == [][c'.att >= c.att /\ c'.succ >= c.succ /\ c'.fail >= c.fail /\ c'.att <= c.att + 1
                            /\ \A e \in DOMAIN c.fails : e \in DOMAIN c'.fails /\ c'.fails[e] >= c.fails[e]]_vars
VerifiedSticks == [][c.ver => c'.ver]_vars

(* ---- constants of the model-checking configurations ---- *)
MC_Lats == {0, 100, 1900}
MC_CapSets == {{}, {DHT, 3}}
MC_RepArgs == {1500000, NaNV}
MC_Ages == {-3600, 86400}
MC_MaxAges == {3600, 86400}
MC_Factors == {<<1, 2>>, <<1, 1>>, <<3, 2>>, <<-1, 2>>}
MC_Setups == {0, 9000}
MC_Sessions == {5, -1}
=============================================================================
