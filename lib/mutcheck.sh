#!/bin/bash
# usage: lib/mutcheck.sh <patch.diff | -R:<commit>> <Cxx> [<Cxx>...]
# Applies a change to a scratch copy of /repo (/tmp/repo-m), builds the mutation harness copy
# (/verif/harness-M, path dependency on the scratch copy) and runs the given checks against it.
# Results go to evidence-M/, replays-M/, work-M/ (git-ignored). /repo itself is never touched.
set -u
P=$1; shift
V=/verif
rsync -a --delete --exclude target --exclude .git /repo/ /tmp/repo-m/
if [[ "$P" == -R:* ]]; then
  git -C /repo show "${P#-R:}" | (cd /tmp/repo-m && patch -R -p1 -s) || { echo "MUT: reverse patch failed"; exit 2; }
else
  (cd /tmp/repo-m && patch -p1 -s < "$P") || { echo "MUT: patch failed"; exit 2; }
fi
mkdir -p $V/harness-M/src $V/harness-M/.cargo
if [ ! -d $V/harness-M/target ]; then cp -a $V/harness/target $V/harness-M/target; fi
rsync -a --delete $V/harness/src/ $V/harness-M/src/
cp $V/harness/Cargo.lock $V/harness-M/; cp $V/harness/.cargo/config.toml $V/harness-M/.cargo/
sed 's#path = "/repo"#path = "/tmp/repo-m"#' $V/harness/Cargo.toml > $V/harness-M/Cargo.toml
for c in "$@"; do
  (cd $V && VERIF_HARNESS_DIR=$V/harness-M VERIF_OUT_SUFFIX=-M VERIF_REPO_DIR=/tmp/repo-m ./check $c ${TIER:+--tier $TIER} > /tmp/mut-$c.log 2>&1; echo "MUT $c rc=$?"; grep -E "^(VIOLATION|KNOWN-FINDING|TOOL-ERROR)" /tmp/mut-$c.log | cut -c1-220)
done
