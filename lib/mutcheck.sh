#!/bin/bash
# usage: lib/mutcheck.sh <patch.diff | -R:<commit>> <Cxx> [<Cxx>...]
# Applies a change to a scratch copy of /repo (/tmp/repo-m), builds the mutation harness copy
# (/verif/harness-M, path dependency on the scratch copy) and runs the given checks against it.
# Results go to evidence-M/, replays-M/, work-M/ (git-ignored). /repo itself is never touched.
set -u
P=$1; shift
V=/verif
I=${MUT_INST:-}     # instance id: several mutation runs may go on in parallel (repo-m$I, harness-M$I, *-M$I)
rsync -a --delete --exclude target --exclude .git /repo/ /tmp/repo-m$I/
if [[ "$P" == -R:* ]]; then
  git -C /repo show "${P#-R:}" | (cd /tmp/repo-m$I && patch -R -p1 -s) || { echo "MUT: reverse patch failed"; exit 2; }
else
  (cd /tmp/repo-m$I && patch -p1 -s < "$P") || { echo "MUT: patch failed"; exit 2; }
fi
mkdir -p $V/harness-M$I/src $V/harness-M$I/.cargo
if [ ! -d $V/harness-M$I/target ]; then cp -a $V/harness/target $V/harness-M$I/target; fi
rsync -a --delete $V/harness/src/ $V/harness-M$I/src/
cp $V/harness/Cargo.lock $V/harness-M$I/; cp $V/harness/.cargo/config.toml $V/harness-M$I/.cargo/
sed 's#path = "/repo"#path = "/tmp/repo-m'$I'"#' $V/harness/Cargo.toml > $V/harness-M$I/Cargo.toml
for c in "$@"; do
  (cd $V && VERIF_HARNESS_DIR=$V/harness-M$I VERIF_OUT_SUFFIX=-M$I VERIF_REPO_DIR=/tmp/repo-m$I ./check $c ${TIER:+--tier $TIER} > /tmp/mut$I-$c.log 2>&1; echo "MUT $c rc=$?"; grep -E "^(VIOLATION|KNOWN-FINDING|TOOL-ERROR)" /tmp/mut$I-$c.log | cut -c1-220)
done
