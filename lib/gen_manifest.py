#!/usr/bin/env python3
"""Regenerates /verif/MANIFEST.json from the table below (single source of truth for the interface)."""
import json
import os

VERIF = os.path.dirname(os.path.dirname(os.path.abspath(__file__)))

CHECKS = {
    "C02": dict(
        level="model_checking",
        text="Kademlia.tla is model-checked exhaustively (all add/remove histories over a 4-bit id space, all keys and counts; "
             "the two pinned-tree deviations must produce counterexamples), and recorded histories of the real DhtCoreEngine "
             "(join/add/fail/evict + find_nodes/FindNode/FindValue answers) are accepted or rejected by Trace_Kademlia.tla, "
             "whose oracle is Closest(members,key,n).",
        note="Trusted: order-preserving embedding of model ids into 256-bit ids (decode re-checked), TLC, Json module. "
             "Manager-level reply rule (table plus connected peers) is checked with the network harness under C01/C03.",
        technique="TLA+ spec + TLC exhaustive; impl->spec trace validation with TLC as oracle",
        design="6/C02"),
    "C15": dict(
        level="model_checking",
        text="CloseGroup.tla: the verdict function of validate_membership transcribed in its decision order (I-level) is "
             "model-checked exhaustively against the clauses of the property (P-level predicates of CloseGroupRules.tla: trusted "
             "quorum, fraction, regions, no collusion flag, f-liars, trust-weighted share, flip monotonicity, unanimous acceptance) "
             "over every witness multiset of the (confirm x trust x region x latency) grid up to size 3-8 (thorough: 4-10, f = 3), "
             "three wrong designs and four non-vacuity probes must give counterexamples; verdicts recorded from the real "
             "CloseGroupValidator (26-60 configurations incl. the library's constructors, both modes, one-flip neighbours) are "
             "judged by the same P-level predicates in Trace_CloseGroup.tla.",
        note="Exact integer arithmetic (per-mille trust, rational thresholds); the only f64-ambiguous point (trust share exactly at "
             "the threshold) is admitted either way. Region clause judged in its weaker reading (regions of all confirmations); the "
             "stricter reading is tallied in the evidence. Collusion flag is the code's output, its heuristic is only I-level.",
        technique="TLA+ spec + TLC exhaustive; impl->spec trace validation with TLC as oracle",
        design="6/C15"),
    "C16": dict(
        level="model_checking",
        text="Eviction.tla (three-map implementation state vs policy predicate, all histories of 2-3 peers) and Selector.tla (sort by "
             "score with/without the f64 distance erasure, every candidate list over a 3-bit id space, key, count, exclusion) are "
             "model-checked exhaustively; recorded histories of the real EvictionManager, selections of the real "
             "TrustAwarePeerSelector over embedded ids (families: leading / middle / bytes 15..31 / last byte / spread) and "
             "DhtCoreEngine join/evict/fail/find/store histories are judged by Trace_Sideline.tla.",
        note="Ranking clauses are judged for trust inside the TrustProvider contract [0,1]; NaN / out-of-range trusts are driven "
             "for structural clauses and panic-freedom. Engine-level trust-enabled selection (EigenTrustEngine as provider) is "
             "not driven; disabled mode is (store receipts). Exactness of closest-node answers is C02's.",
        technique="TLA+ spec + TLC exhaustive; impl->spec trace validation with TLC as oracle",
        design="6/C16"),
    "C17": dict(
        level="model_checking",
        text="Placement.tla (k rounds of pick-any-remaining + post-validation, over all candidate multisets of a region x ASN x "
             "site grid, all k and pick orders; three wrong designs must fail) is model-checked exhaustively; outcomes of the real "
             "WeightedPlacementStrategy / PlacementEngine over seeded candidate sets on a site grid (0..60 nodes, metadata gaps, "
             "foreign metadata, degenerate optimisation weights, k 0..20, 40-200 sampler seeds per input), WeightedSampler calls "
             "with zero/negative/infinite/NaN weights and the bounds tables are judged by Trace_Placement.tla.",
        note="Near/far comes from the harness's site grid (trusted base), not from the library; the library's distances are "
             "logged and cross-checked as a tally. 'Favours heavier candidates' is a one-sided statistical tally (10:1 and 3:1), "
             "not a specification verdict.",
        technique="TLA+ spec + TLC exhaustive; impl->spec trace validation with TLC as oracle",
        design="6/C17"),
}

CHECKS["C06"] = dict(
    level="model_checking",
    text="Wal.tla (one action per instrumented step of write_entry / rotate / checkpoint, Crash between any two, recovery as a "
         "function of the disk image) is model-checked exhaustively over all short histories x crash points x two crash-recover "
         "cycles; each of the six deviations found on the pinned tree is a flag that must yield a counterexample. Real histories "
         "(incl. >2000-operation segments forcing rotation) are run with the state directory copied at every crash point and at "
         "byte truncations of the record in flight; each image is reopened with the real recovery and judged by Trace_Wal.tla "
         "(recovered state is the pre- or post-state of the operation in flight, clean restart = full state, counter monotone).",
    note="Process-crash model (data handed to write(2) survives; no power loss). Trusted: directory copy at a hook = crash image, "
         "harness token projection of keys/values, TLC. One recorded finding: a crash inside batch_update recovers a partial batch.",
    technique="TLA+ spec + TLC exhaustive (crash at every step); crash-point fault enumeration on the real code validated by a TLA+ trace acceptor",
    design="6/C06")
CHECKS["C07"] = dict(
    level="model_checking",
    text="Same specification and driver as C06; quiescent images are damaged (bit flips in payload, length prefix, snapshot header "
         "and body, truncation inside and at record boundaries, appended garbage, duplicated records, records transplanted from "
         "another store) and reopened; Trace_Wal.tla decides: recovery completes without panic, detectable damage is reported, "
         "no value is invented or moved between keys, exactly the records before the damage (and behind it when framing is "
         "intact) are honoured, peak allocation stays proportional to the directory size.",
    note="Trusted: harness WAL frame parser describing the file layout to the acceptor, counting allocator (peak during reopen), "
         "TLC. Snapshot damage is judged by NoInvention/DamageReported only (expected exact state not defined by the property).",
    technique="TLA+ trace acceptor over damage-injection runs of the real recovery; design model shared with C06",
    design="6/C07")

CHECKS["C10"] = dict(
    level="model_checking",
    text="Trust.tla (P-level state of the EigenTrust engine, relation detector, query bookkeeping; I-level score = "
         "weight x exact rational statistics factor, cache) is model-checked exhaustively for twin engines over 3 nodes and "
         "all weight vectors (two deviation flags must produce counterexamples); recorded histories of twin real engines "
         "(all update entry points incl. P2PNode::report_peer_*, up to 600 identities) are judged by Trace_Trust.tla: "
         "domain, range, sum, determinism, success/failure monotonicity, severity order, per-peer query.",
    note="Scores are observed, not recomputed: floating point is compared on logged ppb integers with 2 ppm (sum) / 1 ppm "
         "(relations) tolerance. The 2 s timeout fallback is detected exactly on a paused tokio clock. Trusted: ppb "
         "projection, TLC, Json module.",
    technique="TLA+ spec + TLC exhaustive; impl->spec trace validation with TLC as oracle (twin engines)",
    design="6/C10")

CHECKS["C11"] = dict(
    level="model_checking",
    text="TrustMass.tla (integer mass-flow model of the power iteration, lumped into anchors / honest / closed set) is "
         "model-checked over all 480 configurations (SybilBound, AnchorFloor; dropping dangling mass as implemented must "
         "produce a counterexample), TrustMassU.tla checks the lumping against an un-lumped 4-node graph; the concrete "
         "graph of every configuration plus random asymmetric graphs are run on the real engine and judged by "
         "Trace_TrustMass.tla (bounds as stated in the property; lumped prediction within 0.5% reported as MODEL-DRIFT only).",
    note="Trusted: f64 sum over the closed set / min over anchors and ppm rounding in the driver; for graphs with more "
         "than 400 edges also the driver's dangling/closedness facts (recomputed by TLC otherwise).",
    technique="TLA+ spec + TLC exhaustive; impl->spec trace validation with TLC as oracle",
    design="6/C11")

NOT_YET = {}

HOOK_COMMITS = []


def main():
    props = [json.loads(l) for l in open(os.path.join(VERIF, "properties.jsonl"))]
    checks = []
    na = []
    for p in props:
        pid = p["id"]
        if pid in CHECKS:
            c = CHECKS[pid]
            checks.append({
                "property_id": pid,
                "quick_cmd": "./check %s --tier quick" % pid,
                "thorough_cmd": "./check %s --tier thorough" % pid,
                "evidence_file": "/verif/evidence/%s.json" % pid,
                "replay_cmd_template": "cat {path}",
                "engine": "tlc+scverif",
                "level_claimed": {"category": c["level"], "text": c["text"], "design_ref": c["design"]},
                "level_note": c["note"],
                "technique": c["technique"],
            })
        else:
            na.append({"property_id": pid, "reason": NOT_YET.get(pid, "check not built yet in this round (planned, see DESIGN.md section 6); not claimed until it runs")})
    commits = os.popen("git -C /repo log --format=%h --grep='^verif-hooks' ").read().split()
    m = {
        "version": 1,
        "setup_cmd": "cd /verif/harness && cp -n /repo/Cargo.lock Cargo.lock; CARGO_NET_OFFLINE=true cargo build --profile verif --offline",
        "hooks": {
            "guard": "cargo feature verif-hooks",
            "enable": "the harness crate /verif/harness depends on saorsa-core by path with features=[\"verif-hooks\"]",
            "baseline_off_cmd": "/verif/lib/baseline.sh /repo",
            "source_commits": commits,
            "add_only": True,
        },
        "engines": [
            {"name": "tlc+scverif", "path": "/verif/check", "serves_properties": sorted(CHECKS),
             "kind_free_text": "TLA+ specifications in /verif/spec checked by TLC; Rust harness /verif/harness drives the real code and records ndjson traces that TLC validates"},
        ],
        "checks": checks,
        "not_applicable": na,
        "notes": "Exit codes: 0 held / KNOWN-FINDING only, 1 VIOLATION, 2 tool error. known_findings.json lists recorded and fixed defects.",
    }
    with open(os.path.join(VERIF, "MANIFEST.json"), "w") as f:
        json.dump(m, f, indent=1)
    print("MANIFEST.json: %d checks, %d not_applicable" % (len(checks), len(na)))


if __name__ == "__main__":
    main()
