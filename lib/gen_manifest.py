#!/usr/bin/env python3
"""Regenerates /verif/MANIFEST.json from the table below (single source of truth for the interface)."""
import json
import os

VERIF = os.path.dirname(os.path.dirname(os.path.abspath(__file__)))

CHECKS = {
    "C02": dict(
        level="model_checking",
        text="Kademlia.tla is model-checked exhaustively (all add/remove histories over a 4-bit id space, all keys and counts; "
             "the two pinned-tree deviations must produce counterexamples), and recorded histories of the real DhtCoreEngine "
             "(join/add/fail/evict + find_nodes/FindNode/FindValue answers) are accepted or rejected by Trace_Kademlia.tla, "
             "whose oracle is Closest(members,key,n).",
        note="Trusted: order-preserving embedding of model ids into 256-bit ids (decode re-checked), TLC, Json module. "
             "Manager-level reply rule (table plus connected peers) is checked with the network harness under C01/C03.",
        technique="TLA+ spec + TLC exhaustive; impl->spec trace validation with TLC as oracle",
        design="6/C02"),
}

CHECKS["C06"] = dict(
    level="model_checking",
    text="Wal.tla (one action per instrumented step of write_entry / rotate / checkpoint, Crash between any two, recovery as a "
         "function of the disk image) is model-checked exhaustively over all short histories x crash points x two crash-recover "
         "cycles; each of the six deviations found on the pinned tree is a flag that must yield a counterexample. Real histories "
         "(incl. >2000-operation segments forcing rotation) are run with the state directory copied at every crash point and at "
         "byte truncations of the record in flight; each image is reopened with the real recovery and judged by Trace_Wal.tla "
         "(recovered state is the pre- or post-state of the operation in flight, clean restart = full state, counter monotone).",
    note="Process-crash model (data handed to write(2) survives; no power loss). Trusted: directory copy at a hook = crash image, "
         "harness token projection of keys/values, TLC. One recorded finding: a crash inside batch_update recovers a partial batch.",
    technique="TLA+ spec + TLC exhaustive (crash at every step); crash-point fault enumeration on the real code validated by a TLA+ trace acceptor",
    design="6/C06")
CHECKS["C07"] = dict(
    level="model_checking",
    text="Same specification and driver as C06; quiescent images are damaged (bit flips in payload, length prefix, snapshot header "
         "and body, truncation inside and at record boundaries, appended garbage, duplicated records, records transplanted from "
         "another store) and reopened; Trace_Wal.tla decides: recovery completes without panic, detectable damage is reported, "
         "no value is invented or moved between keys, exactly the records before the damage (and behind it when framing is "
         "intact) are honoured, peak allocation stays proportional to the directory size.",
    note="Trusted: harness WAL frame parser describing the file layout to the acceptor, counting allocator (peak during reopen), "
         "TLC. Snapshot damage is judged by NoInvention/DamageReported only (expected exact state not defined by the property).",
    technique="TLA+ trace acceptor over damage-injection runs of the real recovery; design model shared with C06",
    design="6/C07")

NOT_YET = {}

HOOK_COMMITS = []


def main():
    props = [json.loads(l) for l in open(os.path.join(VERIF, "properties.jsonl"))]
    checks = []
    na = []
    for p in props:
        pid = p["id"]
        if pid in CHECKS:
            c = CHECKS[pid]
            checks.append({
                "property_id": pid,
                "quick_cmd": "./check %s --tier quick" % pid,
                "thorough_cmd": "./check %s --tier thorough" % pid,
                "evidence_file": "/verif/evidence/%s.json" % pid,
                "replay_cmd_template": "cat {path}",
                "engine": "tlc+scverif",
                "level_claimed": {"category": c["level"], "text": c["text"], "design_ref": c["design"]},
                "level_note": c["note"],
                "technique": c["technique"],
            })
        else:
            na.append({"property_id": pid, "reason": NOT_YET.get(pid, "check not built yet in this round (planned, see DESIGN.md section 6); not claimed until it runs")})
    commits = os.popen("git -C /repo log --format=%h --grep='^verif-hooks' ").read().split()
    m = {
        "version": 1,
        "setup_cmd": "cd /verif/harness && cp -n /repo/Cargo.lock Cargo.lock; CARGO_NET_OFFLINE=true cargo build --profile verif --offline",
        "hooks": {
            "guard": "cargo feature verif-hooks",
            "enable": "the harness crate /verif/harness depends on saorsa-core by path with features=[\"verif-hooks\"]",
            "baseline_off_cmd": "/verif/lib/baseline.sh /repo",
            "source_commits": commits,
            "add_only": True,
        },
        "engines": [
            {"name": "tlc+scverif", "path": "/verif/check", "serves_properties": sorted(CHECKS),
             "kind_free_text": "TLA+ specifications in /verif/spec checked by TLC; Rust harness /verif/harness drives the real code and records ndjson traces that TLC validates"},
        ],
        "checks": checks,
        "not_applicable": na,
        "notes": "Exit codes: 0 held / KNOWN-FINDING only, 1 VIOLATION, 2 tool error. known_findings.json lists recorded and fixed defects.",
    }
    with open(os.path.join(VERIF, "MANIFEST.json"), "w") as f:
        json.dump(m, f, indent=1)
    print("MANIFEST.json: %d checks, %d not_applicable" % (len(checks), len(na)))


if __name__ == "__main__":
    main()
