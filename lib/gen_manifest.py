#!/usr/bin/env python3
"""Regenerates /verif/MANIFEST.json from the table below (single source of truth for the interface)."""
import json
import os

VERIF = os.path.dirname(os.path.dirname(os.path.abspath(__file__)))

CHECKS = {
    "C02": dict(
        level="model_checking",
        text="Kademlia.tla is model-checked exhaustively (all add/remove histories over a 4-bit id space, all keys and counts; "
             "the two pinned-tree deviations must produce counterexamples), and recorded histories of the real DhtCoreEngine "
             "(join/add/fail/evict + find_nodes/FindNode/FindValue answers) are accepted or rejected by Trace_Kademlia.tla, "
             "whose oracle is Closest(members,key,n).",
        note="Trusted: order-preserving embedding of model ids into 256-bit ids (decode re-checked), TLC, Json module. "
             "Manager-level reply rule (table plus connected peers) is checked with the network harness under C01/C03.",
        technique="TLA+ spec + TLC exhaustive; impl->spec trace validation with TLC as oracle",
        design="6/C02"),
    "C15": dict(
        level="model_checking",
        text="CloseGroup.tla: the verdict function of validate_membership transcribed in its decision order (I-level) is "
             "model-checked exhaustively against the clauses of the property (P-level predicates of CloseGroupRules.tla: trusted "
             "quorum, fraction, regions, no collusion flag, f-liars, trust-weighted share, flip monotonicity, unanimous acceptance) "
             "over every witness multiset of the (confirm x trust x region x latency) grid up to size 3-8 (thorough: 4-10, f = 3), "
             "three wrong designs and four non-vacuity probes must give counterexamples; verdicts recorded from the real "
             "CloseGroupValidator (26-60 configurations incl. the library's constructors, both modes, one-flip neighbours) are "
             "judged by the same P-level predicates in Trace_CloseGroup.tla.",
        note="Exact integer arithmetic (per-mille trust, rational thresholds); the only f64-ambiguous point (trust share exactly at "
             "the threshold) is admitted either way. Region clause judged in its weaker reading (regions of all confirmations); the "
             "stricter reading is tallied in the evidence. Collusion flag is the code's output, its heuristic is only I-level.",
        technique="TLA+ spec + TLC exhaustive; impl->spec trace validation with TLC as oracle",
        design="6/C15"),
    "C16": dict(
        level="model_checking",
        text="Eviction.tla (three-map implementation state vs policy predicate, all histories of 2-3 peers) and Selector.tla (sort by "
             "score with/without the f64 distance erasure, every candidate list over a 3-bit id space, key, count, exclusion) are "
             "model-checked exhaustively; recorded histories of the real EvictionManager, selections of the real "
             "TrustAwarePeerSelector over embedded ids (families: leading / middle / bytes 15..31 / last byte / spread) and "
             "DhtCoreEngine join/evict/fail/find/store histories - storage selection disabled, and enabled with a real EigenTrustEngine as "
             "the provider (trust of every id logged as order-preserving ranks) - are judged by Trace_Sideline.tla.",
        note="Ranking clauses are judged for trust inside the TrustProvider contract [0,1]; NaN / out-of-range trusts are driven "
             "for structural clauses and panic-freedom. Engine-level storage selection is driven in both modes (store receipts); the "
             "engine's query selection (retrieve) needs a transport and is not driven. Exactness of closest-node answers is C02's.",
        technique="TLA+ spec + TLC exhaustive; impl->spec trace validation with TLC as oracle",
        design="6/C16"),
    "C17": dict(
        level="model_checking",
        text="Placement.tla (k rounds of pick-any-remaining + post-validation, over all candidate multisets of a region x ASN x "
             "site grid, all k and pick orders; three wrong designs must fail) is model-checked exhaustively; outcomes of the real "
             "WeightedPlacementStrategy / PlacementEngine over seeded candidate sets on a site grid (0..60 nodes, metadata gaps, "
             "foreign metadata, degenerate optimisation weights, k 0..20, 40-200 sampler seeds per input), WeightedSampler calls "
             "with zero/negative/infinite/NaN weights and the bounds tables are judged by Trace_Placement.tla.",
        note="Near/far comes from the harness's site grid (trusted base), not from the library; the library's distances are "
             "logged and cross-checked as a tally. 'Favours heavier candidates' is a one-sided statistical tally (10:1 and 3:1), "
             "not a specification verdict.",
        technique="TLA+ spec + TLC exhaustive; impl->spec trace validation with TLC as oracle",
        design="6/C17"),
    "C08": dict(
        level="model_checking",
        text="Sig.tla (ideal signature functionality, identity life cycle generated/imported/seed/path, verdict functions of the raw, "
             "own-key, delegated and threshold entry points) is model-checked exhaustively over every key/message/signature token "
             "combination; the two pinned-tree deviations (independently expanded key halves, count-only threshold) must give "
             "counterexamples. Executions of the shipping-profile build (debug assertions off, real ML-DSA-65) are recorded - every "
             "sign/verify call of every entry point with genuine objects, single-bit flips of message/signature/key and all ordered "
             "identity pairs - and judged by Trace_Sig.tla with the shared rules of SigRules.tla.",
        note="TLC does not model ML-DSA: unforgeability under bit flips is observed on the real code (all bits of short messages, "
             "2 000 (quick) / all (thorough) positions of signature and key per identity, aggregated per object), the specification "
             "supplies the ideal functionality and the entry-point case analysis. Trusted: token interning, TLC, Json module.",
        technique="TLA+ spec + TLC exhaustive; impl->spec trace validation with TLC as oracle",
        design="6/C08"),
    "C09": dict(
        level="model_checking",
        text="PeerRecord.tla (records as field tokens, `signed` set, verdict cache as bounded map with nondeterministic eviction) is "
             "model-checked exhaustively over all sign/present/clear histories for capacities 1..2(3); the two pinned-tree deviations "
             "(cache keyed by (uid,seq,ts), user id not bound to key) must give counterexamples. Recorded histories of real "
             "PeerDHTRecords / SignatureCaches (real ML-DSA keys, field-level and byte-level mutations, forged records sharing "
             "(uid,seq,ts), capacities 1..8,16,64, every constructor boundary) are judged by Trace_PeerRecord.tla.",
        note="Trusted: interning of field byte strings, pairing of secret and public keys, UserId::from_public_key as definition of the "
             "derived id, TLC, Json module. Not judged: record version byte, name None vs Some(\"\").",
        technique="TLA+ spec + TLC exhaustive; impl->spec trace validation with TLC as oracle",
        design="6/C09"),
    "C18": dict(
        level="model_checking",
        text="KeyStore.tla (store file, tmp file, plaintext cache, pending write between tmp and rename, crash, corruption, password "
             "change) is model-checked exhaustively for histories of 6 (quick) / 9 (thorough) operations; the pinned-tree deviation "
             "(cache consulted before the password) and an in-place-write variant must give counterexamples. Recorded histories of the "
             "real EncryptedKeyStorageManager (right/wrong/former passwords, clear-cache, reopen, every single-byte alteration of the "
             "file, crash images of store and change-password) are judged by Trace_KeyStore.tla.",
        note="Crash images are composed by the harness from the real old/new file bytes in the order of writes of encrypt_and_store "
             "(hook H4 not in the tree yet). Reading: an altered byte may still yield the SAME material. Trusted: seed interning, TLC, Json.",
        technique="TLA+ spec + TLC exhaustive; impl->spec trace validation with TLC as oracle",
        design="6/C18"),
    "C19": dict(
        level="model_checking",
        text="Address.tla (textual forms, producers, consumers, wiring of the code, an address travelling along the wiring) is "
             "model-checked exhaustively (tiny); three pinned-tree deviations must give counterexamples. The real codecs are observed: "
             "four-word, Display/FromStr, serde and bootstrap round trips over all boundary octet/port combinations, all 65 536 ports "
             "of 3 (8) addresses, 1.1 M (22 M) seeded samples, IPv6 of every class, separator/case variants, malformed strings; every "
             "producer's actual string is classified and every reachable consumer is probed with every form; Trace_Address.tla judges "
             "RoundTrip / Variant / Malformed and Interop over the wiring table with the observed Emits/Accepts. The wire path is observed "
             "end to end on real DhtNetworkManagers over the in-memory hub: peer info -> routing table -> find-node reply -> dial_candidate "
             "(12 / 80 IPv4 and IPv6 addresses, both dial directions), and dial_candidate is probed with all five textual forms.",
        note="The 2^48 space is sampled (boundaries exhaustively). multiaddr_from_address is private and fed only by the transport: its "
             "accepted forms are taken from reading and its use is covered by the wire path. add_node is probed through its observable "
             "gate behaviour. Trusted: equality projection, form classifier/renderer, the hub's dial log, TLC, Json module.",
        technique="TLA+ spec + TLC exhaustive; impl->spec trace validation with TLC as oracle",
        design="6/C19"),
}

CHECKS["C06"] = dict(
    level="model_checking",
    text="Wal.tla (one action per instrumented step of write_entry / rotate / checkpoint, Crash between any two, recovery as a "
         "function of the disk image) is model-checked exhaustively over all short histories x crash points x two crash-recover "
         "cycles; each of the six deviations found on the pinned tree is a flag that must yield a counterexample. Real histories "
         "(incl. >2000-operation segments forcing rotation) are run with the state directory copied at every crash point and at "
         "byte truncations of the record in flight; each image is reopened with the real recovery and judged by Trace_Wal.tla "
         "(recovered state is the pre- or post-state of the operation in flight, clean restart = full state, counter monotone).",
    note="Process-crash model (data handed to write(2) survives; no power loss). Trusted: directory copy at a hook = crash image, "
         "harness token projection of keys/values, TLC. One recorded finding: a crash inside batch_update recovers a partial batch.",
    technique="TLA+ spec + TLC exhaustive (crash at every step); crash-point fault enumeration on the real code validated by a TLA+ trace acceptor",
    design="6/C06")
CHECKS["C07"] = dict(
    level="model_checking",
    text="Same specification and driver as C06; quiescent images are damaged (bit flips in payload, length prefix, snapshot header "
         "and body, truncation inside and at record boundaries, appended garbage, duplicated records, records transplanted from "
         "another store) and reopened; Trace_Wal.tla decides: recovery completes without panic, detectable damage is reported, "
         "no value is invented or moved between keys, exactly the records before the damage (and behind it when framing is "
         "intact) are honoured, peak allocation stays proportional to the directory size.",
    note="Trusted: harness WAL frame parser describing the file layout to the acceptor, counting allocator (peak during reopen), "
         "TLC. Snapshot damage is judged by NoInvention/DamageReported only (expected exact state not defined by the property).",
    technique="TLA+ trace acceptor over damage-injection runs of the real recovery; design model shared with C06",
    design="6/C07")

CHECKS["C10"] = dict(
    level="model_checking",
    text="Trust.tla (P-level state of the EigenTrust engine, relation detector, query bookkeeping; I-level score = "
         "weight x exact rational statistics factor, cache) is model-checked exhaustively for twin engines over 3 nodes and "
         "all weight vectors (two deviation flags must produce counterexamples); recorded histories of twin real engines "
         "(all update entry points incl. P2PNode::report_peer_*, up to 600 identities) are judged by Trace_Trust.tla: "
         "domain, range, sum, determinism, success/failure monotonicity, severity order, per-peer query.",
    note="Scores are observed, not recomputed: floating point is compared on logged ppb integers with 2 ppm (sum) / 1 ppm "
         "(relations) tolerance. The 2 s timeout fallback is detected exactly on a paused tokio clock. Trusted: ppb "
         "projection, TLC, Json module.",
    technique="TLA+ spec + TLC exhaustive; impl->spec trace validation with TLC as oracle (twin engines)",
    design="6/C10")

CHECKS["C11"] = dict(
    level="model_checking",
    text="TrustMass.tla (integer mass-flow model of the power iteration, lumped into anchors / honest / closed set) is "
         "model-checked over all 480 configurations (SybilBound, AnchorFloor; dropping dangling mass as implemented must "
         "produce a counterexample), TrustMassU.tla checks the lumping against an un-lumped 4-node graph; the concrete "
         "graph of every configuration plus random asymmetric graphs are run on the real engine and judged by "
         "Trace_TrustMass.tla (bounds as stated in the property; lumped prediction within 0.5% reported as MODEL-DRIFT only).",
    note="Trusted: f64 sum over the closed set / min over anchors and ppm rounding in the driver; for graphs with more "
         "than 400 edges also the driver's dangling/closedness facts (recomputed by TLC otherwise).",
    technique="TLA+ spec + TLC exhaustive; impl->spec trace validation with TLC as oracle",
    design="6/C11")

CHECKS.update({
    "C12": dict(
        level="model_checking",
        text="Counter.tla (marks per peer, batches, Call/Lin/Ret with every linearisation of 2-3 tasks, sync and reload anywhere) is "
             "model-checked exhaustively (AtMostOnce, InOrder, Classified, PersistedBelow, MarkMoves; the two-step, monotonic-only and "
             "'<' replay variants must give counterexamples); sequential histories of the real MonotonicCounterSystem (validate_sequence, "
             "batch_update with repeats / mixed peers / stale and future timestamps, u64 extremes, >1000 accepted numbers, sync + reopen "
             "through the public API, files preloaded near u64::MAX) are judged event by event by Trace_Counter.tla, and concurrent "
             "histories (2-6 tasks on a multi-thread runtime, call/return intervals ordered by a global ticket) by "
             "Trace_CounterConc.tla, where TLC searches the linearisation points.",
        note="Timestamp thresholds (60 s / 1 h) are not part of the property: timestamps between 'clearly current' and 'clearly "
             "stale/ahead' admit both readings. After a reload the mark may lie anywhere in [persisted, last] (both readings of "
             "'at most once over the whole life'). The state last = u64::MAX is entered only for the very same (number, hash).",
        technique="TLA+ spec + TLC exhaustive; Apalache inductive invariant of the sequential core (any history length); impl->spec trace "
                  "validation with TLC as oracle (violation collection + linearisation search)",
        design="6/C12"),
    "C13": dict(
        level="model_checking",
        text="Admission.tla (bag of admitted candidates vs per-level counters; add, remove, failed insert, evict, refresh, "
             "set-network-size; 32 candidate kinds) is model-checked exhaustively for CapAtAdmission, AdmitWhenBelow and SlotAccounting; "
             "five AsImplemented flags (IPv4 ASN not halved, increment before bucket insert, no decrement on eviction, refresh keeps old "
             "slots, IPv4 mapped into one /64) must give counterexamples. Histories of the real IPDiversityEnforcer (default, testnet, "
             "permissive, random small caps; arbitrary ASN / hosting / VPN attributes; stats after every step), of DhtCoreEngine "
             "add_node / evict_node / handle_node_failure, of BootstrapManager::add_peer and of a real DhtNetworkManager accepting inbound "
             "peers over the in-memory transport are judged by Trace_Admission.tla with AdmissionRules!Limit / LimitLo.",
        note="Two readings of the IPv4 per-address cap are accepted (network-size rule alone for the upper bound, additionally bounded by "
             "max_nodes_per_ipv4_32 for the must-admit bound). Network sizes are kept away from floor(size*fraction) boundaries (f64 "
             "rounding is not modelled). Refusals by other gates (full bucket, region cap, validator, join rate limit) are excused but "
             "must consume no slot. The engine is judged with the library's default configuration (its enforcer is private).",
        technique="TLA+ spec + TLC exhaustive; impl->spec trace validation with TLC as oracle",
        design="6/C13"),
    "C14": dict(
        level="model_checking",
        text="RateLimit.tla (token bucket + fixed window in discrete time, shared bucket then key bucket, every arrival sequence over "
             "the horizon and every burst/max pair) is model-checked exhaustively for BurstPlusRefill, WindowMax, KeyIsolation, "
             "OthersUntouched and DenialNeverIncreases; three wrong variants (refill from the window start, no cap at burst, shared "
             "bucket) must give counterexamples. Request histories of the real rate_limit::Engine, validation::RateLimiter::check_ip "
             "and JoinRateLimiter::check_join_allowed (random and default configurations, IPv4/IPv6 addresses sharing /24, /48, /64 "
             "prefixes, bursts / spins / sleeps across window boundaries, single-threaded and from 8 OS threads) are judged by "
             "Trace_RateLimit.tla: for every admission, every suffix of the admission list of each bucket it draws on must satisfy "
             "count <= burst + span*max/window and (span <= window => count <= 2*max), span measured as the widest the tick bands allow.",
        note="Upper bounds only (sound under timing noise); the per-window maximum is judged in its weakest reading (fixed windows of "
             "any alignment: 2*max per window length). The only lower bound, KeyIsolation (a request whose buckets have each seen fewer "
             "than min(burst,max) attempts must pass), is time-free and applied to single-threaded segments only. The listener call site "
             "in transport_handle.rs is covered at the check_ip call only. The 100k-key LRU bound is not driven.",
        technique="TLA+ spec + TLC exhaustive; Apalache inductive invariant of one bucket over unbounded time and history length; "
                  "impl->spec trace validation with TLC as oracle",
        design="6/C14"),
})

CHECKS["C01"] = dict(
    level="model_checking",
    text="Lookup.tla (implementation-shaped iterative lookup: sorted candidate queue, batches, dominance filter, rounds) is model-checked "
         "over every knowledge graph, target and set of silent peers of 4-5 nodes, safety and termination; the three deviations of the "
         "pinned tree must yield counterexamples. Real lookups on clusters of 2..12 real DhtNetworkManagers over an in-memory hub "
         "(virtual time, unresponsive and lying peers) are recorded as complete transcripts and judged by Trace_Lookup.tla: result "
         "sorted, distinct, <= K, only answered peers or self, the K closest answered, no closer learned peer left unqueried unless "
         "the round budget ran out, no self query, no double query, <= 60 requests, exact in a full mesh. Spec -> impl: every (graph, target, "
         "silent set) configuration TLC enumerates for the model over 4 (thorough 5) nodes is built with real managers (DHT keys carry "
         "the model id), judged by the same acceptor and compared with the model's answer (differences are MODEL-DRIFT).",
    note="Trusted: hub frame log (real wire frames decoded with the library's types), rank projection of XOR distances, app-level "
         "peer id = transport id in the harness. Peers that cannot be dialled are excused (their query attempt is invisible).",
    technique="TLA+ spec + TLC exhaustive (safety + liveness); TLC-enumerated configurations replayed on real clusters (spec -> impl); "
              "transcripts of the real lookup validated by a TLA+ trace acceptor (impl -> spec)",
    design="6/C01")
CHECKS["C03"] = dict(
    level="model_checking",
    text="Store.tla (put as BeginPut / PutRpc / EndPut over the lookup guarantee of C01, atomic get, silent peers) is model-checked over "
         "all graphs, silent sets and interleavings of three operations; the two pinned-tree deviations must fail. Real put / get / "
         "store_local / put_with_targets / raw remote PUT histories (values 0..600 bytes) on real clusters are judged by "
         "Trace_Store.tla against the ground truth read from every node's store after every operation: PutHolds, PutTargets, "
         "NoSelfRpc, GetSound, GetComplete, HolderAnswers, SizeLimit, StoreIntegrity. The composition root SaorsaCore.tla (connections, tables, "
         "lookup guarantee, concurrent puts, pending table, stop) is model-checked for the cross-module clauses (VisibleThroughThirdParty, "
         "NoResidueAfterStop, QuietAfterStop).",
    note="Trusted: hub frame log, value tokens, get_local as ground truth. The embedded lookup is assumed to satisfy C01. Lying "
         "harness endpoints may acknowledge without storing; only real nodes are judged.",
    technique="TLA+ spec + TLC exhaustive; put/get histories of real clusters validated by a TLA+ trace acceptor with ground-truth store reads",
    design="6/C03")
CHECKS["C04"] = dict(
    level="model_checking",
    text="Rpc.tla (register, send, arbitrary deliveries by the network, reply / timeout / cancellation, cap) is model-checked for the "
         "tables with and without sender binding; missing cancel cleanup and missing sender check must fail. On the real code an "
         "adversary injects reply frames into the unmodified receive loop under arbitrary authenticated-sender ids (right, wrong "
         "sender, unknown id, duplicate, late), aborts request futures and fills the 256-entry cap; Trace_Rpc.tla decides "
         "OnlyMatching, ExactlyOnce, MatchingReplyLost, NoResidue, CapRespected for the three pending tables.",
    note="Trusted: verif_inject = delivery by the transport for that authenticated peer; virtual-time event order on a current-thread "
         "runtime. DhtCoreEngine::handle_response has no sender parameter: sender binding cannot be stated for that table.",
    technique="TLA+ spec + TLC exhaustive; adversarial reply injection into the real receive loop validated by a TLA+ trace acceptor",
    design="6/C04")
CHECKS["C05"] = dict(
    level="exploration",
    text="Inbound.tla states the admission rules (size gate before decoding, timestamp window, source identity from the connection, "
         "count and value caps) and TLC checks that the transcribed decision procedures satisfy them on the feature grid (three wrong "
         "variants must fail). The input space itself is explored by the driver: random bytes, valid messages of every kind and "
         "structure-aware mutations into the frame parser, the DHT message handler, the engine request handler, record and envelope "
         "decoders; Trace_Inbound.tla applies the rules to every observation (no panic, window with clock band, source = connection, "
         "nothing oversized stored or acknowledged, peak allocation bounded).",
    note="The specification decides admission; panics and allocation are measured (catch_unwind, counting allocator). The 16 MiB "
         "receive cap inside ant_quic_adapter needs a real QUIC endpoint and is not covered.",
    technique="input exploration (random + structure-aware mutation) judged by a TLA+ rule acceptor; rule consistency model-checked",
    design="6/C05")
CHECKS["C20"] = dict(
    level="model_checking",
    text="Lifecycle.tla (operations as rounds of send / reply-or-timeout, peers falling silent, stop = Leave to every peer, cancel, "
         "join background tasks) is model-checked for QuietAfterStop, BoundedTimeouts, TasksEnd and, under weak fairness, completion "
         "of every operation and of stop; the pinned-tree variant without the shutdown check must fail. Real clusters (2..12 nodes, "
         "virtual time, seeded delays, silence and stop instants) are run and each run is judged by Trace_Lifecycle.tla: every "
         "operation ends, within a bound proportional to the request timeout, stop returns within (peers+1) timeouts, no request "
         "after stop returned, no task left alive.",
    note="Trusted: virtual time of a current-thread tokio runtime, hub frame log, tokio task metrics. Real-time multi-threaded "
         "schedules are sampled, not enumerated: 8 (thorough 150) runs on a 4-thread runtime, every other one a lock-stress run "
         "(eight tasks reading the node's local knowledge in a tight loop while eight newcomers connect, disconnect and reconnect).",
    technique="TLA+ spec + TLC exhaustive (safety + liveness); seeded concurrent runs of real clusters validated by a TLA+ trace acceptor",
    design="6/C20")

NOT_YET = {}

HOOK_COMMITS = []


def main():
    props = [json.loads(l) for l in open(os.path.join(VERIF, "properties.jsonl"))]
    checks = []
    na = []
    for p in props:
        pid = p["id"]
        if pid in CHECKS:
            c = CHECKS[pid]
            checks.append({
                "property_id": pid,
                "quick_cmd": "./check %s --tier quick" % pid,
                "thorough_cmd": "./check %s --tier thorough" % pid,
                "evidence_file": "/verif/evidence/%s.json" % pid,
                "replay_cmd_template": "cat {path}",
                "engine": "tlc+scverif",
                "level_claimed": {"category": c["level"], "text": c["text"], "design_ref": c["design"]},
                "level_note": c["note"],
                "technique": c["technique"],
            })
        else:
            na.append({"property_id": pid, "reason": NOT_YET.get(pid, "check not built yet in this round (planned, see DESIGN.md section 6); not claimed until it runs")})
    commits = os.popen("git -C /repo log --format=%h --grep='^verif-hooks' ").read().split()
    m = {
        "version": 1,
        "setup_cmd": "cd /verif/harness && cp -n /repo/Cargo.lock Cargo.lock; CARGO_NET_OFFLINE=true cargo build --profile verif --offline",
        "hooks": {
            "guard": "cargo feature verif-hooks",
            "enable": "the harness crate /verif/harness depends on saorsa-core by path with features=[\"verif-hooks\"]",
            "baseline_off_cmd": "/verif/lib/baseline.sh /repo",
            "source_commits": commits,
            "add_only": True,
        },
        "engines": [
            {"name": "tlc+scverif", "path": "/verif/check", "serves_properties": sorted(CHECKS),
             "kind_free_text": "TLA+ specifications in /verif/spec checked by TLC; Rust harness /verif/harness drives the real code and records ndjson traces that TLC validates"},
        ],
        "checks": checks,
        "not_applicable": na,
        "notes": "Exit codes: 0 held / KNOWN-FINDING only, 1 VIOLATION, 2 tool error. known_findings.json lists recorded and fixed defects. "
                 "Specification growth beyond the listed properties is hosted by some checks (design-level TLC runs plus conformance of the real "
                 "code, reported as MODEL-DRIFT lines and growth_* evidence keys, never as VIOLATION): C01 wire protocol; C03 composition root "
                 "SaorsaCore.tla; C04 production resource manager; C05 cache eviction strategies; C08 threshold group membership; C09 identity regeneration trigger; C13 bootstrap contact bookkeeping and Sybil detector; "
                 "C15 bucket refresh / attack mode; C17 node age verification; C18 upgrade staging and rollback; C20 transport peer "
                 "bookkeeping and maintenance scheduler. See DESIGN.md sections 12.7 and 13.3.",
    }
    with open(os.path.join(VERIF, "MANIFEST.json"), "w") as f:
        json.dump(m, f, indent=1)
    print("MANIFEST.json: %d checks, %d not_applicable" % (len(checks), len(na)))


if __name__ == "__main__":
    main()
