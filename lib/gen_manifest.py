#!/usr/bin/env python3
"""Regenerates /verif/MANIFEST.json from the table below (single source of truth for the interface)."""
import json
import os

VERIF = os.path.dirname(os.path.dirname(os.path.abspath(__file__)))

CHECKS = {
    "C02": dict(
        level="model_checking",
        text="Kademlia.tla is model-checked exhaustively (all add/remove histories over a 4-bit id space, all keys and counts; "
             "the two pinned-tree deviations must produce counterexamples), and recorded histories of the real DhtCoreEngine "
             "(join/add/fail/evict + find_nodes/FindNode/FindValue answers) are accepted or rejected by Trace_Kademlia.tla, "
             "whose oracle is Closest(members,key,n).",
        note="Trusted: order-preserving embedding of model ids into 256-bit ids (decode re-checked), TLC, Json module. "
             "Manager-level reply rule (table plus connected peers) is checked with the network harness under C01/C03.",
        technique="TLA+ spec + TLC exhaustive; impl->spec trace validation with TLC as oracle",
        design="6/C02"),
}

NOT_YET = {}

HOOK_COMMITS = []


def main():
    props = [json.loads(l) for l in open(os.path.join(VERIF, "properties.jsonl"))]
    checks = []
    na = []
    for p in props:
        pid = p["id"]
        if pid in CHECKS:
            c = CHECKS[pid]
            checks.append({
                "property_id": pid,
                "quick_cmd": "./check %s --tier quick" % pid,
                "thorough_cmd": "./check %s --tier thorough" % pid,
                "evidence_file": "/verif/evidence/%s.json" % pid,
                "replay_cmd_template": "cat {path}",
                "engine": "tlc+scverif",
                "level_claimed": {"category": c["level"], "text": c["text"], "design_ref": c["design"]},
                "level_note": c["note"],
                "technique": c["technique"],
            })
        else:
            na.append({"property_id": pid, "reason": NOT_YET.get(pid, "check not built yet in this round (planned, see DESIGN.md section 6); not claimed until it runs")})
    commits = os.popen("git -C /repo log --format=%h --grep='^verif-hooks' ").read().split()
    m = {
        "version": 1,
        "setup_cmd": "cd /verif/harness && cp -n /repo/Cargo.lock Cargo.lock; CARGO_NET_OFFLINE=true cargo build --profile verif --offline",
        "hooks": {
            "guard": "cargo feature verif-hooks",
            "enable": "the harness crate /verif/harness depends on saorsa-core by path with features=[\"verif-hooks\"]",
            "baseline_off_cmd": "/verif/lib/baseline.sh /repo",
            "source_commits": commits,
            "add_only": True,
        },
        "engines": [
            {"name": "tlc+scverif", "path": "/verif/check", "serves_properties": sorted(CHECKS),
             "kind_free_text": "TLA+ specifications in /verif/spec checked by TLC; Rust harness /verif/harness drives the real code and records ndjson traces that TLC validates"},
        ],
        "checks": checks,
        "not_applicable": na,
        "notes": "Exit codes: 0 held / KNOWN-FINDING only, 1 VIOLATION, 2 tool error. known_findings.json lists recorded and fixed defects.",
    }
    with open(os.path.join(VERIF, "MANIFEST.json"), "w") as f:
        json.dump(m, f, indent=1)
    print("MANIFEST.json: %d checks, %d not_applicable" % (len(checks), len(na)))


if __name__ == "__main__":
    main()
