#!/bin/bash
# Run the repository's pinned baseline (hooks feature OFF) and compare with BASELINE.json's stable_pass list.
# usage: lib/baseline.sh [repo_dir]   (default /repo); exit 0 iff every stable_pass test passed
REPO=${1:-/repo}
OUT=$(mktemp -d /tmp/baseline.XXXXXX)
cd "$REPO" || exit 2
export CARGO_NET_OFFLINE=true
cargo nextest run --workspace --no-fail-fast --tool-config-file pb:/w/lib/nextest.toml --profile pb --test-threads 8 --offline > "$OUT/log" 2>&1
J=$(find "$REPO/target/nextest/pb" -name junit.xml | head -1)
python3 /w/lib/parse_tests.py --kind junit --glob "$J" --out "$OUT/res.json" >/dev/null
python3 - "$OUT/res.json" <<'PY'
import json,sys
res=json.load(open(sys.argv[1]))
base=json.load(open('/root/.vp/BASELINE.json'))
passed=set(res['passed']); stable=set(base['stable_pass'])
missing=sorted(stable-passed)
print("passed=%d failed=%d stable_pass=%d stable_not_passed=%d"%(len(passed),len(res['failed']),len(stable),len(missing)))
for m in missing[:50]: print("  NOT PASSED:",m)
sys.exit(1 if missing else 0)
PY
rc=$?
tail -3 "$OUT/log"
rm -rf "$OUT"
exit $rc
