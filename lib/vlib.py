"""Shared machinery for the saorsa-core TLA+ verification checks.

Everything here is deliberately small:
  * build_harness()  - cargo build of /verif/harness against /repo's working tree
  * tlc()            - run TLC (exhaustive, simulate or trace validation), parse its output
  * Report           - collects violations, matches known findings, writes evidence, exits
Exit codes: 0 held (maybe KNOWN-FINDING lines), 1 VIOLATION, 2 tool error.
"""
import hashlib
import json
import os
import re
import subprocess
import sys
import time

VERIF = os.path.dirname(os.path.dirname(os.path.abspath(__file__)))
SPEC = os.path.join(VERIF, "spec")
HARNESS = os.environ.get("VERIF_HARNESS_DIR") or os.path.join(VERIF, "harness")
_SUF = os.environ.get("VERIF_OUT_SUFFIX", "")   # mutation runs write to evidence<suffix>/ etc. (git-ignored)
EVID = os.path.join(VERIF, "evidence" + _SUF)
REPLAYS = os.path.join(VERIF, "replays" + _SUF)
WORK = os.path.join(VERIF, "work" + _SUF)
JAR = "/opt/veriftools/tla/tla2tools.jar:/opt/veriftools/tla/CommunityModules-deps.jar"
BIN = os.path.join(HARNESS, "target", "verif", "scverif")
REPO = os.environ.get("VERIF_REPO_DIR", "/repo")


class ToolError(Exception):
    pass


class HarnessPanic(Exception):
    """A panic escaped from the code under test while a driver ran it (harness exit code 3)."""
    pass


def log(*a):
    print("[verif]", *a, flush=True)


def seed():
    try:
        return int(os.environ.get("VERIF_SEED", "1"))
    except ValueError:
        return 1


def workdir(pid):
    d = os.path.join(WORK, pid)
    os.makedirs(d, exist_ok=True)
    return d


def build_harness():
    """Rebuild the harness (and saorsa-core from /repo's working tree, hooks on)."""
    t0 = time.time()
    lock = os.path.join(HARNESS, "Cargo.lock")
    if not os.path.exists(lock):
        import shutil
        shutil.copy("/repo/Cargo.lock", lock)
    env = dict(os.environ)
    env["CARGO_NET_OFFLINE"] = "true"
    env.setdefault("CARGO_BUILD_JOBS", "16")
    import fcntl
    os.makedirs(WORK, exist_ok=True)
    with open(os.path.join(WORK, ".build.lock"), "w") as lk:
        fcntl.flock(lk, fcntl.LOCK_EX)
        p = subprocess.run(
            ["cargo", "build", "--profile", "verif", "--offline", "--quiet"],
            cwd=HARNESS, env=env, stdout=subprocess.PIPE, stderr=subprocess.STDOUT, text=True)
    if p.returncode != 0:
        sys.stdout.write(p.stdout[-6000:])
        raise ToolError("harness build failed")
    log("harness built in %.1fs" % (time.time() - t0))
    return BIN


def run_harness(args, timeout=3600, env_extra=None, stdout_path=None):
    """Run the harness binary. Returns (rc, stdout text). A crash of the harness itself is a tool error."""
    env = dict(os.environ)
    env["VERIF_SEED"] = str(seed())
    if env_extra:
        env.update(env_extra)
    t0 = time.time()
    try:
        if stdout_path:
            with open(stdout_path, "w") as f:
                p = subprocess.run([BIN] + args, env=env, stdout=f, stderr=subprocess.PIPE, text=True, timeout=timeout)
            out = ""
        else:
            p = subprocess.run([BIN] + args, env=env, stdout=subprocess.PIPE, stderr=subprocess.PIPE, text=True, timeout=timeout)
            out = p.stdout
    except subprocess.TimeoutExpired:
        raise ToolError("harness timeout: %s" % " ".join(args))
    if p.returncode == 3:
        lines = [x for x in (p.stderr or "").splitlines() if x.startswith("PANIC ")]
        raise HarnessPanic((lines[-1] if lines else "PANIC (no message)") + " | args: " + " ".join(args))
    if p.returncode != 0:
        sys.stdout.write((p.stderr or "")[-4000:])
        raise ToolError("harness failed rc=%d: %s" % (p.returncode, " ".join(args)))
    log("harness %s: %.1fs" % (" ".join(args[:3]), time.time() - t0))
    return out


class TlcResult:
    def __init__(self):
        self.rc = None
        self.generated = 0
        self.distinct = 0
        self.queue = 0
        self.depth = 0
        self.coverage = {}
        self.violated = None
        self.raw = ""
        self.wall = 0.0
        self.error = None

    def ok(self):
        return self.rc == 0 and self.violated is None and self.error is None


_RE_STATS = re.compile(r"^(\d+) states generated, (\d+) distinct states found, (\d+) states left on queue", re.M)
_RE_DEPTH = re.compile(r"The depth of the complete state graph search is (\d+)")
_RE_INV = re.compile(r"Invariant (\S+) is violated")
_RE_COV = re.compile(r"^<(\w+) line \d+, col \d+ to line \d+, col \d+ of module (\w+)>: (\d+):(\d+)", re.M)


def tlc(module, cfg=None, workers=8, timeout=900, env_extra=None, simulate=None, depth=None,
        coverage=False, xmx="6g", dfs=False, cwd=None, extra=None, seed_arg=None, deadlock=False):
    """Run TLC on spec/<module>.tla with spec/<cfg>. Returns TlcResult."""
    cwd = cwd or SPEC
    cfg = cfg or (module + ".cfg")
    import uuid
    meta = os.path.join(WORK, "tlc-meta", "%s-%d-%s" % (module, os.getpid(), uuid.uuid4().hex[:12]))
    os.makedirs(meta, exist_ok=True)
    jopts = ["-XX:+UseParallelGC", "-Xmx" + xmx, "-Xss1g"]
    if dfs:
        jopts.append("-Dtlc2.tool.queue.IStateQueue=StateDeque")
    cmd = ["java"] + jopts + ["-cp", JAR, "tlc2.TLC", "-workers", str(workers), "-metadir", meta,
                              "-cleanup", "-noGenerateSpecTE", "-config", cfg]
    if not deadlock:
        pass
    if coverage:
        cmd += ["-coverage", "1"]
    if simulate:
        cmd += ["-simulate", "num=%d" % simulate]
        if depth:
            cmd += ["-depth", str(depth)]
    if seed_arg is not None:
        cmd += ["-seed", str(seed_arg)]
    if extra:
        cmd += extra
    cmd.append(module + ".tla")
    env = dict(os.environ)
    env.pop("JAVA_TOOL_OPTIONS", None)
    if env_extra:
        env.update({k: str(v) for k, v in env_extra.items()})
    r = TlcResult()
    t0 = time.time()
    try:
        p = subprocess.run(["timeout", str(timeout)] + cmd, cwd=cwd, env=env, stdout=subprocess.PIPE,
                           stderr=subprocess.STDOUT, text=True)
    finally:
        subprocess.run(["rm", "-rf", meta])
    r.wall = time.time() - t0
    r.rc = p.returncode
    r.raw = p.stdout
    m = None
    for m in _RE_STATS.finditer(p.stdout):
        pass
    if m:
        r.generated, r.distinct, r.queue = int(m.group(1)), int(m.group(2)), int(m.group(3))
    m = _RE_DEPTH.search(p.stdout)
    if m:
        r.depth = int(m.group(1))
    m = _RE_INV.search(p.stdout)
    if m:
        r.violated = m.group(1)
    if "is violated" in p.stdout and not r.violated:
        r.violated = "property"
    for m in _RE_COV.finditer(p.stdout):
        r.coverage[m.group(1)] = r.coverage.get(m.group(1), 0) + int(m.group(4))
    if p.returncode == 124:
        r.error = "timeout"
    elif p.returncode not in (0, 12, 13) and r.violated is None:
        r.error = "tlc rc=%d" % p.returncode
    if "Error:" in p.stdout and r.violated is None and r.error is None and p.returncode != 0:
        r.error = "tlc error"
    return r


def tlc_must_hold(module, cfg, what, **kw):
    """Exhaustive design check: the spec must satisfy its invariants; anything else is a tool error
    (a design-level result never produces VIOLATION lines; only executions of the real code do)."""
    r = tlc(module, cfg, **kw)
    if not r.ok():
        sys.stdout.write(r.raw[-5000:])
        raise ToolError("TLC %s/%s (%s): expected to hold, got violated=%s error=%s" % (module, cfg, what, r.violated, r.error))
    log("TLC %s/%s (%s): %d generated, %d distinct, depth %d, %.1fs" % (module, cfg, what, r.generated, r.distinct, r.depth, r.wall))
    return r


def tlc_must_fail(module, cfg, what, inv=None, **kw):
    """Non-vacuity: a deliberately deviating variant of the spec must violate the property."""
    r = tlc(module, cfg, **kw)
    if r.violated is None:
        sys.stdout.write(r.raw[-3000:])
        raise ToolError("TLC %s/%s (%s): expected a counterexample, found none (vacuous property?)" % (module, cfg, what))
    log("TLC %s/%s (%s): counterexample for %s as expected, %.1fs" % (module, cfg, what, r.violated, r.wall))
    return r


def validate_trace(module, cfg, trace_path, out_path, timeout=1800, xmx="8g", env_extra=None, dfs=True, workers=1):
    """Run a Trace_* spec over an ndjson trace. The spec writes its result as JSON to OUT.
    Returns (result dict, TlcResult)."""
    if os.path.exists(out_path):
        os.remove(out_path)
    env = {"TRACE": trace_path, "OUT": out_path}
    if env_extra:
        env.update(env_extra)
    r = tlc(module, cfg, workers=workers, timeout=timeout, env_extra=env, dfs=dfs, xmx=xmx)
    if r.error or r.violated or not os.path.exists(out_path):
        sys.stdout.write(r.raw[-6000:])
        raise ToolError("trace validation %s failed to run: violated=%s error=%s out=%s" % (module, r.violated, r.error, os.path.exists(out_path)))
    with open(out_path) as f:
        res = json.load(f)
    log("trace %s: %s lines, %d states, %.1fs" % (module, res.get("consumed"), r.distinct, r.wall))
    return res, r


def read_ndjson(path):
    out = []
    with open(path) as f:
        for line in f:
            line = line.strip()
            if line:
                out.append(json.loads(line))
    return out


def write_ndjson(path, recs):
    with open(path, "w") as f:
        for r in recs:
            f.write(json.dumps(r, separators=(",", ":")) + "\n")


def load_findings():
    p = os.path.join(VERIF, "known_findings.json")
    if not os.path.exists(p):
        return []
    with open(p) as f:
        return json.load(f).get("findings", [])


class Report:
    """Collects what a check run covered and found; prints verdict lines; writes evidence."""

    def __init__(self, pid, tier, level):
        self.pid = pid
        self.tier = tier
        self.level = level
        self.t0 = time.time()
        self.violations = []   # dicts: clause, site, cond, detail, replay
        self.coverage = {"samples": []}
        self.assumptions = []
        self.notes = []
        self.states = 0
        self.transitions = 0
        self.traces = 0
        self.evals = 0
        self.distinct = set()

    def add_tlc(self, r, label):
        self.states += r.distinct
        self.transitions += r.generated
        self.coverage.setdefault("tlc_runs", []).append(
            {"label": label, "distinct": r.distinct, "generated": r.generated, "depth": r.depth,
             "wall_s": round(r.wall, 1), "actions": r.coverage or None})

    def sample(self, s):
        if len(self.coverage["samples"]) < 12:
            self.coverage["samples"].append(s)

    def count_case(self, key):
        self.evals += 1
        self.distinct.add(hashlib.blake2b(json.dumps(key, sort_keys=True).encode(), digest_size=8).digest())

    def violation(self, clause, site, cond, detail, replay=None):
        self.violations.append({"clause": clause, "site": site, "cond": cond, "detail": detail, "replay": replay})

    def unknown_violations(self):
        """Violations not matched by a status=known entry of known_findings.json."""
        known = [f for f in load_findings() if f.get("property") == self.pid and f.get("status") == "known"]
        out = []
        for v in self.violations:
            if not any(f["clause"] == v["clause"] and f["site"] == v["site"] and re.fullmatch(f["cond"], str(v["cond"])) for f in known):
                out.append(v)
        return out

    def finish(self, rule, trusted=None, exhaustive=False, extra=None):
        findings = [f for f in load_findings() if f.get("property") == self.pid]
        known = [f for f in findings if f.get("status") == "known"]
        unknown = []
        hit = {}
        for v in self.violations:
            m = None
            for f in known:
                if f["clause"] == v["clause"] and f["site"] == v["site"] and re.fullmatch(f["cond"], str(v["cond"])):
                    m = f
                    break
            if m is not None:
                hit.setdefault(m["id"], [m, 0])[1] += 1
            else:
                unknown.append(v)
        for fid, (f, n) in sorted(hit.items()):
            print("KNOWN-FINDING: property=%s %s [%s; %d occurrence(s) this run]" % (self.pid, f["text"], fid, n), flush=True)
        rdir = os.path.join(REPLAYS, self.pid)
        os.makedirs(rdir, exist_ok=True)
        groups = {}
        for v in unknown:
            groups.setdefault((v["clause"], v["site"], str(v["cond"])), []).append(v)
        for i, (k, vs) in enumerate(sorted(groups.items())):
            if i >= 20:
                break
            path = os.path.join(rdir, "%s-%s-%d.json" % (self.tier, re.sub(r"[^A-Za-z0-9]+", "_", k[0] + "_" + k[1])[:60], i))
            with open(path, "w") as f:
                json.dump({"property": self.pid, "clause": k[0], "site": k[1], "cond": k[2], "count": len(vs),
                           "seed": seed(), "tier": self.tier, "first": vs[0]}, f, indent=1, default=str)
            print("VIOLATION property=%s replay=%s clause=%s site=%s cond=%s n=%d" % (self.pid, path, k[0], k[1], k[2], len(vs)), flush=True)
        cov = self.coverage
        cov["rule"] = rule
        cov["evaluations"] = max(self.evals, 1)
        cov["distinct_nontrivial"] = len(self.distinct)
        cov["states"] = self.states
        cov["transitions"] = self.transitions
        cov["traces_validated_against_impl"] = self.traces
        cov["exhaustive"] = bool(exhaustive)
        cov["trusted_base"] = trusted or []
        cov["known_findings_hit"] = {k: v[1] for k, v in hit.items()}
        if not cov["samples"]:
            cov["samples"] = ["(no sample recorded)"]
        if extra:
            cov.update(extra)
        ev = {"property_id": self.pid, "tier": self.tier, "seed": seed(), "level": self.level, "coverage": cov,
              "assumptions": self.assumptions, "wall_s": round(time.time() - self.t0, 1),
              "violations": len(unknown)}
        os.makedirs(EVID, exist_ok=True)
        with open(os.path.join(EVID, self.pid + ".json"), "w") as f:
            json.dump(ev, f, indent=1, default=str)
        log("%s %s: %d evaluations, %d distinct, %d TLC states, %d impl traces, %d known-finding hits, %d new violations, %.1fs" % (
            self.pid, self.tier, cov["evaluations"], cov["distinct_nontrivial"], self.states, self.traces,
            sum(v[1] for v in hit.values()), len(unknown), ev["wall_s"]))
        return 1 if unknown else 0


def tlc_replays(module, cfg, num, depth, seed_arg=1, timeout=600, tag="REPLAY"):
    """Run TLC in simulation mode on a Replay_* module and return the JSON payloads it printed (spec -> impl)."""
    r = tlc(module, cfg, workers=1, timeout=timeout, simulate=num, depth=depth, seed_arg=seed_arg)
    out = []
    for line in r.raw.splitlines():
        if line.startswith('<<"%s", "' % tag):
            body = line[len('<<"%s", ' % tag):]
            body = body[:body.rindex(">>")]
            try:
                out.append(json.loads(json.loads(body)))
            except ValueError:
                pass
    if not out:
        sys.stdout.write(r.raw[-3000:])
        raise ToolError("no %s behaviours produced by %s" % (tag, module))
    log("TLC %s: %d behaviours for replay, %.1fs" % (module, len(out), r.wall))
    return out, r


def tlc_behaviours(module, cfg, workers=4, timeout=900, tag="REPLAY"):
    """Exhaustive TLC run of a Replay_* module whose invariant prints one JSON payload per completed behaviour."""
    r = tlc(module, cfg, workers=workers, timeout=timeout)
    if not r.ok():
        sys.stdout.write(r.raw[-3000:])
        raise ToolError("TLC %s/%s: violated=%s error=%s" % (module, cfg, r.violated, r.error))
    out = []
    for line in r.raw.splitlines():
        if line.startswith('<<"%s", "' % tag):
            body = line[len('<<"%s", ' % tag):]
            body = body[:body.rindex(">>")]
            try:
                out.append(json.loads(json.loads(body)))
            except ValueError:
                pass
    if not out:
        raise ToolError("no %s behaviours produced by %s" % (tag, module))
    log("TLC %s/%s: %d behaviours (exhaustive, %d distinct states), %.1fs" % (module, cfg, len(out), r.distinct, r.wall))
    return out, r


def apalache(module, init, inv, length, timeout=900, cwd=None):
    """One Apalache query; returns (ok, seconds). Output directories go under work/."""
    cwd = cwd or SPEC
    out = os.path.join(WORK, "apalache-out")
    os.makedirs(out, exist_ok=True)
    t0 = time.time()
    p = subprocess.run(["timeout", str(timeout), "apalache-mc", "check", "--out-dir=" + out, "--init=" + init, "--inv=" + inv,
                        "--length=%d" % length, module + ".tla"], cwd=cwd, stdout=subprocess.PIPE, stderr=subprocess.STDOUT, text=True)
    ok = p.returncode == 0 and "The outcome is: NoError" in p.stdout
    if not ok:
        sys.stdout.write(p.stdout[-2000:])
    return ok, time.time() - t0
