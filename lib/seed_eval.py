#!/usr/bin/env python3
"""Evaluate seeded changes: for each /tmp/wt-mN/mutants/<ID>/ copy patch + demonstration into /verif/seeded/<ID>/ and run the
property's checks against a scratch copy of /repo with the patch applied (lib/mutcheck.sh). Usage: seed_eval.py <ID>=<dir>:<C..,C..> ..."""
import json
import os
import shutil
import subprocess
import sys
import time

V = "/verif"


def main():
    for spec in sys.argv[1:]:
        ident, rest = spec.split("=", 1)
        src, checks = rest.rsplit(":", 1)
        checks = checks.split(",")
        dst = os.path.join(V, "seeded", ident)
        os.makedirs(dst, exist_ok=True)
        for f in ("patch.diff", "demo.rs", "demo.md", "demo_output.txt", "meta.json"):
            p = os.path.join(src, f)
            if os.path.exists(p):
                shutil.copy(p, os.path.join(dst, f if f != "meta.json" else "meta_author.json"))
        t0 = time.time()
        p = subprocess.run([os.path.join(V, "lib/mutcheck.sh"), os.path.join(dst, "patch.diff")] + checks,
                           stdout=subprocess.PIPE, stderr=subprocess.STDOUT, text=True)
        res = {}
        lines = {}
        cur = None
        for line in p.stdout.splitlines():
            if line.startswith("MUT ") and " rc=" in line:
                cur = line.split()[1]
                res[cur] = int(line.split("rc=")[1])
                lines[cur] = []
            elif cur and (line.startswith("VIOLATION") or line.startswith("TOOL-ERROR") or line.startswith("KNOWN-FINDING")):
                lines[cur].append(line[:300])
            elif line.startswith("MUT:"):
                res["patch"] = line
        out = {"id": ident, "checks_run": checks, "exit_codes": res, "reported": lines, "wall_s": round(time.time() - t0, 1),
               "detected": any(v == 1 for v in res.values() if isinstance(v, int))}
        with open(os.path.join(dst, "check_result.json"), "w") as f:
            json.dump(out, f, indent=1)
        print("SEEDED %s: %s detected=%s (%.0fs)" % (ident, res, out["detected"], out["wall_s"]), flush=True)


if __name__ == "__main__":
    main()
