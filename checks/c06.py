"""C06 - acknowledged state survives a crash at any point; recovery is a prefix."""
import walcommon


def run(tier):
    return walcommon.run("C06", tier)
