"""C05 - hostile inbound bytes are rejected safely; sender id comes from the connection."""
import copy
import os
import vlib


def run(tier):
    rep = vlib.Report("C05", tier, "exploration")
    wd = vlib.workdir("C05")
    vlib.build_harness()
    big = tier == "thorough"
    r = vlib.tlc_must_hold("Inbound", "MC_Inbound.cfg", "decision procedures satisfy the admission rules on the feature grid", workers=2)
    rep.add_tlc(r, "Inbound rule consistency")
    dev = {}
    for f in ("WindowOffByOne", "TrustClaimedFrom", "DecodeBeforeSize"):
        dev[f] = vlib.tlc_must_fail("Inbound", "MC_Inbound_%s.cfg" % f, "AsImplemented_" + f, workers=2).violated
    rep.coverage["deviation_counterexamples"] = dev
    trace = os.path.join(wd, "trace.ndjson")
    vlib.run_harness(["c05", "drive", "out=" + trace, "inputs=%d" % (120000 if big else 6000)], timeout=3000)
    res, tr = vlib.validate_trace("Trace_Inbound", "Trace_Inbound.cfg", trace, os.path.join(wd, "out.json"), timeout=3000, xmx="12g")
    if res["consumed"] != res["total"]:
        raise vlib.ToolError("trace not fully consumed")
    recs = vlib.read_ndjson(trace)
    rep.traces = 1
    kinds = {}
    for e in recs:
        if e["ev"] == "Reset":
            continue
        rep.count_case({k: v for k, v in e.items() if k != "peak"})
        kinds[e["ev"]] = kinds.get(e["ev"], 0) + 1
        if kinds[e["ev"]] <= 1:
            rep.sample(e)
    for v in res["viol"]:
        rep.violation(v["clause"], v["site"], v["cond"], {"line": v["line"], "event": recs[v["line"] - 1]})
    rep.coverage["acceptor_mismatches_total"] = res["nviol"]
    rep.coverage["inputs_by_entry_point"] = kinds
    if not rep.unknown_violations():
        selftest(recs, wd)
    # specification growth hosted here (cache eviction strategies of the adaptive layer): conformance, informational
    import growth_cachepol
    growth_cachepol.run(rep, wd, big)
    return rep.finish(
        rule="random bytes, valid messages of every kind and structure-aware mutations (bit flips, boundary bytes, truncation, extension, "
             "varint blow-ups, splices) fed to the frame parser of the receive loop, DhtNetworkManager::handle_dht_message, "
             "DhtCoreEngine::handle_request, DhtRecord::deserialize and parse_request_envelope; timestamps at every window boundary; "
             "a case = (entry point, input features, outcome), distinct by content",
        trusted=["features of an input are taken from how the harness built it and from the library's own decoders",
                 "counting allocator: peak bytes allocated during the call", "clock band [before, after] in whole seconds",
                 "the 16 MiB receive cap inside ant_quic_adapter needs a real QUIC endpoint and is not covered", "TLC as rule evaluator"],
        extra={"events": res["total"]})


def selftest(recs, wd):
    cut = recs[:500]
    idx = [i for i, e in enumerate(cut) if e["ev"] == "Frame" and e["surfaced"]]
    if not idx:
        raise vlib.ToolError("self-test: no surfaced frame in the first events")
    ref_p = os.path.join(wd, "selftest_ref.ndjson")
    vlib.write_ndjson(ref_p, cut)
    ref, _ = vlib.validate_trace("Trace_Inbound", "Trace_Inbound.cfg", ref_p, os.path.join(wd, "selftest_ref.json"))
    a = copy.deepcopy(cut)
    a[idx[0]]["source_ok"] = False
    b = copy.deepcopy(cut)
    b[idx[-1]]["off_lo"], b[idx[-1]]["off_hi"] = -400, -399
    for name, t in (("source", a), ("stale", b)):
        p = os.path.join(wd, "selftest_%s.ndjson" % name)
        vlib.write_ndjson(p, t)
        got, _ = vlib.validate_trace("Trace_Inbound", "Trace_Inbound.cfg", p, os.path.join(wd, "selftest.json"))
        if got["nviol"] <= ref["nviol"]:
            raise vlib.ToolError("self-test %s: corrupted observation was not rejected" % name)
