"""C18 - stored keys open only with the current password; tampering is detected; updates are atomic."""
import copy
import os
import vlib

SITE = {"OnlyCurrentPw": "EncryptedKeyStorageManager::retrieve_master_seed",
        "TamperDetected": "EncryptedKeyStorageManager::retrieve_master_seed",
        "CurrentPwWorks": "EncryptedKeyStorageManager::retrieve_master_seed",
        "Atomic": "EncryptedKeyStorageManager::encrypt_and_store"}
T = ("Trace_KeyStore", "Trace_KeyStore.cfg")


def run(tier):
    rep = vlib.Report("C18", tier, "model_checking")
    wd = vlib.workdir("C18")
    vlib.build_harness()
    big = tier == "thorough"
    # 1. design: exhaustive TLC on KeyStore.tla
    r = vlib.tlc_must_hold("KeyStore", "MC_KeyStore_big.cfg" if big else "MC_KeyStore.cfg",
                           "all histories incl. crash between tmp and rename, corruption, password change",
                           workers=8, coverage=not big, timeout=1500)
    rep.add_tlc(r, "KeyStore exhaustive")
    if not big:
        for a in ("Initialize", "Store", "ChangePw", "Commit", "Crash", "ClearCache", "Corrupt", "Restore", "Retrieve"):
            if r.coverage.get(a, 0) == 0:
                raise vlib.ToolError("vacuous: action %s never taken" % a)
    c = vlib.tlc_must_fail("KeyStore", "MC_KeyStore_cache.cfg", "AsImplemented_CacheBeforePassword", workers=4)
    i = vlib.tlc_must_fail("KeyStore", "MC_KeyStore_inplace.cfg", "Variant_InPlaceWrite (non-vacuity of Atomic)", workers=4)
    if c.violated not in ("OnlyCurrent", "OldPwDead") or i.violated not in ("Atomic", "NoMixture"):
        raise vlib.ToolError("deviation flags violate unexpected invariants: %s %s" % (c.violated, i.violated))
    rep.coverage["deviation_counterexamples"] = {"CacheBeforePassword": c.violated, "InPlaceWrite": i.violated}
    # 2. impl -> spec
    trace = os.path.join(wd, "trace.ndjson")
    segs, ops, masks, truncs = (150, 80, 9, 200) if big else (20, 60, 1, 40)
    vlib.run_harness(["c18", "drive", "out=" + trace, "segments=%d" % segs, "ops=%d" % ops, "masks=%d" % masks, "truncations=%d" % truncs])
    res, tr = vlib.validate_trace(T[0], T[1], trace, os.path.join(wd, "out.json"))
    if res["consumed"] != res["total"]:
        raise vlib.ToolError("trace not fully consumed")
    recs = vlib.read_ndjson(trace)
    stats = {}
    seg = 0
    hist = []
    for e in recs:
        k = e["ev"]
        if k == "Reset":
            rep.traces += 1
            seg += 1
            hist = []
        elif k == "Retrieve":
            k += ":ok" if e["res"] else ":err"
            # a case = the retrieve together with the abstract history that led to it
            rep.count_case([hash(tuple(hist)), e["id"], e["pw"], bool(e["res"])])
        elif k in ("Store", "ChangePw", "Init"):
            k += ":ok" if e["ok"] else ":err"
        elif k == "CrashProbe":
            k += ":" + e["point"]
            for p in e["probe"]:
                rep.count_case([hash(tuple(hist)), "crash", e["point"], p["id"], p["pw"], bool(p["res"])])
        elif k == "Corrupt":
            k += ":" + e["kind"]
        hist.append(k + (":%d:%d" % (e["pos"], e.get("mask", 0)) if e["ev"] == "Corrupt" else ""))
        stats[k] = stats.get(k, 0) + 1
    rep.coverage["events_by_kind"] = stats
    vacuous = [need for need in ("Retrieve:ok", "Retrieve:err", "Store:ok", "ChangePw:ok", "CrashProbe:renamed", "Corrupt:xor")
               if stats.get(need, 0) == 0]
    sweep_len = next((e["len"] for e in recs if e["ev"] == "Corrupt"), 0)
    sweep_pos = len({e["pos"] for e in recs[:next(i for i, e in enumerate(recs) if e["ev"] == "Reset" and e.get("kind") == "history")]
                     if e["ev"] == "Corrupt" and e["kind"] == "xor"})
    rep.coverage["alteration_sweep"] = {"file_bytes": sweep_len, "positions_altered": sweep_pos, "masks_per_position": masks}
    h0 = next(i for i, e in enumerate(recs) if e["ev"] == "Reset" and e.get("kind") == "history")
    rep.sample({"history_head": recs[h0:h0 + 8]})
    rep.sample({"crash_probe": next(e for e in recs if e["ev"] == "CrashProbe")})
    rep.sample({"sweep_head": recs[:9]})
    for v in res["viol"]:
        ev = recs[v["line"] - 1]
        ctx = recs[max(0, v["line"] - 8):v["line"]]
        rep.violation(v["clause"], SITE.get(v["clause"], str(v["cond"])), v["cond"],
                      {"line": v["line"], "event": ev, "context": ctx, "trace": trace})
    if res["nviol"] > len(res["viol"]):
        rep.notes.append("%d violations in total, first 25 of each (clause, cond) class kept" % res["nviol"])
    if vacuous and not _unknown_violations(rep):
        raise vlib.ToolError("driver produced no %s event" % ", ".join(vacuous))
    _selftest_guarded(rep, selftest, recs, h0, wd)
    rep.assumptions.append("crash images are composed by the harness from the real old and new file bytes in the order of writes of "
                           "encrypt_and_store (tmp, rename); with hook H4 they would be captured at the crash points themselves")
    # specification growth hosted here (upgrade staging / rollback state machines): conformance, informational (MODEL-DRIFT, never a VIOLATION)
    import growth_upgrade
    growth_upgrade.run(rep, wd, big)
    return rep.finish(
        rule="case = one retrieve (abstract history of the segment so far, seed id, password token, ok/err) or one probe of a "
             "crash image; distinct by content; every result is judged by TLC with OnlyCurrentPw / CurrentPwWorks on the model store state, crash images with "
             "Explains(old) \\/ Explains(new)",
        trusted=["interning of seed material", "password tokens = indices of a fixed list", "crash image composition (emulated H4)",
                 "TLC", "Json/IOUtils modules"],
        exhaustive=False,
        extra={"verdicts_checked": res["checked"], "events": res["total"], "violations_total_incl_known": res["nviol"],
               "reading": "an altered file byte may still yield the SAME material (unauthenticated header fields); only different "
                          "material or service to a wrong password is a violation"})


def selftest(recs, h0, wd):
    # the first history whose first successful retrieve comes before any corruption / crash probe / restore (after those an
    # error can be an admissible answer, so refusing the entitled caller would not be a contradiction)
    starts = [i for i, e in enumerate(recs) if i >= h0 and e["ev"] == "Reset" and e.get("kind") == "history"]
    cut, gi = None, None
    for st in starts[:200]:
        end = next((i for i, e in enumerate(recs) if i > st and e["ev"] == "Reset"), len(recs))
        cand = recs[st:end]
        g = next((i for i, e in enumerate(cand) if e["ev"] == "Retrieve" and e["res"]), None)
        if g is not None and not any(e["ev"] in ("Corrupt", "CrashProbe", "Restore", "Panic") for e in cand[:g]) \
                and any(e["ev"] == "CrashProbe" and any(p["res"] for p in e["probe"]) for e in cand):
            cut, gi = cand, g
            break
    if cut is None:
        raise vlib.ToolError("self-test: no history with a successful retrieve before any damage and a crash probe")
    stores = [i for i, e in enumerate(cut) if e["ev"] == "Store" and e["ok"] and i < gi and e["id"] == cut[gi]["id"]]
    # dropping the store is a contradiction only if it is the single source of the retrieved seed
    si = stores[0] if len(stores) == 1 and cut[stores[0]]["seed"] == cut[gi]["res"] \
        and not any(e["ev"] in ("Restore", "Reopen", "Init") for e in cut[:gi]) else None
    ci = next((i for i, e in enumerate(cut) if e["ev"] == "CrashProbe" and any(p["res"] for p in e["probe"])), None)
    if gi is None or ci is None:
        raise vlib.ToolError("self-test: first history has no successful retrieve / crash probe")
    a = copy.deepcopy(cut)
    a[gi]["pw"] = a[gi]["pw"] % 4 + 1                       # the same answer to another password
    b = copy.deepcopy(cut)
    b[gi]["res"] = 0                                        # the entitled caller gets an error
    c = copy.deepcopy(cut)
    for p in c[ci]["probe"]:
        if p["res"]:
            p["res"] = 999                                  # an image that is neither old nor new
            break
    variants = [("ref", cut), ("other-password-served", a), ("entitled-refused", b), ("mixed-image", c)]
    if si is not None:
        variants.append(("drop-store", [e for i, e in enumerate(cut) if i != si]))
    p = os.path.join(wd, "selftest.ndjson")
    vlib.write_ndjson(p, [e for _, t in variants for e in t])
    got, _ = vlib.validate_trace(T[0], T[1], p, os.path.join(wd, "selftest.json"))
    per = got["segv"]
    for i, (name, _) in enumerate(variants):
        if i > 0 and per[i] <= per[0]:
            raise vlib.ToolError("self-test %s: corrupted trace was not rejected (%s)" % (name, per))


def _unknown_violations(rep):
    """Violations of this run that no known finding explains (same matching as vlib.Report.finish)."""
    import re as _re
    known = [f for f in vlib.load_findings() if f.get("property") == rep.pid and f.get("status") == "known"]
    return [v for v in rep.violations
            if not any(f["clause"] == v["clause"] and f["site"] == v["site"] and _re.fullmatch(f["cond"], str(v["cond"])) for f in known)]


def _selftest_guarded(rep, fn, *args):
    """The binding self-test compares violation counts of corrupted copies with the intact copy. On a tree that
    already violates the property the comparison can be inconclusive; then the violations are the result (exit 1),
    not a tool error. On an otherwise clean run a failing self-test stays a tool error."""
    try:
        fn(*args)
    except vlib.ToolError as e:
        if _unknown_violations(rep):
            rep.notes.append("binding self-test inconclusive on a violating trace: %s" % e)
            vlib.log("self-test inconclusive (trace has new violations): %s" % e)
        else:
            raise
