"""C15 - close-group membership needs a Byzantine quorum; f liars cannot force it."""
import copy
import os
import vlib
import a_common


def run(tier):
    rep = vlib.Report("C15", tier, "model_checking")
    wd = vlib.workdir("C15")
    vlib.build_harness()
    big = tier == "thorough"
    # 1. design: the I-level transcription of the verdict function satisfies every P-level clause
    #    for every witness multiset of the grid (exhaustive), in both modes, for each candidate trust
    runs = [("MC_CloseGroup.cfg", "both modes, 72-type grid, multisets <= 3"),
            ("MC_CloseGroup_normal.cfg", "normal mode, confirm x trust grid, multisets <= 8"),
            ("MC_CloseGroup_fliars.cfg", "f=2: 5 honest deniers + every pair of liars over the 150-type grid"),
            ("MC_CloseGroup_bft4.cfg", "attack mode, threshold 3/4, multisets <= 4 around the trust floor")]
    if big:
        runs += [("MC_CloseGroup_big.cfg", "both modes, full 150-type grid, multisets <= 3"),
                 ("MC_CloseGroup_big4.cfg", "attack mode, 100-type grid, multisets <= 4"),
                 ("MC_CloseGroup_normal_big.cfg", "normal mode, multisets <= 10 (184 756 profiles)"),
                 ("MC_CloseGroup_fliars_big.cfg", "f=3: 7 honest deniers + every triple of liars")]
    if os.environ.get("VERIF_DEV_SKIP_MC"):      # developer aid for mutation runs: design part skipped, evidence incomplete
        runs = []
    for cfg, what in runs:
        r = vlib.tlc_must_hold("CloseGroup", cfg, what, workers=8, timeout=3000)
        rep.add_tlc(r, "CloseGroup " + cfg)
    dev = {}
    jobs, names = [], []
    for v in ("CountUntrusted", "SoftRegions", "IgnoreCollusion"):
        names.append(v)
        jobs.append(lambda v=v: vlib.tlc_must_fail("CloseGroup", "MC_CloseGroup_v%s.cfg" % v, "wrong design " + v, workers=1))
    for inv in ("NeverAccepted", "NeverUnanimousPremise", "NeverFLiarsPremise", "NeverCollusion"):
        names.append(inv)
        jobs.append(lambda inv=inv: vlib.tlc_must_fail("CloseGroup", "MC_CloseGroup_vac_%s.cfg" % inv, "non-vacuity probe " + inv, workers=1))
    if os.environ.get("VERIF_DEV_SKIP_MC"):
        jobs, names = [], []
    for n, r in zip(names, a_common.parallel(jobs)):
        dev[n] = r.violated
    rep.coverage["deviation_counterexamples"] = dev
    # 2. impl -> spec: verdicts of the real validate_membership judged by Trace_CloseGroup.tla
    trace = os.path.join(wd, "trace.ndjson")
    cases, configs = (1500, 60) if big else (320, 26)
    vlib.run_harness(["c15", "drive", "out=" + trace, "cases=%d" % cases, "configs=%d" % configs])
    recs = vlib.read_ndjson(trace)
    res, states = a_common.validate_sharded("Trace_CloseGroup", "Trace_CloseGroup.cfg", recs, wd, shards=6 if big else 4,
                                            sum_keys=None)
    fams = {}
    for e in recs:
        if e["ev"] == "Reset":
            rep.traces += 1
            cfg = e["cfg"]
        elif e["ev"] == "Validate":
            fams[e["fam"]] = fams.get(e["fam"], 0) + 1
            rep.count_case([cfg, e["bft"], e["cand"], e["w"]])
            for f in e["flips"]:
                rep.count_case([cfg, e["bft"], e["cand"], e["w"], f["i"]])
    rep.sample({"segment_head": [recs[0]] + [e for e in recs[1:40] if e["ev"] == "Validate" and len(e["w"]) <= 7][:3]})
    for v in res["viol"]:
        ev = recs[v["line"] - 1]
        seg = next(recs[i] for i in range(v["line"] - 1, -1, -1) if recs[i]["ev"] == "Reset")
        rep.violation(v["clause"], v["site"], v["cond"], {"line": v["line"], "config": seg, "event": ev, "trace": trace})
    if res["nviol"] > len(res["viol"]):
        rep.notes.append("%d violations in total, at most 40 per signature and shard kept, %d kept" % (res["nviol"], len(res["viol"])))
    # 3. binding self-test (on events the main validation accepted)
    if a_common.mark_bad(recs, res):
        selftest(recs, wd)
    else:
        rep.notes.append("self-test skipped: violation list capped")
    # specification growth hosted here (bucket refresh / attack-mode bookkeeping): conformance, informational (MODEL-DRIFT, never a VIOLATION)
    import growth_refresh
    growth_refresh.run(rep, wd, big)
    return rep.finish(
        rule="a case = (configuration, mode, candidate trust, witness vector) given to the real validate_membership, plus each "
             "one-flip neighbour; families: property grid, fraction boundary, f-liars, unanimous (+ one premise broken), random "
             "<= 40 witnesses, trust-share boundary; distinct by content; every verdict judged by the P-level clauses in TLC",
        trusted=["driver's construction of f64 inputs from the logged integers (n/1000, num/den)", "TLC", "Json/IOUtils modules"],
        extra={"verdicts_checked": res["checked"], "events": len(recs), "accepted": res.get("accepted"),
               "families": fams,
               "model_drift_events": res.get("drift"),
               "accepted_only_under_weaker_region_reading": res.get("strictreg"),
               "explanation_region_reading": "the code counts the regions of all confirming witnesses, trusted or not; the property "
                                             "text admits that reading, so it is tallied, not reported"})


def selftest(recs, wd):
    """Corrupt recorded verdicts; the acceptor must notice each corruption."""
    cut = recs[:500]
    muts = {}
    for i, e in enumerate(cut):
        if e["ev"] != "Validate" or e.get("_bad"):
            continue
        if "accept_fliars" not in muts and e["fam"] == "fliars" and e["bft"] and not e["v"]["valid"] \
                and "InsufficientConfirmation" in e["v"]["reasons"]:
            m = copy.deepcopy(cut)
            m[i]["v"]["valid"] = True
            m[i]["v"]["reasons"] = []
            muts["accept_fliars"] = m
        if "reject_unanimous" not in muts and e["fam"] == "unanimous" and e["v"]["valid"]:
            m = copy.deepcopy(cut)
            for x in m:
                if x["ev"] == "Validate" and x["fam"] == "unanimous" and x["v"]["valid"] and not x.get("_bad"):
                    x["v"]["valid"] = False
            muts["reject_unanimous"] = m
        if "flip_accept" not in muts and not e["v"]["valid"] and e["flips"]:
            m = copy.deepcopy(cut)
            m[i]["flips"][0]["v"]["valid"] = True
            m[i]["flips"][0]["v"]["reasons"] = []
            muts["flip_accept"] = m
    if len(muts) < 3:
        raise vlib.ToolError("self-test: trace has no usable events (%s)" % sorted(muts))
    a_common.selftest_traces("Trace_CloseGroup", "Trace_CloseGroup.cfg", wd, cut, muts)
