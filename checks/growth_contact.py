"""Specification growth: bootstrap contact bookkeeping (src/bootstrap/contact.rs) - ContactEntry, QualityMetrics,
ConnectionHistory, QuicContactInfo / QuicQualityMetrics, QualityCalculator.
Contact.tla (+ ContactRules.tla) is model-checked, Trace_Contact.tla binds it to the real code through the harness
driver `contact drive`. Mismatches are MODEL-DRIFT (informational, never a VIOLATION).

The TLC runs are independent and dominated by JVM start-up, so they run side by side in three child processes
(a process each, so that vlib's metadir names - module, pid, millisecond - cannot collide): the design check with two
workers, everything else with one; never more than four TLC workers at a time."""
import os
from concurrent.futures import ProcessPoolExecutor

import vlib

# cfg -> (invariant that must be violated, what it shows)
MUST_FAIL = [
    ("MC_Contact_FailureRefreshesLastSeen.cfg", "FailureDoesNotHelp",
     "as implemented: a failed attempt refreshes last_seen, so a failure can raise the score and un-stale a contact"),
    ("MC_Contact_ZeroLatencyNoData.cfg", "LatencyMonotone",
     "as implemented: an average latency of 0 ms counts as 'no measurement' and scores below 100 ms"),
    ("MC_Contact_NaNReputation.cfg", "Bounded",
     "as implemented: update_reputation(NaN) passes the clamp and every score becomes NaN"),
    ("MC_Contact_DecayFactorUnchecked.cfg", "DecayMonotone",
     "as implemented: apply_age_decay with a factor > 1 (or < 0) raises a score (leaves [0,1])"),
    ("MC_Contact_TypeRateZeroIsNoData.cfg", "TypeRateOneMeansNoFailure",
     "as implemented: a per-type rate of 0.0 is taken for 'no entry': failures followed by one success give 1.0"),
    ("MC_Contact_EFoldingRecency.cfg", "DocumentedHalfLife",
     "as implemented: the documented 24 h half-life is an e-folding time (0.368 after a day)"),
    ("MC_Contact_vFailureNotCounted.cfg", "CountersAddUp",
     "wrong variant: a failure that is not counted breaks successes + failures = attempts"),
]


def _design():
    return vlib.tlc_must_hold("Contact", "MC_Contact.cfg",
                              "intended design: counters, window, rates, score range, success/failure/latency/decay monotonicity", workers=2)


def _must_fail(i):
    cfg, inv, what = MUST_FAIL[i]
    x = vlib.tlc_must_fail("Contact", cfg, what, workers=1)
    if x.violated != inv:
        raise vlib.ToolError("TLC Contact/%s: expected a counterexample of %s, got %s" % (cfg, inv, x.violated))
    return cfg, x.violated


def _conformance(wd, big):
    trace = os.path.join(wd, "contact.ndjson")
    vlib.run_harness(["contact", "drive", "out=" + trace, "segments=%d" % (400 if big else 40), "ops=60"])
    res, _ = vlib.validate_trace("Trace_Contact", "Trace_Contact.cfg", trace, os.path.join(wd, "contact_out.json"))
    extra = [e for e in vlib.read_ndjson(trace) if e.get("ev") in ("Probe", "Panic")]
    return res, extra


def run(rep, wd, big):
    info = {}
    with ProcessPoolExecutor(max_workers=3) as ex:
        fd = ex.submit(_design)
        fc = ex.submit(_conformance, wd, big)
        ff = [ex.submit(_must_fail, i) for i in range(len(MUST_FAIL))]
        r = fd.result()
        res, extra = fc.result()
        info["counterexamples"] = dict(f.result() for f in ff)
    rep.add_tlc(r, "Bootstrap contact (intended)")
    info["states"] = r.distinct
    info["steps_checked"] = res["checked"]
    info["steps_time_weak"] = res.get("weak", 0)
    info["drift"] = res["nviol"]
    info["drift_samples"] = res["viol"][:5]
    info["panics_and_probes"] = extra[:5]
    if res["nviol"]:
        print("MODEL-DRIFT module=Contact steps=%d drift=%d (informational: the transition / score functions of ContactRules.tla no longer "
              "describe ContactEntry's bookkeeping)" % (res["checked"], res["nviol"]), flush=True)
    rep.coverage["growth_contact"] = info
    return info
