"""C20 - concurrent DHT operations and shutdown always complete; nothing runs after."""
import copy
import os
import vlib


def run(tier):
    rep = vlib.Report("C20", tier, "model_checking")
    wd = vlib.workdir("C20")
    vlib.build_harness()
    big = tier == "thorough"
    r = vlib.tlc_must_hold("Lifecycle", "MC_Lifecycle_big.cfg" if big else "MC_Lifecycle.cfg",
                           "all interleavings of operations, silence and stop; safety + liveness under weak fairness",
                           workers=16 if big else 8, timeout=3000, coverage=not big)
    rep.add_tlc(r, "Lifecycle exhaustive")
    x = vlib.tlc_must_fail("Lifecycle", "MC_Lifecycle_NoShutdownCheck.cfg", "AsImplemented_NoShutdownCheck", workers=4)
    rep.coverage["deviation_counterexamples"] = {"NoShutdownCheck": x.violated}
    trace = os.path.join(wd, "trace.ndjson")
    vlib.run_harness(["c20", "drive", "out=" + trace, "segments=%d" % (3000 if big else 300)], timeout=3000)
    # real threads, real time (a tenth of the timeouts): true interleavings of the tokio locks; few runs in quick, many in thorough
    rtrace = os.path.join(wd, "trace_real.ndjson")
    vlib.run_harness(["c20", "drive", "mode=real", "out=" + rtrace, "segments=%d" % (150 if big else 8), "max_nodes=8"], timeout=3000)
    with open(trace, "a") as f, open(rtrace) as g:
        f.write(g.read())
    res, tr = vlib.validate_trace("Trace_Lifecycle", "Trace_Lifecycle.cfg", trace, os.path.join(wd, "out.json"), timeout=3000)
    if res["consumed"] != res["total"]:
        raise vlib.ToolError("trace not fully consumed")
    recs = vlib.read_ndjson(trace)
    stops_inflight = 0
    for e in recs:
        rep.traces += 1
        rep.count_case(e)
        if any(o["start"] < e["stop_call"] < o["end"] or o["start"] >= e["stop_call"] for o in e["ops"]):
            stops_inflight += 1
        if len(rep.coverage["samples"]) < 3 and len(e["ops"]) >= 3:
            rep.sample(e)
    for v in res["viol"]:
        rep.violation(v["clause"], v["site"], v["cond"], {"line": v["line"], "event": recs[v["line"] - 1]})
    rep.coverage["acceptor_mismatches_total"] = res["nviol"]
    rep.coverage["runs_with_work_in_flight_at_stop"] = stops_inflight
    rep.coverage["real_time_multithread_runs"] = sum(1 for e in recs if e.get("mode") == "real")
    if stops_inflight == 0:
        raise vlib.ToolError("vacuous: stop never overlapped with an operation")
    if not rep.unknown_violations():
        selftest(recs, wd)
    # specification growth hosted here: TransportHandle peer bookkeeping (conformance, informational)
    import growth
    growth.transport(rep, wd, big)
    growth.scheduler(rep, wd, big)
    return rep.finish(
        rule="2..12 real DhtNetworkManagers on the in-memory hub in virtual time; 1..7 concurrent lookups/puts/gets on one node, inbound "
             "requests from the others, delivery delays 0..1.45 x timeout, peers silenced at seeded instants, stop() at a seeded instant; "
             "a case = one run (all operation intervals, stop interval, requests after stop, task counts)",
        trusted=["virtual time of a current-thread tokio runtime", "hub frame log for 'requests after stop'",
                 "tokio RuntimeMetrics::num_alive_tasks for 'background tasks ended'", "TLC"],
        extra={"runs": res["total"], "operations": res["checked"]})


def selftest(recs, wd):
    cut = recs[:40]
    ref_p = os.path.join(wd, "selftest_ref.ndjson")
    vlib.write_ndjson(ref_p, cut)
    ref, _ = vlib.validate_trace("Trace_Lifecycle", "Trace_Lifecycle.cfg", ref_p, os.path.join(wd, "selftest_ref.json"))
    a = copy.deepcopy(cut)
    a[0]["after_stop"] = 1
    a[0]["after_stop_ops"] = ["FindNode"]
    b = copy.deepcopy(cut)
    b[1]["stop_ret"] = b[1]["stop_call"] + (b[1]["peers"] + 2) * b[1]["timeout"] + 1000
    for name, t in (("afterstop", a), ("slowstop", b)):
        p = os.path.join(wd, "selftest_%s.ndjson" % name)
        vlib.write_ndjson(p, t)
        got, _ = vlib.validate_trace("Trace_Lifecycle", "Trace_Lifecycle.cfg", p, os.path.join(wd, "selftest.json"))
        if got["nviol"] <= ref["nviol"]:
            raise vlib.ToolError("self-test %s: corrupted run was not rejected" % name)
