"""Helpers shared by the checks C15, C16, C17 (builder A): sharded trace validation."""
import os
import threading
import vlib


def split_segments(recs):
    """Split a record list into segments, each starting at a Reset event."""
    segs = []
    for i, e in enumerate(recs):
        if e.get("ev") == "Reset" or not segs:
            segs.append([])
        segs[-1].append(i)
    return segs


def validate_sharded(module, cfg, recs, wd, shards=4, tag="shard", sum_keys=("consumed", "total", "nviol", "checked"),
                     timeout=1800):
    """Validate `recs` with `shards` TLC processes in parallel (one worker each); segments are never
    split. Returns the merged result: numeric keys summed, `viol` concatenated with `line` rewritten
    to the 1-based index in `recs`. Also returns the summed number of TLC states."""
    segs = split_segments(recs)
    shards = max(1, min(shards, len(segs)))
    target = (len(recs) + shards - 1) // shards
    groups, cur = [], []
    for s in segs:
        cur.extend(s)
        if len(cur) >= target and len(groups) < shards - 1:
            groups.append(cur)
            cur = []
    if cur:
        groups.append(cur)
    results = [None] * len(groups)
    errors = []

    def work(k):
        try:
            p = os.path.join(wd, "%s%d.ndjson" % (tag, k))
            vlib.write_ndjson(p, [recs[i] for i in groups[k]])
            results[k] = vlib.validate_trace(module, cfg, p, os.path.join(wd, "%s%d.json" % (tag, k)), timeout=timeout, xmx="3g")
        except Exception as e:  # noqa: BLE001
            errors.append(e)

    th = [threading.Thread(target=work, args=(k,)) for k in range(len(groups))]
    for t in th:
        t.start()
    for t in th:
        t.join()
    if errors:
        raise vlib.ToolError("sharded validation of %s failed: %s" % (module, errors[0]))
    merged = {"viol": []}
    states = 0
    for k, (res, r) in enumerate(results):
        states += r.distinct
        for key, val in res.items():
            if key == "viol":
                for v in val:
                    v = dict(v)
                    v["line"] = groups[k][v["line"] - 1] + 1
                    merged["viol"].append(v)
            elif isinstance(val, int) and not isinstance(val, bool):
                merged[key] = merged.get(key, 0) + val
            else:
                merged.setdefault(key, val)
    if merged.get("consumed") != merged.get("total") or merged.get("total") != len(recs):
        raise vlib.ToolError("trace not fully consumed by %s" % module)
    return merged, states


def parallel(jobs):
    """Run callables concurrently (each one starts its own TLC process); returns their results in order.
    The first exception is re-raised."""
    out = [None] * len(jobs)
    errs = []

    def work(k):
        try:
            out[k] = jobs[k]()
        except Exception as e:  # noqa: BLE001
            errs.append(e)

    th = [threading.Thread(target=work, args=(k,)) for k in range(len(jobs))]
    for t in th:
        t.start()
    for t in th:
        t.join()
    if errs:
        raise errs[0]
    return out


def selftest_traces(module, cfg, wd, ref, muts):
    """Binding self-test: every corrupted copy in `muts` (name -> records) must get more violations than `ref`."""
    names = ["ref"] + sorted(muts)
    allr = dict(muts)
    allr["ref"] = ref

    def job(name):
        def f():
            p = os.path.join(wd, "selftest_%s.ndjson" % name)
            vlib.write_ndjson(p, allr[name])
            res, _ = vlib.validate_trace(module, cfg, p, os.path.join(wd, "selftest_%s.json" % name), xmx="2g")
            return res
        return f

    got = dict(zip(names, parallel([job(n) for n in names])))
    for n in sorted(muts):
        if got[n]["nviol"] <= got["ref"]["nviol"]:
            raise vlib.ToolError("self-test %s: corrupted trace was not rejected by %s" % (n, module))
    return got
