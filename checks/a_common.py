"""Helpers shared by the checks C15, C16, C17 (builder A): sharded trace validation."""
import os
import threading
import time
import vlib


def split_segments(recs):
    """Split a record list into segments, each starting at a Reset event."""
    segs = []
    for i, e in enumerate(recs):
        if e.get("ev") == "Reset" or not segs:
            segs.append([])
        segs[-1].append(i)
    return segs


def validate_sharded(module, cfg, recs, wd, shards=4, tag="shard", sum_keys=("consumed", "total", "nviol", "checked"),
                     timeout=1800):
    """Validate `recs` with `shards` TLC processes in parallel (one worker each); segments are never
    split. Returns the merged result: numeric keys summed, `viol` concatenated with `line` rewritten
    to the 1-based index in `recs`. Also returns the summed number of TLC states."""
    segs = split_segments(recs)
    shards = max(1, min(shards, len(segs)))
    target = (len(recs) + shards - 1) // shards
    groups, cur = [], []
    for s in segs:
        cur.extend(s)
        if len(cur) >= target and len(groups) < shards - 1:
            groups.append(cur)
            cur = []
    if cur:
        groups.append(cur)
    def job(k):
        def f():
            p = os.path.join(wd, "%s%d.ndjson" % (tag, k))
            vlib.write_ndjson(p, [recs[i] for i in groups[k]])
            return vlib.validate_trace(module, cfg, p, os.path.join(wd, "%s%d.json" % (tag, k)), timeout=timeout, xmx="3g")
        return f

    results = parallel([job(k) for k in range(len(groups))])
    merged = {"viol": []}
    states = 0
    for k, (res, r) in enumerate(results):
        states += r.distinct
        for key, val in res.items():
            if key == "viol":
                for v in val:
                    v = dict(v)
                    v["line"] = groups[k][v["line"] - 1] + 1
                    merged["viol"].append(v)
            elif key == "badlines":
                merged.setdefault("badlines", []).extend(groups[k][x - 1] + 1 for x in val)
            elif isinstance(val, int) and not isinstance(val, bool):
                merged[key] = merged.get(key, 0) + val
            else:
                merged.setdefault(key, val)
    if merged.get("consumed") != merged.get("total") or merged.get("total") != len(recs):
        raise vlib.ToolError("trace not fully consumed by %s" % module)
    return merged, states


def parallel(jobs):
    """Run callables concurrently, each in a forked child process (vlib names TLC's metadir by pid and
    millisecond, so concurrent TLC runs must come from different pids). Returns the results in order;
    the first exception is re-raised."""
    import multiprocessing
    ctx = multiprocessing.get_context("fork")
    procs = []
    for k, job in enumerate(jobs):
        rx, tx = ctx.Pipe(duplex=False)

        def child(job=job, tx=tx):
            try:
                tx.send(("ok", job()))
            except vlib.ToolError as e:
                tx.send(("tool", str(e)))
            except Exception as e:  # noqa: BLE001
                tx.send(("exc", repr(e)))
            finally:
                tx.close()

        p = ctx.Process(target=child)
        p.start()
        tx.close()
        procs.append((p, rx))
    out, errs = [], []
    for p, rx in procs:
        try:
            kind, val = rx.recv()
        except EOFError:
            kind, val = "exc", "worker died"
        p.join()
        if kind == "ok":
            out.append(val)
        else:
            out.append(None)
            errs.append(vlib.ToolError(val) if kind == "tool" else vlib.ToolError("parallel job failed: %s" % val))
    if errs:
        raise errs[0]
    return out


def selftest_traces(module, cfg, wd, ref, muts):
    """Binding self-test: every corrupted copy in `muts` (name -> records) must get more violations than `ref`."""
    names = ["ref"] + sorted(muts)
    allr = dict(muts)
    allr["ref"] = ref

    def job(name):
        def f():
            p = os.path.join(wd, "selftest_%s.ndjson" % name)
            vlib.write_ndjson(p, allr[name])
            res, _ = vlib.validate_trace(module, cfg, p, os.path.join(wd, "selftest_%s.json" % name), xmx="2g")
            return res
        return f

    got = dict(zip(names, parallel([job(n) for n in names])))
    for n in sorted(muts):
        key = lambda r: sorted((v["line"], v["clause"]) for v in r["viol"])  # noqa: E731
        if got[n]["nviol"] <= got["ref"]["nviol"] and key(got[n]) == key(got["ref"]):
            raise vlib.ToolError("self-test %s: corrupted trace was not rejected by %s" % (n, module))
    return got


def mark_bad(recs, out):
    """Mark the events the main validation already rejected (self-test corruptions avoid them).
    Returns False when the list of rejected lines was capped, i.e. not every rejected event is known."""
    bad = out.get("badlines", [])
    for x in bad:
        recs[x - 1]["_bad"] = True
    return out["nviol"] <= len(bad)
