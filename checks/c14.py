"""C14 - join and request rate limits hold for every arrival pattern."""
import copy
import os
import vlib


def run(tier):
    rep = vlib.Report("C14", tier, "model_checking")
    wd = vlib.workdir("C14")
    vlib.build_harness()
    big = tier == "thorough"
    # 1. design: RateLimit.tla, every arrival sequence over the horizon, every burst/max pair
    if not os.environ.get("VERIF_SKIP_DESIGN"):   # (mutation experiments only: skip the design-level TLC runs)
        r = vlib.tlc_must_hold("RateLimit", "MC_RateLimit_big.cfg" if big else "MC_RateLimit.cfg",
                               "shared bucket twice a key's budget (join shape)", workers=8, timeout=3000)
        rep.add_tlc(r, "RateLimit exhaustive, GMul=2")
        r1 = vlib.tlc_must_hold("RateLimit", "MC_RateLimit_g1.cfg", "shared bucket = key budget (check_ip shape)",
                                workers=8, coverage=True, timeout=3000)
        rep.add_tlc(r1, "RateLimit exhaustive, GMul=1")
        import re
        taken = {m.group(1): int(m.group(2)) for m in re.finditer(r"^<(\w+) line [^>]*>: (\d+):\d+", r1.raw, re.M)}
        for a in ("Tick", "Request"):
            if taken.get(a, 0) == 0:
                raise vlib.ToolError("vacuous: action %s never taken" % a)
        rep.coverage["actions_taken"] = taken
        dev = {}
        for cfg, flag in (("MC_RateLimit_refill.cfg", "Variant_RefillFromWindowStart"), ("MC_RateLimit_nocap.cfg", "Variant_NoCap"),
                          ("MC_RateLimit_shared.cfg", "Variant_SharedBucket")):
            dev[flag] = vlib.tlc_must_fail("RateLimit", cfg, flag, workers=4).violated
        rep.coverage["deviation_counterexamples"] = dev
        # inductive invariant (Apalache) over UNBOUNDED time and history length: admitted <= burst + refill earned, window count <= max
        obligations = [("Init", "IndInv", 0), ("IndInv", "IndInv", 1), ("IndInv", "Props", 0)]
        for init, inv, length in obligations:
            ok, secs = vlib.apalache("RateLimit_apalache", init, inv, length)
            if not ok:
                raise vlib.ToolError("Apalache RateLimit_apalache: %s => %s (length %d) not discharged" % (init, inv, length))
            vlib.log("Apalache RateLimit_apalache %s => %s length %d: ok, %.1fs" % (init, inv, length, secs))
        rep.coverage["inductive_invariant"] = {"module": "RateLimit_apalache", "obligations": len(obligations), "discharged": len(obligations),
                                               "meaning": "one bucket (burst 1..3, max 1..3 per window of 4 ticks): n*W + tokens <= burst*W + refill earned, "
                                                          "window count <= max, tokens <= burst, for any number of requests and any duration (integers unbounded)"}

    # 2. impl -> spec: recorded request histories (sequential and 8 threads)
    trace = os.path.join(wd, "trace.ndjson")
    segs, ops = (400, 250) if big else (64, 150)
    vlib.run_harness(["c14", "drive", "out=" + trace, "segments=%d" % segs, "ops=%d" % ops])
    res, _ = vlib.validate_trace("Trace_RateLimit", "Trace_RateLimit.cfg", trace, os.path.join(wd, "out.json"))
    if res["consumed"] != res["total"]:
        raise vlib.ToolError("trace not fully consumed")
    recs = vlib.read_ndjson(trace)
    api = "?"
    cfg = None
    admitted = 0
    conc = 0
    for e in recs:
        if e["ev"] == "Reset":
            rep.traces += 1
            api, cfg = e["api"], e["lv"]
            conc += 0 if e["seq"] else 1
        elif e["ev"] == "Req":
            admitted += 1 if e["ok"] else 0
            rep.count_case([api, cfg, e["ok"], e["keys"], e["by"], e["ta"] - e["tb"], e["tb"]])
    rep.sample({"segment_head": recs[:6]})
    if admitted == 0 or conc == 0:
        raise vlib.ToolError("driver produced no admitted request or no multi-threaded segment")
    for v in res["viol"]:
        ev = recs[v["line"] - 1]
        head = next(recs[i] for i in range(v["line"] - 1, -1, -1) if recs[i]["ev"] == "Reset")
        rep.violation(v["clause"], head["api"], v["cond"],
                      {"line": v["line"], "event": ev, "segment": head, "context": recs[max(0, v["line"] - 10):v["line"]], "trace": trace})
    if res["nviol"] > len(res["viol"]):
        rep.notes.append("%d violations in total, first %d kept" % (res["nviol"], len(res["viol"])))
    selftest(recs, wd)
    return rep.finish(
        rule="a case = one request (limiter kind, configuration, outcome, buckets touched, denying level, tick band); distinct by "
             "content; every admission judged by BurstBound / WindowBound over all suffixes of its buckets' admission lists in TLC",
        trusted=["harness prefix projection (/64, /48, /24 from the address octets)", "tick conversion (floor before, ceil+1 after the call)",
                 "events ordered by the tick before the call", "TLC", "Json/IOUtils modules"],
        extra={"requests_checked": res["checked"], "admitted": admitted, "multi_threaded_segments": conc,
               "one_sided": "upper bounds only; the lower bound KeyIsolation is time-free and used in single-threaded segments only"})


def segments(recs):
    out, cur = [], None
    for e in recs:
        if e["ev"] == "Reset":
            if cur:
                out.append(cur)
            cur = [e]
        elif cur is not None:
            cur.append(e)
    if cur:
        out.append(cur)
    return out


def selftest(recs, wd):
    """(a) every denial of a burst-limited sequential segment turned into an admission, (b) the first request of a
    fresh bucket turned into a denial: the acceptor must object to both."""
    segs = segments(recs)
    a = b = None
    for s in segs:
        head = s[0]
        if not head["seq"]:
            continue
        tight = all(lv[2] <= lv[1] and lv[2] > 0 for lv in head["lv"])
        den = [e for e in s[1:] if e["ev"] == "Req" and not e["ok"]]
        if a is None and tight and len(den) >= 3:
            a = copy.deepcopy(s)
            k = 0
            for e in a[1:]:
                if e["ev"] == "Req" and not e["ok"] and k < 20:
                    e["ok"] = True
                    k += 1
            a_ref = s
        first = s[1] if len(s) > 1 else None
        if b is None and first and first["ev"] == "Req" and first["ok"]:
            b = copy.deepcopy(s)
            b[1]["ok"] = False
            b[1]["by"] = "selftest"
            b_ref = s
    if a is None or b is None:
        raise vlib.ToolError("self-test: no usable segment")
    p = os.path.join(wd, "selftest.ndjson")
    vlib.write_ndjson(p, a_ref + a + b_ref + b)
    got, _ = vlib.validate_trace("Trace_RateLimit", "Trace_RateLimit.cfg", p, os.path.join(wd, "selftest.json"))
    if got["nviol"] > len(got["viol"]):
        vlib.log("self-test skipped: too many violations to compare")
        return
    n1, n2, n3 = len(a_ref), len(a_ref) + len(a), len(a_ref) + len(a) + len(b_ref)
    cnt = [0, 0, 0, 0]
    for v in got["viol"]:
        cnt[0 if v["line"] <= n1 else 1 if v["line"] <= n2 else 2 if v["line"] <= n3 else 3] += 1
    if cnt[1] <= cnt[0] or cnt[3] <= cnt[2]:
        raise vlib.ToolError("self-test: corrupted trace was not rejected (intact/over-admitting %d/%d, intact/denied-first %d/%d)" % tuple(cnt))
