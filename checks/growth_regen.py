"""Specification growth module Regen: the identity regeneration decision logic (RegenerationTrigger in
src/identity/regeneration.rs: blocking conditions, attempt window, exponential backoff with jitter, circuit breaker,
rejected prefixes) and the rejection bookkeeping it consumes (RejectionReason / RejectionInfo / RejectionHistory in
src/identity/rejection.rs).
Regen.tla (+ RegenRules.tla) is model-checked, Trace_Regen.tla binds it to the real code through the harness driver
`regen drive` (real time with a clock band). Mismatches are MODEL-DRIFT (informational, never a VIOLATION).

The TLC runs are independent and dominated by JVM start-up, so they run side by side in child processes (a process each,
so that vlib's scratch directories cannot collide): the design check with two workers, everything else with one; never
more than four TLC workers at a time."""
import os
from concurrent.futures import ProcessPoolExecutor

import vlib

# cfg -> (invariant that must be violated, what it shows)
MUST_FAIL = [
    ("MC_Regen_JitterAboveMax.cfg", "BackoffWithinCap",
     "as implemented: jitter is added after the clamp to max_delay, the backoff exceeds the documented maximum"),
    ("MC_Regen_OpenAfterReset.cfg", "NoProceedWhenGated",
     "as implemented: is_circuit_open() stays true after circuit_breaker_reset while evaluate_* proceeds"),
    ("MC_Regen_RegionLimitNotBlocking.cfg", "ReasonClasses",
     "as implemented: RegionLimit ('regeneration won't help') is a diversity constraint that is_blocking() does not list"),
    ("MC_Regen_RateLimitedAsDiversity.cfg", "TransientNotBlocked",
     "as implemented: RateLimited ('should wait before retrying') is answered Blocked{DiversityConstraint}, retry_after ignored"),
    ("MC_Regen_IgnoresRecommendation.cfg", "ProceedFollowsRecommendation",
     "as implemented: evaluate_rejection proceeds although RejectionInfo::should_regenerate() is false"),
    ("MC_Regen_DefaultKeepsNothing.cfg", "HRecordKeepsLatest",
     "as implemented: RejectionHistory::default() has capacity 0 and keeps nothing (PersistentState::new() uses it)"),
    ("MC_Regen_vCriticalSkipsCooldown.cfg", "NoProceedWhenGated",
     "wrong variant: a NodeIdCollision that ignores the backoff proceeds during the cooldown"),
]
MUST_FAIL_BIG = [
    ("MC_Regen_vac_NeverMaxAttempts.cfg", "Vac_NeverMaxAttempts", "non-vacuity: the attempt maximum is reached within the bounds"),
    ("MC_Regen_vac_NeverReopens.cfg", "Vac_NeverReopens", "non-vacuity: the circuit re-opens after its reset time within the bounds"),
]


def _design(cfg, what, workers):
    return vlib.tlc_must_hold("Regen", cfg, what, workers=workers)


def _must_fail(entry):
    cfg, inv, what = entry
    x = vlib.tlc_must_fail("Regen", cfg, what, workers=1)
    if x.violated != inv:
        raise vlib.ToolError("TLC Regen/%s: expected a counterexample of %s, got %s" % (cfg, inv, x.violated))
    return cfg, x.violated


def _conformance(wd, big):
    trace = os.path.join(wd, "regen.ndjson")
    vlib.run_harness(["regen", "drive", "out=" + trace, "segments=%d" % (480 if big else 48), "ops=60"])
    res, _ = vlib.validate_trace("Trace_Regen", "Trace_Regen.cfg", trace, os.path.join(wd, "regen_out.json"))
    # witnesses of the reported deviations in this very run (informational; read off the trace, no judgement)
    wit = {"backoff_above_max_delay": 0, "proceed_while_is_circuit_open": 0, "rate_limited_blocked_as_diversity": 0,
           "proceed_without_recommendation": 0, "default_history_dropped_record": 0, "panics": 0}
    cfg, hkind = None, None
    for e in vlib.read_ndjson(trace):
        if e.get("ev") == "Reset":
            cfg, hkind = e["cfg"], e["hkind"]
        elif e.get("ev") == "Panic":
            wit["panics"] += 1
        elif e.get("ev") == "Step":
            op = e["op"]
            if op == "attempt" and cfg["base"] <= cfg["maxd"] and e["post"]["bo"] > cfg["maxd"] + 3:
                wit["backoff_above_max_delay"] += 1
            elif op in ("evalrej", "evalfit") and e["d"]["kind"] == "Proceed" and e["post"]["open"]:
                wit["proceed_while_is_circuit_open"] += 1
            if op == "evalrej" and e["r"] == 9 and e["d"]["why"] == "DiversityConstraint":
                wit["rate_limited_blocked_as_diversity"] += 1
            if op == "evalrej" and e["d"]["kind"] == "Proceed" and not e["rec"]:
                wit["proceed_without_recommendation"] += 1
            if op == "hrecord" and hkind == "default" and not e["hpost"]:
                wit["default_history_dropped_record"] += 1
    return res, wit


def run(rep, wd, big):
    info = {}
    fails = MUST_FAIL + (MUST_FAIL_BIG if big else [])
    with ProcessPoolExecutor(max_workers=3) as ex:
        fd = ex.submit(_design, "MC_Regen.cfg",
                       "intended design: no proceed while gated, permanent reasons never retried, backoff bounds and growth, "
                       "circuit breaker, counters, history rules", 2)
        fc = ex.submit(_conformance, wd, big)
        ff = [ex.submit(_must_fail, e) for e in fails]
        r = fd.result()
        res, wit = fc.result()
        info["counterexamples"] = dict(f.result() for f in ff)
    rep.add_tlc(r, "Identity regeneration trigger (intended)")
    info["states"] = r.distinct
    if big:
        rb = _design("MC_Regen_deep.cfg", "intended design, 6 operations and 7 ticks", 4)
        rep.add_tlc(rb, "Identity regeneration trigger (intended, deeper)")
        info["states"] += rb.distinct
    info["steps_checked"] = res["checked"]
    info["drift"] = res["nviol"]
    info["drift_samples"] = res["viol"][:5]
    info["deviation_witnesses_in_trace"] = wit
    if res["nviol"]:
        print("MODEL-DRIFT module=Regen steps=%d drift=%d (informational: the decision / transition functions of RegenRules.tla no longer "
              "describe RegenerationTrigger / RejectionHistory)" % (res["checked"], res["nviol"]), flush=True)
    rep.coverage["growth_regen"] = info
    return info
