"""Specification growth module NodeAge: the anti-Sybil node age verification (NodeAgeCategory, NodeAgeConfig, NodeAgeRecord,
NodeAgeVerifier in src/dht/node_age_verifier.rs). NodeAge.tla (exhaustive) + Trace_NodeAge.tla (conformance of the real
object in real time with clock bands, harness module `nodeage`). Mismatches are MODEL-DRIFT (informational, never a VIOLATION)."""
import os
import threading
import time
from concurrent.futures import ThreadPoolExecutor

import vlib

# (cfg, what, invariant that must be violated)
DEVIATIONS = [
    ("MC_NodeAge_CategoryHardcoded.cfg", "as implemented: category()/flags use literal thresholds, `passes` the configured ones", "VerifyFlagsAgree"),
    ("MC_NodeAge_CategoryHardcoded_lists.cfg", "as implemented: eligibility lists are not the active nodes whose category allows the operation", "ListsExact"),
    ("MC_NodeAge_UptimeSinceLastSeen.cfg", "as implemented: register_node on an active node shortens the recorded uptime", "UptimeIsPresence"),
    ("MC_NodeAge_UnknownReasonWhenPassing.cfg", "as implemented: an unknown node passes with a failure reason (enforcement off)", "ReasonIffFails"),
    ("MC_NodeAge_CleanupByLastSeen.cfg", "as implemented: retention measured from the last registration, not the departure", "CleanupOnlyLongDeparted"),
    ("MC_NodeAge_RelaxedByReplOnly.cfg", "as implemented: is_relaxed although critical operations stay age-gated", "RelaxedAdmitsAll"),
    ("MC_NodeAge_HugeRetentionPanics.cfg", "as implemented: cleanup_old_records(Duration::MAX) panics", "NoPanic"),
    ("MC_NodeAge_vRejoinResetsAge.cfg", "wrong variant: a rejoin restarts first_seen", "CategoryMonotone"),
]
VACUITY = [
    ("MC_NodeAge_vac_NeverVeteran.cfg", "non-vacuity: a veteran is reached within the bounds", "Vac_NeverVeteran"),
    ("MC_NodeAge_vac_NeverRejoin.cfg", "non-vacuity: a rejoin happens within the bounds", "Vac_NeverRejoin"),
    ("MC_NodeAge_vac_NeverRemoved.cfg", "non-vacuity: cleanup removes a record within the bounds", "Vac_NeverRemoved"),
]

_START = threading.Lock()


def _spaced(fn, *a, **kw):
    """starts of TLC within one process are spaced out"""
    with _START:
        time.sleep(0.02)
    return fn(*a, **kw)


def _conformance(wd, big):
    """the driver runs in real time (the segments sleep concurrently); then the acceptor"""
    trace = os.path.join(wd, "nodeage.ndjson")
    vlib.run_harness(["nodeage", "drive", "out=" + trace, "segments=%d" % (960 if big else 96), "ops=24", "par=96"])
    return _spaced(vlib.validate_trace, "Trace_NodeAge", "Trace_NodeAge.cfg", trace, os.path.join(wd, "nodeage_out.json"))


def run(rep, wd, big):
    info = {}
    # at most 4 TLC workers at any time: the design run takes 2, the other two lanes run the driver + acceptor and the
    # counterexample configurations with one worker each
    with ThreadPoolExecutor(max_workers=3) as pool:
        design = pool.submit(_spaced, vlib.tlc_must_hold, "NodeAge", "MC_NodeAge.cfg",
                             "intended design: category monotone, lists = active nodes of an allowed category, verify agrees with lists, "
                             "stats add up, uptime = presence, cleanup only long-departed, relaxed admits all", workers=2)
        conf = pool.submit(_conformance, wd, big)
        fails = [(cfg, inv, pool.submit(_spaced, vlib.tlc_must_fail, "NodeAge", cfg, what, workers=1))
                 for cfg, what, inv in DEVIATIONS + (VACUITY if big else [])]
        r = design.result()
        res, _ = conf.result()
        results = [(cfg, inv, f.result()) for cfg, inv, f in fails]
    rep.add_tlc(r, "Node age verification (intended design)")
    info["states"] = r.distinct
    info["counterexamples"] = {}
    for cfg, inv, x in results:
        if x.violated != inv:
            raise vlib.ToolError("TLC NodeAge/%s: expected a counterexample of %s, got %s" % (cfg, inv, x.violated))
        info["counterexamples"][cfg] = x.violated
    if big:
        rb = vlib.tlc_must_hold("NodeAge", "MC_NodeAge_big.cfg", "intended design, 3 nodes, 4 seconds, 6 operations", workers=4, timeout=1800)
        rep.add_tlc(rb, "Node age verification (MC_NodeAge_big.cfg)")
        info["states"] += rb.distinct
    info["steps_checked"] = res["checked"]
    info["drift"] = res["nviol"]
    info["drift_samples"] = res["viol"][:5]
    if res["nviol"]:
        print("MODEL-DRIFT module=NodeAge steps=%d drift=%d (informational: the functions of NodeAgeRules.tla no longer "
              "describe NodeAgeVerifier / NodeAgeRecord)" % (res["checked"], res["nviol"]), flush=True)
    rep.coverage["growth_nodeage"] = info
    return info
