"""Specification growth beyond the listed properties (DESIGN.md section 9): modules that are model-checked and bound to the
real code by conformance, reported as MODEL-DRIFT (informational, never a VIOLATION) in the evidence of the check that hosts them."""
import os
import vlib


def transport(rep, wd, big):
    """Peer bookkeeping of TransportHandle: Transport.tla + Trace_Transport.tla (hosted by C20)."""
    info = {}
    r = vlib.tlc_must_hold("Transport", "MC_Transport.cfg", "intended design: bookkeeping invariants + balanced events", workers=8)
    rep.add_tlc(r, "Transport lifecycle (intended)")
    r2 = vlib.tlc_must_hold("Transport", "MC_Transport_asimpl.cfg", "as implemented: bookkeeping invariants", workers=8)
    rep.add_tlc(r2, "Transport lifecycle (as implemented)")
    x = vlib.tlc_must_fail("Transport", "MC_Transport_double.cfg", "as implemented: a peer can be announced as disconnected twice", workers=4)
    info["as_implemented_counterexample"] = x.violated
    trace = os.path.join(wd, "transport.ndjson")
    vlib.run_harness(["tl", "drive", "out=" + trace, "segments=%d" % (400 if big else 40), "ops=50"])
    res, _ = vlib.validate_trace("Trace_Transport", "Trace_Transport.cfg", trace, os.path.join(wd, "transport_out.json"))
    info["steps_checked"] = res["checked"]
    info["drift"] = res["nviol"]
    info["drift_samples"] = res["viol"][:5]
    if res["nviol"]:
        print("MODEL-DRIFT module=Transport steps=%d drift=%d (informational: the transition functions of TransportRules.tla no longer "
              "describe TransportHandle's peer bookkeeping)" % (res["checked"], res["nviol"]), flush=True)
    rep.coverage["growth_transport_lifecycle"] = info
    return info


def scheduler(rep, wd, big):
    """Task state machine of MaintenanceScheduler: Scheduler.tla + Trace_Scheduler.tla (hosted by C20)."""
    info = {}
    r = vlib.tlc_must_hold("Scheduler", "MC_Scheduler.cfg", "hand-out rule, no double hand-out, counters grow", workers=4)
    rep.add_tlc(r, "Maintenance scheduler")
    x = vlib.tlc_must_fail("Scheduler", "MC_Scheduler_die.cfg", "as implemented: an executor that dies leaves its task running for ever", workers=2)
    info["as_implemented_counterexample"] = x.violated
    trace = os.path.join(wd, "scheduler.ndjson")
    vlib.run_harness(["sched", "drive", "out=" + trace, "segments=%d" % (200 if big else 20), "ops=80"])
    res, _ = vlib.validate_trace("Trace_Scheduler", "Trace_Scheduler.cfg", trace, os.path.join(wd, "scheduler_out.json"))
    info["observations_checked"] = res["checked"]
    info["drift"] = res["nviol"]
    info["drift_samples"] = res["viol"][:5]
    if res["nviol"]:
        print("MODEL-DRIFT module=Scheduler observations=%d drift=%d (informational)" % (res["checked"], res["nviol"]), flush=True)
    rep.coverage["growth_maintenance_scheduler"] = info
    return info


def wire(rep, wd, frames_path):
    """Message level of the DHT protocol: Wire.tla + Trace_Wire.tla over the hub's frame log (hosted by C01)."""
    info = {}
    r = vlib.tlc_must_hold("Wire", "MC_Wire.cfg", "requests with fresh ids, at most one response per delivered request", workers=4)
    rep.add_tlc(r, "Wire protocol")
    x = vlib.tlc_must_fail("Wire", "MC_Wire_twice.cfg", "a node that answers a request twice", workers=2)
    info["wrong_variant_counterexample"] = x.violated
    res, _ = vlib.validate_trace("Trace_Wire", "Trace_Wire.cfg", frames_path, os.path.join(wd, "wire_out.json"), timeout=3000)
    info["frames_checked"] = res["checked"]
    info["drift"] = res["nviol"]
    info["drift_samples"] = res["viol"][:5]
    if res["nviol"]:
        print("MODEL-DRIFT module=Wire frames=%d drift=%d (informational)" % (res["checked"], res["nviol"]), flush=True)
    rep.coverage["growth_wire_protocol"] = info
    return info
