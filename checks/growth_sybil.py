"""Specification growth module Sybil: the Sybil detector (SybilDetectorConfig, BehaviorProfile, SybilEvidence, SybilGroup,
SybilDetector in src/dht/sybil_detector.rs): join records per /24 or /48 with the burst window, id-prefix clustering,
behavioural similarity, resource asymmetry, how run_analysis turns evidence into groups, the scores, clear_groups and
cleanup_old_records.
Sybil.tla (+ SybilRules.tla) is model-checked, Trace_Sybil.tla binds it to the real code through the harness driver
`sybil drive` (real time with a clock band; the acceptor carries the detector's private maps as a set of candidate states).
Mismatches are MODEL-DRIFT (informational, never a VIOLATION).

The TLC runs are independent and dominated by JVM start-up, so they run side by side in child processes: the design check
with two workers, everything else with one; never more than four TLC workers at a time."""
import json
import os
from concurrent.futures import ProcessPoolExecutor

import vlib

# cfg -> (invariant that must be violated, what it shows)
MUST_FAIL = [
    ("MC_Sybil_BurstCountsRepeats.cfg", "BurstDistinctPeers",
     "as implemented: check_subnet_bursts counts join records, one peer joining `threshold` times is a burst of `threshold` nodes"),
    ("MC_Sybil_BurstNotAged.cfg", "BurstExact",
     "as implemented: check_subnet_bursts never reads the clock, a burst stays flagged long after its window (until the subnet's next join)"),
    ("MC_Sybil_DepartedKeepTriggering.cfg", "EvidenceNamesPresentOnly",
     "as implemented: record_leave keeps the join records and the profile, departed peers keep being named by the detectors"),
    ("MC_Sybil_EvidenceAccumulates.cfg", "AnalysisIdempotent",
     "as implemented: every run_analysis appends the same evidence again (confidence 1.0 after five runs, unbounded evidence list)"),
    ("MC_Sybil_NoGroupMerge.cfg", "GroupsDisjoint",
     "as implemented: evidence that connects two groups extends the first only, a peer ends up in both"),
    ("MC_Sybil_OverallCountsMemberships.cfg", "OverallIsSuspectedFraction",
     "as implemented: overall_risk_score sums the group sizes (departed and doubly listed members) over the present peers"),
    ("MC_Sybil_ZeroAverageNaN.cfg", "IdenticalHistoriesSimilar",
     "as implemented: two zero averages compare as 0/0 = NaN -> similarity 0: peers that always send empty responses are not similar"),
    ("MC_Sybil_HugeAgePanics.cfg", "NoPanic",
     "as implemented: cleanup_old_records panics when max_record_age = Duration::MAX"),
    ("MC_Sybil_vStrictThreshold.cfg", "BurstExact",
     "wrong variant: a burst needs more joins than the threshold"),
]
MUST_FAIL_BIG = [
    ("MC_Sybil_vac_NeverBurst.cfg", "Vac_NeverBurst", "non-vacuity: a burst is reached within the bounds"),
    ("MC_Sybil_vac_NeverTwoGroups.cfg", "Vac_NeverTwoGroups", "non-vacuity: two groups are reached within the bounds"),
    ("MC_Sybil_vac_NeverForgets.cfg", "Vac_NeverForgets", "non-vacuity: cleanup forgets a record within the bounds"),
    ("MC_Sybil_vac_NeverBehav.cfg", "Vac_NeverBehav", "non-vacuity: behavioural clustering is reached within the bounds"),
]


def _design(cfg, what, workers, timeout=900):
    return vlib.tlc_must_hold("Sybil", cfg, what, workers=workers, timeout=timeout)


def _must_fail(entry):
    cfg, inv, what = entry
    x = vlib.tlc_must_fail("Sybil", cfg, what, workers=1)
    if x.violated != inv:
        raise vlib.ToolError("TLC Sybil/%s: expected a counterexample of %s, got %s" % (cfg, inv, x.violated))
    return cfg, x.violated


def _conformance(wd, big):
    trace = os.path.join(wd, "sybil.ndjson")
    vlib.run_harness(["sybil", "drive", "out=" + trace, "segments=%d" % (800 if big else 80), "ops=28", "par=32"])
    res, _ = vlib.validate_trace("Trace_Sybil", "Trace_Sybil.cfg", trace, os.path.join(wd, "sybil_out.json"))
    # witnesses of the reported deviations in this very run (informational; read off the trace, no judgement)
    wit = {"burst_of_fewer_distinct_peers_than_threshold": 0, "burst_shown_after_its_window": 0, "departed_peer_named_by_detector": 0,
           "group_holds_same_evidence_twice": 0, "peer_in_two_groups": 0, "overall_above_suspected_fraction": 0,
           "cleanup_panics": 0, "panics": 0}
    cfg, known, lastjoin = None, set(), {}
    for e in vlib.read_ndjson(trace):
        if e.get("ev") == "Reset":
            cfg, known, lastjoin = e["cfg"], set(), {}
        elif e.get("ev") == "Panic":
            wit["panics"] += 1
        elif e.get("ev") == "Step" and "post" in e:
            op, o = e["op"], e["post"]
            if op == "Join":
                known.add(e["p"])
                if e["ip"]:
                    lastjoin[tuple(e["ip"][:4])] = e["t1"]
            elif op == "Leave":
                known.discard(e["p"])
            elif op == "Cleanup" and e["panic"]:
                wit["cleanup_panics"] += 1
            if any(len(set(b["peers"])) < cfg["bthr"] for b in o["bursts"]):
                wit["burst_of_fewer_distinct_peers_than_threshold"] += 1
            if any(e["t0"] - lastjoin.get(tuple(b["key"]), e["t0"]) > cfg["win"] + 1000 for b in o["bursts"]):
                wit["burst_shown_after_its_window"] += 1
            named = set(p for b in o["bursts"] for p in b["peers"]) | set(p for b in o["behav"] for p in b["ps"]) | set(a["p"] for a in o["asym"])
            if named - known:
                wit["departed_peer_named_by_detector"] += 1
            if any(len(g["ev"]) != len(set(json.dumps(x, sort_keys=True) for x in g["ev"])) for g in o["groups"]):
                wit["group_holds_same_evidence_twice"] += 1
            members = [p for g in o["groups"] for p in g["m"]]
            if len(members) != len(set(members)):
                wit["peer_in_two_groups"] += 1
            if known and o["overall"] > 1000000 * len(set(members) & known) / len(known) + 1:
                wit["overall_above_suspected_fraction"] += 1
    return res, wit


def run(rep, wd, big):
    info = {}
    fails = MUST_FAIL + (MUST_FAIL_BIG if big else [])
    with ProcessPoolExecutor(max_workers=3) as ex:
        fd = ex.submit(_design, "MC_Sybil.cfg",
                       "intended design: bursts / prefix clusters flagged exactly, departed peers not named, analysis idempotent, groups "
                       "disjoint, suspected <=> member, overall = suspected fraction, clear empties, cleanup only forgets old joins", 2)
        fc = ex.submit(_conformance, wd, big)
        fb = ex.submit(_design, "MC_Sybil_behav.cfg",
                       "intended design, behaviour profiles: similarity bounded and symmetric, equal histories similar, asymmetry rule", 1)
        ff = [ex.submit(_must_fail, e) for e in fails]
        r = fd.result()
        rbeh = fb.result()
        res, wit = fc.result()
        info["counterexamples"] = dict(f.result() for f in ff)
    rep.add_tlc(r, "Sybil detector (intended design)")
    rep.add_tlc(rbeh, "Sybil detector, behaviour profiles (intended design)")
    info["states"] = r.distinct + rbeh.distinct
    if big:
        for cfg, what in (("MC_Sybil_big.cfg", "intended design, 5 operations, 3 ticks"),
                          ("MC_Sybil_behav_big.cfg", "intended design, behaviour profiles, 6 operations"),
                          ("MC_Sybil_groups.cfg", "intended design, group formation with 4 peers, 7 operations"),
                          ("MC_Sybil_asimpl.cfg", "all as-implemented flags on: the structural invariants hold")):
            rb = _design(cfg, what, 4, timeout=3600)
            rep.add_tlc(rb, "Sybil detector (%s)" % cfg)
            info["states"] += rb.distinct
    info["steps_checked"] = res["checked"]
    info["drift"] = res["nviol"]
    info["drift_samples"] = res["viol"][:5]
    info["ambiguous_clock_steps"] = res.get("ambiguous", 0)
    info["deviation_witnesses_in_trace"] = wit
    if res["nviol"]:
        print("MODEL-DRIFT module=Sybil steps=%d drift=%d (informational: the verdict / transition functions of SybilRules.tla no longer "
              "describe SybilDetector / BehaviorProfile)" % (res["checked"], res["nviol"]), flush=True)
    rep.coverage["growth_sybil"] = info
    return info
