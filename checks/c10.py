"""C10 - global trust is a well-formed distribution that moves with reported behaviour."""
import copy
import os
import vlib

TRACE_MOD = "Trace_Trust"


def run(tier):
    rep = vlib.Report("C10", tier, "model_checking")
    wd = vlib.workdir("C10")
    vlib.build_harness()
    big = tier == "thorough"
    # 1. design: exhaustive TLC on Trust.tla (twin engines, abstract weights, exact rational factor, cache)
    r = vlib.tlc_must_hold("Trust", "MC_Trust_big.cfg" if big else "MC_Trust.cfg",
                           "twin engines over 3 nodes, all weight vectors, cache readings",
                           workers=16 if big else 8, timeout=1500)
    rep.add_tlc(r, "Trust exhaustive")
    a = vlib.tlc_must_fail("Trust", "MC_Trust_absent.cfg", "AsImplemented_AbsentPerfect", workers=4, timeout=600)
    s = vlib.tlc_must_fail("Trust", "MC_Trust_strict.cfg", "StrictQuery", workers=4, timeout=600)
    if a.violated != "SuccessMonotone":
        raise vlib.ToolError("AsImplemented_AbsentPerfect: expected SuccessMonotone to fail, got %s" % a.violated)
    if s.violated != "QueryIsLast":
        raise vlib.ToolError("StrictQuery: expected QueryIsLast to fail, got %s" % s.violated)
    rep.coverage["deviation_counterexamples"] = {"AbsentPerfect": a.violated, "StrictQuery": s.violated}
    # 2. impl -> spec: twin real engines under random histories, judged by Trace_Trust.tla
    trace = os.path.join(wd, "trace.ndjson")
    segs, ops, large, p2p = (400, 80, 12, 6) if big else (50, 60, 2, 2)
    vlib.run_harness(["c10", "drive", "out=" + trace, "segments=%d" % segs, "ops=%d" % ops, "large=%d" % large, "p2pnode=%d" % p2p])
    # real threads: remove_node racing a computation in flight (the removed identity must read as unknown afterwards)
    rtrace = os.path.join(wd, "race.ndjson")
    vlib.run_harness(["c10", "race", "out=" + rtrace, "segments=%d" % (60 if big else 8)])
    with open(trace, "a") as f, open(rtrace) as g:
        f.write(g.read())
    res, tr = vlib.validate_trace(TRACE_MOD, TRACE_MOD + ".cfg", trace, os.path.join(wd, "out.json"), timeout=3000)
    if res["consumed"] != res["total"]:
        raise vlib.ToolError("trace not fully consumed")
    recs = vlib.read_ndjson(trace)
    seg = -1
    p2p_ok = 0
    for e in recs:
        if e["ev"] == "Reset":
            seg += 1
            rep.traces += 1
            if e.get("via") == "p2pnode":
                p2p_ok += 1
        elif e["ev"] == "Compute":
            rep.count_case(["Compute", e["dom"], e["v"], e["fb"]])
        elif e["ev"] == "Query":
            rep.count_case(["Query", seg, e["e"], e["n"], e["x"]])
        elif e["ev"] == "Note":
            rep.assumptions.append("driver note: %s %s" % (e.get("what"), e.get("msg")))
    first = next(i for i, e in enumerate(recs) if e["ev"] == "Reset" and e["n"] <= 12)
    rep.sample({"segment_head": [x if x["ev"] != "Compute" else dict(x, v=x["v"][:12]) for x in recs[first:first + 14]]})
    cnt = res["cnt"]
    if cnt["compute"] == 0 or cnt["eq"] == 0 or cnt["ok"] == 0 or cnt["fail"] == 0 or cnt["sev"] == 0 or cnt["query"] == 0:
        raise vlib.ToolError("vacuous run: some clause was never evaluated: %s" % cnt)
    for v in res["viol"]:
        ln = v["line"]
        ctx = [x if x["ev"] != "Compute" else dict(x, v=x["v"][:40]) for x in recs[max(0, ln - 8):ln]]
        rep.violation(v["clause"], v["site"], v["cond"], {"line": ln, "context": ctx, "trace": trace})
    rc = rep.finish(
        rule="seeded random histories (update_local_trust, TrustProvider::update_trust, update_node_stats all 9 kinds with "
             "amounts up to 2^40, add/remove pre-trusted, TrustProvider::remove_node, P2PNode::report_peer_*) over 1..600 "
             "identities on twin real engines; a case = one published score vector (content) or one per-peer query "
             "(segment, engine, node, value); distinct by content; race segments: TrustProvider::remove_node called while "
             "compute_global_trust runs on another thread (250-500 identities), logged in the order the result shows; every vector "
             "judged by TLC for domain, range, sum, and "
             "against the twin/previous snapshot when the abstract states are related (equal, +1 success, +1 failure, severe vs plain)",
        trusted=["ppb projection of f64 scores (round, clamp) and non-finite flag in the driver",
                 "paused tokio clock as the exact detector of the 2 s timeout fallback",
                 "driver waits for tasks spawned by TrustProvider::update_trust/remove_node (runtime alive-task count)",
                 "TLC", "Json/IOUtils modules"],
        extra={"events": res["total"], "clause_evaluations": cnt, "violation_counts": res["keys"],
               "fallback_computes": cnt["fallback"], "p2pnode_segments": p2p_ok,
               "tolerances_ppb": {"sum": 2000, "monotone": 1000, "deterministic": 1000, "query": 0}})
    # 3. binding self-test (after the verdict, so that a tool problem can never hide a violation)
    try:
        selftest(recs, wd)
    except vlib.ToolError:
        if rc != 1:
            raise
        print("[verif] self-test failed as well; verdict above stands", flush=True)
    return rc


def selftest(recs, wd):
    """Mutate the recorded trace; the acceptor must notice (guards against a vacuous trace spec)."""
    cut = recs[:700]
    muts = {}
    # a) shift one published score
    for i, e in enumerate(cut):
        if e["ev"] == "Compute" and len(e["dom"]) >= 2 and sum(e["v"]) > 0:
            a = copy.deepcopy(cut)
            a[i]["v"][e["dom"][0] - 1] += 50000
            muts["scoreshift"] = a
            break
    # b) drop the first statistics report about a node that nothing mentioned before (it is then scored while unknown)
    seen = set()
    for i, e in enumerate(cut):
        if e["ev"] == "Reset":
            seen = set(e["pre"])
        elif e["ev"] in ("Local",):
            seen.update([e["from"], e["to"]])
        elif e["ev"] in ("AddPre", "RemPre", "Remove"):
            seen.add(e["n"])
        elif e["ev"] == "Stat":
            if e["e"] == "AB" and e["n"] not in seen:
                later = None
                for j in range(i + 1, len(cut)):
                    x = cut[j]
                    if x["ev"] == "Reset" or (x["ev"] in ("Stat", "AddPre", "Remove", "RemPre") and x["n"] == e["n"]) or \
                            (x["ev"] == "Local" and e["n"] in (x["from"], x["to"])):
                        break
                    if x["ev"] == "Compute" and e["n"] in x["dom"]:
                        later = j
                        break
                if later is not None:
                    muts["dropstat"] = [x for k, x in enumerate(cut) if k != i]
                    break
            seen.add(e["n"])
    # c) change the answer of a query
    for i, e in enumerate(cut):
        if e["ev"] == "Query":
            c = copy.deepcopy(cut)
            c[i]["x"] += 7
            muts["queryflip"] = c
            break
    if len(muts) < 3:
        raise vlib.ToolError("self-test: trace has no usable events (%s)" % sorted(muts))
    if cut[0]["ev"] != "Reset":
        raise vlib.ToolError("self-test: trace does not start with Reset")
    # one acceptor run over ref ++ mutants; every part starts with a Reset, the acceptor reports the cumulative
    # violation count at each Reset (marks), so the count of every part is exact
    names = ["ref"] + sorted(muts)
    parts = [cut] + [muts[k] for k in sorted(muts)]
    starts, allrecs = [], []
    for t in parts:
        starts.append(len(allrecs) + 1)
        allrecs += t
    p = os.path.join(wd, "selftest.ndjson")
    vlib.write_ndjson(p, allrecs)
    got, _ = vlib.validate_trace(TRACE_MOD, TRACE_MOD + ".cfg", p, os.path.join(wd, "selftest.json"))
    cum = {m[0]: m[1] for m in got["marks"]}
    counts = []
    for i, st in enumerate(starts):
        end = cum[starts[i + 1]] if i + 1 < len(starts) else got["nviol"]
        counts.append(end - cum[st])
    for name, c in zip(names[1:], counts[1:]):
        if c <= counts[0]:
            raise vlib.ToolError("self-test %s: corrupted trace was not rejected (%d vs %d)" % (name, c, counts[0]))
    vlib.log("self-test: violations per part %s" % dict(zip(names, counts)))
