"""C16 - failing or distrusted peers are sidelined exactly as the stated policy says."""
import copy
import os
import vlib
import a_common


def run(tier):
    rep = vlib.Report("C16", tier, "model_checking")
    wd = vlib.workdir("C16")
    vlib.build_harness()
    big = tier == "thorough"
    # 1. design
    jobs = [
        lambda: vlib.tlc_must_hold("Eviction", "MC_Eviction_big.cfg" if big else "MC_Eviction.cfg",
                                   "all histories of fail/success/trust/mark/forget", workers=4, timeout=3000),
        lambda: vlib.tlc_must_hold("Selector", "MC_Selector_big.cfg" if big else "MC_Selector.cfg",
                                   "every candidate list, key, count, exclusion; ties broken by exact distance", workers=4, timeout=3000),
        lambda: vlib.tlc_must_hold("Selector", "MC_Selector_alpha0.cfg", "trust weight 0 (zero trust factor)", workers=2, timeout=3000),
        lambda: vlib.tlc_must_fail("Selector", "MC_Selector_f64.cfg", "AsImplemented_F64Distance", workers=1),
        lambda: vlib.tlc_must_fail("Eviction", "MC_Eviction_vNoReset.cfg", "wrong design NoResetOnSuccess", workers=1),
        lambda: vlib.tlc_must_fail("Eviction", "MC_Eviction_vSkipTrustOnly.cfg", "wrong design SkipTrustOnly", workers=1),
    ]
    if os.environ.get("VERIF_DEV_SKIP_MC"):      # developer aid for mutation runs: design part skipped, evidence incomplete
        jobs = [lambda: vlib.TlcResult() for _ in jobs]
    res = a_common.parallel(jobs)
    rep.add_tlc(res[0], "Eviction exhaustive")
    rep.add_tlc(res[1], "Selector exhaustive")
    rep.add_tlc(res[2], "Selector alpha=0")
    rep.coverage["deviation_counterexamples"] = {"F64Distance": res[3].violated, "NoResetOnSuccess": res[4].violated,
                                                 "SkipTrustOnly": res[5].violated}
    # 2. impl -> spec
    trace = os.path.join(wd, "trace.ndjson")
    if big:
        args = ["evict_segments=400", "evict_ops=60", "select_segments=360", "select_calls=14", "engine_segments=120", "engine_ops=40"]
    else:
        args = ["evict_segments=40", "evict_ops=40", "select_segments=36", "select_calls=10", "engine_segments=15", "engine_ops=30"]
    vlib.run_harness(["c16", "drive", "out=" + trace] + args)
    recs = vlib.read_ndjson(trace)
    out, states = a_common.validate_sharded("Trace_Sideline", "Trace_Sideline.cfg", recs, wd, shards=6 if big else 4)
    kinds = {}
    seg = None
    hist = []
    for e in recs:
        if e["ev"] == "Reset":
            rep.traces += 1
            seg = e
            kinds[e["kind"]] = kinds.get(e["kind"], 0) + 1
            hist = []
        elif e["ev"] in ("Fail", "Succ", "Trust", "Mark", "Forget", "Add", "Rm"):
            hist.append(e)
        elif e["ev"] == "Cands":
            rep.count_case([seg["maxFail"], seg["minTrust"], hist])
        elif e["ev"] == "Select":
            rep.count_case([seg["pos"], e["via"], e["key"], e["count"], e["alpha"], e["thr"], e["excl"], e["cands"]])
        elif e["ev"] in ("Find", "Store"):
            rep.count_case([seg["self"], hist, e["key"], e["n"], e["ev"]])
    first = {}
    for e in recs:
        if e["ev"] in ("Cands", "Select", "Store") and e["ev"] not in first and len(json_len(e)) < 900:
            first[e["ev"]] = e
    rep.sample({"events": list(first.values())})
    for v in out["viol"]:
        ev = recs[v["line"] - 1]
        sg = next(recs[i] for i in range(v["line"] - 1, -1, -1) if recs[i]["ev"] == "Reset")
        ctx = recs[max(0, v["line"] - 8):v["line"] - 1] if sg["kind"] != "select" else []
        site = "select_peers_with_config" if v["site"] in ("select_peers", "select_storage_peers") else v["site"]
        rep.violation(v["clause"], site, v["cond"], {"line": v["line"], "segment": sg, "event": ev, "context": ctx, "trace": trace})
    if out["nviol"] > len(out["viol"]):
        rep.notes.append("%d violations in total, at most 40 per signature and shard kept" % out["nviol"])
    if a_common.mark_bad(recs, out):
        selftest(recs, wd)
    else:
        rep.notes.append("self-test skipped: violation list capped")
    return rep.finish(
        rule="a case = (thresholds, history of success/failure/trust/mark/forget events) with the candidate list observed after it; "
             "or (embedding, config, key, count, candidate list with trust) with the selection returned; or (engine history, key, n) "
             "with the closest-node answer / storage targets; distinct by content; all judged by TLC against SidelineRules",
        trusted=["order-preserving embedding of model ids into 256-bit ids at chosen bit positions (decode re-checked)",
                 "peer index bookkeeping", "trust constructed as n/1000.0 from the logged integer", "TLC", "Json/IOUtils modules"],
        extra={"observations_checked": out["checked"], "events": len(recs), "segments_by_kind": kinds,
               "pareto_inversions_tally": out.get("pareto"),
               "note_ranges": "ranking clauses are judged for trust values inside the TrustProvider contract [0,1]; NaN / negative / >1 "
                              "trusts are driven and judged for membership, distinctness, cap, floor and panic-freedom only"})


def json_len(e):
    import json
    return json.dumps(e)


def selftest(recs, wd):
    """Corrupt / drop recorded events; the acceptor must notice."""
    # one evict segment, one select segment, one engine segment
    segs = a_common.split_segments(recs)
    pick = {}
    for s in segs:
        k = recs[s[0]].get("kind")
        if k not in pick and len(s) > 20:
            pick[k] = s
    if set(pick) != {"evict", "select", "engine"}:
        raise vlib.ToolError("self-test: trace lacks a segment kind")
    cut = [recs[i] for k in ("evict", "select", "engine") for i in pick[k][:400]]
    muts = {}
    # drop a Fail event that precedes a candidate listing naming its peer for failures
    for i, e in enumerate(cut):
        if e["ev"] == "Cands" and not e.get("_bad") and any(c["k"] == "ConsecutiveFailures" for c in e["c"]):
            p = next(c["p"] for c in e["c"] if c["k"] == "ConsecutiveFailures")
            j = max((k for k in range(i) if cut[k]["ev"] == "Fail" and cut[k]["p"] == p), default=None)
            if j is not None:
                muts["drop_fail"] = cut[:j] + cut[j + 1:]
                break
    # a selection with one member replaced by a candidate below the floor / a foreign id
    for i, e in enumerate(cut):
        if e["ev"] == "Select" and len(e["ans"]) >= 2 and not e.get("_bad"):
            m = copy.deepcopy(cut)
            m[i]["ans"][1] = m[i]["ans"][0]
            muts["dup_selected"] = m
            break
    # an answer naming a removed peer
    removed = None
    for i, e in enumerate(cut):
        if e["ev"] == "Rm":
            removed = e["x"]
        elif e["ev"] == "Add" and removed is not None and e["x"] == removed:
            removed = None
        elif e["ev"] == "Find" and removed is not None and removed not in e["ans"] and not e.get("_bad"):
            m = copy.deepcopy(cut)
            m[i]["ans"] = [removed] + m[i]["ans"]
            muts["removed_in_answer"] = m
            break
    if len(muts) < 3:
        raise vlib.ToolError("self-test: trace has no usable events (%s)" % sorted(muts))
    a_common.selftest_traces("Trace_Sideline", "Trace_Sideline.cfg", wd, cut, muts)
