"""Specification growth module Resource: the production resource manager (src/production.rs ResourceManager): connection
permits / guards / queued acquires, per-peer rate limiting (token buckets on std::time::Instant), the bandwidth window, the
metrics snapshot, start / shutdown and the background tasks.  Resource.tla (exhaustive) + Trace_Resource.tla (conformance of
the real object, harness module `resource`).  Mismatches are MODEL-DRIFT (informational, never a VIOLATION)."""
import os
import threading
import time
from concurrent.futures import ThreadPoolExecutor

import vlib

# (cfg, what, invariant that must be violated)
DEVIATIONS = [
    ("MC_Resource_SharedPeerBucket.cfg", "as implemented: one bucket per peer, shared by all operations, shaped by the first one", "FreshPairAdmitted"),
    ("MC_Resource_SwappedBurstRate.cfg", "as implemented: capacity = ops_per_sec, refill = burst_capacity", "RateBound"),
    ("MC_Resource_WaiterAdmittedAfterShutdown.cfg", "as implemented: an acquire queued before shutdown is granted during it", "NoLateAdmission"),
    ("MC_Resource_LostShutdownSignal.cfg", "as implemented: tasks not yet parked in notified() never see the shutdown", "NoTaskSurvivesShutdown"),
    ("MC_Resource_WindowRollReportsZero.cfg", "as implemented: the collection that rolls the bandwidth window reports 0", "TrafficIsReported"),
    ("MC_Resource_vDoubleRelease.cfg", "wrong variant: a dropped guard returns two permits", "PermitConservation"),
]
# thorough tier only
VACUITY = [
    ("MC_Resource_vacPending.cfg", "non-vacuity: an acquire at the limit waits", "Vac_NeverPending"),
    ("MC_Resource_vacDenied.cfg", "non-vacuity: a check is denied", "Vac_NeverDenied"),
]

_START = threading.Lock()


def _spaced(fn, *a, **kw):
    with _START:
        time.sleep(0.05)
    return fn(*a, **kw)


def run(rep, wd, big):
    info = {}
    trace = os.path.join(wd, "resource.ndjson")

    def conformance():
        # the driver sleeps in real time (token buckets and the bandwidth window read std::time::Instant): ~5 s per 40 segments
        vlib.run_harness(["resource", "drive", "out=" + trace, "segments=%d" % (400 if big else 40), "ops=60"])
        return vlib.validate_trace("Trace_Resource", "Trace_Resource.cfg", trace, os.path.join(wd, "resource_out.json"))

    # at most 4 TLC workers at any time: design run 2, acceptor 1, counterexample configurations 1 (one after the other)
    with ThreadPoolExecutor(max_workers=3) as pool:
        design = pool.submit(_spaced, vlib.tlc_must_hold, "Resource", "MC_Resource_big.cfg" if big else "MC_Resource.cfg",
                             "intended design: permit conservation, no admission after shutdown, rate bound, independent pairs, "
                             "traffic reported, no task survives shutdown, denied keeps budget", workers=2, timeout=3000 if big else 600)
        conf = pool.submit(conformance)

        def fails():
            return [(cfg, inv, _spaced(vlib.tlc_must_fail, "Resource", cfg, what, workers=1)) for cfg, what, inv in DEVIATIONS + (VACUITY if big else [])]
        ff = pool.submit(fails)
        r = design.result()
        res, _ = conf.result()
        results = ff.result()
    rep.add_tlc(r, "Resource manager (intended design)")
    info["states"] = r.distinct
    info["counterexamples"] = {}
    for cfg, inv, x in results:
        if x.violated != inv:
            raise vlib.ToolError("TLC Resource/%s: expected a counterexample of %s, got %s" % (cfg, inv, x.violated))
        info["counterexamples"][cfg] = x.violated
    if big:
        rb = vlib.tlc_must_hold("Resource", "MC_Resource_asimpl.cfg", "as implemented: the invariants that survive", workers=4, timeout=3000)
        rep.add_tlc(rb, "Resource manager (as implemented)")
        info["states"] += rb.distinct
    info["steps_checked"] = res["checked"]
    info["drift"] = res["nviol"]
    info["drift_samples"] = res["viol"][:5]
    info["trace_coverage"] = res.get("cov")
    if res["nviol"]:
        print("MODEL-DRIFT module=Resource steps=%d drift=%d (informational: the transition functions of ResourceRules.tla no longer "
              "describe ResourceManager) samples=%s" % (res["checked"], res["nviol"], res["viol"][:3]), flush=True)
    rep.coverage["growth_resource"] = info
    return info
