"""C03 - put stores on every replica it reports; get returns only stored bytes."""
import copy
import os
import vlib


def run(tier):
    rep = vlib.Report("C03", tier, "model_checking")
    wd = vlib.workdir("C03")
    vlib.build_harness()
    big = tier == "thorough"
    r = vlib.tlc_must_hold("Store", "MC_Store_big.cfg" if big else "MC_Store.cfg", "all graphs x silent sets x op interleavings",
                           workers=16 if big else 8, timeout=3000, coverage=not big)
    rep.add_tlc(r, "Store exhaustive")
    dev = {}
    for f in ("AckWithoutStore", "SelfTarget"):
        dev[f] = vlib.tlc_must_fail("Store", "MC_Store_%s.cfg" % f, "AsImplemented_" + f, workers=4).violated
    rep.coverage["deviation_counterexamples"] = dev
    # composition root (design level): connections + tables + lookup guarantee + put/get + pending table + stop in one model
    rc = vlib.tlc_must_hold("SaorsaCore", "MC_SaorsaCore_big.cfg" if big else "MC_SaorsaCore.cfg",
                            "composition: churn, concurrent puts of different nodes, stop; cross-module visibility", workers=16 if big else 8, timeout=3000)
    rep.add_tlc(rc, "SaorsaCore composition")
    comp = {}
    for cfg, what, want in (("MC_SaorsaCore_CloseForgets.cfg", "closing a connection forgets the peer: a stored value becomes invisible", "property"),
                            ("MC_SaorsaCore_SendAfterStop.cfg", "a put in flight keeps sending after stop", "QuietAfterStop")):
        x = vlib.tlc_must_fail("SaorsaCore", cfg, what, workers=4, timeout=1500)
        if x.violated != want:
            raise vlib.ToolError("TLC SaorsaCore/%s: expected %s to be violated, got %s" % (cfg, want, x.violated))
        comp[cfg] = "VisibleThroughThirdParty" if want == "property" else x.violated
    rep.coverage["composition_root"] = {"states": rc.distinct, "counterexamples": comp}
    trace = os.path.join(wd, "trace.ndjson")
    segs, ops = (1200, 14) if big else (120, 12)
    vlib.run_harness(["c03", "drive", "out=" + trace, "segments=%d" % segs, "ops=%d" % ops], timeout=3000)
    res, tr = vlib.validate_trace("Trace_Store", "Trace_Store.cfg", trace, os.path.join(wd, "out.json"), timeout=3000)
    if res["consumed"] != res["total"]:
        raise vlib.ToolError("trace not fully consumed")
    recs = vlib.read_ndjson(trace)
    for e in recs:
        if e["ev"] == "Reset":
            rep.traces += 1
        elif e["ev"] in ("Put", "Get", "PutTargets", "StoreLocal", "RemotePut", "EngineStore"):
            rep.count_case({k: v for k, v in e.items() if k not in ("rank",)})
            if len(rep.coverage["samples"]) < 4 and e.get("reqs"):
                rep.sample(e)
    for v in res["viol"]:
        rep.violation(v["clause"], v["site"], v["cond"], {"line": v["line"], "event": recs[v["line"] - 1], "context": recs[max(0, v["line"] - 3):v["line"] - 1]})
    rep.coverage["acceptor_mismatches_total"] = res["nviol"]
    if not rep.unknown_violations():
        selftest(recs, wd)   # binding self-test (skipped when the run already has mismatches to report)
    return rep.finish(
        rule="put / get / store_local / put_with_targets / raw remote PUT (values 0..600 bytes) from arbitrary nodes of 1..10-node real "
             "clusters with unresponsive and lying peers; after every operation the local store of every real node is read; a case = one "
             "operation with its RPC transcript and result, distinct by content; plus engine-level store paths at the size boundary",
        trusted=["hub frame log", "value tokens (8-byte token + filler, equality of bytes = equality of tokens)", "get_local as ground truth", "TLC"],
        extra={"operations": res["checked"], "events": res["total"]})


def selftest(recs, wd):
    cut = recs[:400]
    idx = [i for i, e in enumerate(cut) if e["ev"] == "Stores" and i > 0 and cut[i - 1]["ev"] == "Put" and cut[i - 1].get("ok")]
    if not idx:
        raise vlib.ToolError("self-test: no successful put in the first events")
    ref_p = os.path.join(wd, "selftest_ref.ndjson")
    vlib.write_ndjson(ref_p, cut)
    ref, _ = vlib.validate_trace("Trace_Store", "Trace_Store.cfg", ref_p, os.path.join(wd, "selftest_ref.json"))
    a = copy.deepcopy(cut)
    i = idx[0]
    origin = a[i - 1]["origin"]
    a[i]["stores"][origin - 1][a[i - 1]["key"] - 1] = 0     # the origin "lost" the value it acknowledged
    p = os.path.join(wd, "selftest_mut.ndjson")
    vlib.write_ndjson(p, a)
    got, _ = vlib.validate_trace("Trace_Store", "Trace_Store.cfg", p, os.path.join(wd, "selftest_mut.json"))
    if got["nviol"] <= ref["nviol"]:
        raise vlib.ToolError("self-test: a put whose origin does not hold the value was not rejected")
