"""C07 - damaged log or snapshot data is detected and never replayed as state."""
import walcommon


def run(tier):
    return walcommon.run("C07", tier)
