"""Specification growth: the on-disk state machines of the auto-upgrade subsystem (src/upgrade/rollback.rs RollbackManager,
src/upgrade/staged.rs StagedUpdateManager): Upgrade.tla (two machines, SpecB / SpecS) + Trace_Upgrade.tla over the trace of
harness module `upgrade`.  Mismatches are MODEL-DRIFT (informational, never a VIOLATION)."""
import os
import time
from concurrent.futures import ThreadPoolExecutor

import vlib

# (cfg, what, the invariant the counterexample must be of)
MUST_FAIL = [
    ("MC_Upgrade_TieKeepsOlder.cfg", "as implemented: of two backups stamped with the same second cleanup keeps the one recorded first - the backup just made is dropped", "CreatedBackupIsLatest"),
    ("MC_Upgrade_SharedBackupFile.cfg", "as implemented: two backups of one version within a second share one file; removing one entry deletes the other's file", "ListedBackupsExist"),
    ("MC_Upgrade_CleanupNeedsDir.cfg", "as implemented: cleanup_old_backups is an Io error while the backup directory does not exist", "CleanupFailsOnlyOnBadMetadata"),
    ("MC_Upgrade_RollbackToVersionNeedsDir.cfg", "as implemented: with the install directory gone rollback restores the binary, rollback_to_version reports 'rollback failed'", "RestoreFailsOnlyOnBadBackup"),
    ("MC_Upgrade_GetStagedUnverified.cfg", "as implemented: get_staged_update hands out an update whose binary does not have the recorded checksum", "GetStagedVerified"),
    ("MC_Upgrade_SweepIgnoresMetadata.cfg", "as implemented: cleanup_old_updates removes the binary of the update whose metadata it keeps", "CleanupKeepsLiveBinary"),
    ("MC_Upgrade_vRollbackUnverified.cfg", "wrong variant: rollback without the checksum comparison restores a corrupted backup", "RollbackRestoresRecorded"),
]


def run(rep, wd, big):
    info = {}
    trace = os.path.join(wd, "upgrade.ndjson")
    hold = [("MC_Upgrade_big.cfg" if big else "MC_Upgrade.cfg", "RollbackManager, intended design: 16 invariants", "Upgrade: backups (intended)"),
            ("MC_Upgrade_staged_big.cfg" if big else "MC_Upgrade_staged.cfg", "StagedUpdateManager, intended design: 8 invariants", "Upgrade: staging (intended)")]
    if big:
        hold += [("MC_Upgrade_asimpl.cfg", "RollbackManager as implemented: the invariants that survive", "Upgrade: backups (as implemented)"),
                 ("MC_Upgrade_staged_asimpl.cfg", "StagedUpdateManager as implemented: the invariants that survive", "Upgrade: staging (as implemented)")]

    # at most 4 TLC workers at any time: four single-worker runs side by side (start-up dominates these small models)
    def held(i, job):
        time.sleep(0.25 * i)      # vlib's metadir name has millisecond resolution
        return job, vlib.tlc_must_hold("Upgrade", job[0], job[1], workers=1, timeout=3000 if big else 600)

    def failed(i, job):
        time.sleep(0.25 * i)
        return job, vlib.tlc_must_fail("Upgrade", job[0], job[1], workers=1, timeout=600)

    def conformance():
        vlib.run_harness(["upgrade", "drive", "out=" + trace, "segments=%d" % (800 if big else 80), "ops=30"])
        return vlib.validate_trace("Trace_Upgrade", "Trace_Upgrade.cfg", trace, os.path.join(wd, "upgrade_out.json"))

    with ThreadPoolExecutor(max_workers=4) as pool:
        futs = [pool.submit(held, i, j) for i, j in enumerate(hold)]
        conf = pool.submit(conformance)
        futs2 = [pool.submit(failed, i, j) for i, j in enumerate(MUST_FAIL)]
        for f in futs:
            job, r = f.result()
            rep.add_tlc(r, job[2])
            info.setdefault("states", {})[job[0]] = r.distinct
        info["counterexamples"] = {}
        for f in futs2:
            job, x = f.result()
            info["counterexamples"][job[0]] = x.violated
            if x.violated != job[2]:
                raise vlib.ToolError("TLC Upgrade/%s: counterexample of %s, expected one of %s" % (job[0], x.violated, job[2]))
        res, _ = conf.result()
    info["steps_checked"] = res["checked"]
    info["drift"] = res["nviol"]
    info["drift_samples"] = res["viol"][:5]
    if res["nviol"]:
        print("MODEL-DRIFT module=Upgrade steps=%d drift=%d (informational: the transition functions of UpgradeRules.tla no longer "
              "describe RollbackManager / StagedUpdateManager) samples=%s" % (res["checked"], res["nviol"], res["viol"][:3]), flush=True)
    rep.coverage["growth_upgrade"] = info
    return info
