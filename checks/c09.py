"""C09 - a peer record verifies only if its owner signed exactly it, cached or not."""
import copy
import os
import vlib

SITE = {"DirectIff": "PeerDHTRecord::verify_signature", "CacheTransparent": "SignatureCache::verify_cached",
        "Bounds": "PeerDHTRecord::new"}


def run(tier):
    rep = vlib.Report("C09", tier, "model_checking")
    wd = vlib.workdir("C09")
    vlib.build_harness()
    big = tier == "thorough"
    # 1. design: exhaustive TLC on PeerRecord.tla; the two pinned-tree deviations must give counterexamples
    r = vlib.tlc_must_hold("PeerRecord", "MC_PeerRecord_big.cfg" if big else "MC_PeerRecord.cfg",
                           "all sign/present/clear histories, every eviction choice", workers=8, timeout=1500)
    rep.add_tlc(r, "PeerRecord exhaustive")
    if big:
        r2 = vlib.tlc_must_hold("PeerRecord", "MC_PeerRecord_big2.cfg", "two signatures, four presentations", workers=8, timeout=1500)
        rep.add_tlc(r2, "PeerRecord exhaustive (second scope)")
    # action coverage on the smallest configuration (-coverage triples the run time of the main one)
    c = vlib.tlc_must_hold("PeerRecord", "MC_PeerRecord_cov.cfg", "action coverage", workers=4, coverage=True)
    rep.add_tlc(c, "PeerRecord coverage (2 presentations, capacity 1)")
    for a in ("Sign", "Present", "Clear"):
        if c.coverage.get(a, 0) == 0:
            raise vlib.ToolError("vacuous: action %s never taken" % a)
    k = vlib.tlc_must_fail("PeerRecord", "MC_PeerRecord_key.cfg", "AsImplemented_CacheKey", workers=4)
    u = vlib.tlc_must_fail("PeerRecord", "MC_PeerRecord_uid.cfg", "AsImplemented_UidUnbound", workers=4)
    if k.violated != "CacheTransparent" or u.violated != "DirectIff":
        raise vlib.ToolError("deviation flags violate unexpected invariants: %s %s" % (k.violated, u.violated))
    rep.coverage["deviation_counterexamples"] = {"CacheKey": k.violated, "UidUnbound": u.violated}
    # 2. impl -> spec: histories of the real records / caches judged by Trace_PeerRecord.tla
    trace = os.path.join(wd, "trace.ndjson")
    segs, pres, extra = (600, 60, 5000) if big else (60, 50, 300)
    vlib.run_harness(["c09", "drive", "out=" + trace, "segments=%d" % segs, "presentations=%d" % pres, "bounds_random=%d" % extra])
    res, tr = vlib.validate_trace("Trace_PeerRecord", "Trace_PeerRecord.cfg", trace, os.path.join(wd, "out.json"))
    if res["consumed"] != res["total"]:
        raise vlib.ToolError("trace not fully consumed")
    recs = vlib.read_ndjson(trace)
    hows = {}
    for e in recs:
        if e["ev"] == "Reset":
            rep.traces += 1
        elif e["ev"] == "Verify":
            b = e["body"]
            rep.count_case(["V", b["uid"], b["pk"], b["seq"], b["name"], b["eps"], b["ts"], b["ttl"], e["sig"], e["direct"], e["cached"]])
            hows[e["how"]] = hows.get(e["how"], 0) + 1
        elif e["ev"] == "New":
            rep.count_case(["N", e["name_len"], e["eps"], e["ttl"], e["ok"]])
    rep.coverage["presentation_kinds"] = hows
    first_verify = next(i for i, e in enumerate(recs) if e["ev"] == "Verify")
    rep.sample({"history_head": recs[first_verify:first_verify + 4]})
    rep.sample({"bounds_head": recs[1:5]})
    for v in res["viol"]:
        ev = recs[v["line"] - 1]
        site = SITE.get(v["clause"], str(v["cond"]))
        rep.violation(v["clause"], site, v["cond"], {"line": v["line"], "event": ev, "trace": trace})
    if res["nviol"] > len(res["viol"]):
        rep.notes.append("%d violations in total, first 25 of each (clause, cond) class kept" % res["nviol"])
    # 3. binding self-test
    _selftest_guarded(rep, selftest, recs, wd)
    # specification growth hosted here (identity regeneration trigger and rejection history): conformance, informational (MODEL-DRIFT, never a VIOLATION)
    import growth_regen
    growth_regen.run(rep, wd, big)
    return rep.finish(
        rule="case = one verify presentation (record field tokens, signature token, direct verdict, cached verdict) or one "
             "constructor call (name length, endpoint count, lifetime, accepted?); distinct by content; every verdict is "
             "compared by TLC with Ideal(signed, derived, body, sig) / cached = direct / InBounds",
        trusted=["harness interning of field byte strings (equal token <=> equal bytes; endpoints by derived PartialEq)",
                 "a Sign event is logged only for a signature made with the secret half of the embedded key",
                 "UserId::from_public_key as the definition of the derived user id", "TLC", "Json/IOUtils modules"],
        extra={"verdicts_checked": res["checked"], "events": res["total"], "violations_total_incl_known": res["nviol"],
               "not_judged": "record version byte; name None vs Some(\"\") (empty name is outside the documented bounds)"})


def selftest(recs, wd):
    """Mutate the recorded trace; the acceptor must notice (guards against a vacuous trace spec)."""
    start = next(i for i, e in enumerate(recs) if e["ev"] == "Reset" and e.get("kind") == "history")
    end = next((i for i, e in enumerate(recs) if i > start and e["ev"] == "Reset"), len(recs))
    cut = recs[:5] + recs[start:end]
    gi = next((i for i, e in enumerate(cut) if e["ev"] == "Verify" and e["how"] == "genuine" and e["direct"]), None)
    if gi is None:
        raise vlib.ToolError("self-test: no genuine presentation in the first history")
    g = cut[gi]
    si = next((i for i, e in enumerate(cut) if e["ev"] == "Sign" and e["body"] == g["body"] and e["sig"] == g["sig"]), None)
    if si is None:
        raise vlib.ToolError("self-test: genuine record without Sign event")
    a = copy.deepcopy(cut)
    a[gi]["direct"] = not a[gi]["direct"]
    b = [e for i, e in enumerate(cut) if i != si]
    c = copy.deepcopy(cut)
    c[1]["ok"] = not c[1]["ok"]
    # one TLC run: reference copy followed by the three corrupted copies (2 Reset segments each)
    variants = [("ref", cut), ("flip-direct", a), ("drop-sign", b), ("flip-new", c)]
    p = os.path.join(wd, "selftest.ndjson")
    vlib.write_ndjson(p, [e for _, t in variants for e in t])
    got, _ = vlib.validate_trace("Trace_PeerRecord", "Trace_PeerRecord.cfg", p, os.path.join(wd, "selftest.json"))
    per = [got["segv"][2 * i] + got["segv"][2 * i + 1] for i in range(len(variants))]
    for i, (name, _) in enumerate(variants):
        if i > 0 and per[i] <= per[0]:
            raise vlib.ToolError("self-test %s: corrupted trace was not rejected (%s)" % (name, per))


def _unknown_violations(rep):
    """Violations of this run that no known finding explains (same matching as vlib.Report.finish)."""
    import re as _re
    known = [f for f in vlib.load_findings() if f.get("property") == rep.pid and f.get("status") == "known"]
    return [v for v in rep.violations
            if not any(f["clause"] == v["clause"] and f["site"] == v["site"] and _re.fullmatch(f["cond"], str(v["cond"])) for f in known)]


def _selftest_guarded(rep, fn, *args):
    """The binding self-test compares violation counts of corrupted copies with the intact copy. On a tree that
    already violates the property the comparison can be inconclusive; then the violations are the result (exit 1),
    not a tool error. On an otherwise clean run a failing self-test stays a tool error."""
    try:
        fn(*args)
    except vlib.ToolError as e:
        if _unknown_violations(rep):
            rep.notes.append("binding self-test inconclusive on a violating trace: %s" % e)
            vlib.log("self-test inconclusive (trace has new violations): %s" % e)
        else:
            raise
