"""C08 - signatures verify only for the exact message and key that produced them (shipping ML-DSA path)."""
import copy
import os
import vlib

T = ("Trace_Sig", "Trace_Sig.cfg")


def run(tier):
    rep = vlib.Report("C08", tier, "model_checking")
    wd = vlib.workdir("C08")
    vlib.build_harness()
    big = tier == "thorough"
    # 1. design: ideal functionality + identity life cycle + entry-point verdict functions, exhaustive
    r = vlib.tlc_must_hold("Sig", "MC_Sig_big.cfg" if big else "MC_Sig.cfg",
                           "all identity/sign histories, every key/message/signature token combination at every entry point",
                           workers=8, coverage=not big, timeout=2400)
    rep.add_tlc(r, "Sig exhaustive")
    if not big:
        for a in ("Create", "Import", "Sign", "CheckRaw", "CheckOwn", "CheckThreshold", "CheckDelegated"):
            if r.coverage.get(a, 0) == 0:
                raise vlib.ToolError("vacuous: action %s never taken" % a)
    s = vlib.tlc_must_fail("Sig", "MC_Sig_seed.cfg", "AsImplemented_SeedHalvesIndependent", workers=4)
    t = vlib.tlc_must_fail("Sig", "MC_Sig_threshold.cfg", "AsImplemented_ThresholdCountsOnly", workers=4)
    if s.violated != "OwnSignatureVerifies" or t.violated != "ThresholdIff":
        raise vlib.ToolError("deviation flags violate unexpected invariants: %s %s" % (s.violated, t.violated))
    rep.coverage["deviation_counterexamples"] = {"SeedHalvesIndependent": s.violated, "ThresholdCountsOnly": t.violated}
    # 2. impl -> spec (profile `verif`: debug assertions off = real ML-DSA-65)
    trace = os.path.join(wd, "trace.ndjson")
    flips, small, rounds = (30000, 1200, 2) if big else (2000, 320, 2)
    vlib.run_harness(["c08", "drive", "out=" + trace, "flips=%d" % flips, "small_flips=%d" % small, "rounds=%d" % rounds], timeout=3000)
    res, tr = vlib.validate_trace(T[0], T[1], trace, os.path.join(wd, "out.json"))
    if res["consumed"] != res["total"]:
        raise vlib.ToolError("trace not fully consumed")
    recs = vlib.read_ndjson(trace)
    kinds = {}
    origins = {}
    flipped = {"sig": 0, "key": 0}
    for e in recs:
        k = e["ev"]
        if k == "Reset":
            rep.traces += 1
        elif k == "Key":
            origins[e["origin"]] = origins.get(e["origin"], 0) + 1
        elif k == "Verify":
            rep.count_case(["V", e["entry"], e["pk"], e["msg"], e["sig"], e["res"]])
            k += ":" + e["entry"]
        elif k == "VerifyFlips":
            flipped[e["target"]] += e["n"]
            rep.evals += e["n"] - 1          # every flipped position was verified (aggregated event)
            rep.count_case(["F", e["target"], e["pk"], e["msg"], e["sig"], e["n"], e["accepted"]])
        elif k == "Auth":
            rep.count_case(["A", e["kind"], e["keys"], e["t"], e["msg"], e["sigs"], e["res"]])
            k += ":" + e["kind"]
        elif k == "Update":
            rep.count_case(["U", e["msg"], e["sum"], e["key_id"], e["sig"], e["res"]])
        elif k == "IpVerify":
            rep.count_case(["I", e["v"], e["rec"], e["res"]])
        kinds[k] = kinds.get(k, 0) + 1
    rep.coverage["events_by_kind"] = kinds
    rep.coverage["identity_origins"] = origins
    rep.coverage["aggregated_bit_flips"] = flipped
    for o in ("generated", "imported", "loaded_from_file", "seed", "path", "secure_generated", "secure_seed", "raw_keypair"):
        if origins.get(o, 0) == 0:
            rep.notes.append("no identity of origin %s could be constructed in this run" % o)
    vacuous = [need for need in ("Sign", "Verify:ml_dsa_verify", "Verify:NodeIdentity::verify", "VerifyFlips", "Auth:single", "Auth:delegated",
                                 "Auth:threshold", "Update", "IpVerify") if kinds.get(need, 0) == 0]
    if not any(e["ev"] == "Verify" and e["res"] == "true" for e in recs):
        vacuous.append("successful verification (the shipping crypto path is not exercised)")
    rep.sample({"verify": [e for e in recs if e["ev"] == "Verify"][:4]})
    rep.sample({"threshold": [e for e in recs if e["ev"] == "Auth" and e["kind"] == "threshold"][:3]})
    rep.sample({"update": [e for e in recs if e["ev"] == "Update"][:3]})
    rep.sample({"flips": [e for e in recs if e["ev"] == "VerifyFlips"][:2]})
    for v in res["viol"]:
        ev = recs[v["line"] - 1]
        rep.violation(v["clause"], v["site"], v["cond"], {"line": v["line"], "event": ev, "trace": trace})
    if res["nviol"] > len(res["viol"]):
        rep.notes.append("%d violations in total, first 10 of each (clause, site, cond) class kept" % res["nviol"])
    if vacuous and not _unknown_violations(rep):
        raise vlib.ToolError("driver produced no %s event" % ", ".join(vacuous))
    _selftest_guarded(rep, selftest, recs, wd)
    rep.assumptions.append("build profile `verif` has debug-assertions off: ml_dsa_sign/ml_dsa_verify are the cfg(not(debug_assertions)) "
                           "ML-DSA-65 path (a run where no verification succeeds is a tool error)")
    # specification growth hosted here (threshold group membership and roles): conformance, informational (MODEL-DRIFT, never a VIOLATION)
    import growth_tgroup
    growth_tgroup.run(rep, wd, big)
    return rep.finish(
        rule="case = one verification call (entry point, key/message/signature tokens, verdict), one write-authorisation call, one "
             "update-package call, one address-bound identity check, or one aggregated run of single-bit flips of a signature / key "
             "(n positions, list of accepted positions); distinct by content; every verdict is compared by TLC with SigRules",
        trusted=["interning of byte strings", "a Sign event names the public key the signing identity reports as its own",
                 "aggregated flips: a flipped 3309-byte signature / 1952-byte key is not byte-equal to a genuine one", "TLC", "Json/IOUtils modules"],
        exhaustive=False,
        extra={"verdicts_checked": res["checked"], "events": res["total"], "violations_total_incl_known": res["nviol"],
               "not_judged": "SingleWriteAuth/DelegatedWriteAuth with more than one signature; ThresholdWriteAuth with more signatures than keys; "
                             "hex-case variants of the checksum; identities whose sign() itself fails"})


def selftest(recs, wd):
    cut = recs[:1500]
    gi = next((i for i, e in enumerate(cut) if e["ev"] == "Verify" and e["res"] == "true"), None)
    fi = next((i for i, e in enumerate(cut) if e["ev"] == "Verify" and e["res"] == "false" and e["how"] == "msg:bit"), None)
    vf = next((i for i, e in enumerate(cut) if e["ev"] == "VerifyFlips"), None)
    if gi is None or fi is None or vf is None:
        raise vlib.ToolError("self-test: trace head has no usable events")
    si = next(i for i, e in enumerate(cut) if e["ev"] == "Sign" and (e["pk"], e["msg"], e["sig"]) == (cut[gi]["pk"], cut[gi]["msg"], cut[gi]["sig"]))
    a = copy.deepcopy(cut)
    a[fi]["res"] = "true"                                   # a flipped message accepted
    b = [e for i, e in enumerate(cut) if i != si]           # nobody signed it, yet it verifies
    c = copy.deepcopy(cut)
    c[vf]["accepted"] = [17]                                # one flipped signature accepted
    d = copy.deepcopy(cut)
    d[gi]["res"] = "false"                                  # own signature rejected
    variants = [("ref", cut), ("flipped-msg-accepted", a), ("drop-sign", b), ("flipped-sig-accepted", c), ("own-rejected", d)]
    p = os.path.join(wd, "selftest.ndjson")
    vlib.write_ndjson(p, [e for _, t in variants for e in t])
    got, _ = vlib.validate_trace(T[0], T[1], p, os.path.join(wd, "selftest.json"))
    per = got["segv"]
    for i, (name, _) in enumerate(variants):
        if i > 0 and per[i] <= per[0]:
            raise vlib.ToolError("self-test %s: corrupted trace was not rejected (%s)" % (name, per))


def _unknown_violations(rep):
    """Violations of this run that no known finding explains (same matching as vlib.Report.finish)."""
    import re as _re
    known = [f for f in vlib.load_findings() if f.get("property") == rep.pid and f.get("status") == "known"]
    return [v for v in rep.violations
            if not any(f["clause"] == v["clause"] and f["site"] == v["site"] and _re.fullmatch(f["cond"], str(v["cond"])) for f in known)]


def _selftest_guarded(rep, fn, *args):
    """The binding self-test compares violation counts of corrupted copies with the intact copy. On a tree that
    already violates the property the comparison can be inconclusive; then the violations are the result (exit 1),
    not a tool error. On an otherwise clean run a failing self-test stays a tool error."""
    try:
        fn(*args)
    except vlib.ToolError as e:
        if _unknown_violations(rep):
            rep.notes.append("binding self-test inconclusive on a violating trace: %s" % e)
            vlib.log("self-test inconclusive (trace has new violations): %s" % e)
        else:
            raise
