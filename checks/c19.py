"""C19 - addresses survive every textual round trip the library itself performs."""
import copy
import os
import vlib

T = ("Trace_Address", "Trace_Address.cfg")
SITES = {
    "four_words": "NetworkAddress::four_words->from_four_words",
    "words_fromstr": "NetworkAddress::four_words->from_str",
    "display_fromstr": "NetworkAddress::Display->from_str",
    "serde_json": "NetworkAddress serde_json",
    "serde_postcard": "NetworkAddress postcard",
    "bootstrap_words": "bootstrap::WordEncoder::encode_socket_addr->decode_to_socket_addr",
    "from_str": "NetworkAddress::from_str",
    "from_four_words": "NetworkAddress::from_four_words",
    "bootstrap_decode": "bootstrap::WordEncoder::decode_to_socket_addr",
    "wire_reply_dial_b_dials_c": "peer info->routing table->find-node reply->dial_candidate (replying node dialled the peer)",
    "wire_reply_dial_c_dials_b": "peer info->routing table->find-node reply->dial_candidate (replying node accepted the peer)",
}


def run(tier):
    rep = vlib.Report("C19", tier, "model_checking")
    wd = vlib.workdir("C19")
    vlib.build_harness()
    big = tier == "thorough"
    # 1. design: the wiring model (tiny, exhaustive) and its three pinned-tree deviations
    r = vlib.tlc_must_hold("Address", "MC_Address.cfg", "every address through every producer and wiring path", workers=2, coverage=True)
    rep.add_tlc(r, "Address wiring exhaustive")
    if r.coverage.get("Hand", 0) == 0:
        raise vlib.ToolError("vacuous: action Hand never taken")
    dev = {}
    for cfg, flag in (("MC_Address_fromstr.cfg", "AsImplemented_FromStrNoSuffix"), ("MC_Address_addnode.cfg", "AsImplemented_AddNodeNoSuffix"),
                      ("MC_Address_port.cfg", "AsImplemented_Port65535")):
        dev[flag] = vlib.tlc_must_fail("Address", cfg, flag, workers=2).violated
    rep.coverage["deviation_counterexamples"] = dev
    # 2. impl -> spec
    trace = os.path.join(wd, "trace.ndjson")
    samples, sweeps = (20_000_000, 8) if big else (1_000_000, 3)
    vlib.run_harness(["c19", "drive", "out=" + trace, "samples=%d" % samples, "sweep_ips=%d" % sweeps,
                      "net_addrs=%d" % (80 if big else 12)], timeout=3000)
    res, tr = vlib.validate_trace(T[0], T[1], trace, os.path.join(wd, "out.json"))
    if res["consumed"] != res["total"]:
        raise vlib.ToolError("trace not fully consumed")
    recs = vlib.read_ndjson(trace)
    kinds = {}
    for e in recs:
        k = e["ev"]
        if k == "Reset":
            rep.traces += 1
        elif k == "RT":
            rep.count_case(["RT", e["site"], e["a"], e["out"]])
        elif k == "RTSweep":
            rep.count_case(["S", e["site"], e["ip"], e["lo"], e["hi"], e["out"]])
        elif k in ("Variant", "Malformed", "Consume", "Produce"):
            rep.count_case([k] + [e[x] for x in sorted(e) if x not in ("ev", "text")])
        kinds[k] = kinds.get(k, 0) + 1
    rep.coverage["events_by_kind"] = kinds
    bulk = [e for e in recs if e["ev"] == "RTBulk"]
    rep.coverage["sampled_round_trips"] = {e["site"]: {"n": e["n"], "same": e["same"]} for e in bulk}
    # sampled round trips that came back the same and the ports of the sweeps are evaluated cases too (not counted as distinct)
    rep.evals += sum(e["same"] for e in bulk) + sum(e["hi"] - e["lo"] for e in recs if e["ev"] == "RTSweep")
    rep.coverage["port_sweeps"] = [{"site": e["site"], "ip": e["ip"][:-1], "ports": [e["lo"], e["hi"]], "out": e["out"]} for e in recs if e["ev"] == "RTSweep"]
    vacuous = [need for need in ("RT", "RTSweep", "RTBulk", "Variant", "Malformed", "Produce", "Consume", "Interop") if kinds.get(need, 0) == 0]
    rep.sample({"produced": [e for e in recs if e["ev"] == "Produce"][:4]})
    rep.sample({"consumed": [e for e in recs if e["ev"] == "Consume"][:6]})
    rep.sample({"round_trips": [e for e in recs if e["ev"] == "RT"][:6]})
    for v in res["viol"]:
        ev = recs[v["line"] - 1]
        rep.violation(v["clause"], SITES.get(v["site"], v["site"]), v["cond"], {"line": v["line"], "event": ev, "trace": trace})
    if res["nviol"] > len(res["viol"]):
        rep.notes.append("%d violations in total, first 10 of each (clause, site, cond) class kept" % res["nviol"])
    if vacuous and not _unknown_violations(rep):
        raise vlib.ToolError("driver produced no %s event" % ", ".join(vacuous))
    _selftest_guarded(rep, selftest, recs, wd)
    wire = [e for e in recs if e["ev"] == "RT" and e["site"].startswith("wire_reply_dial")]
    dial = [e for e in recs if e["ev"] == "Consume" and e["consumer"] == "Dial"]
    if (not wire or not dial) and not _unknown_violations(rep):
        raise vlib.ToolError("driver produced no wire-path observation")
    rep.coverage["wire_path"] = {"end_to_end_addresses": len(wire), "dial_probes": len(dial),
                                 "forms_in_replies": sorted({e["form"] for e in recs if e["ev"] == "Produce" and e["producer"] == "Reply"})}
    rep.sample({"wire_path": wire[:2] + dial[:2]})
    rep.assumptions.append("consumer multiaddr_from_address is private and fed only by the transport: what it accepts is taken from reading "
                           "(AddressRules!AcceptsByReading), its use is covered end to end by the wire path; producer "
                           "socket_addr_to_multiaddr is private: its format string is reproduced; the in-memory hub resolves a dialled "
                           "string like the QUIC path does (it must parse as a SocketAddr)")
    return rep.finish(
        rule="case = one observation: (site, address, outcome class) of a round trip, one run of equal outcomes in a port sweep, one "
             "variant / malformed string / producer string / consumer probe; distinct by content; sampled round trips that came back "
             "the same are counted in `sampled_round_trips`, not as distinct cases",
        trusted=["equality of decoded and original SocketAddr (outcome class)", "form classifier and form renderer of the harness",
                 "the list of malformed strings", "add_node gate probe: 8 peers with one address string, refused>0 <=> understood as IP",
                 "TLC", "Json/IOUtils modules"],
        exhaustive=False,
        extra={"verdicts_checked": res["checked"], "events": res["total"], "violations_total_incl_known": res["nviol"]})


def selftest(recs, wd):
    """A round trip reported as different, a malformed string reported as accepted, a consumer that no longer understands a
    form it is wired to: each must be noticed."""
    i0 = next(i for i, e in enumerate(recs) if e["ev"] == "Reset" and e.get("kind") == "interop")
    head = [recs[0]] + [e for e in recs[1:400] if e["ev"] == "RT" and e["out"] == "same"][:20]
    mal = [e for e in recs if e["ev"] == "Malformed" and e["out"] == "error"][:10]
    cut = head + [{"ev": "Reset", "kind": "malformed"}] + mal + recs[i0:]
    a = copy.deepcopy(cut)
    a[3]["out"] = "different"
    b = copy.deepcopy(cut)
    next(e for e in b if e["ev"] == "Malformed")["out"] = "accepted"
    c = copy.deepcopy(cut)
    for e in c:
        if e["ev"] == "Consume" and e["consumer"] == "FromFourWords" and e["form"] == "words":
            e["out"] = "error"
    d = [e for e in cut if not (e["ev"] == "Produce" and e["producer"] == "FourWords")]
    e5 = copy.deepcopy(cut)
    for e in e5:
        if e["ev"] == "Consume" and e["consumer"] == "Dial" and e["form"] == "sockWords":
            e["out"] = "error"
    f6 = copy.deepcopy(cut)
    next(e for e in f6 if e["ev"] == "RT" and e["site"].startswith("wire_reply_dial"))["out"] = "different"
    variants = [("ref", cut), ("rt-different", a), ("malformed-accepted", b), ("consumer-deaf", c), ("producer-silent", d),
                ("dial-deaf", e5), ("wire-different", f6)]
    p = os.path.join(wd, "selftest.ndjson")
    vlib.write_ndjson(p, [e for _, t in variants for e in t])
    got, _ = vlib.validate_trace(T[0], T[1], p, os.path.join(wd, "selftest.json"))
    per = [sum(got["segv"][3 * i:3 * i + 3]) for i in range(len(variants))]
    for i, (name, _) in enumerate(variants):
        if i > 0 and per[i] <= per[0]:
            raise vlib.ToolError("self-test %s: corrupted trace was not rejected (%s)" % (name, per))


def _unknown_violations(rep):
    """Violations of this run that no known finding explains (same matching as vlib.Report.finish)."""
    import re as _re
    known = [f for f in vlib.load_findings() if f.get("property") == rep.pid and f.get("status") == "known"]
    return [v for v in rep.violations
            if not any(f["clause"] == v["clause"] and f["site"] == v["site"] and _re.fullmatch(f["cond"], str(v["cond"])) for f in known)]


def _selftest_guarded(rep, fn, *args):
    """The binding self-test compares violation counts of corrupted copies with the intact copy. On a tree that
    already violates the property the comparison can be inconclusive; then the violations are the result (exit 1),
    not a tool error. On an otherwise clean run a failing self-test stays a tool error."""
    try:
        fn(*args)
    except vlib.ToolError as e:
        if _unknown_violations(rep):
            rep.notes.append("binding self-test inconclusive on a violating trace: %s" % e)
            vlib.log("self-test inconclusive (trace has new violations): %s" % e)
        else:
            raise
