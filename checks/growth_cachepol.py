"""Specification growth module CachePolicy: the cache eviction strategies of src/adaptive/eviction.rs (trait
EvictionStrategy with LRUStrategy, LFUStrategy, FIFOStrategy, AdaptiveStrategy, EvictionStrategyType::create) as the
cache manager (QLearnCacheManager) uses them: on_insert, on_access, select_victim for a presented cache content - and no
call at all when a key leaves the cache.
CachePolicy.tla (+ CachePolicyRules.tla) is model-checked, Trace_CachePolicy.tla binds it to the real objects through the
harness driver `cachepol drive` (the bookkeeping is read off the Debug output the trait demands). Mismatches are
MODEL-DRIFT (informational, never a VIOLATION).

The TLC runs are independent and dominated by JVM start-up, so they run side by side in child processes (a process each,
so that vlib's scratch directories cannot collide), one TLC worker each, never more than four at a time."""
import os
from concurrent.futures import ProcessPoolExecutor

import vlib

# cfg -> (invariant that must be violated, what it shows)
MUST_FAIL = [
    ("MC_CachePolicy_NoRemoveHook.cfg", "RemovedIsForgotten",
     "as implemented: the trait has no removal hook, an evicted key stays in the bookkeeping for ever: insert(1), remove(1)"),
    ("MC_CachePolicy_NoRemoveHook_fifo.cfg", "FifoNamesOldest",
     "as implemented: FIFO names a key that was evicted and came back as the oldest: insert(1), insert(2), remove(1), insert(1), "
     "victim{1,2} = 1"),
    ("MC_CachePolicy_FifoDuplicates.cfg", "NoLeak",
     "as implemented: FIFOStrategy::on_insert queues a present key once more: insert(1), insert(1) -> <<1, 1>>"),
    ("MC_CachePolicy_UnseenNone.cfg", "VictimSomeWhenNonEmpty",
     "as implemented: LRU / FIFO answer None for a non-empty cache they have seen no key of (fresh strategy after "
     "set_eviction_strategy: a full cache is never offered an eviction)"),
    ("MC_CachePolicy_vLruNoReindex.cfg", "LruNamesLeastRecent",
     "wrong variant: on_access without renumbering position_map removes the wrong entry later, LRU names a recently used key"),
]


def _design(cfg, what, workers):
    return vlib.tlc_must_hold("CachePolicy", cfg, what, workers=workers)


def _must_fail(entry):
    cfg, inv, what = entry
    x = vlib.tlc_must_fail("CachePolicy", cfg, what, workers=1)
    if x.violated != inv:
        raise vlib.ToolError("TLC CachePolicy/%s: expected a counterexample of %s, got %s" % (cfg, inv, x.violated))
    return cfg, x.violated


def _conformance(wd, big):
    trace = os.path.join(wd, "cachepol.ndjson")
    vlib.run_harness(["cachepol", "drive", "out=" + trace, "segments=%d" % (480 if big else 48), "ops=50"])
    res, _ = vlib.validate_trace("Trace_CachePolicy", "Trace_CachePolicy.cfg", trace, os.path.join(wd, "cachepol_out.json"))
    # witnesses of the reported deviations in this very run (informational; read off the trace, no judgement)
    wit = {"none_for_non_empty_content": 0, "fifo_queue_holds_a_key_twice": 0, "steps_with_entries_of_uncached_keys": 0,
           "longest_order_list": 0, "fifo_named_a_key_that_came_back_while_an_older_one_was_cached": 0, "panics": 0}
    probes = None
    kind, since = None, {}
    for e in vlib.read_ndjson(trace):
        if e.get("ev") == "Reset":
            kind, since, clock = e["kind"], {}, 0
        elif e.get("ev") == "Panic":
            wit["panics"] += 1
        elif e.get("ev") == "Probe":
            probes = e.get("res", e.get("msg"))
        elif e.get("ev") == "Step":
            clock += 1
            post = e["post"]
            if e["op"] == "insert" and e["k"] not in e["cpre"]:
                since[e["k"]] = clock           # the insertion that brought the key into the cache
            if e["op"] == "victim":
                if e["v"] == 0 and e["pres"]:
                    wit["none_for_non_empty_content"] += 1
                if kind == "FIFO" and e["v"] in e["cpre"] and sorted(e["pres"]) == e["cpre"] \
                        and any(since.get(k, 0) < since.get(e["v"], 0) for k in e["cpre"]):
                    wit["fifo_named_a_key_that_came_back_while_an_older_one_was_cached"] += 1
            if kind == "FIFO" and len(post["order"]) > len(set(post["order"])):
                wit["fifo_queue_holds_a_key_twice"] += 1
            tracked = set(post["order"]) | {p[0] for p in post["pos"]} | {p[0] for p in post["freq"]}
            if tracked - set(e["cpost"]):
                wit["steps_with_entries_of_uncached_keys"] += 1
            wit["longest_order_list"] = max(wit["longest_order_list"], len(post["order"]))
    return res, wit, probes


def run(rep, wd, big):
    info = {}
    with ProcessPoolExecutor(max_workers=4) as ex:
        fc = ex.submit(_conformance, wd, big)
        fd = ex.submit(_design, "MC_CachePolicy.cfg",
                       "intended design: the victim is a presented key, LRU least recent, LFU minimal count, FIFO oldest, a removed "
                       "key is forgotten, no leak, position map consistent", 1)
        ff = [ex.submit(_must_fail, e) for e in MUST_FAIL]
        r = fd.result()
        res, wit, probes = fc.result()
        info["counterexamples"] = dict(f.result() for f in ff)
    rep.add_tlc(r, "Cache eviction strategies (intended)")
    info["states"] = r.distinct
    if big:
        with ProcessPoolExecutor(max_workers=2) as ex:
            fb = ex.submit(_design, "MC_CachePolicy_big.cfg", "intended design, four keys", 2)
            fa = ex.submit(_design, "MC_CachePolicy_asimpl.cfg", "the code as it is (all deviations on): what still holds", 2)
            rb, ra = fb.result(), fa.result()
        rep.add_tlc(rb, "Cache eviction strategies (intended, four keys)")
        rep.add_tlc(ra, "Cache eviction strategies (as implemented)")
        info["states"] += rb.distinct + ra.distinct
    info["steps_checked"] = res["checked"]
    info["drift"] = res["nviol"]
    info["drift_samples"] = res["viol"][:5]
    info["deviation_witnesses_in_trace"] = wit
    info["cache_manager_probes"] = probes
    if res["nviol"]:
        print("MODEL-DRIFT module=CachePolicy steps=%d drift=%d (informational: the transition / victim functions of "
              "CachePolicyRules.tla no longer describe the eviction strategies)" % (res["checked"], res["nviol"]), flush=True)
    rep.coverage["growth_cachepol"] = info
    return info
