"""C11 - unvouched identities gain no meaningful trust; anchors keep a floor."""
import copy
import os
import re
import vlib

TRACE_MOD = "Trace_TrustMass"


def run(tier):
    rep = vlib.Report("C11", tier, "model_checking")
    wd = vlib.workdir("C11")
    vlib.build_harness()
    big = tier == "thorough"
    # 1. design: lumped mass-flow model, every configuration; un-lumped 4-node graph against its lumping
    r = vlib.tlc_must_hold("TrustMass", "MC_TrustMass.cfg", "lumped model, 480 configurations, intended iteration", workers=4, coverage=True, timeout=600)
    rep.add_tlc(r, "TrustMass lumped exhaustive")
    if r.coverage.get("Round", 0) == 0:
        raise vlib.ToolError("vacuous: action Round never taken")
    m = re.search(r"(\d+) distinct states? generated at", r.raw)
    n_cfg = int(m.group(1)) if m else 0
    u = vlib.tlc_must_hold("TrustMassU", "MC_TrustMassU.cfg", "un-lumped 4 nodes vs lumping, intended", workers=4, timeout=600)
    rep.add_tlc(u, "TrustMassU (intended)")
    u2 = vlib.tlc_must_hold("TrustMassU", "MC_TrustMassU_drop.cfg", "un-lumped 4 nodes vs lumping, as implemented", workers=4, timeout=600)
    rep.add_tlc(u2, "TrustMassU (as implemented)")
    d = vlib.tlc_must_fail("TrustMass", "MC_TrustMass_drop.cfg", "AsImplemented_DropDangling", workers=4, timeout=600)
    if d.violated != "SybilBound":
        raise vlib.ToolError("AsImplemented_DropDangling: expected SybilBound to fail, got %s" % d.violated)
    rep.coverage["deviation_counterexamples"] = {"DropDangling": d.violated}
    # 2. impl -> spec: concrete graphs of every lumped configuration + random asymmetric ones on the real engine
    trace = os.path.join(wd, "trace.ndjson")
    randoms, variants = (3000, 3) if big else (250, 1)
    vlib.run_harness(["c11", "drive", "out=" + trace, "random=%d" % randoms, "variants=%d" % variants])
    res, tr = vlib.validate_trace(TRACE_MOD, TRACE_MOD + ".cfg", trace, os.path.join(wd, "out.json"), timeout=3000)
    if res["consumed"] != res["total"]:
        raise vlib.ToolError("trace not fully consumed")
    recs = vlib.read_ndjson(trace)
    cnt = res["cnt"]
    for e in recs:
        if e["ev"] == "Case":
            rep.traces += 1
            rep.count_case([e["nA"], e["nH"], e["nS"], e["outA"], e["outH"], e["outS"], e["pat"], e["stats"], e["edges"], e["sumS"], e["minA"]])
    if n_cfg and cnt["lumpedConfigs"] < n_cfg * variants:
        raise vlib.ToolError("driver covered %d lumped configurations, the model has %d" % (cnt["lumpedConfigs"], n_cfg))
    if cnt["judged"] == 0 or cnt["sym"] == 0:
        raise vlib.ToolError("vacuous run: %s" % cnt)
    small = [dict(e, edges=e["edges"][:12]) for e in recs if e["ev"] == "Case" and e["n"] <= 12]
    rep.sample({"cases": small[:3] + [dict(e, edges=e["edges"][:12]) for e in recs if e.get("kind") == "random"][:2]})
    for v in res["viol"]:
        if v["clause"] == "DriverFacts":
            raise vlib.ToolError("driver facts disagree with the logged edges at line %d" % v["line"])
        ev = recs[v["line"] - 1]
        rep.violation(v["clause"], v["site"], v["cond"], {"line": v["line"], "event": dict(ev, edges=ev["edges"][:60]), "trace": trace})
    if cnt["drift"]:
        print("MODEL-DRIFT property=C11 %d of %d class-symmetric graphs are more than 0.5%% away from both lumped predictions "
              "(informational; exhaustive TLC result then describes another algorithm)" % (cnt["drift"], cnt["sym"]), flush=True)
    rc = rep.finish(
        rule="concrete graph of every lumped configuration of TrustMass.tla (class-symmetric) plus seeded random graphs with "
             "asymmetric internal patterns of the closed set, equal statistics, run on the real engine; a case = (sizes, "
             "construction, positive edges, observed sum over S, min over anchors); distinct by content; bounds judged by TLC",
        trusted=["f64 sum over S / min over anchors and ppm rounding in the driver",
                 "driver's dangling/closedness facts for graphs with more than 400 edges (recomputed by TLC otherwise)",
                 "TLC", "Json/IOUtils modules"],
        extra={"events": res["total"], "counts": cnt, "violation_counts": res["keys"], "model_configurations": n_cfg,
               "model_drift": res["drift"], "tolerances_ppm": {"sum": 2, "floor": 2, "small": 1, "prediction": 5000}})
    # 3. binding self-test (after the verdict, so that a tool problem can never hide a violation)
    try:
        selftest(recs, wd)
    except vlib.ToolError:
        if rc != 1:
            raise
        print("[verif] self-test failed as well; verdict above stands", flush=True)
    return rc


def selftest(recs, wd):
    """Acceptor test that does not depend on what the implementation did: the first 40 recorded graphs with a
    conforming observation substituted (no mass in S, anchors just above the floor) must be accepted without any
    violation; with one field corrupted the acceptor must object."""
    cut = copy.deepcopy([e for e in recs if e["ev"] == "Case"][:40])
    if not cut:
        raise vlib.ToolError("self-test: empty trace")
    for e in cut:
        e["sumS"] = 0
        e["minA"] = 400000 // e["nA"] + 10
    a = copy.deepcopy(cut)
    small = [e for e in a if e["n"] <= 100]
    if not small:
        raise vlib.ToolError("self-test: no small network among the first cases")
    small[0]["sumS"] = 2000           # 0.2% for an unvouched set in a small network
    b = copy.deepcopy(cut)
    b[-1]["minA"] = (400000 // b[-1]["nA"]) - 50
    c = copy.deepcopy(cut)
    big = max(c, key=lambda e: e["nS"])
    big["sumS"] = (1000000 * big["nS"] // big["n"]) // 7 + 40     # just above share/7
    ref_p = os.path.join(wd, "selftest_ref.ndjson")
    vlib.write_ndjson(ref_p, cut)
    ref, _ = vlib.validate_trace(TRACE_MOD, TRACE_MOD + ".cfg", ref_p, os.path.join(wd, "selftest_ref.json"))
    if ref["nviol"] != 0:
        raise vlib.ToolError("self-test: conforming observations were rejected: %s" % ref["keys"])
    for name, t in (("sybilsmall", a), ("anchorfloor", b), ("sybilbound", c)):
        p = os.path.join(wd, "selftest_%s.ndjson" % name)
        vlib.write_ndjson(p, t)
        got, _ = vlib.validate_trace(TRACE_MOD, TRACE_MOD + ".cfg", p, os.path.join(wd, "selftest.json"))
        if got["nviol"] <= ref["nviol"]:
            raise vlib.ToolError("self-test %s: corrupted trace was not rejected" % name)
