"""C04 - replies reach only the matching request from the contacted peer; no leaks."""
import copy
import os
import vlib


def run(tier):
    rep = vlib.Report("C04", tier, "model_checking")
    wd = vlib.workdir("C04")
    vlib.build_harness()
    big = tier == "thorough"
    for cfg, what in (("MC_Rpc.cfg", "tables with sender binding"), ("MC_Rpc_core.cfg", "engine table (no sender in the API)")):
        r = vlib.tlc_must_hold("Rpc", cfg, what, workers=8, coverage=(cfg == "MC_Rpc.cfg"))
        rep.add_tlc(r, "Rpc exhaustive: " + what)
        if cfg == "MC_Rpc.cfg":
            for a in ("Send", "Deliver", "ReturnReply", "Timeout", "Cancel"):
                if r.coverage.get(a, 0) == 0:
                    raise vlib.ToolError("vacuous: action %s never taken" % a)
    dev = {}
    for f in ("NoCancelCleanup", "NoSenderCheck"):
        dev[f] = vlib.tlc_must_fail("Rpc", "MC_Rpc_%s.cfg" % f, "AsImplemented_" + f, workers=4).violated
    rep.coverage["deviation_counterexamples"] = dev
    # unbounded in the number of steps: an inductive invariant of the typed model, discharged by Apalache
    obligations = [("Init", "IndInv", 0), ("IndInv", "IndInv", 1), ("IndInv", "Props", 0)]
    done = 0
    for init, inv, length in obligations:
        ok, secs = vlib.apalache("Rpc_apalache", init, inv, length)
        if not ok:
            raise vlib.ToolError("Apalache: %s => %s (length %d) not discharged" % (init, inv, length))
        done += 1
        vlib.log("Apalache Rpc_apalache %s => %s length %d: ok, %.1fs" % (init, inv, length, secs))
    rep.coverage["inductive_invariant"] = {"module": "Rpc_apalache", "obligations": len(obligations), "discharged": done,
                                           "meaning": "the C04 clauses hold for histories of any length over 3 ids x 2 peers x 2 values"}
    trace = os.path.join(wd, "trace.ndjson")
    vlib.run_harness(["c04", "drive", "out=" + trace, "segments=%d" % (12000 if big else 1200)], timeout=3000)
    res, tr = vlib.validate_trace("Trace_Rpc", "Trace_Rpc.cfg", trace, os.path.join(wd, "out.json"), timeout=3000)
    if res["consumed"] != res["total"]:
        raise vlib.ToolError("trace not fully consumed")
    recs = vlib.read_ndjson(trace)
    seg = []
    for e in recs + [{"ev": "Reset"}]:
        if e["ev"] == "Reset":
            if seg:
                rep.traces += 1
                # a case = the segment's schedule with ids and peers abstracted away
                ids, peers, norm = {}, {}, []
                for x in seg:
                    y = {k: v for k, v in x.items() if k not in ("id", "peer", "sender", "err")}
                    if "id" in x:
                        y["id"] = ids.setdefault(x["id"], len(ids))
                    for f in ("peer", "sender"):
                        if f in x:
                            y[f] = peers.setdefault(x[f], len(peers))
                    norm.append(y)
                rep.count_case(norm)
                if len(rep.coverage["samples"]) < 3 and len(seg) > 8:
                    rep.sample(seg)
            seg = [e] if "table" in e else []
        else:
            seg.append(e)
    for v in res["viol"]:
        j = v["line"] - 1
        while j > 0 and recs[j]["ev"] != "Reset":
            j -= 1
        rep.violation(v["clause"], v["site"], v["cond"], {"line": v["line"], "segment": recs[j:v["line"]]})
    rep.coverage["acceptor_mismatches_total"] = res["nviol"]
    if not rep.unknown_violations():
        selftest(recs, wd)
    # specification growth hosted here (production resource manager: permits, rate buckets, shutdown): conformance, informational (MODEL-DRIFT, never a VIOLATION)
    import growth_resource
    growth_resource.run(rep, wd, big)
    return rep.finish(
        rule="concurrent real requests on the three pending tables (/rr/ send_request, DHT send_request, engine retrieve) in virtual time; "
             "an adversary injects reply frames into the unmodified receive loop under arbitrary authenticated-sender ids (right, wrong "
             "sender, unknown id, duplicate, late) and aborts request futures; plus the 256-entry cap; a case = one segment's schedule",
        trusted=["verif_inject delivers bytes to the receive loop as the transport would for that authenticated peer",
                 "virtual-time order of logged events on a current-thread runtime", "TLC"],
        extra={"calls": res["checked"], "injected_replies": res["injected"]})


def selftest(recs, wd):
    cut = recs[:600]
    idx = [i for i, e in enumerate(cut) if e["ev"] == "Ret" and e["ok"]]
    if not idx:
        raise vlib.ToolError("self-test: no successful call in the first events")
    ref_p = os.path.join(wd, "selftest_ref.ndjson")
    vlib.write_ndjson(ref_p, cut)
    ref, _ = vlib.validate_trace("Trace_Rpc", "Trace_Rpc.cfg", ref_p, os.path.join(wd, "selftest_ref.json"))
    a = copy.deepcopy(cut)
    a[idx[0]]["val"] += 1          # the call "received" a value nobody sent to it
    b = copy.deepcopy(cut)
    sizes = [i for i, e in enumerate(b) if e["ev"] == "Sizes"]
    b[sizes[0]]["pending"] = 1     # an entry "left behind"
    for name, t in (("value", a), ("residue", b)):
        p = os.path.join(wd, "selftest_%s.ndjson" % name)
        vlib.write_ndjson(p, t)
        got, _ = vlib.validate_trace("Trace_Rpc", "Trace_Rpc.cfg", p, os.path.join(wd, "selftest.json"))
        if got["nviol"] <= ref["nviol"]:
            raise vlib.ToolError("self-test %s: corrupted trace was not rejected" % name)
