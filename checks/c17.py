"""C17 - placement returns exactly k distinct diverse candidates or an error."""
import copy
import os
import vlib
import a_common


def run(tier):
    rep = vlib.Report("C17", tier, "model_checking")
    wd = vlib.workdir("C17")
    vlib.build_harness()
    big = tier == "thorough"
    # 1. design: every outcome reachable by k rounds of pick-any + validation is admissible
    jobs = [
        lambda: vlib.tlc_must_hold("Placement", "MC_Placement_big.cfg" if big else "MC_Placement.cfg",
                                   "all candidate multisets, k, pick orders", workers=8 if big else 4, timeout=3000),
        lambda: vlib.tlc_must_hold("Placement", "MC_Placement_meta.cfg", "with metadata gaps", workers=2, timeout=3000),
    ]
    names = []
    for v in ("NoValidate", "WithReplacement", "RegionOffByOne"):
        names.append(v)
        jobs.append(lambda v=v: vlib.tlc_must_fail("Placement", "MC_Placement_v%s.cfg" % v, "wrong design " + v, workers=1))
    for p in ("NeverOk", "NeverValidationError"):
        names.append(p)
        jobs.append(lambda p=p: vlib.tlc_must_fail("Placement", "MC_Placement_vac_%s.cfg" % p, "non-vacuity probe " + p, workers=1))
    if os.environ.get("VERIF_DEV_SKIP_MC"):      # developer aid for mutation runs: design part skipped, evidence incomplete
        jobs = [lambda: vlib.TlcResult() for _ in jobs]
    res = a_common.parallel(jobs)
    rep.add_tlc(res[0], "Placement exhaustive")
    rep.add_tlc(res[1], "Placement with metadata gaps")
    rep.coverage["deviation_counterexamples"] = {n: r.violated for n, r in zip(names, res[2:])}
    # 2. impl -> spec
    trace = os.path.join(wd, "trace.ndjson")
    args = ["inputs=1500", "seeds=200", "samples=4000", "draws=20000"] if big else ["inputs=300", "seeds=60", "samples=500", "draws=2000"]
    vlib.run_harness(["c17", "drive", "out=" + trace] + args)
    recs = vlib.read_ndjson(trace)
    # the trace is stateless: any split is a valid segmentation
    chunk = 1500 if big else 700
    marked = []
    for i, e in enumerate(recs):
        if i % chunk == 0 and e["ev"] != "Reset":
            marked.append({"ev": "Reset", "part": "chunk"})
        marked.append(e)
    out, states = a_common.validate_sharded("Trace_Placement", "Trace_Placement.cfg", marked, wd, shards=6 if big else 4)
    outcomes = {}
    for e in marked:
        if e["ev"] == "Place":
            key = e["out"]["kind"] + ":" + e["out"].get("err", "")
            outcomes[key] = outcomes.get(key, 0) + 1
            rep.count_case([e["via"], e["k"], e["scores"], e["cands"], e["out"].get("sel"), e["out"].get("err")])
        elif e["ev"] in ("Sample", "Weight", "Rf", "RfValid", "Bt", "Tally"):
            rep.count_case(e)
    rep.traces = sum(1 for e in marked if e["ev"] in ("Place", "Sample"))
    small = [e for e in marked if e["ev"] == "Place" and len(e["cands"]) <= 6 and e["out"]["kind"] == "ok" and e["k"] >= 2][:2]
    rep.sample({"placements": small, "sample": [e for e in marked if e["ev"] == "Sample"][:2],
                "tally": [e for e in marked if e["ev"] == "Tally"]})
    for v in out["viol"]:
        ev = marked[v["line"] - 1]
        rep.violation(v["clause"], v["site"], v["cond"], {"line": v["line"], "event": ev, "trace": trace})
    if out["nviol"] > len(out["viol"]):
        rep.notes.append("%d violations in total, at most 40 per signature and shard kept" % out["nviol"])
    if a_common.mark_bad(marked, out):
        selftest(marked, wd)
    else:
        rep.notes.append("self-test skipped: violation list capped")
    # specification growth hosted here (node age verification): conformance, informational (MODEL-DRIFT, never a VIOLATION)
    import growth_nodeage
    growth_nodeage.run(rep, wd, big)
    return rep.finish(
        rule="a case = (entry point, k, optimisation weights, candidate set with region/ASN/site/metadata flag, distinct outcome "
             "over the sampler seeds tried) from the real select_nodes; plus sample_nodes / calculate_weight calls with degenerate "
             "scores, the 10:1 and 3:1 tallies and the bounds tables; traces_validated_against_impl counts placement and sampler "
             "calls judged; distinct by content",
        trusted=["site grid construction (members of a site <= ~42.5 km apart, different sites >= ~63 km apart) as the near relation",
                 "candidate index bookkeeping", "TLC", "Json/IOUtils modules"],
        extra={"calls_checked": out["checked"], "events": len(marked), "placement_outcomes": outcomes,
               "placements_ok": out.get("placements_ok"),
               "library_distance_contradicts_grid": out.get("distance_contradicts_grid"),
               "statistical_tally": "one-sided: heavy-first must exceed light-first over the draws; reported separately from the "
                                    "specification verdicts (clause FavoursHeavier)"})


def selftest(recs, wd):
    """Corrupt recorded outcomes; the acceptor must notice."""
    cut = recs[:600] + [e for e in recs if e["ev"] == "Sample"][:60] + [e for e in recs if e["ev"] == "Rf"][:80]
    muts = {}
    for i, e in enumerate(cut):
        if e.get("_bad"):
            continue
        if e["ev"] == "Place" and e["out"]["kind"] == "ok" and len(e["out"]["sel"]) >= 2:
            if "repeat" not in muts:
                m = copy.deepcopy(cut)
                m[i]["out"]["sel"][1] = m[i]["out"]["sel"][0]
                muts["repeat"] = m
            if "short" not in muts:
                m = copy.deepcopy(cut)
                m[i]["out"]["sel"] = m[i]["out"]["sel"][:-1]
                muts["short"] = m
            if "samesite" not in muts:
                m = copy.deepcopy(cut)
                a, b = m[i]["out"]["sel"][0], m[i]["out"]["sel"][1]
                for c in m[i]["cands"]:
                    if c["id"] == b:
                        c["site"] = next(x["site"] for x in m[i]["cands"] if x["id"] == a)
                muts["samesite"] = m
        if e["ev"] == "Rf" and e["ok"] and "rf" not in muts:
            m = copy.deepcopy(cut)
            m[i]["min"] = 0
            muts["rf"] = m
    if len(muts) < 4:
        raise vlib.ToolError("self-test: trace has no usable events (%s)" % sorted(muts))
    a_common.selftest_traces("Trace_Placement", "Trace_Placement.cfg", wd, cut, muts)
