"""Specification growth module Refresh: bucket refresh / validation bookkeeping of the Kademlia routing maintenance
(BucketRefreshState, BucketRefreshManager in src/dht/routing_maintenance/refresh.rs) and the attack-mode switch it drives.
Refresh.tla (exhaustive) + Trace_Refresh.tla (conformance of the real object, harness module `refresh`).
Mismatches are MODEL-DRIFT (informational, never a VIOLATION)."""
import os
import threading
import time
from concurrent.futures import ThreadPoolExecutor

import vlib

# (cfg, what, invariant that must be violated)
DEVIATIONS = [
    ("MC_Refresh_MarkLostIfAbsent.cfg", "as implemented: bucket created after mark_close_group starts as Background", "CloseGroupIsCritical"),
    ("MC_Refresh_TierIgnoresCount.cfg", "as implemented: node_count changes without re-tiering", "TierIsFunction"),
    ("MC_Refresh_TrackDuplicates.cfg", "as implemented: a node tracked twice is listed twice", "TrackedIsSet"),
    ("MC_Refresh_ResetNotPropagated.cfg", "as implemented: reset_validation_failures does not reach the validator's failure snapshot", "SnapshotNotStale"),
    ("MC_Refresh_vRecentBeatsClose.cfg", "wrong variant: recently-used beats close-group", "CloseGroupIsCritical"),
]

_START = threading.Lock()


def _spaced(fn, *a, **kw):
    """vlib.tlc names its scratch directory after (module, pid, millisecond): starts within one process are spaced out."""
    with _START:
        time.sleep(0.02)
    return fn(*a, **kw)


def run(rep, wd, big):
    info = {}
    trace = os.path.join(wd, "refresh.ndjson")
    vlib.run_harness(["refresh", "drive", "out=" + trace, "segments=%d" % (400 if big else 40), "ops=60"])
    # at most 4 TLC workers at any time: the design run takes 2, the other two lanes run the acceptor and the
    # counterexample configurations with one worker each
    with ThreadPoolExecutor(max_workers=3) as pool:
        design = pool.submit(_spaced, vlib.tlc_must_hold, "Refresh", "MC_Refresh.cfg",
                             "intended design: fresh buckets not listed, tier function, tracked set, attack-mode thresholds, counters grow", workers=2)
        conf = pool.submit(_spaced, vlib.validate_trace, "Trace_Refresh", "Trace_Refresh.cfg", trace, os.path.join(wd, "refresh_out.json"))
        fails = [(cfg, inv, pool.submit(_spaced, vlib.tlc_must_fail, "Refresh", cfg, what, workers=1)) for cfg, what, inv in DEVIATIONS]
        r = design.result()
        res, _ = conf.result()
        results = [(cfg, inv, f.result()) for cfg, inv, f in fails]
    rep.add_tlc(r, "Bucket refresh bookkeeping (intended design)")
    info["states"] = r.distinct
    info["counterexamples"] = {}
    for cfg, inv, x in results:
        if x.violated != inv:
            raise vlib.ToolError("TLC Refresh/%s: expected a counterexample of %s, got %s" % (cfg, inv, x.violated))
        info["counterexamples"][cfg] = x.violated
    if big:
        for cfg, what, inv in (("MC_Refresh_attack_ResetNotPropagated.cfg", "as implemented: a stale failure snapshot blocks check_deescalation after a reset", "DeescalationEffective"),
                               ("MC_Refresh_vac_NeverDeescalates.cfg", "non-vacuity: attack mode is entered and left within the bounds", "Vac_NeverDeescalates")):
            x = vlib.tlc_must_fail("Refresh", cfg, what, workers=4)
            if x.violated != inv:
                raise vlib.ToolError("TLC Refresh/%s: expected a counterexample of %s, got %s" % (cfg, inv, x.violated))
            info["counterexamples"][cfg] = x.violated
        for cfg, what in (("MC_Refresh_tiers.cfg", "intended design, refresh / tier / tracking operations, 6 steps"),
                          ("MC_Refresh_attack.cfg", "intended design, validation counters and attack mode, 6 steps")):
            rb = vlib.tlc_must_hold("Refresh", cfg, what, workers=4)
            rep.add_tlc(rb, "Bucket refresh bookkeeping (%s)" % cfg)
            info["states"] += rb.distinct
    info["steps_checked"] = res["checked"]
    info["drift"] = res["nviol"]
    info["drift_samples"] = res["viol"][:5]
    if res["nviol"]:
        print("MODEL-DRIFT module=Refresh steps=%d drift=%d (informational: the transition functions of RefreshRules.tla no longer "
              "describe BucketRefreshManager's bookkeeping)" % (res["checked"], res["nviol"]), flush=True)
    rep.coverage["growth_refresh"] = info
    return info
