"""C02 - routing-table closest-node answers are exact, duplicate-free and capped."""
import os
import vlib


def run(tier):
    rep = vlib.Report("C02", tier, "model_checking")
    wd = vlib.workdir("C02")
    vlib.build_harness()
    big = tier == "thorough"
    # 1. design: exhaustive TLC on Kademlia.tla (fixed design must hold; pinned-tree variants must fail)
    r = vlib.tlc_must_hold("Kademlia", "MC_Kademlia_big.cfg" if big else "MC_Kademlia.cfg", "table+answers, all keys and counts",
                           workers=16 if big else 8, coverage=True, timeout=3000)
    rep.add_tlc(r, "Kademlia exhaustive")
    for a in ("Add", "Rm"):
        if r.coverage.get(a, 0) == 0:
            raise vlib.ToolError("vacuous: action %s never taken" % a)
    w = vlib.tlc_must_fail("Kademlia", "MC_Kademlia_walk.cfg", "AsImplemented_BucketWalk", workers=4)
    d = vlib.tlc_must_fail("Kademlia", "MC_Kademlia_dup.cfg", "AsImplemented_DupAdd", workers=4)
    rep.coverage["deviation_counterexamples"] = {"BucketWalk": w.violated, "DupAdd": d.violated}
    # 2. impl -> spec: recorded histories of the real engine judged by Trace_Kademlia.tla
    trace = os.path.join(wd, "trace.ndjson")
    segs, ops = (700, 60) if big else (84, 45)
    vlib.run_harness(["c02", "drive", "out=" + trace, "segments=%d" % segs, "ops=%d" % ops])
    res, tr = vlib.validate_trace("Trace_Kademlia", "Trace_Kademlia.cfg", trace, os.path.join(wd, "out.json"))
    if res["consumed"] != res["total"]:
        raise vlib.ToolError("trace not fully consumed")
    recs = vlib.read_ndjson(trace)
    seg = 0
    for e in recs:
        if e["ev"] == "Reset":
            seg += 1
            rep.traces += 1
        elif e["ev"] == "Find":
            rep.count_case([seg and 0, e["via"], e["key"], e["n"], e["ans"]])
    rep.sample({"segment_head": recs[:8]})
    for v in res["viol"]:
        ctx = recs[max(0, v["line"] - 6):v["line"]]
        rep.violation(v["clause"], v["cond"], "any", {"line": v["line"], "event": recs[v["line"] - 1], "context": ctx, "trace": trace})
    if res["nviol"] > len(res["viol"]):
        rep.notes.append("%d violations in total, first %d kept" % (res["nviol"], len(res["viol"])))
    # 2b. reply rule: find-node replies of real managers observed at the in-memory hub (driver c01), judged by Trace_Lookup.tla
    ltrace = os.path.join(wd, "lookup_trace.ndjson")
    vlib.run_harness(["c01", "drive", "out=" + ltrace, "segments=%d" % (400 if big else 50), "lookups=5"], timeout=3000)
    lres, _ = vlib.validate_trace("Trace_Lookup", "Trace_Lookup.cfg", ltrace, os.path.join(wd, "lookup_out.json"), timeout=3000)
    lrecs = vlib.read_ndjson(ltrace)
    for e in lrecs:
        if e["ev"] == "Reply":
            rep.count_case(["reply", e["x"], e["r"], e["known"], e["nodes"], e["rank"]])
    for v in lres["viol"]:
        if v["site"] in ("handle_lookup_request", "find_closest_nodes_local"):
            rep.violation(v["clause"], v["site"], v["cond"], {"line": v["line"], "event": lrecs[v["line"] - 1]})
    rep.coverage["replies_checked"] = lres["replies"]
    # 2c. spec -> impl: TLC-generated behaviours of the table model replayed on the real engine, answers compared after every step
    import json as _json
    behaviours, rr = vlib.tlc_replays("Replay_Kademlia", "Replay_Kademlia.cfg", num=600 if big else 60, depth=13, seed_arg=vlib.seed())
    rpath = os.path.join(wd, "replay.ndjson")
    vlib.write_ndjson(rpath, behaviours)
    out = vlib.run_harness(["c02", "replay", "in=" + rpath])
    rres = _json.loads(out.strip().splitlines()[-1])
    rep.coverage["replayed_behaviours"] = rres["behaviours"]
    rep.coverage["replayed_steps"] = rres["steps"]
    rep.coverage["replay_answers_compared"] = rres["compared"]
    rep.traces += rres["behaviours"]
    for m in rres["mismatches"]:
        rep.violation("ReplayExact", "find_nodes", "any", m)
    if rres["compared"] == 0:
        raise vlib.ToolError("replay compared nothing")
    # 3. binding self-test: a corrupted answer and a dropped Add must be rejected by the acceptor
    if not rep.unknown_violations():
        selftest(recs, wd)   # binding self-test (skipped when the run already has mismatches to report)
    return rep.finish(
        rule="random join/add/fail/evict histories over embedded 3..10-bit id spaces on the real DhtCoreEngine; a case = "
             "(entry point, key, n, answer); distinct by content; every answer compared with Closest(members,key,n) by TLC",
        trusted=["harness id embedding (order preserving, decode checked by re-embedding)", "TLC", "Json/IOUtils modules"],
        extra={"answers_checked": res["checked"], "events": res["total"]})


def selftest(recs, wd):
    """Mutate the recorded trace; the acceptor must notice (guards against a vacuous trace spec)."""
    import copy
    cut = recs[:400]
    idx = [i for i, e in enumerate(cut) if e["ev"] == "Find" and len(e["ans"]) >= 2]
    drop = None
    for i, e in enumerate(cut):
        if e["ev"] == "Add" and e["ok"] and i + 1 < len(cut) and cut[i + 1]["ev"] == "Find" and e["x"] in cut[i + 1]["ans"] \
                and not any(p["ev"] == "Add" and p["x"] == e["x"] for p in cut[:i]):
            drop = i
            break
    if not idx or drop is None:
        raise vlib.ToolError("self-test: trace has no usable events")
    a = copy.deepcopy(cut)
    a[idx[-1]]["ans"] = list(reversed(a[idx[-1]]["ans"]))
    b = [e for i, e in enumerate(cut) if i != drop]
    ref_p = os.path.join(wd, "selftest_ref.ndjson")
    vlib.write_ndjson(ref_p, cut)
    ref, _ = vlib.validate_trace("Trace_Kademlia", "Trace_Kademlia.cfg", ref_p, os.path.join(wd, "selftest_ref.json"))
    for name, t in (("swap", a), ("dropadd", b)):
        p = os.path.join(wd, "selftest_%s.ndjson" % name)
        vlib.write_ndjson(p, t)
        got, _ = vlib.validate_trace("Trace_Kademlia", "Trace_Kademlia.cfg", p, os.path.join(wd, "selftest.json"))
        if got["nviol"] <= ref["nviol"]:
            raise vlib.ToolError("self-test %s: corrupted trace was not rejected" % name)
