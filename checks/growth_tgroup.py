"""Specification growth module TGroup: membership and role management of threshold groups (ThresholdGroup in
src/threshold/mod.rs, its methods in src/threshold/group.rs: check_permission, get_active_participants,
has_threshold_participants, add_pending_participant, mark_for_removal, update_participant_role, suspend_participant,
update_threshold, get_participants_by_role, get_hierarchy, validate, add_audit_entry, get_stats; and the constructor
ThresholdGroupManager::create_group).
TGroup.tla (+ TGroupRules.tla) is model-checked, Trace_TGroup.tla binds it to the real code through the harness driver
`tgroup drive`. Mismatches are MODEL-DRIFT (informational, never a VIOLATION).

Lanes: the design check with two workers, the driver + acceptor with one, the counterexample configurations with one -
never more than four TLC workers at a time."""
import os
import threading
import time
from concurrent.futures import ThreadPoolExecutor

import vlib

# (cfg, what, invariant that must be violated)
DEVIATIONS = [
    ("MC_TGroup_ErrorMutates.cfg", "as implemented: mark_for_removal / suspend_participant write the status and the version, "
     "then answer InsufficientParticipants - the group is left below its threshold by a call that failed", "ThresholdWithinActive"),
    ("MC_TGroup_LastLeaderDemotable.cfg", "as implemented: update_participant_role takes the last leader's role away, validate() rejects the result",
     "ValidateClosure"),
    ("MC_TGroup_CreateSkipsValidate.cfg", "as implemented: create_group returns groups validate() rejects (no leader / duplicate ids)", "FreshGroupValid"),
    ("MC_TGroup_PermissionIgnoresStatus.cfg", "as implemented: check_permission grants to suspended / pending-removal participants",
     "NoPermissionUnlessActive"),
    ("MC_TGroup_DeadPermissions.cfg", "as implemented: Vote / AssignRoles / CreateSubgroup are granted to nobody although can_vote / "
     "can_assign_roles / can_create_subgroups exist", "EveryPermissionGrantable"),
    ("MC_TGroup_HugeSuspensionPanics.cfg", "as implemented: suspend_participant(.., Duration::MAX) panics (SystemTime::now() + duration)", "NoPanic"),
    ("MC_TGroup_vThresholdIgnoresActive.cfg", "wrong variant: update_threshold compares with n only", "ThresholdWithinActive"),
]
VACUITY = [
    ("MC_TGroup_vac_NeverInsufficient.cfg", "non-vacuity: a removal / suspension is refused for lack of quorum within the bounds", "Vac_NeverInsufficient"),
    ("MC_TGroup_vac_NeverLastLeaderRefused.cfg", "non-vacuity: demoting the last leader is attempted within the bounds", "Vac_NeverLastLeaderRefused"),
    ("MC_TGroup_vac_NeverAuditFull.cfg", "non-vacuity: the audit log fills up within the bounds", "Vac_NeverAuditFull"),
]
DEAD = {"Vote": ("Member", "vote"), "AssignRoles": ("Leader", "assign"), "CreateSubgroup": ("Leader", "subgroup")}

_START = threading.Lock()


def _spaced(fn, *a, **kw):
    """starts of TLC within one process are spaced out"""
    with _START:
        time.sleep(0.02)
    return fn(*a, **kw)


def _witnesses(trace):
    """occurrences of the reported deviations in this very run (informational; read off the trace, no judgement)"""
    wit = {"failed_call_changed_the_group": 0, "below_threshold_after_failed_call": 0, "last_leader_demoted_validate_rejects": 0,
           "create_returned_group_validate_rejects": 0, "permission_granted_to_non_active": 0, "dead_permission_denied_despite_flag": 0,
           "suspend_panicked": 0, "validate_rejects_after_successful_method": 0}
    was_valid = False
    for e in vlib.read_ndjson(trace):
        if e.get("ev") == "Reset":
            was_valid = e["obs"]["valid"]["cls"] == "Ok"
            continue
        if e.get("ev") != "Step":
            continue
        op, cls, valid = e["op"], e["res"]["cls"], e["obs"]["valid"]["cls"] == "Ok"
        if op in ("mark", "suspend") and cls == "Insufficient" and e["pre"] != e["post"]:
            wit["failed_call_changed_the_group"] += 1
            if not e["obs"]["has"]:
                wit["below_threshold_after_failed_call"] += 1
        if op == "role" and cls == "Ok" and was_valid and e["obs"]["valid"]["msg"] == "Group must have at least one leader":
            wit["last_leader_demoted_validate_rejects"] += 1
        if op == "create" and cls == "Ok" and not valid:
            wit["create_returned_group_validate_rejects"] += 1
        if op != "create" and cls == "Ok" and was_valid and not valid:
            wit["validate_rejects_after_successful_method"] += 1
        if op == "check":
            who = [p for p in e["pre"]["act"] if p["id"] == e["id"]][:1]
            if cls == "Ok" and who and who[0]["st"] != "Active":
                wit["permission_granted_to_non_active"] += 1
            if cls == "Unauthorized" and who and e["perm"] in DEAD:
                kind, flag = DEAD[e["perm"]]
                if who[0]["role"]["k"] == kind and flag in who[0]["role"]["p"]:
                    wit["dead_permission_denied_despite_flag"] += 1
        if cls == "Panic":
            wit["suspend_panicked"] += 1
        was_valid = valid
    return wit


def _conformance(wd, big):
    trace = os.path.join(wd, "tgroup.ndjson")
    vlib.run_harness(["tgroup", "drive", "out=" + trace, "segments=%d" % (600 if big else 60), "ops=40"])
    res, _ = _spaced(vlib.validate_trace, "Trace_TGroup", "Trace_TGroup.cfg", trace, os.path.join(wd, "tgroup_out.json"))
    return res, _witnesses(trace)


def run(rep, wd, big):
    info = {}
    with ThreadPoolExecutor(max_workers=3) as pool:
        design = pool.submit(_spaced, vlib.tlc_must_hold, "TGroup", "MC_TGroup.cfg",
                             "intended design: quorate groups stay quorate, validate() closed under the methods, errors change nothing, "
                             "permissions only for active participants, every permission grantable, queries agree, audit log bounded",
                             workers=2)
        conf = pool.submit(_conformance, wd, big)
        fails = [(cfg, inv, pool.submit(_spaced, vlib.tlc_must_fail, "TGroup", cfg, what, workers=1))
                 for cfg, what, inv in DEVIATIONS + (VACUITY if big else [])]
        r = design.result()
        res, wit = conf.result()
        results = [(cfg, inv, f.result()) for cfg, inv, f in fails]
    rep.add_tlc(r, "Threshold group membership (intended design)")
    info["states"] = r.distinct
    info["counterexamples"] = {}
    for cfg, inv, x in results:
        if x.violated != inv:
            raise vlib.ToolError("TLC TGroup/%s: expected a counterexample of %s, got %s" % (cfg, inv, x.violated))
        info["counterexamples"][cfg] = x.violated
    if big:
        rb = vlib.tlc_must_hold("TGroup", "MC_TGroup_big.cfg", "intended design, every initial status mix, 4 mutations", workers=4, timeout=3000)
        rep.add_tlc(rb, "Threshold group membership (MC_TGroup_big.cfg)")
        info["states"] += rb.distinct
    info["steps_checked"] = res["checked"]
    info["drift"] = res["nviol"]
    info["drift_samples"] = res["viol"][:5]
    info["deviation_witnesses_in_trace"] = wit
    if res["nviol"]:
        print("MODEL-DRIFT module=TGroup steps=%d drift=%d (informational: the transition / verdict functions of TGroupRules.tla no longer "
              "describe ThresholdGroup)" % (res["checked"], res["nviol"]), flush=True)
    rep.coverage["growth_tgroup"] = info
    return info
