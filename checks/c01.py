"""C01 - iterative lookup returns the K closest responsive nodes it could learn of."""
import copy
import os
import vlib

LOOKUP_CLAUSES = None  # every clause with site find_closest_nodes belongs to C01; reply clauses to C02


def run(tier):
    rep = vlib.Report("C01", tier, "model_checking")
    wd = vlib.workdir("C01")
    vlib.build_harness()
    big = tier == "thorough"
    r = vlib.tlc_must_hold("Lookup", "MC_Lookup_big.cfg" if big else "MC_Lookup.cfg",
                           "all knowledge graphs x targets x silent sets, safety + termination",
                           workers=16 if big else 8, timeout=3000, coverage=not big)
    rep.add_tlc(r, "Lookup exhaustive")
    dev = {}
    for f in ("ConvergeBreak", "UnsortedWorst", "SeedOnlyK") if big else ("ConvergeBreak",):
        x = vlib.tlc_must_fail("Lookup", "MC_Lookup_%s.cfg" % f, "AsImplemented_" + f, workers=8, timeout=1500)
        dev[f] = x.violated
    rep.coverage["deviation_counterexamples"] = dev
    trace = os.path.join(wd, "trace.ndjson")
    segs, looks = (1500, 8) if big else (150, 6)
    frames = os.path.join(wd, "frames.ndjson")
    vlib.run_harness(["c01", "drive", "out=" + trace, "frames=" + frames, "segments=%d" % segs, "lookups=%d" % looks], timeout=3000)
    # spec -> impl: every configuration (graph x target x silent set) of the implementation-shaped model, enumerated by TLC,
    # built with real managers; the lookups join the trace (P-level verdicts) and are compared with the model's answer (drift)
    cfgs = []
    for cfgname in ("Replay_Lookup_k2.cfg", "Replay_Lookup_k3.cfg"):
        b, rr = vlib.tlc_behaviours("Replay_Lookup", cfgname, workers=8 if big else 4, timeout=3000)
        rep.add_tlc(rr, "Replay_Lookup " + cfgname)
        cfgs += b
    cfg_p = os.path.join(wd, "replay_cfgs.ndjson")
    vlib.write_ndjson(cfg_p, cfgs)
    rtrace = os.path.join(wd, "replay_trace.ndjson")
    stride = 1 if big else 5 + vlib.seed() % 3      # quick: every 5th..7th configuration, the offset varies with the seed
    vlib.run_harness(["c01", "replay", "in=" + cfg_p, "out=" + rtrace, "stride=%d" % stride], timeout=3000)
    with open(trace, "a") as f, open(rtrace) as g:
        f.write(g.read())
    if big:
        # five nodes: 49 152 configurations enumerated, every 8th..10th replayed (a real cluster per configuration)
        b, rr = vlib.tlc_behaviours("Replay_Lookup", "Replay_Lookup_big.cfg", workers=8, timeout=3000)
        rep.add_tlc(rr, "Replay_Lookup Replay_Lookup_big.cfg")
        cfgs += b
        cfg5 = os.path.join(wd, "replay_cfgs5.ndjson")
        vlib.write_ndjson(cfg5, b)
        rtrace5 = os.path.join(wd, "replay_trace5.ndjson")
        vlib.run_harness(["c01", "replay", "in=" + cfg5, "out=" + rtrace5, "stride=%d" % (8 + vlib.seed() % 3)], timeout=3000)
        with open(trace, "a") as f, open(rtrace5) as g:
            f.write(g.read())
    res, tr = vlib.validate_trace("Trace_Lookup", "Trace_Lookup.cfg", trace, os.path.join(wd, "out.json"), timeout=3000)
    if res["consumed"] != res["total"]:
        raise vlib.ToolError("trace not fully consumed")
    recs = vlib.read_ndjson(trace)
    for e in recs:
        if e["ev"] == "Reset":
            rep.traces += 1
        elif e["ev"] == "Lookup":
            rep.count_case([e["self"], e["k"], e["rank"], e["initial"], e["reqs"], e["result"]])
            if len(rep.coverage["samples"]) < 3 and len(e["reqs"]) >= 3:
                rep.sample(e)
    for v in res["viol"]:
        if v["site"] != "find_closest_nodes":
            continue
        rep.violation(v["clause"], v["site"], v["cond"], {"line": v["line"], "event": recs[v["line"] - 1]})
    drift = [v for v in res["viol"] if v["site"] == "model"]
    nmodel = sum(1 for e in recs if e["ev"] == "Model")
    rep.coverage["spec_to_impl_replay"] = {"configurations_enumerated_by_tlc": len(cfgs), "replayed_on_real_clusters": nmodel,
                                           "drift": len(drift), "drift_samples": [recs[v["line"] - 1] for v in drift[:3]]}
    if drift:
        print("MODEL-DRIFT module=Lookup configurations=%d drift=%d (informational: the real lookup no longer returns what the "
              "implementation-shaped model returns; the P-level clauses judge the same lookups)" % (nmodel, len(drift)), flush=True)
    if nmodel == 0:
        raise vlib.ToolError("no model configuration was replayed")
    rep.coverage["acceptor_mismatches_total"] = res["nviol"]
    if not rep.unknown_violations():
        selftest(recs, wd)
    # specification growth hosted here: the wire protocol (every frame the hub saw), informational
    import growth
    growth.wire(rep, wd, frames)   # binding self-test (skipped when the run already has mismatches to report)
    return rep.finish(
        rule="clusters of 2..12 real DhtNetworkManagers on the in-memory hub (virtual time), seeded topologies (full mesh, star, line, "
             "random, bridged clusters), unresponsive peers, lying harness endpoints (unknown ids, requester, self, duplicates), delivery "
             "delays; a case = one complete lookup transcript (origin, K, ranks, local knowledge, requests with outcomes and named ids, "
             "result), distinct by content",
        trusted=["hub frame log (real wire frames decoded with the library's own types)", "rank projection of XOR distances "
                 "(blake3-derived DHT keys compared bytewise)", "app-level peer id = transport id in the harness", "TLC"],
        extra={"lookups": res["lookups"], "events": res["total"]})


def selftest(recs, wd):
    """Remove a request from a transcript / swap two result entries: the acceptor must object."""
    cut = recs[:300]
    idx = [i for i, e in enumerate(cut) if e["ev"] == "Lookup" and len(e["result"]) >= 3 and len(e["reqs"]) >= 2 and not e["hang"]]
    if not idx:
        raise vlib.ToolError("self-test: no usable lookup")
    ref_p = os.path.join(wd, "selftest_ref.ndjson")
    vlib.write_ndjson(ref_p, cut)
    ref, _ = vlib.validate_trace("Trace_Lookup", "Trace_Lookup.cfg", ref_p, os.path.join(wd, "selftest_ref.json"))
    a = copy.deepcopy(cut)
    e = a[idx[0]]
    e["result"][0], e["result"][1] = e["result"][1], e["result"][0]
    b = copy.deepcopy(cut)
    e = b[idx[-1]]
    answered = [q for q in e["reqs"] if q["out"] == "answered" and q["to"] in e["result"]]
    if answered:
        e["reqs"].remove(answered[0])
    for name, t in (("swap", a), ("dropreq", b)):
        p = os.path.join(wd, "selftest_%s.ndjson" % name)
        vlib.write_ndjson(p, t)
        got, _ = vlib.validate_trace("Trace_Lookup", "Trace_Lookup.cfg", p, os.path.join(wd, "selftest.json"))
        if got["nviol"] <= ref["nviol"]:
            raise vlib.ToolError("self-test %s: corrupted transcript was not rejected" % name)
