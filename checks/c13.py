"""C13 - per-subnet and per-ASN admission caps are never exceeded; slots are returned."""
import copy
import os
import vlib

SITE = {"add_unified": "enforcer", "can_accept_unified": "enforcer", "remove_unified": "enforcer", "add_node": "engine.add_node",
        "add_peer": "bootstrap.add_peer", "handle_peer_connected": "connect", "accept": "connect"}
FLAGS = (("MC_Admission_asn.cfg", "AsImplemented_V4AsnNotHalved"), ("MC_Admission_bucket.cfg", "AsImplemented_IncrementBeforeBucket"),
         ("MC_Admission_evict.cfg", "AsImplemented_NoDecrementOnEvict"), ("MC_Admission_refresh.cfg", "AsImplemented_RefreshKeepsOld"),
         ("MC_Admission_mapped.cfg", "AsImplemented_V4MappedTo64"))


def run(tier):
    rep = vlib.Report("C13", tier, "model_checking")
    wd = vlib.workdir("C13")
    vlib.build_harness()
    big = tier == "thorough"
    # 1. design: Admission.tla, every history of add / remove / failed insert / evict / refresh / set-network-size
    if not os.environ.get("VERIF_SKIP_DESIGN"):   # (mutation experiments only: skip the design-level TLC runs)
        r = vlib.tlc_must_hold("Admission", "MC_Admission_big.cfg" if big else "MC_Admission.cfg",
                               "32 candidate kinds, 2 network sizes, intended design", workers=8, timeout=3000)
        rep.add_tlc(r, "Admission exhaustive")
        dev = {}
        for cfg, flag in FLAGS:
            dev[flag] = vlib.tlc_must_fail("Admission", cfg, flag, workers=4).violated
        rep.coverage["deviation_counterexamples"] = dev

    # 2. impl -> spec
    trace = os.path.join(wd, "trace.ndjson")
    segs, ops = (300, 120) if big else (48, 60)
    vlib.run_harness(["c13", "drive", "out=" + trace, "segments=%d" % segs, "ops=%d" % ops])
    res, _ = vlib.validate_trace("Trace_Admission", "Trace_Admission.cfg", trace, os.path.join(wd, "out.json"))
    if res["consumed"] != res["total"]:
        raise vlib.ToolError("trace not fully consumed")
    recs = vlib.read_ndjson(trace)
    apis = {}
    head = None
    for e in recs:
        if e["ev"] == "Reset":
            rep.traces += 1
            head = e
            apis[e["api"]] = apis.get(e["api"], 0) + 1
        elif e["ev"] in ("Add", "Can"):
            rep.count_case([head["api"], head["cfg"], e["ev"], e["x"], e["ok"], e.get("err"), e.get("id") if head["api"] == "engine" else 0])
        elif e["ev"] == "Table":
            rep.count_case([head["api"], sorted(e["ids"])])
    for need in ("enforcer", "engine", "bootstrap", "connect"):
        if not apis.get(need):
            raise vlib.ToolError("driver produced no %s segment" % need)
    rep.sample({"enforcer_segment_head": recs[:6]})
    for v in res["viol"]:
        ev = recs[v["line"] - 1]
        hd = next(recs[i] for i in range(v["line"] - 1, -1, -1) if recs[i]["ev"] == "Reset")
        start = max(i for i in range(v["line"]) if recs[i]["ev"] == "Reset")
        rep.violation(v["clause"], "enforcer" if ev["ev"] == "Stats" else SITE.get(ev.get("via"), ev.get("via", "?")), v["cond"],
                      {"line": v["line"], "event": ev, "segment": hd, "history": recs[start:v["line"]][-40:], "trace": trace})
    if res["nviol"] > len(res["viol"]):
        rep.notes.append("%d violations in total, first %d kept" % (res["nviol"], len(res["viol"])))
        rep.violation("Truncated", "acceptor", "more violations than the acceptor keeps", {"nviol": res["nviol"], "kept": len(res["viol"])})
    selftest(recs, wd, {v["line"] for v in res["viol"]})
    # specification growth hosted here (bootstrap contact bookkeeping): conformance, informational (MODEL-DRIFT, never a VIOLATION)
    import growth_contact
    growth_contact.run(rep, wd, big)
    # specification growth hosted here (Sybil detector): conformance, informational (MODEL-DRIFT, never a VIOLATION)
    import growth_sybil
    growth_sybil.run(rep, wd, big)
    return rep.finish(
        rule="a case = one admission decision (API level, configuration, candidate's level keys + ASN + hosting flag, outcome, "
             "error class) or one routing-table snapshot of the connection path; distinct by content; each judged by "
             "AdmissionRules!Limit / LimitLo over the model's admitted set in TLC",
        trusted=["harness level keys (/16,/24,address and /32,/48,/64 from the address octets)", "caps clipped to 10^8, fraction as ppm, "
                 "network sizes kept away from floor() boundaries", "error class from the message text", "TLC", "Json/IOUtils modules"],
        extra={"decisions_checked": res["checked"], "events": res["total"], "segments_by_api": apis})


def selftest(recs, wd, badlines):
    """An over-admission and a forgotten removal in an (otherwise clean) enforcer segment must be noticed."""
    segs, cur, dirty = [], None, False
    for n, e in enumerate(recs, 1):
        if e["ev"] == "Reset":
            if cur is not None and not dirty:
                segs.append(cur)
            cur, dirty = [e], False
        elif cur is not None:
            cur.append(e)
        dirty = dirty or n in badlines
    if cur is not None and not dirty:
        segs.append(cur)
    a = b = None
    for s in segs:
        if s[0]["api"] != "enforcer":
            continue
        if a is None:
            i = next((i for i, e in enumerate(s) if e["ev"] == "Add" and not e["ok"]), None)
            if i is not None:
                a, a_ref = copy.deepcopy(s), s
                a[i]["ok"], a[i]["err"] = True, ""
        if b is None:
            i = next((i for i, e in enumerate(s) if e["ev"] == "Rm" and any(x["ev"] == "Stats" for x in s[i + 1:])), None)
            if i is not None:
                b, b_ref = [e for j, e in enumerate(s) if j != i], s
    if a is None or b is None:
        if badlines:
            vlib.log("self-test skipped: no enforcer segment without violations")
            return
        raise vlib.ToolError("self-test: no usable enforcer segment")
    p = os.path.join(wd, "selftest.ndjson")
    vlib.write_ndjson(p, a_ref + a + b_ref + b)
    got, _ = vlib.validate_trace("Trace_Admission", "Trace_Admission.cfg", p, os.path.join(wd, "selftest.json"))
    if got["nviol"] > len(got["viol"]):
        vlib.log("self-test skipped: too many violations to compare")
        return
    n1, n2, n3 = len(a_ref), len(a_ref) + len(a), len(a_ref) + len(a) + len(b_ref)
    cnt = [0, 0, 0, 0]
    for v in got["viol"]:
        cnt[0 if v["line"] <= n1 else 1 if v["line"] <= n2 else 2 if v["line"] <= n3 else 3] += 1
    if cnt[1] <= cnt[0] or cnt[3] <= cnt[2]:
        raise vlib.ToolError("self-test: corrupted trace was not rejected (intact/over-admitted %d/%d, intact/removal dropped %d/%d)" % tuple(cnt))
