"""C12 - each peer sequence number is accepted at most once and only in order."""
import copy
import os
import re
import vlib

SEGOK = re.compile(r'<<"SEGOK", (\d+)>>')


def run(tier):
    rep = vlib.Report("C12", tier, "model_checking")
    wd = vlib.workdir("C12")
    vlib.build_harness()
    big = tier == "thorough"
    # 1. design: Counter.tla exhaustively (calls of 2-3 tasks with every linearisation, batches, sync / reload anywhere)
    if not os.environ.get("VERIF_SKIP_DESIGN"):   # (mutation experiments only: skip the design-level TLC runs)
        r = vlib.tlc_must_hold("Counter", "MC_Counter_big.cfg" if big else "MC_Counter.cfg",
                               "marks, batches, linearisation points, sync/reload", workers=8, timeout=3000)
        rep.add_tlc(r, "Counter exhaustive")
        if big:
            r3 = vlib.tlc_must_hold("Counter", "MC_Counter_big3.cfg", "three racing tasks, single submissions", workers=8, timeout=3000)
            rep.add_tlc(r3, "Counter exhaustive, 3 tasks")
        c = vlib.tlc_must_hold("Counter", "MC_Counter_cov.cfg", "action coverage", workers=4, coverage=True)
        for a in ("Call", "Lin", "Ret", "Sync", "Reload"):
            if c.coverage.get(a, 0) == 0:
                raise vlib.ToolError("vacuous: action %s never taken" % a)
        rep.coverage["action_coverage_small_config"] = c.coverage
        dev = {}
        for cfg, flag in (("MC_Counter_twostep.cfg", "Variant_TwoStep"), ("MC_Counter_monotonic.cfg", "Variant_MonotonicOnly"),
                          ("MC_Counter_replaylt.cfg", "Variant_ReplayLt")):
            dev[flag] = vlib.tlc_must_fail("Counter", cfg, flag, workers=4).violated
        rep.coverage["deviation_counterexamples"] = dev
        # inductive invariant (Apalache): the clauses for histories of any length of the sequential core
        obligations = [("Init", "IndInv", 0), ("IndInv", "IndInv", 1), ("IndInv", "Props", 0)]
        for init, inv, length in obligations:
            ok, secs = vlib.apalache("Counter_apalache", init, inv, length)
            if not ok:
                raise vlib.ToolError("Apalache Counter_apalache: %s => %s (length %d) not discharged" % (init, inv, length))
            vlib.log("Apalache Counter_apalache %s => %s length %d: ok, %.1fs" % (init, inv, length, secs))
        rep.coverage["inductive_invariant"] = {"module": "Counter_apalache", "obligations": len(obligations), "discharged": len(obligations),
                                               "meaning": "AtMostOnce, InOrder, Classified, PersistedBelow hold for submit/sync/reload histories of any "
                                                          "length over 2 peers and sequence values 0..4 and u64::MAX (atomic submissions)"}

    # 2. impl -> spec, sequential histories (violation collection)
    trace = os.path.join(wd, "seq.ndjson")
    segs, ops = (240, 80) if big else (30, 60)
    vlib.run_harness(["c12", "drive", "out=" + trace, "segments=%d" % segs, "ops=%d" % ops])
    res, _ = vlib.validate_trace("Trace_Counter", "Trace_Counter.cfg", trace, os.path.join(wd, "out_seq.json"))
    if res["consumed"] != res["total"]:
        raise vlib.ToolError("sequential trace not fully consumed")
    recs = vlib.read_ndjson(trace)
    lastobs = {}
    for e in recs:
        if e["ev"] == "Reset":
            rep.traces += 1
            lastobs = {}
        elif e["ev"] in ("Obs", "Preload"):
            lastobs[e["p"]] = e["v"]
        elif e["ev"] == "Reload":
            lastobs = {i + 1: v for i, v in enumerate(e["obs"])}
        elif e["ev"] == "Submit":
            d = e["s"] - lastobs.get(e["p"], 0)
            rep.count_case([e["via"], e["ts"], e["res"], d if -30 < d < 60 else e["s"], lastobs.get(e["p"], 0) if abs(d) > 1 else 0])
    rep.sample({"sequential_segment_head": recs[:10]})
    for v in res["viol"]:
        ev = recs[v["line"] - 1]
        rep.violation(v["clause"], v["cond"], ev.get("ts", "any"),
                      {"line": v["line"], "event": ev, "context": recs[max(0, v["line"] - 8):v["line"]], "trace": trace})
    if res["nviol"] > len(res["viol"]):
        rep.notes.append("%d violations in total, first %d kept" % (res["nviol"], len(res["viol"])))

    # 3. impl -> spec, concurrent histories (TLC searches the linearisation points)
    ctrace = os.path.join(wd, "conc.ndjson")
    csegs, calls = (600, 16) if big else (120, 12)
    vlib.run_harness(["c12", "conc", "out=" + ctrace, "segments=%d" % csegs, "calls=%d" % calls])
    crecs = vlib.read_ndjson(ctrace)
    segments = split(crecs)
    ok, tr = conc_validate(ctrace, wd, "conc")
    rep.add_tlc(tr, "linearisation search over recorded call/return intervals")
    overl = ndiag = 0
    for i, seg in enumerate(segments, 1):
        rep.traces += 1
        rep.count_case([[e.get("t"), e["ev"], e.get("reqs"), e.get("res")] for e in seg])
        overl += overlapping(seg)
        for e in seg:
            if e["ev"] == "Panic":
                rep.violation("NoPanic", e.get("via", "?"), "concurrent", {"segment": i, "event": e, "trace": ctrace})
        if i not in ok and not any(e["ev"] == "Panic" for e in seg):
            # diagnostic re-run on the single segment: highest line an unskipped path reaches (first three only)
            one = os.path.join(wd, "conc_fail_%d.ndjson" % i)
            vlib.write_ndjson(one, seg + [{"ev": "End"}])
            ndiag += 1
            ml = conc_validate(one, wd, "conc_one", want_max=True)[2] if ndiag <= 3 else 0
            at = seg[ml] if ml < len(seg) else None
            vias = sorted({e.get("via", "?") for e in seg if e["ev"] == "Call"})
            rep.violation("Linearizable", "+".join(vias), "concurrent",
                          {"segment": i, "rejected_at_line_of_segment": ml + 1, "event": at,
                           "context": seg[max(0, ml - 12):ml + 1], "trace": one})
    if segments:
        rep.sample({"concurrent_segment_head": segments[0][:10]})
    if overl == 0:
        raise vlib.ToolError("concurrent driver produced no overlapping calls")

    # 4. binding self-tests
    selftest_seq(recs, wd)
    selftest_conc([sg for i, sg in enumerate(segments, 1) if i in ok], wd)
    return rep.finish(
        rule="a case = one submission (entry point, timestamp class, result, number relative to the peer's mark) of a sequential "
             "history, or one whole concurrent segment (its call/return event sequence); distinct by content; every result "
             "judged by CounterRules!AllowedT in TLC",
        trusted=["harness projection of u64 numbers to 31-bit model integers (monotone, +1 preserved in the low and high range)",
                 "timestamp class labels (ok: within 5 s; future: >= 1 day ahead; old: >= 30 days back; otherwise both readings allowed)",
                 "global atomic ticket orders call and return events", "TLC", "Json/IOUtils modules"],
        extra={"submissions_checked": res["checked"], "sequential_events": res["total"], "concurrent_events": len(crecs),
               "concurrent_segments_accepted": len(ok), "overlapping_calls": overl})


def split(recs):
    segs, cur = [], None
    for e in recs:
        if e["ev"] in ("Reset", "End"):
            if cur is not None:
                segs.append(cur)
            cur = [e] if e["ev"] == "Reset" else None
        elif cur is not None:
            cur.append(e)
    return segs


def overlapping(seg):
    n = o = 0
    for e in seg:
        if e["ev"] == "Call":
            n += 1
            o += 1 if n > 1 else 0
        elif e["ev"] == "Ret":
            n -= 1
    return o


def conc_validate(path, wd, tag, want_max=False):
    out = os.path.join(wd, tag + "_post.json")
    if os.path.exists(out):
        os.remove(out)
    r = vlib.tlc("Trace_CounterConc", "Trace_CounterConc.cfg", workers=1, timeout=3000, dfs=True, xmx="8g",
                 env_extra={"TRACE": path, "OUT": out})
    if r.error or r.violated or not os.path.exists(out):
        print(r.raw[-4000:])
        raise vlib.ToolError("concurrent trace validation failed to run: %s %s" % (r.violated, r.error))
    ok = {int(m) for m in SEGOK.findall(r.raw)}
    vlib.log("trace Trace_CounterConc (%s): %d segments accepted, %d states, %.1fs" % (tag, len(ok), r.distinct, r.wall))
    if want_max:
        import json
        return ok, r, json.load(open(out))["maxline"]
    return ok, r


def selftest_seq(recs, wd):
    cut = recs[:600]
    flip = next((i for i, e in enumerate(cut) if e["ev"] == "Submit" and e["res"] == "Replay"), None)
    drop = next((i for i, e in enumerate(cut) if e["ev"] == "Submit" and e["res"] == "Valid"
                 and any(x["ev"] == "Submit" and x["p"] == e["p"] for x in cut[i + 1:i + 12])
                 and not any(x["ev"] in ("Reset", "Reload") for x in cut[i + 1:i + 12])), None)
    if flip is None or drop is None:
        raise vlib.ToolError("self-test: sequential trace has no usable events")
    a = copy.deepcopy(cut)
    a[flip]["res"], a[flip]["applied"] = "Valid", True
    # drop an accepted submission together with the observation that follows it
    b = [e for i, e in enumerate(cut) if i != drop and not (i == drop + 1 and e["ev"] == "Obs")]
    # one TLC run: the intact copy and the two corrupted copies are independent segments of one file
    p = os.path.join(wd, "st_seq.ndjson")
    vlib.write_ndjson(p, cut + a + b)
    got, _ = vlib.validate_trace("Trace_Counter", "Trace_Counter.cfg", p, os.path.join(wd, "st_seq.json"))
    n = len(cut)
    in_ref = sum(1 for v in got["viol"] if v["line"] <= n)
    in_a = sum(1 for v in got["viol"] if n < v["line"] <= 2 * n)
    in_b = sum(1 for v in got["viol"] if v["line"] > 2 * n)
    if got["nviol"] > len(got["viol"]):
        vlib.log("self-test seq skipped: the intact prefix already has more violations than are kept")
        return
    if in_a <= in_ref or in_b <= in_ref:
        raise vlib.ToolError("self-test: corrupted sequential trace was not rejected (ref %d, reaccept %d, dropaccept %d)" % (in_ref, in_a, in_b))


def selftest_conc(segments, wd):
    """Second acceptance of an accepted (peer, number) and a lost acceptance must make the segment unlinearisable."""
    segs = [s for s in segments[:12] if not any(e["ev"] == "Panic" for e in s)][:6]
    if not segs:
        vlib.log("self-test conc skipped: no accepted concurrent segment to corrupt")
        return
    a = copy.deepcopy(segs)
    done = 0
    for s in a:
        acc = {}
        for e in s:
            if e["ev"] == "Call":
                for i, (q, r) in enumerate(zip(e["reqs"], e["res"])):
                    if r == "Valid":
                        acc[(q["p"], q["s"])] = True
        for e in s:
            if e["ev"] == "Call" and done < 1:
                for i, (q, r) in enumerate(zip(e["reqs"], e["res"])):
                    if r == "Replay" and (q["p"], q["s"]) in acc:
                        e["res"][i] = "Valid"
                        done += 1
                        break
        if done:
            break
    b = copy.deepcopy(segs)
    lost = False
    for s in reversed(b):
        for e in s:
            if e["ev"] == "Call" and not lost:
                for i, (q, r) in enumerate(zip(e["reqs"], e["res"])):
                    if r == "Valid" and q["s"] == 1:      # nobody else can have accepted number 1 of this peer
                        e["res"][i] = "Replay"
                        lost = True
                        break
        if lost:
            break
    if not lost:
        raise vlib.ToolError("self-test: no accepted first number in the first concurrent segments")
    if not done:
        raise vlib.ToolError("self-test: no replayed submission in the first concurrent segments")
    n = len(segs)
    p = os.path.join(wd, "stc.ndjson")
    vlib.write_ndjson(p, [e for s in segs + a + b for e in s] + [{"ev": "End"}])
    ok, _ = conc_validate(p, wd, "stc")
    parts = [len([i for i in ok if k * n < i <= (k + 1) * n]) for k in range(3)]
    if parts != [n, n - 1, n - 1]:
        raise vlib.ToolError("self-test conc: accepted segments (intact, double accept, lost accept) = %s, expected %s" % (parts, [n, n - 1, n - 1]))
