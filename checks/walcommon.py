"""Shared pipeline of C06 (crash points) and C07 (damage): one driver run, one acceptor, clauses split by property."""
import copy
import os
import vlib

C06_CLAUSES = {"PrefixRecovery", "CounterMonotone", "CleanRestart", "OperationSucceeds"}
C07_CLAUSES = {"NoInvention", "DamageReported", "BeforeDamageHonoured", "MemoryProportional", "NoPanic", "RecoveryCompletes"}
FLAGS_QUICK = ["EphemeralKey", "AppendAfterTorn", "BatchPerRecord"]
FLAGS_ALL = ["EphemeralKey", "CurSortsFirst", "NameBySecond", "AppendAfterTorn", "BatchPerRecord", "OldestSnapshot"]


def run(pid, tier):
    rep = vlib.Report(pid, tier, "model_checking")
    wd = vlib.workdir(pid)
    vlib.build_harness()
    big = tier == "thorough"
    # 1. design: Wal.tla exhaustively, every crash point of every short history, two crash-recover cycles
    r = vlib.tlc_must_hold("Wal", "MC_Wal_big.cfg" if big else "MC_Wal.cfg", "all histories x crash points",
                           workers=16 if big else 8, timeout=3400, coverage=not big)
    rep.add_tlc(r, "Wal exhaustive")
    if not big:
        for a in ("Begin", "WriteLen", "WritePayload", "RotRename", "RotReopen", "ApplyAck", "CkTmp", "CkRename", "CkClean", "Crash"):
            if r.coverage.get(a, 0) == 0:
                raise vlib.ToolError("vacuous: action %s never taken" % a)
    dev = {}
    for f in (FLAGS_ALL if big else FLAGS_QUICK):
        x = vlib.tlc_must_fail("Wal", "MC_Wal_%s.cfg" % f, "AsImplemented_" + f, workers=8, timeout=1500)
        dev[f] = x.violated
    rep.coverage["deviation_counterexamples"] = dev
    # 2. impl -> spec
    trace = os.path.join(wd, "trace.ndjson")
    tmp = os.path.join(wd, "dirs")
    if big:
        args = ["segments=240", "cuts=100000", "damage=120", "long_every=6"]
    else:
        args = ["segments=36", "cuts=10", "damage=40", "long_every=9"]
    vlib.run_harness(["c06", "drive", "out=" + trace, "tmp=" + tmp] + args, timeout=3000)
    res, tr = vlib.validate_trace("Trace_Wal", "Trace_Wal.cfg", trace, os.path.join(wd, "out.json"), timeout=3000)
    if res["consumed"] != res["total"]:
        raise vlib.ToolError("trace not fully consumed")
    recs = vlib.read_ndjson(trace)
    mine = C06_CLAUSES if pid == "C06" else C07_CLAUSES
    kinds = ("CrashImage", "ContinueFrom", "CleanReopen") if pid == "C06" else ("Damaged",)
    seg = 0
    last_begin = None
    for e in recs:
        if e["ev"] == "Reset":
            seg += 1
            rep.traces += 1
        elif e["ev"] == "Begin":
            last_begin = e
        elif e["ev"] in kinds:
            if pid == "C06":
                rep.count_case([e["ev"], e.get("point"), e.get("cut"), last_begin and last_begin["op"], e["state"], e["counter"]])
            else:
                rep.count_case([e["dclass"], e["dfile"], e["drec"], e["files"], e["state"], e["failed"], e["nevents"]])
    for e in recs:
        if e["ev"] in kinds:
            rep.sample(e)
            if len(rep.coverage["samples"]) >= 4:
                break
    for v in res["viol"]:
        damaged_site = v["site"].startswith("damaged")     # observations of damaged images belong to C07, all others to C06
        if (pid == "C07") != damaged_site:
            continue
        ctx = recs[max(0, v["line"] - 4):v["line"]]
        rep.violation(v["clause"], v["site"], v["cond"], {"line": v["line"], "event": recs[v["line"] - 1], "context": ctx})
    rep.coverage["acceptor_mismatches_total"] = res["nviol"]  # the acceptor keeps at most 12 per (clause, site, cond)
    if not rep.unknown_violations():
        selftest(pid, recs, wd)   # binding self-test (skipped when the run already has mismatches to report)
    extra = {"events": res["total"], "crash_images": res["images"], "damaged_images": res["damaged"], "exact_state_checks": res["exact"]}
    if pid == "C06":
        rule = ("seeded operation histories (upsert/delete/batch/checkpoint, enough to force rotation in long segments) on the real "
                "PersistentStateManager; the state directory is copied at every crash point of armed operations and at byte truncations "
                "of the record being written, each image is reopened with the real recovery; a case = (event kind, crash point, cut, "
                "operation, recovered state, counter), distinct by content")
    else:
        rule = ("quiescent images of the same histories damaged by bit flips in payload / length prefix / snapshot, truncations, "
                "appended garbage, duplicated and transplanted records, each reopened with the real recovery; a case = (damage class, "
                "file, record, file layout, recovered state, statistics), distinct by content")
    return rep.finish(rule=rule, trusted=["harness WAL frame parser (4-byte length + postcard WalEntry) used to describe the file layout",
                                          "directory copy at a crash point = disk image after process death (process-crash model, not power loss)",
                                          "counting allocator for the memory clause", "TLC", "Json/IOUtils modules"],
                      extra=extra)


def selftest(pid, recs, wd):
    """Corrupt one observation; the acceptor must reject it."""
    cut = []
    nseg = 0
    for e in recs:
        if e["ev"] == "Reset":
            nseg += 1
            if nseg > 3:
                break
        cut.append(e)
    kinds = ("CrashImage",) if pid == "C06" else ("Damaged",)
    idx = []
    lastop = None
    for i, e in enumerate(cut):
        if e["ev"] == "Begin":
            lastop = e["op"]
        # observations during a batch may already be (known) mismatches: mutate one that is accepted
        if e["ev"] in kinds and e.get("ok") and e.get("state") and lastop != "batch":
            idx.append(i)
    if not idx:
        raise vlib.ToolError("self-test: no usable observation in the first segments")
    ref_p = os.path.join(wd, "selftest_ref.ndjson")
    vlib.write_ndjson(ref_p, cut)
    ref, _ = vlib.validate_trace("Trace_Wal", "Trace_Wal.cfg", ref_p, os.path.join(wd, "selftest_ref.json"))
    a = copy.deepcopy(cut)
    e = a[idx[len(idx) // 2]]
    e["state"] = [999999 for _ in e["state"]]   # a value nobody ever wrote
    p = os.path.join(wd, "selftest_mut.ndjson")
    vlib.write_ndjson(p, a)
    got, _ = vlib.validate_trace("Trace_Wal", "Trace_Wal.cfg", p, os.path.join(wd, "selftest_mut.json"))
    if got["nviol"] <= ref["nviol"]:
        raise vlib.ToolError("self-test: corrupted observation was not rejected")
