//! C11 driver: builds concrete trust graphs (anchors A, honest H, closed set S that receives no
//! statement from outside), gives every identity the same statistics, runs the REAL
//! EigenTrustEngine::compute_global_trust and logs one `Case` event per graph:
//!   class sizes, how the graph was built, number of outside nodes without a positive outgoing
//!   statement (`dangOut`), whether S has internal statements (`sIn`), the positive edges
//!   themselves when there are at most 400 (so the acceptor can recompute those two facts),
//!   sum of scores over S and minimum over anchors in ppm (rounded to nearest), total, `fb`.
//! No expected values here; bounds and the lumped-model prediction are evaluated by
//! spec/Trace_TrustMass.tla.  Trusted base: the two f64 reductions (sum over S, min over A) and
//! their ppm rounding; the edge bookkeeping (`dangOut`, `sIn`) for graphs too large to log.
//!
//! kind = "lumped": every configuration of TrustMass.tla's Init (nA x nH x nS x outA x outH x outS),
//!   class-symmetric construction (rings / complete bipartite / self-loops / clique);
//! kind = "random": random class sizes, random honest graph, asymmetric internal patterns of S
//!   (clique, star, chain, self-loops, ring, random EMA histories with failures).
use crate::common::{self, Args, Trace};
use futures::FutureExt;
use rand::Rng;
use saorsa_core::adaptive::NodeId;
use saorsa_core::{EigenTrustEngine, NodeStatisticsUpdate};
use serde_json::json;
use std::collections::{HashMap, HashSet};
use std::panic::AssertUnwindSafe;

fn ppm(x: f64) -> i64 {
    if !x.is_finite() {
        return -1;
    }
    (x * 1e6).round().clamp(-2.0e9, 2.0e9) as i64
}

struct Graph {
    na: usize,
    nh: usize,
    ns: usize,
    /// (from, to, outcomes) with 1-based indices: anchors 1..=na, honest na+1..=na+nh, S the rest
    stmts: Vec<(usize, usize, Vec<bool>)>,
}

impl Graph {
    fn n(&self) -> usize {
        self.na + self.nh + self.ns
    }
    fn add(&mut self, f: usize, t: usize) {
        self.stmts.push((f, t, vec![true]));
    }
    fn anchors(&self) -> std::ops::RangeInclusive<usize> {
        1..=self.na
    }
    fn honest(&self) -> std::ops::RangeInclusive<usize> {
        self.na + 1..=self.na + self.nh
    }
    fn sybils(&self) -> std::ops::RangeInclusive<usize> {
        self.na + self.nh + 1..=self.n()
    }
}

/// internal pattern of the closed set
fn s_pattern(g: &mut Graph, pat: &str, rng: &mut impl Rng) {
    let s: Vec<usize> = g.sybils().collect();
    let k = s.len();
    match pat {
        "none" => {}
        "self" => {
            for &x in &s {
                g.add(x, x);
            }
        }
        "ring" => {
            for i in 0..k {
                g.add(s[i], s[(i + 1) % k]);
            }
        }
        "selfring" => {
            // every member rates itself and exactly one other member
            for i in 0..k {
                g.add(s[i], s[i]);
                g.add(s[i], s[(i + 1) % k]);
            }
        }
        "clique" => {
            for &x in &s {
                for &y in &s {
                    if x != y || k == 1 {
                        g.add(x, y);
                    }
                }
            }
        }
        "star" => {
            // every leaf rates the hub, the hub rates itself
            g.add(s[0], s[0]);
            for &x in &s[1..] {
                g.add(x, s[0]);
            }
        }
        "chain" => {
            // s1 -> s2 -> ... -> sk, the last one rates itself in half of the cases
            for i in 0..k.saturating_sub(1) {
                g.add(s[i], s[i + 1]);
            }
            if rng.gen_bool(0.5) {
                g.add(s[k - 1], s[k - 1]);
            }
        }
        _ => {
            // random histories incl. failures and repeated statements (EMA weights differ)
            let m = (k * 3).min(3000);
            for _ in 0..m {
                let f = s[rng.gen_range(0..k)];
                let t = s[rng.gen_range(0..k)];
                let len = rng.gen_range(1..4);
                let outcomes: Vec<bool> = (0..len).map(|_| rng.gen_bool(0.75)).collect();
                g.stmts.push((f, t, outcomes));
            }
        }
    }
}

fn lumped_graph(na: usize, nh: usize, ns: usize, oa: &str, oh: &str, os: &str, spat: &str, rng: &mut impl Rng) -> Graph {
    let mut g = Graph { na, nh, ns, stmts: Vec::new() };
    let a: Vec<usize> = g.anchors().collect();
    let h: Vec<usize> = g.honest().collect();
    match oa {
        "A" => {
            for i in 0..na {
                g.add(a[i], a[(i + 1) % na]);
            }
        }
        "H" => {
            for &x in &a {
                for &y in &h {
                    g.add(x, y);
                }
            }
        }
        _ => {}
    }
    match oh {
        "A" => {
            for &x in &h {
                for &y in &a {
                    g.add(x, y);
                }
            }
        }
        "H" => {
            for i in 0..nh {
                g.add(h[i], h[(i + 1) % nh]);
            }
        }
        _ => {}
    }
    if os == "S" {
        s_pattern(&mut g, spat, rng);
    }
    g
}

fn random_graph(rng: &mut impl Rng) -> (Graph, String) {
    let na = [1, 1, 2, 3, 5, 10, 50][rng.gen_range(0..7)];
    let nh = [0, 1, 2, 5, 10, 30, 60, 90][rng.gen_range(0..8)];
    let ns = match rng.gen_range(0..10) {
        0..=4 => rng.gen_range(1..=20),
        5 => 50,
        6 => 100,
        7 => 300,
        8 => rng.gen_range(400..=600),
        _ => 1000,
    };
    let mut g = Graph { na, nh, ns, stmts: Vec::new() };
    let outside: Vec<usize> = (1..=na + nh).collect();
    // how talkative the outside is: 0 = nobody makes statements .. 1 = everybody does
    let talk = [0.0, 0.3, 0.7, 1.0][rng.gen_range(0..4)];
    for &x in &outside {
        if rng.gen_bool(talk) {
            let deg = rng.gen_range(1..=3.min(outside.len()));
            for _ in 0..deg {
                let y = outside[rng.gen_range(0..outside.len())];
                g.add(x, y);
            }
        }
    }
    // outside nodes that only ever file failure reports (about outside nodes and about members of S): their statements carry
    // no trust, so they count as nodes without outgoing statements
    let grumpy = [0.0, 0.0, 0.3, 0.9][rng.gen_range(0..4)];
    let all: Vec<usize> = (1..=na + nh + ns).collect();
    for &x in &outside {
        let silent = !g.stmts.iter().any(|(f, _, _)| *f == x);
        if silent && rng.gen_bool(grumpy) {
            for _ in 0..rng.gen_range(1..=3) {
                let y = all[rng.gen_range(0..all.len())];
                if y != x {
                    g.stmts.push((x, y, vec![false; rng.gen_range(1..3)]));
                }
            }
        }
    }
    let pats = ["self", "ring", "clique", "star", "chain", "random", "random", "none", "selfring"];
    let mut pat = pats[rng.gen_range(0..pats.len())];
    if pat == "clique" && ns > 60 {
        pat = "star";
    }
    s_pattern(&mut g, pat, rng);
    (g, pat.to_string())
}

async fn run_case(t: &mut Trace, id: u64, kind: &str, g: &Graph, cfg: serde_json::Value, stats: &str, rng: &mut impl Rng) {
    let n = g.n();
    let ids: Vec<NodeId> = (0..n)
        .map(|_| {
            let mut b = [0u8; 32];
            rng.fill(&mut b);
            NodeId::from_bytes(b)
        })
        .collect();
    let pre: HashSet<NodeId> = g.anchors().map(|i| ids[i - 1].clone()).collect();
    let eng = EigenTrustEngine::new(pre);
    // value > 0 of an edge <=> at least one success was ever recorded on it (EMA of 0/1 outcomes)
    let mut positive: HashMap<(usize, usize), bool> = HashMap::new();
    let r = AssertUnwindSafe(async {
        for (f, to, outcomes) in &g.stmts {
            for &ok in outcomes {
                eng.update_local_trust(&ids[f - 1], &ids[to - 1], ok).await;
                let e = positive.entry((*f, *to)).or_insert(false);
                *e = *e || ok;
            }
        }
        if stats != "none" {
            for id in &ids {
                match stats {
                    "ok1" => eng.update_node_stats(id, NodeStatisticsUpdate::CorrectResponse).await,
                    "mixed" => {
                        for _ in 0..3 {
                            eng.update_node_stats(id, NodeStatisticsUpdate::CorrectResponse).await;
                        }
                        eng.update_node_stats(id, NodeStatisticsUpdate::FailedResponse).await;
                        eng.update_node_stats(id, NodeStatisticsUpdate::StorageContributed(1 << 20)).await;
                    }
                    _ => eng.update_node_stats(id, NodeStatisticsUpdate::Uptime(40_000)).await,
                }
            }
        }
        let v0 = tokio::time::Instant::now();
        let gmap = eng.compute_global_trust().await;
        (gmap, v0.elapsed().as_millis() as u64)
    })
    .catch_unwind()
    .await;
    let (gmap, vms) = match r {
        Ok(x) => x,
        Err(_) => {
            t.ev(json!({"ev":"Panic","id":id,"at":"compute_global_trust","cfg":cfg}));
            return;
        }
    };
    let outside = g.na + g.nh;
    let mut has_out = vec![false; n + 1];
    let mut s_in = false;
    let mut closed = true;
    let mut edges: Vec<[usize; 2]> = Vec::new();
    for (&(f, to), &pos) in &positive {
        if pos {
            has_out[f] = true;
            if f > outside {
                s_in = true;
            }
            if to > outside && f <= outside {
                closed = false;
            }
            edges.push([f, to]);
        }
    }
    edges.sort();
    let dang_out = (1..=outside).filter(|&i| !has_out[i]).count();
    let sum_s: f64 = g.sybils().map(|i| gmap.get(&ids[i - 1]).copied().unwrap_or(0.0)).sum();
    let min_a: f64 = g.anchors().map(|i| gmap.get(&ids[i - 1]).copied().unwrap_or(0.0)).fold(f64::INFINITY, f64::min);
    let sum_all: f64 = gmap.values().sum();
    let mut ev = json!({"ev":"Case","id":id,"kind":kind,"nA":g.na,"nH":g.nh,"nS":g.ns,"n":n,"stats":stats,
        "dangOut":dang_out,"sIn":s_in,"closed":closed,"nedges":edges.len(),
        "sumS":ppm(sum_s),"minA":ppm(min_a),"sumAll":ppm(sum_all),"listed":gmap.len(),"vms":vms,"fb":vms >= 2000});
    if let (Some(o), Some(c)) = (ev.as_object_mut(), cfg.as_object()) {
        for (k, v) in c {
            o.insert(k.clone(), v.clone());
        }
        o.insert("edges".into(), if edges.len() <= 400 { json!(edges) } else { json!([]) });
        o.insert("hasEdges".into(), json!(edges.len() <= 400));
    }
    t.ev(ev);
}

pub fn drive(a: &Args) -> i32 {
    let out = a.str("out", "/dev/stdout");
    let randoms = a.num("random", 150);
    let lumped_variants = a.num("variants", 1);
    common::quiet_panics();
    let rt = tokio::runtime::Builder::new_current_thread().enable_all().start_paused(true).build().expect("runtime");
    let n = rt.block_on(async move {
        let mut t = Trace::create(&out);
        let mut rng = common::rng(11);
        let mut id = 0u64;
        let stats_kinds = ["ok1", "mixed", "uptime"];
        // every lumped configuration of TrustMass.tla
        for variant in 0..lumped_variants {
            for &na in &[1usize, 3, 50] {
                for &nh in &[0usize, 5, 50] {
                    for &ns in &[1usize, 10, 100, 1000] {
                        for oa in ["A", "H", "none"] {
                            for oh in ["A", "H", "none"] {
                                for os in ["S", "none"] {
                                    if nh == 0 && (oh != "none" || oa == "H") {
                                        continue;
                                    }
                                    // symmetric internal pattern of S (lumping is exact for these)
                                    let pats: &[&str] = if ns <= 40 { &["ring", "self", "clique"] } else { &["ring", "self"] };
                                    let spat = if os == "S" { pats[((id + variant) as usize) % pats.len()] } else { "none" };
                                    let g = lumped_graph(na, nh, ns, oa, oh, os, spat, &mut rng);
                                    let stats = stats_kinds[((id + variant) as usize) % 3];
                                    let cfg = json!({"outA":oa,"outH":oh,"outS":os,"pat":spat,"sym":true});
                                    run_case(&mut t, id, "lumped", &g, cfg, stats, &mut rng).await;
                                    id += 1;
                                }
                            }
                        }
                    }
                }
            }
        }
        // the minimal reproduction named in the property: one anchor, one honest node known by its
        // statistics only, one identity that rates itself
        {
            let g = lumped_graph(1, 1, 1, "none", "none", "S", "self", &mut rng);
            let cfg = json!({"outA":"none","outH":"none","outS":"S","pat":"self","sym":true});
            run_case(&mut t, id, "minimal", &g, cfg, "ok1", &mut rng).await;
            id += 1;
        }
        for _ in 0..randoms {
            let (g, pat) = random_graph(&mut rng);
            let stats = stats_kinds[rng.gen_range(0..3)];
            let cfg = json!({"outA":"?","outH":"?","outS":"?","pat":pat,"sym":false});
            run_case(&mut t, id, "random", &g, cfg, stats, &mut rng).await;
            id += 1;
        }
        t.finish()
    });
    eprintln!("c11 drive: {n} events");
    0
}
