//! Counting global allocator: bytes currently allocated and the peak since the last reset
//! (used for the "memory proportional to the input" clauses of C05/C07).
use std::alloc::{GlobalAlloc, Layout, System};
use std::sync::atomic::{AtomicUsize, Ordering};

pub struct Counting;

static CUR: AtomicUsize = AtomicUsize::new(0);
static PEAK: AtomicUsize = AtomicUsize::new(0);

unsafe impl GlobalAlloc for Counting {
    unsafe fn alloc(&self, l: Layout) -> *mut u8 {
        let p = unsafe { System.alloc(l) };
        if !p.is_null() {
            let c = CUR.fetch_add(l.size(), Ordering::Relaxed) + l.size();
            PEAK.fetch_max(c, Ordering::Relaxed);
        }
        p
    }
    unsafe fn dealloc(&self, p: *mut u8, l: Layout) {
        unsafe { System.dealloc(p, l) };
        CUR.fetch_sub(l.size(), Ordering::Relaxed);
    }
    unsafe fn alloc_zeroed(&self, l: Layout) -> *mut u8 {
        let p = unsafe { System.alloc_zeroed(l) };
        if !p.is_null() {
            let c = CUR.fetch_add(l.size(), Ordering::Relaxed) + l.size();
            PEAK.fetch_max(c, Ordering::Relaxed);
        }
        p
    }
    unsafe fn realloc(&self, p: *mut u8, l: Layout, new: usize) -> *mut u8 {
        let q = unsafe { System.realloc(p, l, new) };
        if !q.is_null() {
            if new >= l.size() {
                let c = CUR.fetch_add(new - l.size(), Ordering::Relaxed) + (new - l.size());
                PEAK.fetch_max(c, Ordering::Relaxed);
            } else {
                CUR.fetch_sub(l.size() - new, Ordering::Relaxed);
            }
        }
        q
    }
}

#[global_allocator]
static GLOBAL: Counting = Counting;

pub fn current() -> usize {
    CUR.load(Ordering::Relaxed)
}
pub fn peak() -> usize {
    PEAK.load(Ordering::Relaxed)
}
pub fn reset_peak() {
    PEAK.store(CUR.load(Ordering::Relaxed), Ordering::Relaxed);
}
