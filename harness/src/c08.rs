//! C08 driver: identities of every origin (generated / exported+imported / saved+loaded / seed /
//! derivation path / SecureNodeIdentity / raw key pair) sign messages; every verification entry
//! point of the library is called with the genuine objects, with single-bit flips of message,
//! signature and key, and with every other identity's key. Build profile `verif` has debug
//! assertions OFF, so ml_dsa_sign / ml_dsa_verify are the shipping ML-DSA-65 path.
//! Every call is an event [entry, tokens, result]; the oracle is spec/Trace_Sig.tla.
//!
//! Trusted base: interning of byte strings (equal token <=> equal bytes); a `Sign` event names the
//! public key the signing identity reports as its own; the node id of an address-bound identity is
//! only ever taken from records the library generated (IpGen), never computed by the harness.
use crate::common::{self, Args, Trace};
use rand::Rng;
use saorsa_core::auth::{CompositeWriteAuth, DelegatedWriteAuth, PubKey, Sig, SingleWriteAuth, ThresholdWriteAuth, WriteAuth};
use saorsa_core::identity::node_identity::NodeIdentity;
use saorsa_core::identity::secure_node_identity::SecureNodeIdentity;
use saorsa_core::key_derivation::{DerivationPath, HierarchicalKeyDerivation, MasterSeed};
use saorsa_core::quantum_crypto::ant_quic_integration::{
    MlDsaPublicKey, MlDsaSecretKey, MlDsaSignature, generate_ml_dsa_keypair, ml_dsa_sign, ml_dsa_verify,
};
use saorsa_core::security::{IPv4NodeID, IPv6NodeID};
use saorsa_core::upgrade::{PinnedKey, SignatureVerifier};
use serde_json::{Value, json};
use std::collections::HashMap;

#[derive(Default)]
struct Intern {
    m: HashMap<(u8, Vec<u8>), i64>,
}
impl Intern {
    fn tok(&mut self, kind: u8, b: &[u8]) -> i64 {
        let n = self.m.len() as i64 + 1;
        *self.m.entry((kind, b.to_vec())).or_insert(n)
    }
}
const K_PK: u8 = 1;
const K_MSG: u8 = 2;
const K_SIG: u8 = 3;
const K_MISC: u8 = 4;

/// An identity as the driver sees it: how to sign, and the public key it reports as its own.
struct Ident {
    origin: &'static str,
    pk: MlDsaPublicKey,
    signer: Signer,
}
enum Signer {
    Node(NodeIdentity),
    Secure(SecureNodeIdentity),
    Raw(MlDsaSecretKey),
}
impl Ident {
    fn sign(&self, m: &[u8]) -> Result<MlDsaSignature, String> {
        match &self.signer {
            Signer::Node(n) => n.sign(m).map_err(|e| e.to_string()),
            Signer::Secure(n) => n.sign(m).map_err(|e| e.to_string()),
            Signer::Raw(sk) => ml_dsa_sign(sk, m).map_err(|e| e.to_string()),
        }
    }
    /// the identity's own verify method, where it has one
    fn own_verify(&self, m: &[u8], s: &MlDsaSignature) -> Option<(&'static str, Result<bool, String>)> {
        match &self.signer {
            Signer::Node(n) => Some(("NodeIdentity::verify", n.verify(m, s).map_err(|e| e.to_string()))),
            Signer::Secure(n) => Some(("SecureNodeIdentity::verify", n.verify(m, s).map_err(|e| e.to_string()))),
            Signer::Raw(_) => None,
        }
    }
}

fn res_json(r: &Result<Result<bool, String>, String>) -> Value {
    match r {
        Ok(Ok(b)) => json!(if *b { "true" } else { "false" }),
        Ok(Err(_)) => json!("err"),
        Err(_) => json!("panic"),
    }
}

struct Ctx {
    t: Trace,
    it: Intern,
    rt: tokio::runtime::Runtime,
}

impl Ctx {
    /// raw verification call under an explicit key
    fn verify(&mut self, pk: &[u8], m: &[u8], s: &[u8], how: &str) {
        let r = common::catch(std::panic::AssertUnwindSafe(|| -> Result<bool, String> {
            let pk = MlDsaPublicKey::from_bytes(pk).map_err(|e| e.to_string())?;
            let s = MlDsaSignature::from_bytes(s).map_err(|e| e.to_string())?;
            ml_dsa_verify(&pk, m, &s).map_err(|e| e.to_string())
        }));
        let (p, mt, st) = (self.it.tok(K_PK, pk), self.it.tok(K_MSG, m), self.it.tok(K_SIG, s));
        self.t.ev(json!({"ev":"Verify","entry":"ml_dsa_verify","pk":p,"msg":mt,"sig":st,"res":res_json(&r),"how":how}));
    }
    fn own(&mut self, id: &Ident, m: &[u8], s: &MlDsaSignature, how: &str) {
        let r = common::catch(std::panic::AssertUnwindSafe(|| id.own_verify(m, s)));
        let (entry, r2) = match r {
            Ok(Some((e, r))) => (e, Ok(r)),
            Ok(None) => return,
            Err(p) => ("identity::verify", Err(p)),
        };
        let (p, mt, st) = (self.it.tok(K_PK, id.pk.as_bytes()), self.it.tok(K_MSG, m), self.it.tok(K_SIG, s.as_bytes()));
        self.t.ev(json!({"ev":"Verify","entry":entry,"pk":p,"msg":mt,"sig":st,"res":res_json(&r2),"how":how,"origin":id.origin}));
    }
    fn auth(&mut self, kind: &str, a: &dyn WriteAuth, keys: &[Vec<u8>], t: usize, m: &[u8], sigs: &[Vec<u8>], how: &str) {
        let sv: Vec<Sig> = sigs.iter().map(|s| Sig::new(s.clone())).collect();
        let rt = &self.rt;
        let r = common::catch(std::panic::AssertUnwindSafe(|| rt.block_on(a.verify(m, &sv)).map_err(|e| e.to_string())));
        let kt: Vec<i64> = keys.iter().map(|k| self.it.tok(K_PK, k)).collect();
        let st: Vec<i64> = sigs.iter().map(|s| self.it.tok(K_SIG, s)).collect();
        let mt = self.it.tok(K_MSG, m);
        self.t.ev(json!({"ev":"Auth","kind":kind,"keys":kt,"t":t,"msg":mt,"sigs":st,"res":res_json(&r),"how":how}));
    }
}

fn flip(b: &[u8], bit: usize) -> Vec<u8> {
    let mut v = b.to_vec();
    v[bit / 8] ^= 1 << (bit % 8);
    v
}

fn positions(rng: &mut impl Rng, total_bits: usize, n: u64) -> Vec<usize> {
    if n as usize >= total_bits {
        return (0..total_bits).collect();
    }
    let mut v: Vec<usize> = (0..n).map(|_| rng.gen_range(0..total_bits)).collect();
    // always include the first and last bit of the object
    v.push(0);
    v.push(total_bits - 1);
    v.sort();
    v.dedup();
    v
}

fn identities(c: &mut Ctx, rng: &mut impl Rng, dir: &std::path::Path) -> Vec<Ident> {
    let mut ids: Vec<Ident> = Vec::new();
    let fail = |what: &str, e: String| -> ! {
        eprintln!("c08: {what}: {e}");
        std::process::exit(2)
    };
    let g = NodeIdentity::generate().unwrap_or_else(|e| fail("generate", e.to_string()));
    // exported + imported
    let imp = NodeIdentity::import(&g.export()).unwrap_or_else(|e| fail("import", e.to_string()));
    // saved + loaded
    let path = dir.join("identity.json");
    let loaded = c.rt.block_on(async {
        g.save_to_file(&path).await?;
        NodeIdentity::load_from_file(&path).await
    });
    ids.push(Ident { origin: "imported", pk: imp.public_key().clone(), signer: Signer::Node(imp) });
    match loaded {
        Ok(l) => ids.push(Ident { origin: "loaded_from_file", pk: l.public_key().clone(), signer: Signer::Node(l) }),
        Err(e) => fail("save/load", e.to_string()),
    }
    ids.push(Ident { origin: "generated", pk: g.public_key().clone(), signer: Signer::Node(g) });
    let g2 = NodeIdentity::generate().unwrap_or_else(|e| fail("generate", e.to_string()));
    ids.push(Ident { origin: "generated", pk: g2.public_key().clone(), signer: Signer::Node(g2) });
    // seed derived
    let mut seed = [0u8; 32];
    rng.fill(&mut seed);
    match NodeIdentity::from_seed(&seed) {
        Ok(s) => ids.push(Ident { origin: "seed", pk: s.public_key().clone(), signer: Signer::Node(s) }),
        Err(e) => c.t.ev(json!({"ev":"Note","what":"NodeIdentity::from_seed failed","err":e.to_string()})),
    }
    // derivation path
    let mut ent = [0u8; 32];
    rng.fill(&mut ent);
    if let Ok(ms) = MasterSeed::from_entropy(&ent) {
        let mut h = HierarchicalKeyDerivation::new(ms);
        for p in ["m/0'/1", "m/44'/0'/0'/0/5"] {
            match DerivationPath::from_string(p).and_then(|dp| h.derive_key(&dp)) {
                Ok(dk) => {
                    let (pk, sk) = dk.ml_dsa_keypair();
                    ids.push(Ident { origin: "path", pk, signer: Signer::Raw((*sk).clone()) });
                }
                Err(e) => c.t.ev(json!({"ev":"Note","what":"derive_key failed","path":p,"err":e.to_string()})),
            }
        }
    }
    // SecureNodeIdentity
    match SecureNodeIdentity::generate() {
        Ok(s) => ids.push(Ident { origin: "secure_generated", pk: s.public_key().clone(), signer: Signer::Secure(s) }),
        Err(e) => fail("SecureNodeIdentity::generate", e.to_string()),
    }
    match SecureNodeIdentity::from_seed(&seed) {
        Ok(s) => ids.push(Ident { origin: "secure_seed", pk: s.public_key().clone(), signer: Signer::Secure(s) }),
        Err(e) => c.t.ev(json!({"ev":"Note","what":"SecureNodeIdentity::from_seed failed","err":e.to_string()})),
    }
    // raw key pair
    match generate_ml_dsa_keypair() {
        Ok((pk, sk)) => ids.push(Ident { origin: "raw_keypair", pk, signer: Signer::Raw(sk) }),
        Err(e) => fail("generate_ml_dsa_keypair", e.to_string()),
    }
    for (i, id) in ids.iter().enumerate() {
        let p = c.it.tok(K_PK, id.pk.as_bytes());
        c.t.ev(json!({"ev":"Key","id":i,"pk":p,"origin":id.origin}));
    }
    ids
}

pub fn drive(a: &Args) -> i32 {
    let out = a.str("out", "/dev/stdout");
    let nflip = a.num("flips", 300);
    let rounds = a.num("rounds", 1);
    common::quiet_panics();
    let dir = match tempfile::tempdir() {
        Ok(d) => d,
        Err(e) => {
            eprintln!("c08: tempdir: {e}");
            return 2;
        }
    };
    let mut c = Ctx { t: Trace::create(&out), it: Intern::default(), rt: common::rt() };
    let mut rng = common::rng(8);
    for round in 0..rounds {
        c.t.ev(json!({"ev":"Reset","round":round}));
        let ids = identities(&mut c, &mut rng, dir.path());
        // ---- 1. every identity signs; own key, bit flips, every other identity's key
        let mut signed: Vec<(usize, Vec<u8>, MlDsaSignature)> = Vec::new();
        for (i, id) in ids.iter().enumerate() {
            let mlen = [1usize, 8, 16, 33][(i + round as usize) % 4];
            let msgs: Vec<Vec<u8>> = vec![(0..mlen).map(|_| rng.r#gen()).collect(), Vec::new(), (0..rng.gen_range(100..3000)).map(|_| rng.r#gen()).collect()];
            for (mi, m) in msgs.iter().enumerate() {
                let s = match common::catch(std::panic::AssertUnwindSafe(|| id.sign(m))) {
                    Ok(Ok(s)) => s,
                    Ok(Err(e)) => {
                        let p = c.it.tok(K_PK, id.pk.as_bytes());
                        let mt = c.it.tok(K_MSG, m);
                        c.t.ev(json!({"ev":"SignErr","pk":p,"msg":mt,"origin":id.origin,"err":e}));
                        continue;
                    }
                    Err(p) => {
                        c.t.ev(json!({"ev":"Panic","where":"sign","origin":id.origin,"msg":p}));
                        continue;
                    }
                };
                let (p, mt, st) = (c.it.tok(K_PK, id.pk.as_bytes()), c.it.tok(K_MSG, m), c.it.tok(K_SIG, s.as_bytes()));
                c.t.ev(json!({"ev":"Sign","pk":p,"msg":mt,"sig":st,"origin":id.origin}));
                c.verify(id.pk.as_bytes(), m, s.as_bytes(), "genuine");
                c.own(id, m, &s, "genuine");
                if mi == 0 {
                    // every bit of the short message
                    for bit in 0..(m.len() * 8) {
                        let m2 = flip(m, bit);
                        c.verify(id.pk.as_bytes(), &m2, s.as_bytes(), "msg:bit");
                        if bit % 8 == 0 {
                            c.own(id, &m2, &s, "msg:bit");
                        }
                    }
                    // truncated / extended message
                    let mut m3 = m.clone();
                    m3.push(0);
                    c.verify(id.pk.as_bytes(), &m3, s.as_bytes(), "msg:extended");
                    c.verify(id.pk.as_bytes(), &m[..m.len() - 1], s.as_bytes(), "msg:truncated");
                    // signature and key flips: `nflip` positions each, verified one by one and reported in one
                    // aggregated event (the positions that were ACCEPTED are listed); 48 of them also as single events
                    for (target, total_bits) in [("sig", 3309 * 8), ("key", 1952 * 8)] {
                        let pos = positions(&mut rng, total_bits, nflip);
                        let mut accepted: Vec<usize> = Vec::new();
                        let mut errs = 0u64;
                        for (k, &bit) in pos.iter().enumerate() {
                            let (pkb, sgb) = if target == "sig" {
                                (id.pk.as_bytes().to_vec(), flip(s.as_bytes(), bit))
                            } else {
                                (flip(id.pk.as_bytes(), bit), s.as_bytes().to_vec())
                            };
                            if k % (pos.len() / 48 + 1) == 0 {
                                c.verify(&pkb, m, &sgb, if target == "sig" { "sig:bit" } else { "key:bit" });
                                if target == "sig" {
                                    if let Ok(s2o) = MlDsaSignature::from_bytes(&sgb) {
                                        c.own(id, m, &s2o, "sig:bit");
                                    }
                                }
                                continue;
                            }
                            let r = common::catch(std::panic::AssertUnwindSafe(|| -> Result<bool, String> {
                                let pk = MlDsaPublicKey::from_bytes(&pkb).map_err(|e| e.to_string())?;
                                let sg = MlDsaSignature::from_bytes(&sgb).map_err(|e| e.to_string())?;
                                ml_dsa_verify(&pk, m, &sg).map_err(|e| e.to_string())
                            }));
                            match r {
                                Ok(Ok(true)) => {
                                    if accepted.len() < 50 {
                                        accepted.push(bit)
                                    }
                                }
                                Ok(Ok(false)) => {}
                                Ok(Err(_)) => errs += 1,
                                Err(p) => c.t.ev(json!({"ev":"Panic","where":"ml_dsa_verify","msg":p})),
                            }
                        }
                        let (p, mt, st) = (c.it.tok(K_PK, id.pk.as_bytes()), c.it.tok(K_MSG, m), c.it.tok(K_SIG, s.as_bytes()));
                        c.t.ev(json!({"ev":"VerifyFlips","entry":"ml_dsa_verify","target":target,"pk":p,"msg":mt,"sig":st,
                                      "n":pos.len(),"accepted":accepted,"errors":errs,"origin":id.origin}));
                    }
                    signed.push((i, m.clone(), s));
                } else {
                    // a few flips on the other messages too
                    if !m.is_empty() {
                        for _ in 0..8 {
                            let m2 = flip(m, rng.gen_range(0..m.len() * 8));
                            c.verify(id.pk.as_bytes(), &m2, s.as_bytes(), "msg:bit");
                        }
                    }
                }
            }
        }
        // all ordered pairs of distinct identities
        for (i, m, s) in &signed {
            for (j, other) in ids.iter().enumerate() {
                if j != *i {
                    c.verify(other.pk.as_bytes(), m, s.as_bytes(), "key:other-identity");
                    c.own(other, m, s, "key:other-identity");
                }
            }
            // signature over one message presented for another message of the same identity
            for (i2, m2, _) in &signed {
                if i2 != i {
                    c.verify(ids[*i].pk.as_bytes(), m2, s.as_bytes(), "msg:other");
                }
            }
        }
        // the other entry points log every call as its own event: fewer positions there
        let small = a.num("small_flips", nflip.min(320));
        write_auth(&mut c, &mut rng, &ids, small);
        updates(&mut c, &mut rng, &ids, dir.path(), small);
        ip_ids(&mut c, &mut rng, &ids, small);
    }
    let n = c.t.finish();
    eprintln!("c08 drive: {n} events");
    0
}

/// Record write authorisation: single, delegated, threshold, composite.
fn write_auth(c: &mut Ctx, rng: &mut impl Rng, ids: &[Ident], nflip: u64) {
    // signers with well-formed keys only matter for "must accept" cases; all identities take part
    let record: Vec<u8> = (0..64).map(|_| rng.r#gen()).collect();
    let mut sig_of: Vec<Option<Vec<u8>>> = Vec::new();
    for id in ids {
        match common::catch(std::panic::AssertUnwindSafe(|| id.sign(&record))) {
            Ok(Ok(s)) => {
                let (p, mt, st) = (c.it.tok(K_PK, id.pk.as_bytes()), c.it.tok(K_MSG, &record), c.it.tok(K_SIG, s.as_bytes()));
                c.t.ev(json!({"ev":"Sign","pk":p,"msg":mt,"sig":st,"origin":id.origin}));
                sig_of.push(Some(s.as_bytes().to_vec()));
            }
            _ => sig_of.push(None),
        }
    }
    let key = |i: usize| ids[i].pk.as_bytes().to_vec();
    let n = ids.len();
    // single
    for i in 0..n {
        let Some(s) = sig_of[i].clone() else { continue };
        let auth = SingleWriteAuth::new(PubKey::new(key(i)));
        c.auth("single", &auth, &[key(i)], 1, &record, &[s.clone()], "genuine");
        c.auth("single", &auth, &[key(i)], 1, &record, &[], "no-signature");
        for bit in positions(rng, record.len() * 8, 64) {
            c.auth("single", &auth, &[key(i)], 1, &flip(&record, bit), &[s.clone()], "msg:bit");
        }
        for bit in positions(rng, 3309 * 8, nflip / 4) {
            c.auth("single", &auth, &[key(i)], 1, &record, &[flip(&s, bit)], "sig:bit");
        }
        for bit in positions(rng, 1952 * 8, nflip / 4) {
            let k2 = flip(&key(i), bit);
            let a2 = SingleWriteAuth::new(PubKey::new(k2.clone()));
            c.auth("single", &a2, &[k2], 1, &record, &[s.clone()], "key:bit");
        }
        for j in 0..n {
            if j != i {
                let a2 = SingleWriteAuth::new(PubKey::new(key(j)));
                c.auth("single", &a2, &[key(j)], 1, &record, &[s.clone()], "key:other-identity");
            }
        }
        c.auth("single", &auth, &[key(i)], 1, &record, &[s[..100].to_vec()], "sig:truncated");
        c.auth("single", &auth, &[key(i)], 1, &record, &[s[..s.len() - 1].to_vec()], "sig:truncated");
        // a genuine signature followed by further bytes is a different signature string
        for extra in [1usize, 2, 64, 3309] {
            let mut s2 = s.clone();
            s2.extend((0..extra).map(|_| if rng.gen_bool(0.5) { 0u8 } else { rng.r#gen() }));
            c.auth("single", &auth, &[key(i)], 1, &record, &[s2], "sig:extended");
        }
    }
    // delegated: authorised = a subset; signature by a member / by an outsider
    for _ in 0..20 {
        let k = rng.gen_range(1..=3.min(n));
        let mut members: Vec<usize> = (0..n).collect();
        for i in (1..members.len()).rev() {
            members.swap(i, rng.gen_range(0..=i));
        }
        members.truncate(k);
        let keys: Vec<Vec<u8>> = members.iter().map(|&i| key(i)).collect();
        let auth = DelegatedWriteAuth::new(keys.iter().map(|k| PubKey::new(k.clone())).collect());
        for signer in 0..n {
            let Some(s) = sig_of[signer].clone() else { continue };
            let how = if members.contains(&signer) { "member" } else { "outsider" };
            c.auth("delegated", &auth, &keys, 1, &record, &[s.clone()], how);
            let bit = rng.gen_range(0..record.len() * 8);
            c.auth("delegated", &auth, &keys, 1, &flip(&record, bit), &[s.clone()], "msg:bit");
            let bit = rng.gen_range(0..3309 * 8);
            c.auth("delegated", &auth, &keys, 1, &record, &[flip(&s, bit)], "sig:bit");
            let mut s2 = s.clone();
            s2.extend((0..[1usize, 7, 3309][rng.gen_range(0..3)]).map(|_| rng.r#gen::<u8>()));
            c.auth("delegated", &auth, &keys, 1, &record, &[s2], "sig:extended");
            c.auth("delegated", &auth, &keys, 1, &record, &[s[..s.len() - 1].to_vec()], "sig:truncated");
        }
        c.auth("delegated", &auth, &keys, 1, &record, &[], "no-signature");
    }
    // threshold (t, n): genuine signatures of k members, repeated signatures, outsiders, junk
    for _ in 0..40 {
        let total = rng.gen_range(1..=4.min(n));
        let t = rng.gen_range(1..=total);
        let mut members: Vec<usize> = (0..n).collect();
        for i in (1..members.len()).rev() {
            members.swap(i, rng.gen_range(0..=i));
        }
        let outsiders: Vec<usize> = members[total..].to_vec();
        members.truncate(total);
        let keys: Vec<Vec<u8>> = members.iter().map(|&i| key(i)).collect();
        let Ok(auth) = ThresholdWriteAuth::new(t, total, keys.iter().map(|k| PubKey::new(k.clone())).collect()) else { continue };
        let nsigs = rng.gen_range(0..=total);
        let mut sigs: Vec<Vec<u8>> = Vec::new();
        let mut how = String::new();
        for _ in 0..nsigs {
            match rng.gen_range(0..6) {
                0 | 1 | 2 => {
                    let m = members[rng.gen_range(0..members.len())];
                    if let Some(s) = &sig_of[m] {
                        sigs.push(s.clone());
                        how.push('m');
                    }
                }
                3 => {
                    if !outsiders.is_empty() {
                        let o = outsiders[rng.gen_range(0..outsiders.len())];
                        if let Some(s) = &sig_of[o] {
                            sigs.push(s.clone());
                            how.push('o');
                        }
                    }
                }
                4 => {
                    let m = members[rng.gen_range(0..members.len())];
                    if let Some(s) = &sig_of[m] {
                        sigs.push(flip(s, rng.gen_range(0..3309 * 8)));
                        how.push('f');
                    }
                }
                _ => {
                    sigs.push((0..3309).map(|_| rng.r#gen()).collect());
                    how.push('j');
                }
            }
        }
        c.auth("threshold", &auth, &keys, t, &record, &sigs, &how);
        // all members sign (must be accepted when their keys are sound) and the same for an altered record
        let all: Vec<Vec<u8>> = members.iter().filter_map(|&m| sig_of[m].clone()).collect();
        if all.len() == total {
            c.auth("threshold", &auth, &keys, t, &record, &all, "all-members");
            c.auth("threshold", &auth, &keys, t, &flip(&record, rng.gen_range(0..record.len() * 8)), &all, "all-members,msg:bit");
        }
        // composite of this threshold rule with a single-writer rule
        let Some(s0) = sig_of[members[0]].clone() else { continue };
        let single = SingleWriteAuth::new(PubKey::new(key(members[0])));
        let thr = ThresholdWriteAuth::new(t, total, keys.iter().map(|k| PubKey::new(k.clone())).collect());
        if let Ok(thr) = thr {
            let mut sg = vec![s0];
            sg.extend(sigs.iter().skip(1).cloned());
            let call = CompositeWriteAuth::all(vec![Box::new(single.clone()), Box::new(thr.clone())]);
            c.auth("composite_all", &call, &keys, t, &record, &sg, "single(first key)+threshold");
            let cany = CompositeWriteAuth::any(vec![Box::new(single), Box::new(thr)]);
            c.auth("composite_any", &cany, &keys, t, &record, &sigs, "single(first key)|threshold");
        }
    }
}

fn b64(b: &[u8]) -> String {
    // standard base64 with padding (the harness has no base64 crate)
    const T: &[u8; 64] = b"ABCDEFGHIJKLMNOPQRSTUVWXYZabcdefghijklmnopqrstuvwxyz0123456789+/";
    let mut s = String::new();
    for ch in b.chunks(3) {
        let n = (ch[0] as u32) << 16 | (*ch.get(1).unwrap_or(&0) as u32) << 8 | *ch.get(2).unwrap_or(&0) as u32;
        s.push(T[(n >> 18) as usize & 63] as char);
        s.push(T[(n >> 12) as usize & 63] as char);
        s.push(if ch.len() > 1 { T[(n >> 6) as usize & 63] as char } else { '=' });
        s.push(if ch.len() > 2 { T[n as usize & 63] as char } else { '=' });
    }
    s
}

/// Update packages: checksum, pinned key, validity window, signature.
fn updates(c: &mut Ctx, rng: &mut impl Rng, ids: &[Ident], dir: &std::path::Path, nflip: u64) {
    let now = std::time::SystemTime::now().duration_since(std::time::UNIX_EPOCH).map(|d| d.as_secs()).unwrap_or(0);
    let far = 10_000_000u64;
    let contents: Vec<u8> = (0..rng.gen_range(200..2000)).map(|_| rng.r#gen()).collect();
    let path = dir.join("package.bin");
    if std::fs::write(&path, &contents).is_err() {
        return;
    }
    let sum = SignatureVerifier::calculate_checksum(&contents);
    let (mt, sumt) = (c.it.tok(K_MSG, &contents), c.it.tok(K_MISC, sum.as_bytes()));
    c.t.ev(json!({"ev":"Checksum","msg":mt,"sum":sumt}));
    let windows: [(&str, u64, &str, u64); 5] = [
        ("none", 0, "none", 0),
        ("past", now - far, "future", now + far),
        ("past", now - far, "past", now - 1000),
        ("future", now + far, "none", 0),
        ("future", now + far, "future", now + 2 * far),
    ];
    let mut keys: Vec<PinnedKey> = Vec::new();
    let mut meta: Vec<(String, usize)> = Vec::new();
    for (i, id) in ids.iter().enumerate() {
        for (w, (fc, from, uc, until)) in windows.iter().enumerate() {
            if w > 1 && i > 1 {
                continue;
            }
            let kid = format!("key-{i}-{w}");
            let mut k = PinnedKey::new(kid.clone(), b64(id.pk.as_bytes()));
            k.valid_from = *from;
            k.valid_until = *until;
            keys.push(k);
            let (kt, p) = (c.it.tok(K_MISC, kid.as_bytes()), c.it.tok(K_PK, id.pk.as_bytes()));
            c.t.ev(json!({"ev":"Pin","key_id":kt,"pk":p,"from":fc,"until":uc}));
            meta.push((kid, i));
        }
    }
    let mut ver = SignatureVerifier::new(keys);
    let mut sigs_by: Vec<Option<(String, i64)>> = vec![None; ids.len()];
    let unknown = "key-not-pinned".to_string();
    let wrong_sum = SignatureVerifier::calculate_checksum(b"something else");
    for (i, id) in ids.iter().enumerate() {
        let Ok(Ok(s)) = common::catch(std::panic::AssertUnwindSafe(|| id.sign(&contents))) else { continue };
        let (p, st) = (c.it.tok(K_PK, id.pk.as_bytes()), c.it.tok(K_SIG, s.as_bytes()));
        c.t.ev(json!({"ev":"Sign","pk":p,"msg":mt,"sig":st,"origin":id.origin}));
        let sig64 = b64(s.as_bytes());
        sigs_by[i] = Some((sig64.clone(), st));
        let mut calls: Vec<(String, String, String, &str)> = Vec::new(); // (key id, checksum, signature b64, how)
        for (kid, owner) in &meta {
            if *owner == i {
                calls.push((kid.clone(), sum.clone(), sig64.clone(), "own-key"));
                calls.push((kid.clone(), wrong_sum.clone(), sig64.clone(), "wrong-checksum"));
            } else if kid.ends_with("-0") {
                calls.push((kid.clone(), sum.clone(), sig64.clone(), "key:other-identity"));
            }
        }
        calls.push((unknown.clone(), sum.clone(), sig64.clone(), "unpinned-key"));
        for bit in positions(rng, 3309 * 8, nflip / 8) {
            calls.push((format!("key-{i}-0"), sum.clone(), b64(&flip(s.as_bytes(), bit)), "sig:bit"));
        }
        for (kid, cs, sg, how) in calls {
            let rt = &c.rt;
            let r = common::catch(std::panic::AssertUnwindSafe(|| rt.block_on(ver.verify_file(&path, &cs, &kid, &sg))));
            let res = match &r {
                Ok(Ok(())) => json!("true"),
                Ok(Err(_)) => json!("false"),
                Err(_) => json!("panic"),
            };
            let sbytes: Vec<u8> = sg.as_bytes().to_vec();
            // the signature token is the token of the raw signature bytes when the text is the encoding of a known one
            let st2 = if sg == sig64 { st } else { c.it.tok(K_SIG, &sbytes) };
            let (kt, ct) = (c.it.tok(K_MISC, kid.as_bytes()), c.it.tok(K_MISC, cs.as_bytes()));
            c.t.ev(json!({"ev":"Update","entry":"verify_file","msg":mt,"sum":ct,"key_id":kt,"sig":st2,"res":res,"how":how}));
        }
        // the file itself altered on disk (checksum of the original presented)
        let bit = rng.gen_range(0..contents.len() * 8);
        let altered = flip(&contents, bit);
        let p2 = dir.join("package-altered.bin");
        if std::fs::write(&p2, &altered).is_ok() {
            let kid = format!("key-{i}-0");
            let rt = &c.rt;
            let r = common::catch(std::panic::AssertUnwindSafe(|| rt.block_on(ver.verify_file(&p2, &sum, &kid, &sig64))));
            let res = match &r {
                Ok(Ok(())) => json!("true"),
                Ok(Err(_)) => json!("false"),
                Err(_) => json!("panic"),
            };
            let (kt, m2) = (c.it.tok(K_MISC, kid.as_bytes()), c.it.tok(K_MSG, &altered));
            c.t.ev(json!({"ev":"Update","entry":"verify_file","msg":m2,"sum":sumt,"key_id":kt,"sig":st,"res":res,"how":"file:bit"}));
            // ... and with the checksum of the altered file (signature is over the original)
            let sum2 = SignatureVerifier::calculate_checksum(&altered);
            let s2t = c.it.tok(K_MISC, sum2.as_bytes());
            c.t.ev(json!({"ev":"Checksum","msg":m2,"sum":s2t}));
            let rt = &c.rt;
            let r = common::catch(std::panic::AssertUnwindSafe(|| rt.block_on(ver.verify_file(&p2, &sum2, &kid, &sig64))));
            let res = match &r {
                Ok(Ok(())) => json!("true"),
                Ok(Err(_)) => json!("false"),
                Err(_) => json!("panic"),
            };
            c.t.ev(json!({"ev":"Update","entry":"verify_file","msg":m2,"sum":s2t,"key_id":kt,"sig":st,"res":res,"how":"file:bit,checksum-recomputed"}));
        }
    }
    // re-pinning: a key id that has already been used for verification on this verifier gets other key material
    // (add_key with an id that is pinned already); signatures of the retired key must stop verifying under that id
    // and signatures of the new key must verify
    if ids.len() >= 2 {
        // pairs of identities with different key material (the restored identity shares its key with the generated one)
        let other = |i: usize| (0..ids.len()).find(|&j| ids[j].pk.as_bytes() != ids[i].pk.as_bytes() && sigs_by[j].is_some());
        let mut pairs: Vec<(usize, usize)> = Vec::new();
        for i in 0..ids.len().min(3) {
            if let Some(j) = other(i) {
                pairs.push((i, j));
            }
        }
        pairs.push((0, 0));
        for (i, j) in pairs {
            let kid = format!("key-{i}-0");
            ver.add_key(PinnedKey::new(kid.clone(), b64(ids[j].pk.as_bytes())));
            let (kt, p) = (c.it.tok(K_MISC, kid.as_bytes()), c.it.tok(K_PK, ids[j].pk.as_bytes()));
            c.t.ev(json!({"ev":"Pin","key_id":kt,"pk":p,"from":"none","until":"none","how":"add_key on a pinned id"}));
            for signer in [i, j] {
                let Some((sg, st)) = sigs_by[signer].clone() else { continue };
                let how = if signer == j { "repinned:signature-of-new-key" } else { "repinned:signature-of-retired-key" };
                let rt = &c.rt;
                let r = common::catch(std::panic::AssertUnwindSafe(|| rt.block_on(ver.verify_file(&path, &sum, &kid, &sg))));
                let res = match &r {
                    Ok(Ok(())) => json!("true"),
                    Ok(Err(_)) => json!("false"),
                    Err(_) => json!("panic"),
                };
                c.t.ev(json!({"ev":"Update","entry":"verify_file","msg":mt,"sum":sumt,"key_id":kt,"sig":st,"res":res,"how":how}));
                let r = common::catch(std::panic::AssertUnwindSafe(|| ver.verify_signature(&kid, &contents, &sg)));
                let res = match &r {
                    Ok(Ok(true)) => json!("true"),
                    Ok(Ok(false)) | Ok(Err(_)) => json!("false"),
                    Err(_) => json!("panic"),
                };
                c.t.ev(json!({"ev":"Update","entry":"verify_signature","msg":mt,"sum":sumt,"key_id":kt,"sig":st,"res":res,"how":how}));
            }
        }
    }
}

/// Address-bound node identities (IPv4NodeID / IPv6NodeID over GenericIpNodeID).
#[allow(dead_code)]
fn _marker() {}

fn ip_ids(c: &mut Ctx, rng: &mut impl Rng, ids: &[Ident], nflip: u64) {
    for (i, id) in ids.iter().enumerate() {
        let sk: MlDsaSecretKey = match &id.signer {
            Signer::Node(n) => match MlDsaSecretKey::from_bytes(n.secret_key_bytes()) {
                Ok(k) => k,
                Err(_) => continue,
            },
            Signer::Raw(k) => k.clone(),
            Signer::Secure(_) => continue,
        };
        let ip4 = std::net::Ipv4Addr::new(rng.gen_range(1..224), rng.r#gen(), rng.r#gen(), rng.r#gen());
        let Ok(Ok(g)) = common::catch(std::panic::AssertUnwindSafe(|| IPv4NodeID::generate(ip4, &sk, &id.pk))) else { continue };
        let rec = |c: &mut Ctx, r: &IPv4NodeID| -> Value {
            json!({"nid": c.it.tok(K_MISC, &r.node_id), "ip": c.it.tok(K_MISC, &r.ipv4_addr.octets()), "pk": c.it.tok(K_PK, &r.public_key),
                   "salt": c.it.tok(K_MISC, &r.salt), "ts": c.it.tok(K_MISC, &r.timestamp_secs.to_le_bytes()), "sig": c.it.tok(K_SIG, &r.signature)})
        };
        let rj = rec(c, &g);
        c.t.ev(json!({"ev":"IpGen","v":4,"rec":rj,"origin":id.origin}));
        let mut cases: Vec<(IPv4NodeID, &str)> = vec![(g.clone(), "genuine")];
        let mut m = g.clone();
        m.ipv4_addr = std::net::Ipv4Addr::from(u32::from(g.ipv4_addr) ^ (1 << rng.gen_range(0..32)));
        cases.push((m, "ip:bit"));
        let mut m = g.clone();
        m.timestamp_secs ^= 1 << rng.gen_range(0..32);
        cases.push((m, "ts:bit"));
        let mut m = g.clone();
        let b = rng.gen_range(0..m.salt.len() * 8);
        m.salt = flip(&m.salt, b);
        cases.push((m, "salt:bit"));
        let mut m = g.clone();
        let b = rng.gen_range(0..m.node_id.len() * 8);
        m.node_id = flip(&m.node_id, b);
        cases.push((m, "nid:bit"));
        for bit in positions(rng, 3309 * 8, nflip / 8) {
            let mut m = g.clone();
            m.signature = flip(&m.signature, bit);
            cases.push((m, "sig:bit"));
        }
        for bit in positions(rng, 1952 * 8, nflip / 8) {
            let mut m = g.clone();
            m.public_key = flip(&m.public_key, bit);
            cases.push((m, "key:bit"));
        }
        // another identity's key, and an attacker who re-generates the record for another address with his own key
        let j = (i + 1) % ids.len();
        let mut m = g.clone();
        m.public_key = ids[j].pk.as_bytes().to_vec();
        cases.push((m, "key:other-identity"));
        // an attacker alters a field and recomputes the id as documented: SHA-256(ip || key || salt || ts_le).
        // The signature is the genuine one (over the unaltered fields), so the record must still be refused.
        let reid = |r: &mut IPv4NodeID| {
            use sha2::{Digest, Sha256};
            let mut h = Sha256::new();
            h.update(r.ipv4_addr.octets());
            h.update(&r.public_key);
            h.update(&r.salt);
            h.update(r.timestamp_secs.to_le_bytes());
            r.node_id = h.finalize().to_vec();
        };
        let mut crafted: Vec<(IPv4NodeID, &str)> = Vec::new();
        let mut m = g.clone();
        m.ipv4_addr = std::net::Ipv4Addr::from(u32::from(g.ipv4_addr) ^ (1 << rng.gen_range(0..32)));
        crafted.push((m, "ip:bit,id-recomputed"));
        let mut m = g.clone();
        m.timestamp_secs ^= 1 << rng.gen_range(0..32);
        crafted.push((m, "ts:bit,id-recomputed"));
        let mut m = g.clone();
        let b = rng.gen_range(0..m.salt.len() * 8);
        m.salt = flip(&m.salt, b);
        crafted.push((m, "salt:bit,id-recomputed"));
        let mut m = g.clone();
        m.salt.clear();
        crafted.push((m, "salt:empty,id-recomputed"));
        let mut m = g.clone();
        m.public_key = ids[j].pk.as_bytes().to_vec();
        crafted.push((m, "key:other-identity,id-recomputed"));
        for (mut r, how) in crafted {
            reid(&mut r);
            let rj = rec(c, &r);
            c.t.ev(json!({"ev":"IpId","rec":rj,"by":"harness sha256"}));
            cases.push((r, how));
        }
        for (r, how) in cases {
            let res = common::catch(std::panic::AssertUnwindSafe(|| r.verify().map_err(|e| e.to_string())));
            let rj = rec(c, &r);
            c.t.ev(json!({"ev":"IpVerify","v":4,"rec":rj,"res":res_json(&res),"how":how}));
        }
        // IPv6 flavour: genuine + one flip of each field
        // every other identity is bound to an IPv4-mapped address: its IPv4-compatible twin and the plain IPv4 address are
        // DIFFERENT addresses, a record moved to them must not verify
        let v4 = std::net::Ipv4Addr::from(rng.r#gen::<u32>() | 0x0100_0001);
        let ip6 = if i % 2 == 0 { v4.to_ipv6_mapped() } else { std::net::Ipv6Addr::from(rng.r#gen::<u128>()) };
        let Ok(Ok(g6)) = common::catch(std::panic::AssertUnwindSafe(|| IPv6NodeID::generate(ip6, &sk, &id.pk))) else { continue };
        let rec6 = |c: &mut Ctx, r: &IPv6NodeID| -> Value {
            json!({"nid": c.it.tok(K_MISC, &r.node_id), "ip": c.it.tok(K_MISC, &r.ipv6_addr.octets()), "pk": c.it.tok(K_PK, &r.public_key),
                   "salt": c.it.tok(K_MISC, &r.salt), "ts": c.it.tok(K_MISC, &r.timestamp_secs.to_le_bytes()), "sig": c.it.tok(K_SIG, &r.signature)})
        };
        let rj = rec6(c, &g6);
        c.t.ev(json!({"ev":"IpGen","v":6,"rec":rj,"origin":id.origin}));
        let mut cases6: Vec<(IPv6NodeID, &str)> = vec![(g6.clone(), "genuine")];
        let mut m = g6.clone();
        m.ipv6_addr = std::net::Ipv6Addr::from(u128::from(g6.ipv6_addr) ^ (1u128 << rng.gen_range(0..128)));
        cases6.push((m, "ip:bit"));
        let mut m = g6.clone();
        m.signature = flip(&m.signature, rng.gen_range(0..3309 * 8));
        cases6.push((m, "sig:bit"));
        let mut m = g6.clone();
        m.salt.push(0);
        cases6.push((m, "salt:extended"));
        if let Some(v4b) = g6.ipv6_addr.to_ipv4_mapped() {
            let o = v4b.octets();
            let mut m = g6.clone();
            m.ipv6_addr = std::net::Ipv6Addr::new(0, 0, 0, 0, 0, 0, u16::from_be_bytes([o[0], o[1]]), u16::from_be_bytes([o[2], o[3]]));
            cases6.push((m, "ip:mapped->compatible"));
            // the same fields re-wrapped as an IPv4 node id
            let r4 = IPv4NodeID { node_id: g6.node_id.clone(), ipv4_addr: v4b, public_key: g6.public_key.clone(), signature: g6.signature.clone(),
                                  timestamp_secs: g6.timestamp_secs, salt: g6.salt.clone() };
            let res = common::catch(std::panic::AssertUnwindSafe(|| r4.verify().map_err(|e| e.to_string())));
            let rj = rec(c, &r4);
            c.t.ev(json!({"ev":"IpVerify","v":4,"rec":rj,"res":res_json(&res),"how":"ip:mapped-v6-record-as-v4"}));
        }
        for (r, how) in cases6 {
            let res = common::catch(std::panic::AssertUnwindSafe(|| r.verify().map_err(|e| e.to_string())));
            let rj = rec6(c, &r);
            c.t.ev(json!({"ev":"IpVerify","v":6,"rec":rj,"res":res_json(&res),"how":how}));
        }
    }
}
