//! C20 driver: concurrent lookups / puts / gets and served inbound requests on one node of a real
//! cluster (in-memory hub, virtual time), peers turning silent at seeded instants, stop() at a
//! seeded instant relative to the work in flight. Logged per run: start / end of every operation,
//! stop call / return, requests the node sent after stop returned, alive tasks before the node was
//! created and after it was stopped. Oracle: spec/Trace_Lifecycle.tla.
use crate::common::{self, Args, Trace};
use crate::net::{self, ClusterSpec};
use rand::Rng;
use saorsa_core::dht_network_manager::DhtMessageType;
use serde_json::{Value, json};
use std::sync::{Arc, Mutex};
use std::time::Duration;

/// request timeout in virtual-time runs (ms); real-time multi-thread runs use a tenth of it
const TIMEOUT_VIRTUAL_MS: u64 = 2000;

pub fn drive(a: &Args) -> i32 {
    let out = a.str("out", "/dev/stdout");
    let segments = a.num("segments", 20);
    let max_nodes = a.num("max_nodes", 12) as usize;
    // mode=real: multi-thread runtime in real time (true thread interleavings of the tokio locks and the
    // semaphore); bounds are relaxed by `mult`, the point of these runs is hangs, late requests and leaked tasks
    let real = a.str("mode", "virtual") == "real";
    #[allow(non_snake_case)]
    let TIMEOUT_MS: u64 = if real { TIMEOUT_VIRTUAL_MS / 10 } else { TIMEOUT_VIRTUAL_MS };
    let scale = if real { 10 } else { 1 };
    let mut t = Trace::create(&out);
    let mut rng = common::rng(if real { 2020 } else { 20 });
    for seg in 0..segments {
        let rt = if real {
            tokio::runtime::Builder::new_multi_thread().worker_threads(4).enable_all().build().expect("runtime")
        } else {
            net::paused_rt()
        };
        let spec = ClusterSpec {
            n_real: rng.gen_range(2..=max_nodes),
            // every third run has lying endpoints that name peers at addresses where a dial never completes, and a
            // transport connection timeout far above the request timeout: only the lookup's own dial bound saves it
            n_fake: if seg % 3 == 1 { rng.gen_range(1..=2) } else { 0 },
            k: 8,
            request_timeout: Duration::from_millis(TIMEOUT_MS),
            delay_max_ms: [0, 20, 300, 1500, 2900][rng.gen_range(0..5)] / scale,
            p_silent: 0.0,
            conn_timeout_mult: if seg % 3 == 1 { 200 } else { 1 },
        };
        let hub_rng = common::rng(20_000 + seg);
        let mut events: Vec<Value> = Vec::new();
        rt.block_on(async {
            let tasks_before = tokio::runtime::Handle::current().metrics().num_alive_tasks();
            let mut c = match net::build_cluster(&spec, &mut rng, hub_rng).await {
                Ok(c) => c,
                Err(e) => {
                    eprintln!("cluster: {e}");
                    std::process::exit(2)
                }
            };
            if !c.fakes.is_empty() {
                for i in 500..900 {
                    c.hub.add_blackhole(&net::addr_for(i));
                }
                let mut invented = Vec::new();
                crate::c01::add_liars(&c, &mut rng, &mut invented).await;
            }
            // newcomers: further real nodes that connect to node 0 while its operations are in flight (the connect handler
            // takes the routing-table and peer-bookkeeping locks that lookups and served requests also take)
            let n_old = c.reals.len();
            let n_new = if real && seg % 2 == 0 { 8 } else if seg % 2 == 0 { rng.gen_range(1..=5usize) } else { 0 };
            for j in 0..n_new {
                let id = net::hex_id(&mut rng);
                match net::spawn_real_ct(&c.hub, &id, &net::addr_for(200 + j), spec.request_timeout, spec.k, spec.conn_timeout_mult).await {
                    Ok(r) => c.reals.push(r),
                    Err(e) => {
                        eprintln!("newcomer: {e}");
                        std::process::exit(2)
                    }
                }
            }
            let n = c.reals.len();
            let start = tokio::time::Instant::now();
            let ms = move || start.elapsed().as_millis() as u64;
            let node = &c.reals[0];
            let log: Arc<Mutex<Vec<Value>>> = Arc::new(Mutex::new(Vec::new()));
            // lock stress (real threads only, every other run): tasks that ask node 0 for its local knowledge in a tight loop
            // - the code path every lookup round and every served FIND_* request runs - while newcomers connect; a lock-order
            // inversion between that path and the connect handler needs thousands of attempts to strike
            let stress = real && seg % 2 == 0;
            let mut nstress = 0;
            let mut stress_hs = Vec::new();
            if stress {
                nstress = 8;
                let dur = Duration::from_millis(1500);
                for o in 0..nstress {
                    let m = node.mgr.clone();
                    let log2 = log.clone();
                    let mut key = [0u8; 32];
                    rng.fill(&mut key);
                    stress_hs.push(tokio::spawn(async move {
                        let s = ms();
                        let t0 = tokio::time::Instant::now();
                        let mut iters = 0u64;
                        while t0.elapsed() < dur {
                            let _ = m.find_closest_nodes_local(&key, 8).await;
                            iters += 1;
                            if iters % 64 == 0 {
                                tokio::task::yield_now().await;
                            }
                        }
                        log2.lock().expect("log").push(json!({"o":100 + o,"kind":"lookup","start":s,"end":ms(),"ok":true,"iters":iters}));
                    }));
                }
            }
            // operations on node 0
            let nops = rng.gen_range(1..8);
            let mut hs = Vec::new();
            for o in 0..nops {
                let kind = ["lookup", "put", "get", "lookup", "get"][rng.gen_range(0..5)];
                let at = rng.gen_range(0..3000u64) / scale;
                let mut key = [0u8; 32];
                rng.fill(&mut key);
                let m = node.mgr.clone();
                let log2 = log.clone();
                hs.push(tokio::spawn(async move {
                    tokio::time::sleep(Duration::from_millis(at)).await;
                    let s = ms();
                    let ok = match kind {
                        "lookup" => m.find_closest_nodes(&key, 8).await.is_ok(),
                        "put" => m.put(key, vec![o as u8; 40]).await.is_ok(),
                        _ => m.get(&key).await.is_ok(),
                    };
                    log2.lock().expect("log").push(json!({"o":o,"kind":kind,"start":s,"end":ms(),"ok":ok}));
                }));
            }
            // inbound load: other nodes look up / put through the network (node 0 serves requests)
            let mut others = Vec::new();
            for i in 1..n {
                if rng.gen_bool(0.5) {
                    let m = c.reals[i].mgr.clone();
                    let at = rng.gen_range(0..3000u64) / scale;
                    let mut key = [0u8; 32];
                    rng.fill(&mut key);
                    others.push(tokio::spawn(async move {
                        tokio::time::sleep(Duration::from_millis(at)).await;
                        let _ = m.get(&key).await;
                    }));
                }
            }
            // the newcomers dial node 0 at seeded instants
            let mut dials = Vec::new();
            for i in n_old..n {
                let m = c.reals[i].mgr.clone();
                let addr = node.addr.clone();
                let at = rng.gen_range(0..3000u64) / scale;
                let hub = c.hub.clone();
                let (my_id, my_tr, its_id, its_tr) = (c.reals[i].id.clone(), c.reals[i].transport.clone(), node.id.clone(), node.transport.clone());
                let again = real && seg % 2 == 0;
                dials.push(tokio::spawn(async move {
                    tokio::time::sleep(Duration::from_millis(at)).await;
                    let _ = m.connect_to_peer(&addr).await;
                    if again {
                        // the connection is closed and opened again a few times: more connect events for node 0
                        for _ in 0..4 {
                            tokio::time::sleep(Duration::from_millis(60)).await;
                            hub.unlink(&my_id, &its_id);
                            let _ = my_tr.disconnect_peer(&its_id).await;
                            let _ = its_tr.disconnect_peer(&my_id).await;
                            tokio::time::sleep(Duration::from_millis(40)).await;
                            let _ = m.connect_to_peer(&addr).await;
                        }
                    }
                }));
            }
            // peers turning silent mid-operation
            let mut silenced = 0;
            for i in 1..n {
                if rng.gen_bool(0.3) {
                    let hub = c.hub.clone();
                    let id = c.reals[i].id.clone();
                    let at = rng.gen_range(0..4000u64) / scale;
                    silenced += 1;
                    tokio::spawn(async move {
                        tokio::time::sleep(Duration::from_millis(at)).await;
                        hub.set_silent(&id, true);
                    });
                }
            }
            // stop at a seeded instant relative to the work in flight
            let stop_at = rng.gen_range(0..6000u64) / scale;
            tokio::time::sleep(Duration::from_millis(stop_at)).await;
            let peers_known = c.hub.neighbours(&node.id).len();
            let stop_call = ms();
            // how long a hanging operation / stop is waited for before it is recorded as unfinished (real time costs wall clock)
            let horizon = Duration::from_millis(TIMEOUT_MS * if real { 180 } else { 400 });
            let stop_ret: i64 = match tokio::time::timeout(horizon, node.mgr.stop()).await {
                Ok(_) => ms() as i64,
                Err(_) => -1,
            };
            let seq_at_stop = c.hub.seq();
            // let everything still in flight run to completion (or hang)
            let mut unfinished = 0;
            // one common deadline: hanging operations are waited for together, not one after the other
            let deadline = tokio::time::Instant::now() + horizon;
            for h in hs.into_iter().chain(stress_hs) {
                if tokio::time::timeout_at(deadline, h).await.is_err() {
                    unfinished += 1;
                }
            }
            for h in others {
                let _ = tokio::time::timeout_at(deadline, h).await;
            }
            for h in dials {
                let _ = tokio::time::timeout_at(deadline, h).await;
            }
            net::settle().await;
            // requests node 0 sent after stop() had returned
            let after: Vec<String> = c
                .hub
                .frames_since(seq_at_stop)
                .iter()
                .filter(|f| f.from == node.id)
                .filter_map(|f| f.dht.as_ref().map(|m| (m, f.t_ms)))
                .filter(|(m, _)| matches!(m.message_type, DhtMessageType::Request))
                .map(|(m, _)| crate::c01::op_name(&m.payload).to_string())
                .collect();
            let ops = log.lock().expect("log").clone();
            let nodes = c.reals.len();
            if real {
                c.shutdown_within(Duration::from_secs(20)).await;
            } else {
                c.shutdown().await;
            }
            tokio::time::sleep(Duration::from_millis(if real { 1500 } else { 120_000 })).await;
            net::settle().await;
            let tasks_after = tokio::runtime::Handle::current().metrics().num_alive_tasks();
            events.push(json!({"ev":"Run","mult": if real { 4 } else { 1 },"mode": if real { "real" } else { "virtual" },"nodes":nodes,"peers":peers_known,"timeout":TIMEOUT_MS,"delay":spec.delay_max_ms,"silenced":silenced,"newcomers":n_new,
                               "issued":nops + nstress,"stress":nstress,"ops":ops,"unfinished":unfinished,"stop_call":stop_call,"stop_ret":stop_ret,
                               "after_stop":after.len(),"after_stop_ops":after,"tasks_before":tasks_before,"tasks_after":tasks_after}));
        });
        drop(rt);
        for e in events {
            t.ev(e);
        }
    }
    let n = t.finish();
    eprintln!("c20 drive: {n} events");
    0
}
