//! Shared helpers: argument parsing, ndjson trace writer, seeded RNG, id embedding, panic capture.
use rand::SeedableRng;
use rand_chacha::ChaCha8Rng;
use serde_json::Value;
use std::collections::HashMap;
use std::io::Write;

pub struct Args(pub HashMap<String, String>);

impl Args {
    pub fn parse(a: &[String]) -> Self {
        let mut m = HashMap::new();
        for s in a {
            if let Some((k, v)) = s.split_once('=') {
                m.insert(k.to_string(), v.to_string());
            }
        }
        Args(m)
    }
    pub fn str(&self, k: &str, d: &str) -> String {
        self.0.get(k).cloned().unwrap_or_else(|| d.to_string())
    }
    pub fn num(&self, k: &str, d: u64) -> u64 {
        self.0.get(k).and_then(|v| v.parse().ok()).unwrap_or(d)
    }
}

pub fn seed() -> u64 {
    std::env::var("VERIF_SEED").ok().and_then(|s| s.parse().ok()).unwrap_or(1)
}

pub fn rng(stream: u64) -> ChaCha8Rng {
    let mut r = ChaCha8Rng::seed_from_u64(seed());
    r.set_stream(stream);
    r
}

/// ndjson trace writer (one event per line).
pub struct Trace {
    w: std::io::BufWriter<std::fs::File>,
    pub lines: u64,
}

impl Trace {
    pub fn create(path: &str) -> Self {
        let f = std::fs::File::create(path).unwrap_or_else(|e| {
            eprintln!("cannot create {path}: {e}");
            std::process::exit(2)
        });
        Trace { w: std::io::BufWriter::new(f), lines: 0 }
    }
    pub fn ev(&mut self, v: Value) {
        let s = serde_json::to_string(&v).expect("json");
        self.w.write_all(s.as_bytes()).expect("write");
        self.w.write_all(b"\n").expect("write");
        self.lines += 1;
    }
    pub fn finish(mut self) -> u64 {
        self.w.flush().expect("flush");
        self.lines
    }
}

/// Embedding of a B-bit model id into a 256-bit identifier: model bit i (0 = most significant)
/// is placed at bit position pos[i] (0 = most significant bit of byte 0); positions ascend, so
/// XOR order between embedded ids equals XOR order between model ids. All other bits are `fill`
/// bits shared by every embedded id of the segment.
#[derive(Clone)]
pub struct Embed {
    pub pos: Vec<usize>,
    pub fill: [u8; 32],
}

impl Embed {
    pub fn new(bits: usize, rng: &mut impl rand::Rng, random_fill: bool) -> Self {
        let mut pos: Vec<usize> = Vec::new();
        while pos.len() < bits {
            let p = rng.gen_range(0..256usize);
            if !pos.contains(&p) {
                pos.push(p);
            }
        }
        pos.sort();
        let mut fill = [0u8; 32];
        if random_fill {
            rng.fill(&mut fill);
        }
        for &p in &pos {
            fill[p / 8] &= !(1u8 << (7 - (p % 8)));
        }
        Embed { pos, fill }
    }
    pub fn embed(&self, id: u64) -> [u8; 32] {
        let mut out = self.fill;
        let b = self.pos.len();
        for (i, &p) in self.pos.iter().enumerate() {
            if (id >> (b - 1 - i)) & 1 == 1 {
                out[p / 8] |= 1u8 << (7 - (p % 8));
            }
        }
        out
    }
    /// Inverse of `embed`; -1 if the bytes are not an embedded id of this segment.
    pub fn decode(&self, bytes: &[u8; 32]) -> i64 {
        let b = self.pos.len();
        let mut id: u64 = 0;
        for (i, &p) in self.pos.iter().enumerate() {
            if (bytes[p / 8] >> (7 - (p % 8))) & 1 == 1 {
                id |= 1 << (b - 1 - i);
            }
        }
        if &self.embed(id) == bytes { id as i64 } else { -1 }
    }
}

/// Run a closure, turning a panic into Err(message).
pub fn catch<T>(f: impl FnOnce() -> T + std::panic::UnwindSafe) -> Result<T, String> {
    std::panic::catch_unwind(f).map_err(|e| {
        if let Some(s) = e.downcast_ref::<&str>() {
            s.to_string()
        } else if let Some(s) = e.downcast_ref::<String>() {
            s.clone()
        } else {
            "panic".to_string()
        }
    })
}

pub fn quiet_panics() {
    std::panic::set_hook(Box::new(|_| {}));
}

pub fn rt() -> tokio::runtime::Runtime {
    tokio::runtime::Builder::new_current_thread().enable_all().build().expect("runtime")
}
