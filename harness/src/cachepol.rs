//! Cache eviction strategy driver (specification growth): seeded random sequences of the operations of
//! `saorsa_core::adaptive::eviction::EvictionStrategy` (on_insert, on_access, select_victim, name) on the real
//! LRUStrategy / LFUStrategy / FIFOStrategy / AdaptiveStrategy objects, made by `EvictionStrategyType::create`,
//! `new()` or `default()`. The driver owns the cache content (a set of small integer keys): insertions (also of
//! keys that are present), accesses (also of keys the strategy never saw), removals (the trait has no hook for
//! them: only the driver's set changes) and victim queries for a presented content that is the cache, the cache
//! plus keys the strategy never saw, only such keys, an arbitrary key set, or nothing. Before and after every
//! operation the strategy's bookkeeping is projected to small integers; the only window onto it is the `Debug`
//! output the trait demands (`EvictionStrategy: Debug`, all strategies derive it), which is parsed here.
//! Victim queries log the iteration order of the presented map (LFU breaks ties by it).
//! No expected values here. Oracle: spec/Trace_CachePolicy.tla.
use crate::common::{self, Args, Trace};
use rand::Rng;
use rand::seq::SliceRandom;
use saorsa_core::adaptive::ContentHash;
use saorsa_core::adaptive::eviction::{
    AdaptiveStrategy, CacheState, EvictionStrategy, EvictionStrategyType, FIFOStrategy, LFUStrategy, LRUStrategy, QValue,
};
use saorsa_core::adaptive::q_learning_cache::{AccessInfo, CacheAction, QLearnCacheManager, QLearningConfig, StateVector};
use serde_json::{Value, json};
use std::collections::{BTreeSet, HashMap};
use std::panic::AssertUnwindSafe;
use std::sync::Arc;
use std::time::{SystemTime, UNIX_EPOCH};
use tokio::sync::RwLock;

const KN: u64 = 6; // keys the strategy is told about
const ALIENS: u64 = 2; // keys 7, 8: only ever presented, never inserted or accessed
const KINDS: [&str; 4] = ["LRU", "LFU", "FIFO", "Adaptive"];

type QTable = Arc<RwLock<HashMap<(StateVector, CacheAction), QValue>>>;

fn hash_of(k: u64) -> ContentHash {
    ContentHash::from(format!("cachepol-key-{k}").as_bytes())
}

struct KeyBook {
    hashes: Vec<ContentHash>, // index = key (0 unused)
}
impl KeyBook {
    fn new() -> Self {
        KeyBook { hashes: (0..=KN + ALIENS).map(hash_of).collect() }
    }
    fn h(&self, k: u64) -> &ContentHash {
        &self.hashes[k as usize]
    }
    fn key(&self, bytes: &[u8]) -> i64 {
        self.hashes.iter().enumerate().skip(1).find(|(_, h)| h.0[..] == *bytes).map(|(i, _)| i as i64).unwrap_or(-1)
    }
}

/// The text of field `name` of a derived Debug output: from its opening bracket to the matching closing one.
fn field<'a>(dbg: &'a str, name: &str) -> Option<&'a str> {
    let at = dbg.find(&format!("{name}: "))? + name.len() + 2;
    let rest = &dbg[at..];
    let mut depth = 0i32;
    for (i, c) in rest.char_indices() {
        match c {
            '[' | '{' | '(' => depth += 1,
            ']' | '}' | ')' => {
                depth -= 1;
                if depth == 0 {
                    return Some(&rest[..=i]);
                }
            }
            _ => {}
        }
    }
    None
}

/// Every `ContentHash([b0, b1, ..])` of the text as a key, with the integer that follows `): ` if there is one.
fn entries(text: &str, kb: &KeyBook) -> Vec<(i64, i64)> {
    let mut out = Vec::new();
    let mut rest = text;
    while let Some(p) = rest.find("ContentHash([") {
        rest = &rest[p + "ContentHash([".len()..];
        let Some(end) = rest.find("])") else { break };
        let bytes: Vec<u8> = rest[..end].split(',').filter_map(|x| x.trim().parse::<u8>().ok()).collect();
        rest = &rest[end + 2..];
        let val = if let Some(r) = rest.strip_prefix(": ") {
            let digits: String = r.chars().take_while(|c| c.is_ascii_digit()).collect();
            digits.parse::<u64>().map(|v| v.min(1_000_000_000) as i64).unwrap_or(-1)
        } else {
            -1
        };
        out.push((kb.key(&bytes), val));
    }
    out
}

fn project(st: &dyn EvictionStrategy, kb: &KeyBook) -> Value {
    let dbg = format!("{st:?}");
    let list = |name: &str| -> Vec<i64> { field(&dbg, name).map(|t| entries(t, kb).into_iter().map(|(k, _)| k).collect()).unwrap_or_default() };
    let map = |name: &str| -> Vec<Value> {
        let mut v = field(&dbg, name).map(|t| entries(t, kb)).unwrap_or_default();
        v.sort();
        v.into_iter().map(|(k, x)| json!([k, x])).collect()
    };
    let mut order = list("access_order");
    order.extend(list("insertion_order"));
    json!({"order": order, "pos": map("position_map"), "freq": map("frequency_map")})
}

fn make(kind: &str, via: u64) -> Box<dyn EvictionStrategy> {
    let q: QTable = Arc::new(RwLock::new(HashMap::new()));
    match (kind, via) {
        ("LRU", 0) => EvictionStrategyType::LRU.create(),
        ("LRU", 1) => Box::new(LRUStrategy::new()),
        ("LRU", _) => Box::new(LRUStrategy::default()),
        ("LFU", 0) => EvictionStrategyType::LFU.create(),
        ("LFU", 1) => Box::new(LFUStrategy::new()),
        ("LFU", _) => Box::new(LFUStrategy::default()),
        ("FIFO", 0) => EvictionStrategyType::FIFO.create(),
        ("FIFO", 1) => Box::new(FIFOStrategy::new()),
        ("FIFO", _) => Box::new(FIFOStrategy::default()),
        (_, 0) => EvictionStrategyType::Adaptive(q).create(),
        _ => Box::new(AdaptiveStrategy::new(q)),
    }
}

fn now_secs() -> u64 {
    SystemTime::now().duration_since(UNIX_EPOCH).map(|d| d.as_secs()).unwrap_or(0)
}

pub fn drive(a: &Args) -> i32 {
    let out = a.str("out", "/dev/stdout");
    let segments = a.num("segments", 48);
    let ops = a.num("ops", 50);
    common::quiet_panics();
    let mut t = Trace::create(&out);
    let mut rng = common::rng(41);
    let kb = KeyBook::new();
    let size_pool: [u64; 6] = [0, 1, 1024, 50_000, 1_048_576, 40_000_000];
    let age_pool: [u64; 6] = [0, 30, 3_600, 86_400, 1_000_000, u64::MAX];
    let mut panics = 0u64;
    for seg in 0..segments {
        let kind = KINDS[match rng.gen_range(0..10) {
            0..=2 => 0,
            3..=5 => 1,
            6..=8 => 2,
            _ => 3,
        }];
        let via = rng.gen_range(0..3u64);
        let mut st = make(kind, via);
        let mut cache: BTreeSet<u64> = BTreeSet::new();
        // a small key universe per segment makes re-insertions, ties and come-backs frequent
        let nk = rng.gen_range(2..=KN);
        t.ev(json!({"ev":"Reset","seg":seg,"kind":kind,"via":via,"name":st.name(),"state":project(st.as_ref(), &kb),"cache":[]}));
        let mut evict_next: Option<u64> = None;
        for _ in 0..ops {
            let pre = project(st.as_ref(), &kb);
            let cpre: Vec<u64> = cache.iter().copied().collect();
            let mut ev = json!({"ev":"Step"});
            let r = common::catch(AssertUnwindSafe(|| {
                let roll = if evict_next.is_some() { 60 } else { rng.gen_range(0..100) };
                if roll < 35 {
                    // insertion: any key of the universe, present or not
                    let k = rng.gen_range(1..=nk);
                    st.on_insert(kb.h(k));
                    cache.insert(k);
                    ev["op"] = json!("insert");
                    ev["k"] = json!(k);
                    ev["ok"] = json!(true);
                } else if roll < 58 {
                    // access: mostly a cached key (the discipline of the cache manager), now and then any key
                    let cached: Vec<u64> = cache.iter().copied().collect();
                    let k = if !cached.is_empty() && rng.gen_range(0..4) > 0 { cached[rng.gen_range(0..cached.len())] } else { rng.gen_range(1..=nk) };
                    st.on_access(kb.h(k));
                    ev["op"] = json!("access");
                    ev["k"] = json!(k);
                    ev["ok"] = json!(true);
                } else if roll < 70 {
                    // removal: the victim just named, a cached key, or any key. The trait has no call for it.
                    let cached: Vec<u64> = cache.iter().copied().collect();
                    let k = match evict_next.take() {
                        Some(v) => v,
                        None if !cached.is_empty() && rng.gen_range(0..4) > 0 => cached[rng.gen_range(0..cached.len())],
                        None => rng.gen_range(1..=nk),
                    };
                    cache.remove(&k);
                    ev["op"] = json!("remove");
                    ev["k"] = json!(k);
                    ev["ok"] = json!(true);
                } else {
                    // victim query for a presented content
                    let mode = rng.gen_range(0..10);
                    let mut present: Vec<u64> = match mode {
                        0..=5 => cache.iter().copied().collect(),
                        6 => cache.iter().copied().chain((KN + 1..=KN + ALIENS).filter(|_| rng.gen_range(0..3) > 0)).collect(),
                        7 => (1..=KN + ALIENS).filter(|_| rng.gen_range(0..2) == 0).collect(),
                        8 => (KN + 1..=KN + ALIENS).filter(|_| rng.gen_range(0..3) > 0).collect(),
                        _ => vec![],
                    };
                    present.shuffle(&mut rng);
                    let now = now_secs();
                    let mut info: HashMap<ContentHash, AccessInfo> = HashMap::new();
                    for k in &present {
                        let age = age_pool[rng.gen_range(0..age_pool.len())];
                        info.insert(
                            *kb.h(*k),
                            AccessInfo { count: rng.gen_range(0..20u64) * rng.gen_range(0..3u64), last_access_secs: now.saturating_sub(age), size: size_pool[rng.gen_range(0..size_pool.len())] },
                        );
                    }
                    let total: u64 = info.values().map(|i| i.size).sum();
                    let cs = CacheState {
                        current_size: total,
                        max_size: total + [0u64, 1, 1_000_000][rng.gen_range(0..3)],
                        item_count: info.len(),
                        avg_access_frequency: if info.is_empty() { 0.0 } else { info.values().map(|i| i.count as f64).sum::<f64>() / info.len() as f64 },
                    };
                    let iter_order: Vec<i64> = info.keys().map(|h| kb.key(&h.0)).collect();
                    let v = st.select_victim(&cs, &info);
                    let vk: i64 = match &v {
                        Some(h) => kb.key(&h.0),
                        None => 0,
                    };
                    // the caller evicts what was named (when it asked about its own cache)
                    if mode <= 5 && vk > 0 && rng.gen_range(0..3) == 0 {
                        evict_next = Some(vk as u64);
                    }
                    ev["op"] = json!("victim");
                    ev["k"] = json!(0);
                    ev["mode"] = json!(mode);
                    ev["pres"] = json!(iter_order);
                    ev["v"] = json!(vk);
                    ev["ok"] = json!(v.is_some());
                }
            }));
            match r {
                Ok(()) => {
                    ev["pre"] = pre;
                    ev["post"] = project(st.as_ref(), &kb);
                    ev["cpre"] = json!(cpre);
                    ev["cpost"] = json!(cache.iter().copied().collect::<Vec<u64>>());
                    ev["name"] = json!(st.name());
                    t.ev(ev);
                }
                Err(msg) => {
                    panics += 1;
                    t.ev(json!({"ev":"Panic","seg":seg,"op":ev["op"].clone(),"msg":msg}));
                    break;
                }
            }
        }
    }
    // Probes outside the model: the same strategies behind the real cache manager (QLearnCacheManager), capacity 100,
    // contents of size 50. Facts only; they are reported, not judged.
    let rt = common::rt();
    let probe = common::catch(AssertUnwindSafe(|| {
        rt.block_on(async {
            let offered = |acts: Vec<CacheAction>| -> i64 {
                acts.iter().find_map(|a| if let CacheAction::Evict(h) = a { Some(kb.key(&h.0)) } else { None }).unwrap_or(0)
            };
            let mut res = Vec::new();
            for (what, strat) in [("LRU", EvictionStrategyType::LRU), ("FIFO", EvictionStrategyType::FIFO), ("LFU", EvictionStrategyType::LFU)] {
                // (a) full cache {1, 2}; 1 is evicted and cached again; who is offered for eviction when 3 arrives?
                let m = QLearnCacheManager::new(QLearningConfig { eviction_strategy: Some(strat.clone()), ..Default::default() }, 100);
                for k in [1u64, 2] {
                    let _ = m.update_statistics(&CacheAction::Cache(*kb.h(k)), kb.h(k), 50, false).await;
                }
                let before = offered(m.get_available_actions(kb.h(3), 50).await.unwrap_or_default());
                let _ = m.update_statistics(&CacheAction::Evict(*kb.h(1)), kb.h(1), 50, false).await;
                let _ = m.update_statistics(&CacheAction::Cache(*kb.h(1)), kb.h(1), 50, false).await;
                let comeback = offered(m.get_available_actions(kb.h(3), 50).await.unwrap_or_default());
                // (b) the strategy is replaced at run time by a fresh one of the same kind: is anything offered now?
                m.set_eviction_strategy(strat.create()).await;
                let swapped = offered(m.get_available_actions(kb.h(3), 50).await.unwrap_or_default());
                res.push(json!({"strategy": what, "victim_full_1_2": before, "victim_after_1_evicted_and_back": comeback, "victim_after_strategy_swap": swapped}));
            }
            res
        })
    }));
    t.ev(match probe {
        Ok(v) => json!({"ev":"Probe","what":"QLearnCacheManager, capacity 100, keys of size 50","panicked":false,"res":v}),
        Err(m) => json!({"ev":"Probe","what":"QLearnCacheManager, capacity 100, keys of size 50","panicked":true,"msg":m}),
    });
    let n = t.finish();
    eprintln!("cachepol drive: {n} events, {panics} panics");
    0
}
